use bitcoin::consensus::{deserialize, serialize};
use bitcoin::Transaction;

static mut BUF: [u8; 65536] = [0; 65536];
static mut OUT: [u8; 65536] = [0; 65536];

#[no_mangle]
pub extern "C" fn buf_ptr() -> *mut u8 { core::ptr::addr_of_mut!(BUF) as *mut u8 }
#[no_mangle]
pub extern "C" fn out_ptr() -> *mut u8 { core::ptr::addr_of_mut!(OUT) as *mut u8 }

/// returns -1 on error, else the length of the re-serialisation written to OUT
#[no_mangle]
pub extern "C" fn check(len: usize) -> i32 {
    let data = unsafe { core::slice::from_raw_parts(core::ptr::addr_of!(BUF) as *const u8, len) };
    match deserialize::<Transaction>(data) {
        Ok(tx) => {
            let s = serialize(&tx);
            unsafe {
                let out = core::slice::from_raw_parts_mut(core::ptr::addr_of_mut!(OUT) as *mut u8, 65536);
                out[..s.len()].copy_from_slice(&s);
            }
            s.len() as i32
        }
        Err(_) => -1,
    }
}

pub fn check_bytes(data: &[u8]) -> Option<Vec<u8>> {
    deserialize::<Transaction>(data).ok().map(|tx| serialize(&tx))
}
