use std::io::BufRead;
fn main() {
    let stdin = std::io::stdin();
    for line in stdin.lock().lines() {
        let line = line.unwrap();
        let line = line.trim();
        let bytes: Vec<u8> = (0..line.len() / 2)
            .map(|i| u8::from_str_radix(&line[2 * i..2 * i + 2], 16).unwrap())
            .collect();
        match c19probe::check_bytes(&bytes) {
            Some(s) => {
                let h: String = s.iter().map(|b| format!("{:02x}", b)).collect();
                println!("ok {}", h)
            }
            None => println!("err"),
        }
    }
}
