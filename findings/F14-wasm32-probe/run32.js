const fs = require('fs');
const wasm = fs.readFileSync(__dirname + '/target/wasm32-unknown-unknown/debug/c19probe.wasm');
const mod = new WebAssembly.Module(wasm);
const imports = {};
for (const imp of WebAssembly.Module.imports(mod)) {
  imports[imp.module] = imports[imp.module] || {};
  imports[imp.module][imp.name] = () => { throw new Error('import called: ' + imp.name); };
}
const inst = new WebAssembly.Instance(mod, imports);
const ex = inst.exports;
const lines = fs.readFileSync(0, 'utf8').split('\n').map(s => s.trim()).filter(s => s.length > 0 || true);
for (const line of lines) {
  if (line === '' && lines.indexOf(line) === lines.length - 1) continue;
  const bytes = Buffer.from(line, 'hex');
  new Uint8Array(ex.memory.buffer, ex.buf_ptr(), 65536).set(bytes);
  let r;
  try { r = ex.check(bytes.length); } catch (e) { console.log('trap ' + e.message); continue; }
  if (r < 0) console.log('err');
  else console.log('ok ' + Buffer.from(new Uint8Array(ex.memory.buffer, ex.out_ptr(), r)).toString('hex'));
}
