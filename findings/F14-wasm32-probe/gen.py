import random, sys
random.seed(int(sys.argv[1]) if len(sys.argv) > 1 else 1)
def le(n,k): return bytes((n>>(8*i))&255 for i in range(k))
def varint(n, force=None):
    if force is None:
        force = 1 if n<0xfd else 3 if n<=0xffff else 5 if n<=0xffffffff else 9
    if force==1: return bytes([n])
    if force==3: return b'\xfd'+le(n,2)
    if force==5: return b'\xfe'+le(n,4)
    return b'\xff'+le(n,8)
def rb(n): return bytes(random.randrange(256) for _ in range(n))
def rlen():
    r=random.random()
    if r<0.3: return 0
    if r<0.9: return random.randrange(1,6)
    if r<0.97: return random.randrange(0xf0,0x110)
    return random.randrange(300,600)
def weird_varint(n):
    # possibly non-canonical / truncating
    r=random.random()
    if r<0.78: return varint(n)
    if r<0.80: return random.choice([b'\xfe'+le(4000001,4), b'\xfe'+le(4000000,4), b'\xfe\xff\xff\xff\xff', b'\xff'+b'\xff'*8, b'\xff'+le((1<<32)+4000001,8), b'\xfd\xff\xff', b'\xfc', b'\xfd\xfd\x00', b'\xfd\xfc\x00', b'\xfe\x00\x00\x01\x00', b'\xfe\xff\xff\x00\x00', b'\xff\x00\x00\x00\x00\x01\x00\x00\x00', b'\xff\xff\xff\xff\xff\x00\x00\x00\x00'])
    if r<0.85: return varint(n, random.choice([3,5,9]))
    if r<0.93: return b'\xff'+le(n+ (random.randrange(1,4)<<32),8)
    if r<0.97: return b'\xff'+le(n+ (1<<32),8)
    return b'\xfe'+le(n,4)
def gen_tx():
    nin = random.choice([0,0,1,1,1,2,3])
    nout = random.choice([0,1,1,2,3])
    segwit = random.random()<0.5
    V = weird_varint
    ins=[]
    for _ in range(nin):
        s=rb(rlen())
        ins.append(rb(32)+le(random.randrange(2**32),4)+V(len(s))+s+le(random.choice([0,0xffffffff,random.randrange(2**32)]),4))
    outs=[]
    for _ in range(nout):
        s=rb(rlen())
        outs.append(le(random.randrange(2**64),8)+V(len(s))+s)
    b=le(random.choice([0,1,2,0xffffffff,random.randrange(2**32)]),4)
    if segwit or (nin==0 and random.random()<0.9):
        b+=b'\x00'+bytes([random.choice([1,1,1,1,1,1,0,2,255])])
    b+=V(nin)+b''.join(ins)+V(nout)+b''.join(outs)
    if segwit:
        for _ in range(nin):
            k=random.choice([0,0,1,2,3])
            b+=V(k)
            for _ in range(k):
                s=rb(rlen()); b+=V(len(s))+s
    b+=le(random.randrange(2**32),4)
    return b
def mutate(b):
    r=random.random()
    b=bytearray(b)
    if r<0.5: return bytes(b)
    if r<0.6 and len(b)>0: return bytes(b[:random.randrange(len(b))])
    if r<0.7: return bytes(b)+rb(random.randrange(1,4))
    if r<0.9 and len(b)>0:
        i=random.randrange(len(b)); b[i]=random.choice([0,1,2,0xfc,0xfd,0xfe,0xff,random.randrange(256)]); return bytes(b)
    if len(b)>0:
        i=random.randrange(len(b)); del b[i]
    return bytes(b)
n=int(sys.argv[2]) if len(sys.argv)>2 else 1000
for _ in range(n):
    print(mutate(gen_tx()).hex())
print(rb(3).hex()); print("")
