#!/bin/sh
# Builds the framework from files on disk only (offline): Lean model + proofs + driver, Rust harness.
set -e
cd "$(dirname "$0")"
export CARGO_NET_OFFLINE=true
python3 tools/extract_consts.py
(cd lean && lake build BtcModel btcmodel)
cp /repo/Cargo.lock harness/Cargo.lock
cp /repo/rust-toolchain.toml harness/rust-toolchain.toml
(cd harness && cargo build --offline)
echo setup-ok
