//! `tf` stream (C18): the watchdog's `transform_*` queries on arbitrary HTTP responses.
//! serde_json's parse of the body (a library function) is handed to the model as a value.
use crate::out::{fnv, Out};
use crate::rng::Rng;
use watchdog::verif_hooks as wh;

/// protocol text of a serde_json value: n | t | f | u<dec> | x | s<hex> | a(v,v) | o(hexkey:v,..)
fn value_text(v: &serde_json::Value) -> String {
    match v {
        serde_json::Value::Null => "n".into(),
        serde_json::Value::Bool(true) => "t".into(),
        serde_json::Value::Bool(false) => "f".into(),
        serde_json::Value::Number(n) => match n.as_u64() { Some(u) => format!("u{}", u), None => "x".into() },
        serde_json::Value::String(s) => format!("s{}", hex::encode(s.as_bytes())),
        serde_json::Value::Array(a) => format!("a({})", a.iter().map(value_text).collect::<Vec<_>>().join(",")),
        serde_json::Value::Object(o) => format!("o({})", o.iter().map(|(k, v)| format!("{}:{}", hex::encode(k.as_bytes()), value_text(v))).collect::<Vec<_>>().join(",")),
    }
}

fn parsed_text(body: &[u8]) -> String {
    match std::str::from_utf8(body) {
        Err(_) => "X".into(),
        Ok(s) => match serde_json::from_str::<serde_json::Value>(s) {
            Err(_) => "X".into(),
            Ok(v) => value_text(&v),
        },
    }
}

fn ws(rng: &mut Rng) -> &'static str {
    *rng.pick(&["", "", " ", "\n", "\t ", "  \r\n"])
}

fn num(rng: &mut Rng) -> String {
    match rng.below(12) {
        0 => "-5".into(),
        1 => "1.0".into(),
        2 => "1e3".into(),
        3 => "18446744073709551615".into(),
        4 => "18446744073709551616".into(),
        5 => "\"700000\"".into(),
        6 => "null".into(),
        7 => "true".into(),
        8 => "[1]".into(),
        9 => "0".into(),
        _ => format!("{}", rng.range(1, 900_000)),
    }
}

fn json_body(rng: &mut Rng, ep: &str) -> Vec<u8> {
    // a payload shaped for the endpoint, with whitespace / order / extra-member variation
    let h = num(rng);
    let extra = |rng: &mut Rng| -> String {
        match rng.below(4) { 0 => format!("\"hash\":{}\"00ab\"", ws(rng)), 1 => format!("\"height2\":{}", rng.range(0, 9)), 2 => "\"nested\":{\"height\":1}".into(), _ => "\"time\":[1,2,{\"a\":null}]".into() }
    };
    let mut members: Vec<String> = vec![];
    let key = if ep.contains("blockchair") { "best_block_height" } else { "height" };
    if !rng.chance(1, 8) { members.push(format!("\"{}\"{}:{}{}", key, ws(rng), ws(rng), h)); }
    for _ in 0..rng.below(3) { members.push(extra(rng)); }
    if rng.chance(1, 6) { members.push(format!("\"{}\":{}", key, num(rng))); } // duplicate key: last wins
    // shuffle
    for i in (1..members.len()).rev() { let j = rng.below(i as u64 + 1) as usize; members.swap(i, j); }
    let obj = format!("{{{}{}{}}}", ws(rng), members.join(&format!("{},{}", ws(rng), ws(rng))), ws(rng));
    let s = if ep.contains("bitcore") {
        match rng.below(6) { 0 => "[]".to_string(), 1 => format!("[{},{}]", extra_obj(rng), obj), 2 => obj.clone(), _ => format!("[{}{}]", ws(rng), obj) }
    } else if ep.contains("blockchair") {
        match rng.below(6) { 0 => format!("{{\"data\":{}}}", num(rng)), 1 => obj.clone(), _ => format!("{{\"context\":{{}},{}\"data\"{}:{}{}}}", ws(rng), ws(rng), obj, ws(rng)) }
    } else {
        obj
    };
    // sometimes a long string member with multi-byte characters (bodies of several hundred bytes)
    let s = if rng.chance(1, 5) {
        let unit = *rng.pick(&["\u{20bf}", "\u{e9}", "a\u{20bf}", "\u{1f600}", "ab\u{e9}"]);
        let pad: String = std::iter::repeat(unit).take(rng.range(20, 200) as usize).collect();
        let lead: String = std::iter::repeat("x").take(rng.below(4) as usize).collect();
        if s.starts_with('{') { format!("{{\"note\":\"{}{}\",{}", lead, pad, &s[1..]) } else { format!("[\"{}{}\",{}]", lead, pad, s) }
    } else { s };
    let mut b = s.into_bytes();
    match rng.below(14) {
        0 => { let n = rng.below(b.len() as u64 + 1) as usize; b.truncate(n); }      // truncated
        4 if b.len() > 300 => { let n = 200 + rng.below(120) as usize; b.truncate(n.min(b.len())); } // truncated near 256
        1 => { let i = rng.below(b.len() as u64) as usize; b[i] = 0xff; }                 // invalid UTF-8
        2 => { b = vec![b'['; 200]; }                                                    // deep nesting
        3 => { b = vec![]; }
        _ => {}
    }
    b
}

fn extra_obj(rng: &mut Rng) -> String {
    format!("{{\"height\":{}}}", num(rng))
}

fn text_body(rng: &mut Rng) -> Vec<u8> {
    let s: String = match rng.below(14) {
        0 => "".into(),
        1 => "+".into(),
        2 => format!("+{}", rng.range(0, 999_999)),
        3 => format!("{}\n", rng.range(0, 999_999)),
        4 => format!(" {}", rng.range(0, 999_999)),
        5 => format!("00{}", rng.range(0, 999_999)),
        6 => "18446744073709551615".into(),
        7 => "18446744073709551616".into(),
        8 => "-1".into(),
        9 => "12a".into(),
        10 => "1+2".into(),
        11 => "{\"height\":5}".into(),
        _ => format!("{}", rng.range(0, 999_999)),
    };
    let mut b = s.into_bytes();
    if rng.chance(1, 15) { b.push(0xfe); }
    b
}

pub fn run_case(out: &mut Out, rng: &mut Rng, _thorough: bool, case_no: u64) {
    let eps = wh::endpoint_names();
    out.begin_case("tf");
    let mut fp = String::new();
    for ep in eps.iter() {
        let is_text = ep.contains("blockchain_info") || ep.contains("blockstream") || ep.contains("mempool") || ep.contains("psy");
        let body = if rng.chance(1, 8) { if is_text { json_body(rng, ep) } else { text_body(rng) } } else if is_text { text_body(rng) } else { json_body(rng, ep) };
        let status: u64 = *rng.pick(&[200u64, 200, 200, 200, 404, 500, 0, 201, 301, 1 << 40]);
        let headers: Vec<(String, String)> = (0..rng.below(3)).map(|i| (format!("x-h{}", i), format!("v{}", rng.below(100)))).collect();
        let r = crate::canister::guarded(|| wh::transform(ep, status, headers.clone(), body.clone()));
        let obs = match r {
            Err(_) => "trap".to_string(),
            Ok((st, hs, b)) => format!("status={} headers={} body={}", st.replace('_', ""), hs.len(), if b.is_empty() { "-".to_string() } else { hex::encode(b) }),
        };
        out.count(&format!("{}:{}", if is_text { "text" } else { "json" }, if obs.ends_with("body=-") { "empty" } else if obs.contains("6e756c6c") { "null" } else { "height" }));
        fp.push_str(&obs[obs.len().saturating_sub(8)..]);
        out.emit(
            &format!("t {} {} {} {} {}", ep, status, headers.len(), if body.is_empty() { "-".to_string() } else { hex::encode(&body) }, parsed_text(&body)),
            &obs,
        );
    }
    out.nontrivial(fnv(fp.as_bytes()) ^ case_no.wrapping_mul(0x9E3779B97F4A7C15));
}

pub fn run(out: &mut Out, ctx: &crate::Ctx) {
    for k in 0..ctx.cases {
        if let Some(only) = ctx.only_case { if only != k { continue; } }
        let mut rng = Rng::new(ctx.seed.wrapping_mul(5_000_011).wrapping_add(k));
        run_case(out, &mut rng, ctx.thorough, k);
    }
}
