//! `sync` stream: the canister driven through its heartbeat with a scripted block source
//! (regtest, real validation, mined blocks), overlapping heartbeats, upgrades at message
//! boundaries, configuration changes, gated endpoint calls with cycles, send_transaction.
//! Serves C09, C10, C13, C14, C16, C19 (and the ingestion/headers properties under the heartbeat).
use crate::canister as c;
use crate::ledger::{pick_parent, sync_alive, Case};
use crate::out::{fnv, Out};
use crate::rng::Rng;
use crate::world::{BlockOpts, DiffMode, World};
use bitcoin::consensus::Encodable;
use ic_btc_canister as can;
use ic_btc_canister::runtime::GetSuccessorsReply;
use ic_btc_canister::types::{
    BlockHeaderBlob, GetSuccessorsCompleteResponse, GetSuccessorsPartialResponse, GetSuccessorsRequest,
    GetSuccessorsResponse,
};
use ic_btc_interface::{Fees, Flag, Network, SetConfigRequest};
use ic_btc_types::Block;
use std::future::Future;
use std::pin::Pin;
use std::task::{Context, Poll};

type Fut = Pin<Box<dyn Future<Output = ()>>>;

fn poll(f: &mut Fut) -> Result<bool, String> {
    let waker = futures::task::noop_waker();
    let mut cx = Context::from_waker(&waker);
    c::guarded(|| matches!(f.as_mut().poll(&mut cx), Poll::Ready(())))
}

pub fn summary() -> String {
    can::with_state(|s| {
        let sy = &s.syncing_state;
        let resp = match &sy.response_to_process {
            None => "none".to_string(),
            Some(can::state::ResponseToProcess::Complete(r)) => format!("complete:{}:{}", r.blocks.len(), r.next.len()),
            Some(can::state::ResponseToProcess::Partial(p, k)) => format!("partial:{}/{}:{}", k, p.remaining_follow_ups, p.partial_block.len()),
        };
        format!(
            "stable={} ingesting={} fetching={} resp={} rej={} deser={} insert={} blocks={} maxnext={} nnext={}",
            s.stable_height(),
            s.utxos.ingesting_block.is_some() as u8,
            sy.is_fetching_blocks as u8,
            resp,
            sy.num_get_successors_rejects,
            sy.num_block_deserialize_errors,
            sy.num_insert_block_errors,
            can::state::unstable_blocks_total(s),
            s.unstable_blocks.verif_next_headers_by_height().iter().map(|(h, _)| *h).max().map(|h| h.to_string()).unwrap_or("x".into()),
            // how many announced headers are on record (C14: a header leaves when its block arrives)
            s.unstable_blocks.verif_next_headers_by_hash().len(),
        )
    })
}

fn request_text(r: &GetSuccessorsRequest) -> String {
    match r {
        GetSuccessorsRequest::Initial(i) => format!(
            "initial {} [{}]",
            hex::encode(i.anchor.as_bytes()),
            i.processed_block_hashes.iter().map(|h| hex::encode(h.as_bytes())).collect::<Vec<_>>().join(",")
        ),
        GetSuccessorsRequest::FollowUp(k) => format!("followup {}", k),
    }
}

pub fn block_bytes(b: &Block) -> Vec<u8> {
    let mut v = vec![];
    b.consensus_encode(&mut v).unwrap();
    v
}

/// `blobhex=decoded-block-text` (or `=G` when the library cannot decode it)
fn block_blob_text(bytes: &[u8], network: Network) -> String {
    use bitcoin::consensus::Decodable;
    let dec = bitcoin::Block::consensus_decode(&mut &bytes[..]).ok().map(|b| c::block_text(&Block::new(b), network));
    format!("{}={}", if bytes.is_empty() { "-".to_string() } else { hex::encode(bytes) }, dec.unwrap_or("G".into()))
}

fn header_blob_text(bytes: &[u8]) -> String {
    use bitcoin::consensus::Decodable;
    // BlockHeaderBlob::from asserts 80 bytes; shorter/longer blobs cannot be represented
    let dec = bitcoin::block::Header::consensus_decode(&mut &bytes[..]).ok().map(|h| {
        format!(
            "{},{},{},{}",
            hex::encode(bitcoin::hashes::Hash::as_byte_array(&h.block_hash())),
            hex::encode(bitcoin::hashes::Hash::as_byte_array(&h.prev_blockhash)),
            h.time,
            h.bits.to_consensus()
        )
    });
    format!("{}={}", hex::encode(bytes), dec.unwrap_or("G".into()))
}

pub struct Sync {
    pub case: Case,
    pub pending: Vec<Fut>,
    /// nodes generated but not yet delivered as blocks
    pub undelivered: Vec<usize>,
    pub now: u64,
}

/// A heartbeat in which only `slots` iterations of the announced-header loop of
/// `insert_next_block_headers` fit under its instruction threshold (30e9): the mock counter starts at
/// 30e9 - slots with step 1, which also means that ingestion has no budget at all in this message.
fn emit_hb_slots(out: &mut Out, st: &mut Sync, slots: u64) -> bool {
    out.emit(&format!("c hdrslots {}", slots), "-");
    let trapped = emit_hb_inner(out, st, 0, Some(slots));
    out.emit("c hdrslots 1000000000", "-");
    trapped
}

fn emit_hb(out: &mut Out, st: &mut Sync, budget: u64) -> bool {
    emit_hb_inner(out, st, budget, None)
}

fn emit_hb_inner(out: &mut Out, st: &mut Sync, budget: u64, slots: Option<u64>) -> bool {
    c::set_budget(budget);
    if let Some(k) = slots {
        can::verif_hooks::set_performance_counter_step(1);
        can::verif_hooks::set_performance_counter(30_000_000_000 - k);
        out.count("hb:header-slots");
    }
    let mut f: Fut = Box::pin(can::heartbeat());
    let r = poll(&mut f);
    can::verif_hooks::set_performance_counter_step(0);
    can::verif_hooks::performance_counter_reset();
    let calls = can::verif_hooks::take_successors_calls();
    let phase = match r {
        Err(_) => "trap".to_string(),
        Ok(true) => "done".to_string(),
        Ok(false) => {
            st.pending.push(f);
            format!("await {}", calls.last().map(request_text).unwrap_or("?".into()))
        }
    };
    out.count(&format!("hb:{}", phase.split(' ').take(2).collect::<Vec<_>>().join("-")));
    // after a native panic the state is not rolled back: its summary is meaningless
    let sum = if phase == "trap" { "-".to_string() } else { summary() };
    out.emit(&format!("c hb {}", budget), &format!("{} | {}", phase, sum));
    phase == "trap"
}

fn emit_reply(out: &mut Out, st: &mut Sync, op: &str, reply: GetSuccessorsReply) {
    if st.pending.is_empty() {
        return;
    }
    can::runtime::set_successors_responses(vec![reply]);
    can::verif_hooks::open_gate(0);
    let mut f = st.pending.remove(0);
    let r = poll(&mut f);
    drop(f);
    let phase = match r {
        Err(_) => "trap",
        Ok(true) => "stored",
        Ok(false) => "pending?",
    };
    out.count(&format!("reply:{}", phase));
    out.emit(op, &format!("{} | {}", phase, summary()));
}

fn mined_opts(rng: &mut Rng, thorough: bool) -> BlockOpts {
    BlockOpts {
        max_txs: if thorough { 4 } else { 2 },
        max_outputs: 3,
        many_outputs: None,
        difficulty: if rng.chance(1, 3) { rng.range(1, 3) as u128 } else { 1 },
        mine: true,
        time: None,
        bits: None,
    }
}

/// Builds the next reply of the scripted block source.
fn build_reply(out: &mut Out, rng: &mut Rng, st: &mut Sync, thorough: bool) -> (String, Vec<GetSuccessorsReply>) {
    let net = st.case.network;
    let r = rng.below(100);
    if r < 8 {
        out.count("reply-kind:reject");
        return ("c reply reject".into(), vec![GetSuccessorsReply::Err(ic_cdk::call::RejectCode::SysTransient, "rejected".into())]);
    }
    // blocks: 0..3 new blocks (children of alive nodes or of the previous new block), with
    // occasional bad elements at a random position
    let mut blobs: Vec<Vec<u8>> = vec![];
    let n = rng.range(0, 3);
    let mut last: Option<usize> = None;
    for _ in 0..n {
        let parent = match last {
            Some(l) if rng.chance(2, 3) => l,
            _ => pick_parent(rng, &st.case),
        };
        let mo = mined_opts(rng, thorough);
        let idx = st.case.world.new_block(rng, parent, &mo);
        // the parent must be deliverable: either alive, or delivered earlier in this reply
        let mut bytes = block_bytes(&st.case.world.nodes[idx].block);
        if rng.chance(1, 8) {
            // the heartbeat decodes with `consensus_decode` on a reader: bytes after the block are ignored
            let n = rng.range(1, 12) as usize;
            bytes.extend(rng.bytes(n));
            out.count("block-with-trailing-bytes");
        }
        blobs.push(bytes);
        st.undelivered.push(idx);
        last = Some(idx);
    }
    // previously generated but undelivered blocks (orphans if their parents are missing)
    if rng.chance(1, 2) && !st.undelivered.is_empty() {
        // a block whose parent has only been announced (or not even that) so far, or - as a real
        // block source would - an announced block whose parent is in the tree by now
        let orphans: Vec<usize> = st.undelivered.iter().cloned()
            .filter(|i| st.case.world.nodes[*i].parent.map(|p| st.undelivered.contains(&p)).unwrap_or(false)).collect();
        let ready: Vec<usize> = st.undelivered.iter().cloned()
            .filter(|i| st.case.world.nodes[*i].parent.map(|p| st.case.alive.contains(&p)).unwrap_or(false)).collect();
        let k = match rng.below(3) {
            0 if !orphans.is_empty() => *rng.pick(&orphans),
            1 | 2 if !ready.is_empty() => *rng.pick(&ready),
            _ => *rng.pick(&st.undelivered),
        };
        blobs.push(block_bytes(&st.case.world.nodes[k].block));
        out.count("bad:redelivery-or-orphan");
    }
    if rng.chance(1, 5) {
        let pos = rng.below(blobs.len() as u64 + 1) as usize;
        let kind = rng.below(7);
        let bad: Vec<u8> = match kind {
            0 => {
                if rng.chance(1, 3) {
                    // 80 arbitrary header bytes, a transaction count of zero, then junk: decodes (as an
                    // empty block) and is then refused by validation
                    let mut b = rng.bytes(80);
                    b.push(0);
                    let n = rng.range(0, 20) as usize;
                    b.extend(rng.bytes(n));
                    b
                } else {
                    let n = rng.range(0, 120) as usize;
                    rng.bytes(n)
                }
            }
            1 => {
                // an already present block (duplicate)
                let k = *rng.pick(&st.case.alive);
                block_bytes(&st.case.world.nodes[k].block)
            }
            2 => {
                // truncated valid block
                let k = *rng.pick(&st.case.alive);
                let mut b = block_bytes(&st.case.world.nodes[k].block);
                b.truncate(b.len() - 1 - rng.below(10) as usize);
                b
            }
            3 | 4 | 5 => {
                // a new block with a defect: bad merkle root / old timestamp / wrong bits
                let parent = pick_parent(rng, &st.case);
                let mut opts = mined_opts(rng, thorough);
                if kind == 4 {
                    opts.time = Some(st.case.world.nodes[parent].time.saturating_sub(rng.range(0, 7200) as u32));
                }
                if kind == 5 {
                    opts.bits = Some(*rng.pick(&[0x207ffffeu32, 0x1f00ffff, 0x207fffff + 1, 0x2100ffff]));
                }
                let idx = st.case.world.new_block(rng, parent, &opts);
                let mut blk = st.case.world.nodes[idx].block.internal_bitcoin_block().clone();
                if kind == 3 {
                    if rng.chance(1, 2) && blk.txdata.len() >= 2 {
                        // CVE-2012-2459 style: duplicate the last transaction
                        let t = blk.txdata.last().unwrap().clone();
                        blk.txdata.push(t);
                    } else {
                        blk.txdata[0].lock_time = bitcoin::absolute::LockTime::from_consensus(77);
                    }
                }
                block_bytes(&Block::new(blk))
            }
            _ => {
                // block extending a block that is not in the tree (stable-only ancestor or unknown)
                let mut opts = mined_opts(rng, thorough);
                opts.mine = true;
                let parent = 0;
                let idx = st.case.world.new_block(rng, parent, &opts);
                block_bytes(&st.case.world.nodes[idx].block)
            }
        };
        out.count(&format!("bad:block-kind-{}", kind));
        blobs.insert(pos, bad);
    }
    // announced headers: of fresh (undelivered) blocks built on the newest block, sometimes bad
    let mut next: Vec<Vec<u8>> = vec![];
    if rng.chance(1, 2) {
        // announced chains start at the newest block, or at a block that already has a child (a fork
        // announced ahead of its blocks), or anywhere
        let forkable: Vec<usize> = st.case.alive.iter().cloned()
            .filter(|i| st.case.alive.iter().any(|j| st.case.world.nodes[*j].parent == Some(*i))).collect();
        let mut parent = match last {
            Some(l) if rng.chance(2, 3) => l,
            _ if !forkable.is_empty() && rng.chance(1, 2) => *rng.pick(&forkable),
            _ => pick_parent(rng, &st.case),
        };
        for _ in 0..rng.range(1, 4) {
            let mo = mined_opts(rng, thorough);
        let idx = st.case.world.new_block(rng, parent, &mo);
            st.undelivered.push(idx);
            let mut v = vec![];
            st.case.world.nodes[idx].block.header().consensus_encode(&mut v).unwrap();
            next.push(v);
            parent = idx;
        }
        if rng.chance(1, 4) {
            let pos = rng.below(next.len() as u64 + 1) as usize;
            let bad = match rng.below(3) {
                0 => rng.bytes(80),
                1 => next[0].clone(),
                _ => {
                    let mut h = next[next.len() - 1].clone();
                    h[70] ^= 0x55; // time
                    h
                }
            };
            out.count("bad:next-header");
            next.insert(pos, bad);
        }
    }
    let next_text = next.iter().map(|h| header_blob_text(h)).collect::<Vec<_>>().join("&");
    let next_blobs: Vec<BlockHeaderBlob> = next.iter().map(|h| BlockHeaderBlob::from(h.clone())).collect();
    if blobs.len() == 1 && rng.chance(1, 2) {
        // paginated: one block split over 1 + k pages (k may be 0)
        let bytes = blobs[0].clone();
        let k = *rng.pick(&[0u8, 1, 1, 2, 3, 5]);
        let mut cuts: Vec<usize> = (0..k).map(|_| rng.below(bytes.len() as u64 + 1) as usize).collect();
        cuts.sort();
        let mut pieces: Vec<Vec<u8>> = vec![];
        let mut prev = 0;
        for cpos in cuts {
            pieces.push(bytes[prev..cpos].to_vec());
            prev = cpos;
        }
        pieces.push(bytes[prev..].to_vec());
        out.count(&format!("reply-kind:partial-{}", k));
        let mut replies = vec![GetSuccessorsReply::Ok(GetSuccessorsResponse::Partial(GetSuccessorsPartialResponse {
            partial_block: pieces[0].clone(),
            next: next_blobs,
            remaining_follow_ups: k,
        }))];
        let mut text = format!(
            "c reply partial {} {} next={} decoded={}",
            k,
            if pieces[0].is_empty() { "-".to_string() } else { hex::encode(&pieces[0]) },
            next_text,
            block_blob_text(&bytes, net)
        );
        for p in pieces.iter().skip(1) {
            replies.push(GetSuccessorsReply::Ok(GetSuccessorsResponse::FollowUp(p.clone())));
            text.push_str(&format!("\nc reply followup {}", if p.is_empty() { "-".to_string() } else { hex::encode(p) }));
        }
        return (text, replies);
    }
    out.count(&format!("reply-kind:complete-{}", blobs.len()));
    let text = format!(
        "c reply complete blocks={} next={}",
        blobs.iter().map(|b| block_blob_text(b, net)).collect::<Vec<_>>().join("&"),
        next_text
    );
    (
        text,
        vec![GetSuccessorsReply::Ok(GetSuccessorsResponse::Complete(GetSuccessorsCompleteResponse {
            blocks: blobs,
            next: next_blobs,
        }))],
    )
}

/// Labelled answers of every query endpoint (C09: must be identical before and after an upgrade).
fn observation_vector(st: &Sync, addrs: &[String]) -> Vec<(String, String)> {
    observation_vector_net(st.case.network, addrs)
}

/// `pre_upgrade(); post_upgrade(cfg)` with the labelled answers of every query endpoint before and
/// after (C09). Used by the `sync` and the `ledger` streams.
pub fn upgrade_op(out: &mut Out, network: Network, addrs: &[String], cfg: Option<SetConfigRequest>) {
    let text = match &cfg { Some(cfgv) => format!("thr={}", cfgv.stability_threshold.unwrap()), None => "-".into() };
    let before = observation_vector_net(network, addrs);
    let r = c::guarded(|| { can::pre_upgrade(); can::post_upgrade(cfg); });
    let after = observation_vector_net(network, addrs);
    let same = match before.iter().zip(after.iter()).find(|(a, b)| a.1 != b.1) {
        None => "same=1:-".to_string(),
        Some((a, _)) => format!("same=0:{}", a.0),
    };
    out.emit(&format!("c upgrade {} {}", text, addrs.join(",")), &format!("{} | {} | {}", if r.is_ok() { "ok" } else { "trap" }, summary(), same));
}

fn observation_vector_net(net: Network, addrs: &[String]) -> Vec<(String, String)> {
    let mut v = vec![("info".to_string(), c::get_info())];
    for (i, a) in addrs.iter().enumerate() {
        v.push((format!("utxos{}", i), c::get_utxos_all(a, net, &c::Filter::None, None)));
        v.push((format!("balance{}", i), c::get_balance(a, net, None)));
    }
    v.push(("headers".to_string(), c::get_headers(net, 0, None)));
    v.push(("synced".to_string(), format!("{}", can::verif_hooks::is_synced() as u8)));
    // an update call (it may fill the cache): asked last, before and after the upgrade
    v.push(("fees".to_string(), c::get_fees(net)));
    v
}

fn fees_text(f: &Fees) -> String {
    format!(
        "{},{},{},{},{},{},{},{},{},{},{},{}",
        f.get_utxos_base, f.get_utxos_cycles_per_ten_instructions, f.get_utxos_maximum, f.get_balance,
        f.get_balance_maximum, f.get_current_fee_percentiles, f.get_current_fee_percentiles_maximum,
        f.send_transaction_base, f.send_transaction_per_byte, f.get_block_headers_base,
        f.get_block_headers_cycles_per_ten_instructions, f.get_block_headers_maximum
    )
}

fn random_fees(rng: &mut Rng) -> Fees {
    let small = |rng: &mut Rng| *rng.pick(&[0u128, 1, 7, 100, 5_000]);
    let mut f = Fees {
        get_utxos_base: small(rng),
        get_utxos_cycles_per_ten_instructions: *rng.pick(&[0u128, 1, 3, 7, 10, 10]),
        get_utxos_maximum: small(rng) + *rng.pick(&[0u128, 50, 10_000]),
        get_balance: small(rng),
        get_balance_maximum: 0,
        get_current_fee_percentiles: small(rng),
        get_current_fee_percentiles_maximum: 0,
        send_transaction_base: small(rng),
        send_transaction_per_byte: *rng.pick(&[0u128, 1, 20]),
        get_block_headers_base: small(rng),
        get_block_headers_cycles_per_ten_instructions: *rng.pick(&[0u128, 1, 3, 7, 10, 10]),
        get_block_headers_maximum: small(rng) + *rng.pick(&[0u128, 50, 10_000]),
    };
    // base <= maximum (with base > maximum `maximum - base` underflows: a panic in this native
    // debug build, a wrap-around in the wasm release build - outside the modelled domain)
    f.get_utxos_maximum += f.get_utxos_base;
    f.get_block_headers_maximum += f.get_block_headers_base;
    f.get_balance_maximum = f.get_balance + *rng.pick(&[0u128, 10]);
    f.get_current_fee_percentiles_maximum = f.get_current_fee_percentiles + *rng.pick(&[0u128, 10]);
    f
}

/// One gated endpoint call with a chosen amount of attached cycles and instruction count.
fn endpoint_call(out: &mut Out, rng: &mut Rng, st: &Sync) {
    let net = st.case.network;
    let req_net = if rng.chance(1, 6) { *rng.pick(&[Network::Mainnet, Network::Testnet, Network::Regtest]) } else { net };
    // either spelling of the network (`Regtest` / `regtest`)
    let (req_net_spelled, req_net_tok) = c::net_spelled(req_net, rng.chance(1, 2));
    let fees = can::with_state(|s| s.fees.clone());
    let ep = *rng.pick(&["get_utxos", "get_utxos_query", "get_balance", "get_balance_query", "get_block_headers", "get_current_fee_percentiles"]);
    let maximum = match ep {
        "get_utxos" => fees.get_utxos_maximum,
        "get_balance" => fees.get_balance_maximum,
        "get_block_headers" => fees.get_block_headers_maximum,
        "get_current_fee_percentiles" => fees.get_current_fee_percentiles_maximum,
        _ => 0,
    };
    let avail: u128 = match rng.below(4) {
        0 => maximum.saturating_sub(1),
        1 => maximum,
        2 => maximum + rng.range(0, 100_000) as u128,
        _ => u128::MAX / 4,
    };
    // instruction counts: boundary values, or any small count (most are not multiples of ten)
    let instructions = if rng.chance(1, 2) { rng.range(1, 2_000) } else { *rng.pick(&[0u64, 9, 10, 11, 1_000, 99_999, 5_000_000]) };
    let addrs = st.case.world.addresses();
    let _ = &addrs;
    // the request string in all its variants (other spellings, corrupted, other networks), parsed by
    // the model on its own
    let (addr_text, addr_tok, _) = crate::ledger::addr_arg(&st.case.world, rng);
    let tipc = can::with_state(|s| can::unstable_blocks::get_main_chain_length(&s.unstable_blocks)) as u32;
    let cc = rng.range(0, tipc as u64 + 1) as u32;
    let tip = can::with_state(can::state::main_chain_height);
    let start = rng.range(0, tip as u64 + 1) as u32;
    // the filter of a get_utxos call: min_confirmations, none, or a page (a genuine next-page token
    // of the same address obtained through the ungated hook, or arbitrary bytes of any length)
    let filter = match rng.below(10) {
        0..=4 => c::Filter::MinConf(cc),
        5 | 6 => c::Filter::None,
        _ => {
            let genuine = if rng.chance(2, 3) {
                match c::get_utxos(&addr_text, net, &c::Filter::None, Some(1 + rng.below(3) as usize)) {
                    c::QRes::Ok(r) => r.next_page,
                    _ => None,
                }
            } else {
                None
            };
            match genuine {
                Some(mut p) => {
                    // sometimes damaged: one byte changed (unknown tip / other position) or cut
                    match rng.below(6) {
                        0 => { let i = rng.below(p.len() as u64) as usize; p[i] ^= 1 << rng.below(8); }
                        1 => { p.pop(); }
                        _ => {}
                    }
                    c::Filter::Page(p)
                }
                None => { let n = *rng.pick(&[0usize, 1, 32, 71, 72, 72, 73, 100]); c::Filter::Page(rng.bytes(n)) }
            }
        }
    };
    // an explicit end height for get_block_headers (below start, inside, at and beyond the tip)
    let end_height: Option<u32> = if rng.chance(1, 2) { None } else { Some(rng.range(0, tip as u64 + 3) as u32) };
    can::verif_hooks::set_cycles_available(Some(avail));
    can::verif_hooks::reset_cycles_balance();
    can::verif_hooks::set_performance_counter_step(0);
    can::verif_hooks::set_performance_counter(instructions);
    let before = summary();
    let result: String = match ep {
        "get_utxos" | "get_utxos_query" => {
            let req = ic_btc_interface::GetUtxosRequest {
                address: addr_text.clone(),
                network: req_net_spelled,
                filter: match &filter {
                    c::Filter::None => None,
                    c::Filter::MinConf(c) => Some(ic_btc_interface::UtxosFilterInRequest::MinConfirmations(*c)),
                    c::Filter::Page(p) => Some(ic_btc_interface::UtxosFilterInRequest::Page(serde_bytes::ByteBuf::from(p.clone()))),
                },
            };
            match c::guarded(|| if ep == "get_utxos" { can::get_utxos(req) } else { can::get_utxos_query(req) }) {
                Err(m) => format!("trap {}", refusal_kind(&m)),
                Ok(Ok(r)) => format!("ok {} n={} next={}", r.tip_height, r.utxos.len(), r.next_page.is_some() as u8),
                Ok(Err(_)) => "err".into(),
            }
        }
        "get_balance" | "get_balance_query" => {
            let req = ic_btc_interface::GetBalanceRequest { address: addr_text.clone(), network: req_net_spelled, min_confirmations: Some(cc) };
            match c::guarded(|| if ep == "get_balance" { can::get_balance(req) } else { can::get_balance_query(req) }) {
                Err(m) => format!("trap {}", refusal_kind(&m)),
                Ok(Ok(v)) => format!("ok {}", v),
                Ok(Err(_)) => "err".into(),
            }
        }
        "get_block_headers" => {
            let req = ic_btc_interface::GetBlockHeadersRequest { start_height: start, end_height, network: req_net_spelled };
            match c::guarded(|| can::get_block_headers(req)) {
                Err(m) => format!("trap {}", refusal_kind(&m)),
                Ok(Ok(r)) => format!("ok {} n={}", r.tip_height, r.block_headers.len()),
                Ok(Err(_)) => "err".into(),
            }
        }
        _ => {
            let req = ic_btc_interface::GetCurrentFeePercentilesRequest { network: req_net_spelled };
            match c::guarded(|| can::get_current_fee_percentiles(req)) {
                Err(m) => format!("trap {}", refusal_kind(&m)),
                Ok(v) => format!("ok {}", v.len()),
            }
        }
    };
    let accepted = can::verif_hooks::get_cycles_balance();
    // a trap rolls the message back on the IC: nothing is accepted
    let accepted = if result.starts_with("trap") { 0 } else { accepted };
    can::verif_hooks::set_cycles_available(None);
    can::verif_hooks::reset_cycles_balance();
    can::verif_hooks::performance_counter_reset();
    let unchanged = before == summary();
    out.count(&format!("call:{}:{}", ep, result.split(' ').next().unwrap()));
    if ep.starts_with("get_utxos") {
        out.count(&format!("call-filter:{}:{}", c::filter_text(&filter).split(|ch| ch == '=').next().unwrap(), result.split(' ').next().unwrap()));
    }
    if ep == "get_block_headers" {
        out.count(&format!("call-end:{}:{}", if end_height.is_some() { "some" } else { "none" }, result.split(' ').next().unwrap()));
    }
    out.emit(
        &format!("c call {} {} {} {} {} {} {} {} {}", ep, req_net_tok, avail, instructions, addr_tok, cc, start,
            c::filter_text(&filter), end_height.map(|e| e.to_string()).unwrap_or("-".into())),
        &format!("{} accepted={} unchanged={}", result, accepted, unchanged as u8),
    );
}

fn refusal_kind(msg: &str) -> &'static str {
    if msg.contains("Bitcoin API is disabled") {
        "api-disabled"
    } else if msg.contains("Network must be") {
        "wrong-network"
    } else if msg.contains("not fully synced") {
        "not-synced"
    } else if msg.contains("cycles are required") {
        "cycles"
    } else {
        "other"
    }
}

fn send_tx(out: &mut Out, rng: &mut Rng, st: &Sync) {
    let net = st.case.network;
    let req_net = if rng.chance(1, 6) { *rng.pick(&[Network::Mainnet, Network::Testnet]) } else { net };
    let (req_net_spelled, req_net_tok) = c::net_spelled(req_net, rng.chance(1, 2));
    // payload: a real transaction of some node, possibly truncated / extended / flipped
    let k = rng.below(st.case.world.nodes.len() as u64) as usize;
    let txs = &st.case.world.nodes[k].block.internal_bitcoin_block().txdata;
    let tx = rng.pick(txs);
    let mut bytes = bitcoin::consensus::serialize(tx);
    let kind = rng.below(6);
    match kind {
        0 | 1 => {}
        2 => { let n = rng.range(1, 6) as usize; bytes.extend(rng.bytes(n)); }
        3 => { let n = rng.range(1, bytes.len() as u64 - 1) as usize; bytes.truncate(n); }
        4 => { let i = rng.below(bytes.len() as u64) as usize; bytes[i] ^= 1 << rng.below(8); }
        _ => { let n = rng.range(0, 60) as usize; bytes = rng.bytes(n); }
    }
    let fees = can::with_state(|s| s.fees.clone());
    let amount = fees.send_transaction_base + fees.send_transaction_per_byte * bytes.len() as u128;
    let avail = if rng.chance(1, 5) { amount.saturating_sub(1) } else { amount + rng.range(0, 1000) as u128 };
    can::verif_hooks::set_cycles_available(Some(avail));
    can::verif_hooks::reset_cycles_balance();
    can::verif_hooks::take_sent_transactions();
    let count_before = can::with_state(|s| s.metrics.send_transaction_count);
    let req = ic_btc_interface::SendTransactionRequest { network: req_net_spelled, transaction: bytes.clone() };
    let mut f: Pin<Box<dyn Future<Output = Result<(), ic_btc_interface::SendTransactionError>>>> = Box::pin(can::send_transaction(req));
    let waker = futures::task::noop_waker();
    let mut cx = Context::from_waker(&waker);
    let r = c::guarded(|| f.as_mut().poll(&mut cx));
    let result = match r {
        Err(m) => format!("trap {}", refusal_kind(&m)),
        Ok(Poll::Ready(Ok(()))) => "ok".to_string(),
        Ok(Poll::Ready(Err(_))) => "err MalformedTransaction".to_string(),
        Ok(Poll::Pending) => "pending".to_string(),
    };
    let accepted = if result.starts_with("trap") { 0 } else { can::verif_hooks::get_cycles_balance() };
    let sent = can::verif_hooks::take_sent_transactions();
    let forwarded = match sent.len() {
        0 => "none".to_string(),
        1 => format!("{}:{}", c::net_name(sent[0].network), if sent[0].transaction == bytes { "same" } else { "different" }),
        _ => "many".to_string(),
    };
    let counted = can::with_state(|s| s.metrics.send_transaction_count) - count_before;
    can::verif_hooks::set_cycles_available(None);
    can::verif_hooks::reset_cycles_balance();
    out.count(&format!("sendtx:kind{}:{}", kind, result.split(' ').next().unwrap()));
    out.emit(
        &format!("c sendtx {} {} {}", req_net_tok, avail, if bytes.is_empty() { "-".to_string() } else { hex::encode(&bytes) }),
        &format!("{} accepted={} counted={} forwarded={}", result, accepted, if result.starts_with("trap") { 0 } else { counted }, if result.starts_with("trap") { "none".to_string() } else { forwarded }),
    );
}

pub fn run_case(out: &mut Out, rng: &mut Rng, thorough: bool, case_no: u64) {
    let network = Network::Regtest;
    let thr = *rng.pick(&[1u32, 2, 2, 3, 4]);
    let fees = if rng.chance(1, 2) { Some(random_fees(rng)) } else { None };
    let t2 = std::time::Instant::now();
    let world = World::new(network, rng);
    out.count_n("time_us:world-new", t2.elapsed().as_micros() as u64);
    let mut st = Sync { case: Case { pre_ingest: None, walk: None, world, alive: vec![0], network, thr, mode: DiffMode::Small }, pending: vec![], undelivered: vec![], now: 2_000_000_000 };
    let t3 = std::time::Instant::now();
    c::fresh_init(network, thr as u128, fees.clone());
    out.count_n("time_us:fresh-init", t3.elapsed().as_micros() as u64);
    can::verif_hooks::set_manual_mode(true);
    out.begin_case(&format!("sync thr={}", thr));
    out.emit(&format!("c init regtest {} {} {}", thr, c::block_text(&st.case.world.nodes[0].block, network), c::block_hex(&st.case.world.nodes[0].block)), "-");
    if let Some(f) = &fees {
        out.emit(&format!("c setfees {}", fees_text(f)), "-");
    }
    out.emit(&format!("c time {}", st.now), "-");
    let steps = if thorough { rng.range(30, 120) } else { rng.range(12, 45) };
    let mut fp = format!("{}", thr);
    let mut script: Vec<(String, GetSuccessorsReply)> = vec![];
    for _ in 0..steps {
        let mut r = rng.below(100);
        // while a block is being ingested in slices, favour the messages whose interaction with the
        // paused state matters: further small slices, upgrades, and full query batches
        let ingesting = can::with_state(|s| s.utxos.ingesting_block.is_some());
        if ingesting {
            r = *rng.pick(&[0u64, 0, 72, 72, 95, 95, 95, 85]);
        }
        let t0 = std::time::Instant::now();
        let kind = if r < 40 { "hb" } else if r < 70 { "reply" } else if r < 76 { "upgrade" } else if r < 82 { "setcfg" } else if r < 90 { "call" } else if r < 94 { "sendtx" } else { "queries" };
        if r < 40 {
            let budget = if ingesting { rng.range(0, 4) } else if rng.chance(2, 3) { c::UNLIMITED } else { rng.range(0, 10) };
            // sometimes a heartbeat that has burnt so many instructions that only 0-3 iterations of
            // the announced-header loop fit (more often when a response with headers is stored)
            let has_next = can::with_state(|s| matches!(&s.syncing_state.response_to_process, Some(can::state::ResponseToProcess::Complete(r)) if !r.next.is_empty()));
            let slots = if !ingesting && rng.chance(1, if has_next { 3 } else { 12 }) { Some(rng.range(0, 3)) } else { None };
            let trapped = match slots { Some(k) => emit_hb_slots(out, &mut st, k), None => emit_hb(out, &mut st, budget) };
            if trapped {
                // a native panic leaves partial effects behind (no rollback): the rest of the native
                // run corresponds to no IC execution, so the case ends here
                out.count("case-cut-after-trap");
                st.pending.clear();
                can::verif_hooks::set_manual_mode(false);
                return;
            }
            fp.push_str(&format!("h{}", budget));
            sync_alive(&mut st.case);
        } else if r < 70 {
            if !st.pending.is_empty() {
                if script.is_empty() {
                    let (text, replies) = build_reply(out, rng, &mut st, thorough);
                    let lines: Vec<&str> = text.split('\n').collect();
                    for (l, rp) in lines.iter().zip(replies.into_iter()) {
                        script.push((l.to_string(), rp));
                    }
                }
                // occasionally the source deviates from its own script
                // (more often while follow-up pages are still queued: a reject between pages)
                let (op, rp) = if rng.chance(1, if script.len() > 1 || script.first().map(|s| s.0.starts_with("c reply followup")).unwrap_or(false) { 4 } else { 12 }) {
                    script.clear();
                    ("c reply reject".to_string(), GetSuccessorsReply::Err(ic_cdk::call::RejectCode::SysTransient, "rejected".into()))
                } else {
                    script.remove(0)
                };
                emit_reply(out, &mut st, &op, rp);
                fp.push_str("r");
                sync_alive(&mut st.case);
            }
        } else if r < 76 {
            // upgrade at a message boundary (abandons any in-flight call)
            st.pending.clear();
            script.clear();
            can::verif_hooks::set_manual_mode(true);
            let cfg = if rng.chance(1, 3) {
                Some(SetConfigRequest { stability_threshold: Some(rng.range(1, 4) as u128), ..Default::default() })
            } else {
                None
            };
            // C09: everything a user can ask, before and after
            let addrs = st.case.world.addresses();
            upgrade_op(out, network, &addrs, cfg);
            out.count("upgrade");
            fp.push_str("u");
        } else if r < 82 {
            // configuration change
            let which = rng.below(4);
            let (req, text) = match which {
                0 => { let v = rng.chance(1, 2); (SetConfigRequest { api_access: Some(c::set_flag(v)), ..Default::default() }, format!("api={}", v as u8)) }
                1 => { let v = rng.chance(1, 2); (SetConfigRequest { disable_api_if_not_fully_synced: Some(c::set_flag(v)), ..Default::default() }, format!("syncflag={}", v as u8)) }
                2 => { let v = rng.chance(2, 3); (SetConfigRequest { syncing: Some(c::set_flag(v)), ..Default::default() }, format!("syncing={}", v as u8)) }
                _ => { let v = rng.chance(1, 2); (SetConfigRequest { lazily_evaluate_fee_percentiles: Some(c::set_flag(v)), ..Default::default() }, format!("lazy={}", v as u8)) }
            };
            let _ = c::guarded(|| can::set_config(req));
            out.emit(&format!("c setcfg {}", text), "-");
        } else if r < 90 {
            endpoint_call(out, rng, &st);
        } else if r < 94 {
            send_tx(out, rng, &st);
        } else {
            crate::ledger::queries(out, rng, &st.case, ingesting);
            out.emit("c q synced", &format!("{}", can::verif_hooks::is_synced() as u8));
        }
        out.count_n(&format!("time_us:{}", kind), t0.elapsed().as_micros() as u64);
    }
    st.pending.clear();
    let t1 = std::time::Instant::now();
    crate::ledger::queries(out, rng, &st.case, true);
    out.count_n("time_us:final-queries", t1.elapsed().as_micros() as u64);
    can::verif_hooks::set_manual_mode(false);
    let _ = Flag::Enabled;
    out.nontrivial(fnv(fp.as_bytes()) ^ case_no.wrapping_mul(0x9E3779B97F4A7C15));
}

/// Directed family (C14, C10): the headers of a fork are announced ahead of its blocks; the fork's
/// blocks then arrive next to existing siblings; more headers are announced on the fork; the sync
/// flag is on and the gate is queried after every step.
pub fn run_announced_fork_case(out: &mut Out, rng: &mut Rng) {
    let network = Network::Regtest;
    // a threshold high enough that nothing stabilises during the scenario
    let thr = *rng.pick(&[8u32, 10, 144]);
    let world = World::new(network, rng);
    let mut st = Sync { case: Case { pre_ingest: None, walk: None, world, alive: vec![0], network, thr, mode: DiffMode::Equal }, pending: vec![], undelivered: vec![], now: 2_000_000_000 };
    c::fresh_init(network, thr as u128, None);
    can::verif_hooks::set_manual_mode(true);
    out.begin_case(&format!("sync announced-fork thr={}", thr));
    out.emit(&format!("c init regtest {} {} {}", thr, c::block_text(&st.case.world.nodes[0].block, network), c::block_hex(&st.case.world.nodes[0].block)), "-");
    out.emit(&format!("c time {}", st.now), "-");
    let _ = c::guarded(|| can::set_config(SetConfigRequest { disable_api_if_not_fully_synced: Some(c::set_flag(true)), ..Default::default() }));
    out.emit("c setcfg syncflag=1", "-");
    let opts = BlockOpts { max_txs: 1, max_outputs: 2, many_outputs: None, difficulty: 1, mine: true, time: None, bits: None };
    // one response: blocks (delivered in this order) and announced headers
    let deliver = |out: &mut Out, st: &mut Sync, rng: &mut Rng, blocks: &[usize], next: &[usize]| -> bool {
        // reach the await (a heartbeat may first have to process / ingest)
        for _ in 0..4 {
            if !st.pending.is_empty() { break; }
            if emit_hb(out, st, c::UNLIMITED) { return false; }
        }
        if st.pending.is_empty() { return true; }
        let blobs: Vec<Vec<u8>> = blocks.iter().map(|i| block_bytes(&st.case.world.nodes[*i].block)).collect();
        let hdrs: Vec<Vec<u8>> = next.iter().map(|i| { let mut v = vec![]; st.case.world.nodes[*i].block.header().consensus_encode(&mut v).unwrap(); v }).collect();
        let text = format!(
            "c reply complete blocks={} next={}",
            blobs.iter().map(|b| block_blob_text(b, network)).collect::<Vec<_>>().join("&"),
            hdrs.iter().map(|h| header_blob_text(h)).collect::<Vec<_>>().join("&")
        );
        let reply = GetSuccessorsReply::Ok(GetSuccessorsResponse::Complete(GetSuccessorsCompleteResponse {
            blocks: blobs,
            next: hdrs.iter().map(|h| BlockHeaderBlob::from(h.clone())).collect(),
        }));
        emit_reply(out, st, &text, reply);
        if emit_hb(out, st, c::UNLIMITED) { return false; }
        sync_alive(&mut st.case);
        out.emit("c q synced", &format!("{}", can::verif_hooks::is_synced() as u8));
        if rng.chance(1, 2) { endpoint_call(out, rng, st); }
        true
    };
    // 1. a main chain of 2-3 blocks
    let mut main = vec![0usize];
    for _ in 0..rng.range(2, 3) {
        let idx = st.case.world.new_block(rng, *main.last().unwrap(), &opts);
        main.push(idx);
    }
    let mblocks: Vec<usize> = main[1..].to_vec();
    if !deliver(out, &mut st, rng, &mblocks, &[]) { out.count("case-cut-after-trap"); st.pending.clear(); can::verif_hooks::set_manual_mode(false); return; }
    // 2. a fork below the tip, announced ahead of its blocks
    let base = main[rng.below(main.len() as u64 - 1) as usize];
    let mut fork = vec![];
    let mut p = base;
    for _ in 0..rng.range(2, 4) {
        let idx = st.case.world.new_block(rng, p, &opts);
        fork.push(idx);
        p = idx;
    }
    let announced = rng.range(1, fork.len() as u64) as usize;
    if !deliver(out, &mut st, rng, &[], &fork[..announced]) { out.count("case-cut-after-trap"); st.pending.clear(); can::verif_hooks::set_manual_mode(false); return; }
    // 3. the first one or two fork blocks arrive (next to the main chain's block on the same parent)
    let arrive = rng.range(1, 2.min(fork.len() as u64)) as usize;
    if !deliver(out, &mut st, rng, &fork[..arrive], &[]) { out.count("case-cut-after-trap"); st.pending.clear(); can::verif_hooks::set_manual_mode(false); return; }
    // 4. more headers on the fork: the rest of it and new ones, up to 2-4 blocks above the best tip
    let base_height = st.case.world.nodes[base].height as u64;
    let tip_height = (main.len() - 1) as u64;
    let want = tip_height + rng.range(2, 4) - base_height;
    while (fork.len() as u64) < want {
        let idx = st.case.world.new_block(rng, p, &opts);
        fork.push(idx);
        p = idx;
    }
    if !deliver(out, &mut st, rng, &[], &fork[arrive..]) { out.count("case-cut-after-trap"); st.pending.clear(); can::verif_hooks::set_manual_mode(false); return; }
    // 5. the gate, asked through every endpoint
    for _ in 0..4 { endpoint_call(out, rng, &st); }
    out.emit("c snap", &c::snapshot(network));
    // 6. the rest of the fork arrives; asked again
    let rest: Vec<usize> = fork[arrive..].to_vec();
    if deliver(out, &mut st, rng, &rest, &[]) {
        for _ in 0..2 { endpoint_call(out, rng, &st); }
        out.emit("c snap", &c::snapshot(network));
    }
    st.pending.clear();
    can::verif_hooks::set_manual_mode(false);
    out.count("announced-fork-scenario");
}

pub fn run(out: &mut Out, ctx: &crate::Ctx) {
    for k in 0..ctx.cases {
        if let Some(only) = ctx.only_case {
            if only != k {
                continue;
            }
        }
        let mut rng = Rng::new(ctx.seed.wrapping_mul(2_000_003).wrapping_add(k));
        if k == 1 && ctx.shard % 2 == 0 || (ctx.thorough && k % 16 == 5) {
            run_announced_fork_case(out, &mut rng);
            continue;
        }
        run_case(out, &mut rng, ctx.thorough, k);
    }
}
