//! World builder: generates transaction-valid blocks on arbitrary fork trees.
//! Every node keeps the UTXO view of its own chain, so that every generated block spends
//! only outputs that exist unspent on that block's chain (the properties' domain).
use crate::canister::{btc_net, script_address};
use crate::rng::Rng;
use bitcoin::absolute::LockTime;
use bitcoin::block::{Header, Version};
use bitcoin::hashes::Hash;
use bitcoin::{
    Amount, Block as BitcoinBlock, CompactTarget, OutPoint, ScriptBuf, Sequence, Transaction, TxIn,
    TxMerkleNode, TxOut, Witness,
};
use ic_btc_interface::Network;
use ic_btc_types::Block;
use std::collections::{BTreeMap, BTreeSet};

#[derive(Clone)]
pub struct AddrSpec {
    pub script: ScriptBuf,
    /// the address text the canister derives (None: no address)
    pub text: Option<String>,
    pub kind: &'static str,
}

pub type View = BTreeMap<(Vec<u8>, u32), u64>;

pub struct Node {
    pub block: Block,
    pub parent: Option<usize>,
    pub height: u32,
    pub view: View,
    /// txids confirmed on this node's chain
    pub txids: BTreeSet<Vec<u8>>,
    pub diff: u128,
    pub time: u32,
}

pub struct World {
    pub network: Network,
    pub nodes: Vec<Node>,
    pub pool: Vec<AddrSpec>,
    pub coinbase_counter: u64,
    pub hash_index: BTreeMap<Vec<u8>, usize>,
}

const CHARSET: &str = "qpzry9x8gf2tvdw0s3jn54khce6mua7l";

/// Given a bech32 P2WPKH address, the v0 32-byte witness program whose address text
/// *starts with* that whole address (the "prefix pair" of C01).
pub fn extension_script(addr: &str) -> Option<ScriptBuf> {
    let pos = addr.rfind('1')?;
    let data = &addr[pos + 1..];
    let mut vals: Vec<u8> = vec![];
    for c in data.chars() {
        vals.push(CHARSET.find(c)? as u8);
    }
    if vals.first() != Some(&0) || vals.len() != 1 + 32 + 6 {
        return None;
    }
    // program chars: everything after the version char, padded with zeros to 52 chars
    let mut prog5: Vec<u8> = vals[1..].to_vec();
    while prog5.len() < 52 {
        prog5.push(0);
    }
    // 52 * 5 = 260 bits = 32 bytes + 4 zero padding bits
    let mut bits: Vec<u8> = vec![];
    for v in &prog5 {
        for k in (0..5).rev() {
            bits.push((v >> k) & 1);
        }
    }
    if bits[256..].iter().any(|b| *b != 0) {
        return None;
    }
    let mut bytes = vec![];
    for chunk in bits[..256].chunks(8) {
        bytes.push(chunk.iter().fold(0u8, |a, b| (a << 1) | b));
    }
    let mut script = vec![0x00, 0x20];
    script.extend(bytes);
    Some(ScriptBuf::from_bytes(script))
}

pub fn make_pool(network: Network, rng: &mut Rng) -> Vec<AddrSpec> {
    let mut pool = vec![];
    let mut add = |script: ScriptBuf, kind: &'static str| {
        let text = script_address(&script, network);
        pool.push(AddrSpec { script, text, kind });
    };
    // P2PKH
    let mut s = vec![0x76, 0xa9, 0x14];
    s.extend(rng.bytes(20));
    s.extend([0x88, 0xac]);
    add(ScriptBuf::from_bytes(s), "p2pkh");
    // P2SH
    let mut s = vec![0xa9, 0x14];
    s.extend(rng.bytes(20));
    s.push(0x87);
    add(ScriptBuf::from_bytes(s), "p2sh");
    // P2WPKH and its extension (prefix pair)
    let mut s = vec![0x00, 0x14];
    s.extend(rng.bytes(20));
    let p2wpkh = ScriptBuf::from_bytes(s);
    let short = script_address(&p2wpkh, network).unwrap();
    add(p2wpkh, "p2wpkh");
    if let Some(ext) = extension_script(&short) {
        add(ext, "p2wsh-extends-p2wpkh");
    }
    // P2WSH
    let mut s = vec![0x00, 0x20];
    s.extend(rng.bytes(32));
    add(ScriptBuf::from_bytes(s), "p2wsh");
    // P2TR
    let mut s = vec![0x51, 0x20];
    s.extend(rng.bytes(32));
    add(ScriptBuf::from_bytes(s), "p2tr");
    // witness v1 with a 20-byte program
    let mut s = vec![0x51, 0x14];
    s.extend(rng.bytes(20));
    add(ScriptBuf::from_bytes(s), "wit-v1-20");
    // non-standard small script (no address)
    add(ScriptBuf::from_bytes(vec![0x51, 0x52, 0x93]), "nonstandard");
    // OP_RETURN
    let mut s = vec![0x6a, 0x04];
    s.extend(rng.bytes(4));
    add(ScriptBuf::from_bytes(s), "opreturn");
    // oversized script (> 201 bytes, no address): goes to the "large" UTXO bucket
    let mut s = vec![0x4d, 0xf0, 0x00];
    s.extend(rng.bytes(240));
    add(ScriptBuf::from_bytes(s), "oversized");
    // medium script (> 25 bytes): bare multisig-like, no address
    let mut s = vec![0x51, 0x21];
    s.extend(rng.bytes(33));
    s.extend([0x51, 0xae]);
    add(ScriptBuf::from_bytes(s), "medium");
    pool
}

#[derive(Clone, Copy, PartialEq)]
pub enum DiffMode {
    Equal,
    Small,
    HeavyLight,
    Ties,
}

#[derive(Clone)]
pub struct BlockOpts {
    pub max_txs: u64,
    pub max_outputs: u64,
    pub many_outputs: Option<(usize, usize)>, // (pool index, count): one tx paying `count` outputs to one address
    pub difficulty: u128,
    pub mine: bool,
    pub time: Option<u32>,
    pub bits: Option<u32>,
}

impl World {
    pub fn new(network: Network, rng: &mut Rng) -> World {
        let genesis = Block::new(bitcoin::blockdata::constants::genesis_block(btc_net(network)));
        let mut view = View::new();
        let mut txids = BTreeSet::new();
        for tx in genesis.txdata() {
            txids.insert(tx.txid().as_bytes().to_vec());
            for (i, o) in tx.output().iter().enumerate() {
                if !o.script_pubkey.is_op_return() {
                    view.insert((tx.txid().as_bytes().to_vec(), i as u32), o.value.to_sat());
                }
            }
        }
        let diff = genesis.difficulty(network);
        let time = genesis.header().time;
        let mut hash_index = BTreeMap::new();
        hash_index.insert(genesis.block_hash().as_bytes().to_vec(), 0);
        World {
            network,
            pool: make_pool(network, rng),
            nodes: vec![Node { block: genesis, parent: None, height: 0, view, txids, diff, time }],
            coinbase_counter: 0,
            hash_index,
        }
    }

    pub fn pow_limit_bits(&self) -> u32 {
        match self.network {
            Network::Mainnet | Network::Testnet => 0x1d00ffff,
            Network::Regtest => 0x207fffff,
        }
    }

    fn coinbase(&mut self, rng: &mut Rng, max_outputs: u64) -> Transaction {
        self.coinbase_counter += 1;
        let mut sig = vec![0x08];
        sig.extend(self.coinbase_counter.to_le_bytes());
        let n = rng.range(1, max_outputs.max(1).min(3));
        let mut output = vec![];
        for _ in 0..n {
            let a = rng.pick(&self.pool).clone();
            let value = if a.kind == "opreturn" || rng.chance(1, 12) { 0 } else { rng.range(1, 5_000) * 100 };
            output.push(TxOut { value: Amount::from_sat(value), script_pubkey: a.script });
        }
        Transaction {
            version: bitcoin::transaction::Version(1),
            lock_time: LockTime::ZERO,
            input: vec![TxIn {
                previous_output: OutPoint::null(),
                script_sig: ScriptBuf::from_bytes(sig),
                sequence: Sequence(0xffffffff),
                witness: Witness::new(),
            }],
            output,
        }
    }

    /// A transaction spending a random non-empty subset of `avail` (removed from it).
    fn spend_tx(&mut self, rng: &mut Rng, avail: &mut Vec<((Vec<u8>, u32), u64)>, max_outputs: u64) -> Option<Transaction> {
        if avail.is_empty() {
            return None;
        }
        let n_in = rng.range(1, 3.min(avail.len() as u64));
        let mut input = vec![];
        let mut sum = 0u64;
        let segwit = rng.chance(1, 2);
        for _ in 0..n_in {
            let sl = rng.range(0, 100) as usize;
            let k = rng.below(avail.len() as u64) as usize;
            let ((txid, vout), value) = avail.swap_remove(k);
            sum += value;
            let mut witness = Witness::new();
            if segwit {
                let wl = rng.range(1, 72) as usize;
                witness.push(rng.bytes(wl));
                witness.push(rng.bytes(33));
            }
            input.push(TxIn {
                previous_output: OutPoint {
                    txid: bitcoin::Txid::from_byte_array(txid.clone().try_into().unwrap()),
                    vout,
                },
                script_sig: if segwit { ScriptBuf::new() } else { ScriptBuf::from_bytes(rng.bytes(sl)) },
                sequence: Sequence(0xfffffffd),
                witness,
            });
        }
        let n_out = rng.range(0, max_outputs);
        let mut output = vec![];
        // fee: usually a positive remainder; rarely outputs exceed inputs (no fee is recorded then)
        let mut budget = if rng.chance(1, 15) { sum + rng.range(1, 1000) } else { sum - sum.min(rng.range(0, sum / 4 + 1)) };
        for i in 0..n_out {
            let a = rng.pick(&self.pool).clone();
            let value = if a.kind == "opreturn" || rng.chance(1, 8) {
                0
            } else if i + 1 == n_out {
                budget
            } else {
                rng.range(0, budget / 2 + 1).min(budget)
            };
            budget -= value.min(budget);
            output.push(TxOut { value: Amount::from_sat(value), script_pubkey: a.script });
        }
        Some(Transaction {
            version: bitcoin::transaction::Version(if segwit { 2 } else { 1 }),
            lock_time: LockTime::from_consensus(rng.below(3) as u32),
            input,
            output,
        })
    }

    pub fn is_ancestor_or_self(&self, anc: usize, mut node: usize) -> bool {
        loop {
            if node == anc {
                return true;
            }
            match self.nodes[node].parent {
                Some(p) => node = p,
                None => return false,
            }
        }
    }

    /// Builds (does not deliver) a new block on `parent` and registers it as a node.
    pub fn new_block(&mut self, rng: &mut Rng, parent: usize, opts: &BlockOpts) -> usize {
        let pview = self.nodes[parent].view.clone();
        let ptxids = self.nodes[parent].txids.clone();
        let mut avail: Vec<((Vec<u8>, u32), u64)> = pview.iter().map(|(k, v)| (k.clone(), *v)).collect();
        // never spend the genesis coinbase
        let gtx = self.nodes[0].block.txdata()[0].txid().as_bytes().to_vec();
        avail.retain(|((t, _), _)| *t != gtx);
        let mut txs = vec![self.coinbase(rng, opts.max_outputs)];
        let mut view = pview;
        let mut txids = ptxids;
        let apply = |tx: &Transaction, view: &mut View, txids: &mut BTreeSet<Vec<u8>>, avail: &mut Vec<((Vec<u8>, u32), u64)>, spendable: bool| {
            let txid = tx.compute_txid().to_byte_array().to_vec();
            if !tx.is_coinbase() {
                for i in &tx.input {
                    view.remove(&(i.previous_output.txid.to_byte_array().to_vec(), i.previous_output.vout));
                }
            }
            for (i, o) in tx.output.iter().enumerate() {
                if !o.script_pubkey.is_op_return() {
                    view.insert((txid.clone(), i as u32), o.value.to_sat());
                    if spendable {
                        avail.push(((txid.clone(), i as u32), o.value.to_sat()));
                    }
                }
            }
            txids.insert(txid);
        };
        let cb = txs[0].clone();
        // coinbase outputs are spendable in the same block only in our model domain? (consensus
        // forbids it; the canister does not care). Keep them unspendable within the block.
        apply(&cb, &mut view, &mut txids, &mut avail, false);
        if let Some((pi, count)) = opts.many_outputs {
            // one transaction with `count` outputs to one address (needs an input)
            if !avail.is_empty() {
                let k = rng.below(avail.len() as u64) as usize;
                let ((txid, vout), _value) = avail.swap_remove(k);
                let a = self.pool[pi].clone();
                let tx = Transaction {
                    version: bitcoin::transaction::Version(1),
                    lock_time: LockTime::ZERO,
                    input: vec![TxIn {
                        previous_output: OutPoint { txid: bitcoin::Txid::from_byte_array(txid.try_into().unwrap()), vout },
                        script_sig: ScriptBuf::new(),
                        sequence: Sequence(0xffffffff),
                        witness: Witness::new(),
                    }],
                    output: (0..count).map(|i| TxOut { value: Amount::from_sat(1 + (i as u64 % 7)), script_pubkey: a.script.clone() }).collect(),
                };
                apply(&tx, &mut view, &mut txids, &mut avail, true);
                txs.push(tx);
            }
        }
        let n_tx = rng.range(0, opts.max_txs);
        for _ in 0..n_tx {
            // sometimes re-confirm a transaction that is confirmed on another fork
            if rng.chance(1, 5) && self.nodes.len() > 2 {
                let q = rng.below(self.nodes.len() as u64) as usize;
                if q != 0 && !self.is_ancestor_or_self(q, parent) {
                    let cands: Vec<Transaction> = self.nodes[q]
                        .block
                        .internal_bitcoin_block()
                        .txdata
                        .iter()
                        .filter(|t| !t.is_coinbase())
                        .filter(|t| !txids.contains(&t.compute_txid().to_byte_array().to_vec()))
                        .filter(|t| {
                            t.input.iter().all(|i| {
                                view.contains_key(&(i.previous_output.txid.to_byte_array().to_vec(), i.previous_output.vout))
                            })
                        })
                        .cloned()
                        .collect();
                    if !cands.is_empty() {
                        let tx = rng.pick(&cands).clone();
                        for i in &tx.input {
                            let key = (i.previous_output.txid.to_byte_array().to_vec(), i.previous_output.vout);
                            avail.retain(|(k, _)| *k != key);
                        }
                        apply(&tx, &mut view, &mut txids, &mut avail, true);
                        txs.push(tx);
                        continue;
                    }
                }
            }
            if let Some(tx) = self.spend_tx(rng, &mut avail, opts.max_outputs) {
                apply(&tx, &mut view, &mut txids, &mut avail, true);
                txs.push(tx);
            }
        }
        let merkle_root = bitcoin::merkle_tree::calculate_root(txs.iter().map(|tx| *tx.compute_txid().as_raw_hash())).unwrap();
        let p = &self.nodes[parent];
        let time = opts.time.unwrap_or(p.time + 600);
        let bits = opts.bits.unwrap_or(self.pow_limit_bits());
        let mut header = Header {
            version: Version::from_consensus(1),
            prev_blockhash: bitcoin::BlockHash::from_byte_array(p.block.block_hash().as_bytes().try_into().unwrap()),
            merkle_root: TxMerkleNode::from_raw_hash(merkle_root),
            time,
            bits: CompactTarget::from_consensus(bits),
            nonce: (self.nodes.len() as u32) << 8,
        };
        if opts.mine {
            let target = header.target();
            let mut tries = 0u32;
            while header.validate_pow(target).is_err() && tries < 300_000 {
                header.nonce = header.nonce.wrapping_add(1);
                tries += 1;
            }
        }
        let mut block = Block::new(BitcoinBlock { header, txdata: txs });
        block.mock_difficulty = Some(opts.difficulty);
        let height = p.height + 1;
        let idx = self.nodes.len();
        self.hash_index.insert(block.block_hash().as_bytes().to_vec(), idx);
        self.nodes.push(Node { block, parent: Some(parent), height, view, txids, diff: opts.difficulty, time });
        idx
    }

    pub fn addresses(&self) -> Vec<String> {
        self.pool.iter().filter_map(|a| a.text.clone()).collect()
    }
}
