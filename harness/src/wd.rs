//! C17 stream: the watchdog decision on the real watchdog crate (through its hooks).
use crate::out::{fnv, Out};
use crate::rng::Rng;
use watchdog::verif_hooks as wh;

fn show(o: Option<u64>) -> String {
    o.map(|v| v.to_string()).unwrap_or("x".into())
}

fn round(out: &mut Out, heights: &[Option<u64>], canister: Option<u64>) {
    wh::store_round(heights.to_vec(), canister);
    let (status, target, diff, flag) = wh::decide();
    let op = format!(
        "wd round {} {}",
        show(canister),
        heights.iter().map(|h| show(*h)).collect::<Vec<_>>().join(" ")
    );
    let obs = format!(
        "{} {} {} {}",
        status,
        show(target),
        diff.map(|d| d.to_string()).unwrap_or("x".into()),
        flag.map(|f| if f { "1" } else { "0" }.to_string()).unwrap_or("x".into())
    );
    out.count(&format!("status={}", status));
    out.count(&format!("failures={}", heights.iter().filter(|h| h.is_none()).count()));
    out.nontrivial(fnv(format!("{}|{}", op, obs).as_bytes()));
    out.emit(&op, &obs);
}

fn install(out: &mut Out, idx: usize, behind: u64, ahead: u64, min: u64) -> usize {
    wh::install(idx, behind, ahead, min);
    let n = wh::target_configs()[idx].4.len();
    out.begin_case(&format!("wd target={} behind={} ahead={} min={}", idx, behind, ahead, min));
    out.emit(&format!("wd cfg {} {} {} {}", behind, ahead, min, n), "-");
    n
}

pub fn run(out: &mut Out, ctx: &crate::Ctx) {
    let (seed, cases, thorough) = (ctx.seed, ctx.cases, ctx.thorough);
    let mut rng = Rng::new(seed);
    let cfgs = wh::target_configs();
    // Part 1 (exhaustive sub-space): for every target configuration, all result vectors
    // over a palette around the band edges, for a window of canister heights.
    let mut exhaustive = 0u64;
    for (idx, (_, behind, ahead, min, provs)) in cfgs.iter().enumerate() {
        if idx as u64 % ctx.shards != ctx.shard {
            continue;
        }
        let n = provs.len().min(if thorough { 5 } else { 4 });
        let base: u64 = 900_000;
        let palette: Vec<Option<u64>> = vec![
            None,
            Some(base - behind - 1),
            Some(base - behind),
            Some(base),
            Some(base + ahead),
            Some(base + ahead + 1),
        ];
        install(out, idx, *behind, *ahead, *min);
        let total = (palette.len() as u64).pow(n as u32);
        for code in 0..total {
            let mut c = code;
            let mut hs: Vec<Option<u64>> = vec![];
            for _ in 0..n {
                hs.push(palette[(c % palette.len() as u64) as usize]);
                c /= palette.len() as u64;
            }
            // providers beyond n fail in this sub-space
            while hs.len() < provs.len() {
                hs.push(None);
            }
            let cans = [None, Some(base - behind - 1), Some(base - behind), Some(base + ahead), Some(base + ahead + 1), Some(base)];
            for can in cans {
                round(out, &hs, can);
                exhaustive += 1;
            }
        }
    }
    out.count_n("exhaustive_rounds", exhaustive);
    // Part 2: random configurations, random multi-round histories (stale data, failures).
    for _ in 0..cases {
        let idx = rng.below(5) as usize;
        let (behind, ahead, min) = if rng.chance(1, 2) {
            (cfgs[idx].1, cfgs[idx].2, cfgs[idx].3)
        } else {
            (rng.range(0, 6), rng.range(0, 6), rng.range(0, 5))
        };
        let n = install(out, idx, behind, ahead, min);
        let base = rng.range(2_000, 2_000_000);
        let rounds = rng.range(1, 4);
        for _ in 0..rounds {
            let spread = *rng.pick(&[0u64, 1, 2, 3, 5, 10, 1500]);
            let hs: Vec<Option<u64>> = (0..n)
                .map(|_| {
                    if rng.chance(1, 4) {
                        None
                    } else {
                        Some(base + rng.range(0, 2 * spread) - spread)
                    }
                })
                .collect();
            let can = if rng.chance(1, 6) {
                None
            } else {
                let s = *rng.pick(&[0u64, 1, 2, 3, 4, 5, 8, 1001]);
                Some(base + rng.range(0, 2 * s) - s)
            };
            round(out, &hs, can);
        }
    }
}
