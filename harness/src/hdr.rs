//! `hdr` stream (C11): the header rules of the validation crate on synthetic header stores
//! (arbitrary bits / timestamps, heights around multiples of 2016, min-difficulty runs), for
//! the three networks. The required target and the timestamp rule are reached through
//! `verif_next_target` / `verif_is_timestamp_valid` so that no proof of work has to be mined;
//! whole-header validation (incl. proof of work) is exercised on regtest by the `sync` stream.
use crate::out::{fnv, Out};
use crate::rng::Rng;
use bitcoin::block::{Header, Version};
use bitcoin::hashes::Hash;
use bitcoin::{BlockHash, CompactTarget, TxMerkleNode};
use ic_btc_validation::{HeaderStore, HeaderValidator, ValidateHeaderError};
use std::collections::BTreeMap;
use std::time::Duration;

#[derive(Clone)]
struct SynthStore {
    by_hash: BTreeMap<BlockHash, (u32, Header)>,
    by_height: BTreeMap<u32, Header>,
    tip_height: u32,
}

impl HeaderStore for SynthStore {
    fn get_with_block_hash(&self, hash: &BlockHash) -> Option<Header> {
        self.by_hash.get(hash).map(|x| x.1)
    }
    fn get_with_height(&self, height: u32) -> Option<Header> {
        self.by_height.get(&height).cloned()
    }
    fn height(&self) -> u32 {
        self.tip_height
    }
}

fn hdr_text(height: u32, h: &Header) -> String {
    format!(
        "{}:{}:{}:{}:{}",
        height,
        hex::encode(h.block_hash().to_byte_array()),
        hex::encode(h.prev_blockhash.to_byte_array()),
        h.time,
        h.bits.to_consensus()
    )
}

fn net_name(n: bitcoin::Network) -> &'static str {
    match n {
        bitcoin::Network::Bitcoin => "mainnet",
        bitcoin::Network::Testnet4 => "testnet",
        _ => "regtest",
    }
}

fn pow_limit(n: bitcoin::Network) -> u32 {
    match n {
        bitcoin::Network::Regtest => 0x207fffff,
        _ => 0x1d00ffff,
    }
}

fn mk(prev: BlockHash, time: u32, bits: u32, salt: u32) -> Header {
    Header {
        version: Version::from_consensus(1),
        prev_blockhash: prev,
        merkle_root: TxMerkleNode::all_zeros(),
        time,
        bits: CompactTarget::from_consensus(bits),
        nonce: salt,
    }
}

fn err_text(e: &ValidateHeaderError) -> &'static str {
    match e {
        ValidateHeaderError::HeaderIsOld => "old",
        ValidateHeaderError::HeaderIsTooFarInFuture { .. } => "future",
        _ => "other",
    }
}

pub fn run_case(out: &mut Out, rng: &mut Rng, thorough: bool, case_no: u64) {
    let network = *rng.pick(&[bitcoin::Network::Bitcoin, bitcoin::Network::Testnet4, bitcoin::Network::Regtest]);
    let limit = pow_limit(network);
    // a window of consecutive heights [base, base+len) plus the initial header at height 0
    let boundary = 2016 * rng.range(1, 3) as u32;
    let (base, len) = match rng.below(4) {
        0 => (0u32, rng.range(2, 40) as u32),                                    // from genesis
        1 => (boundary - rng.range(1, 30) as u32, rng.range(5, 60) as u32),       // straddles a boundary, short
        2 if thorough || rng.chance(1, 2) => (boundary - 2016, 2016 + rng.range(0, 20) as u32), // a full period
        _ => (rng.range(1, 5000) as u32, rng.range(2, 60) as u32),
    };
    let mut store = SynthStore { by_hash: BTreeMap::new(), by_height: BTreeMap::new(), tip_height: 0 };
    let genesis = mk(BlockHash::all_zeros(), 1_600_000_000, limit, 0);
    let mut texts = vec![];
    store.by_hash.insert(genesis.block_hash(), (0, genesis));
    store.by_height.insert(0, genesis);
    texts.push(hdr_text(0, &genesis));
    let hard_bits = *rng.pick(&[0x1c0ffff0u32, 0x1b04864c, 0x1d00ffff, 0x1a05db8b, 0x1d00fffe]);
    let min_run = rng.chance(1, 2);
    let mut prev = if base == 0 { genesis } else { mk(BlockHash::from_byte_array([7; 32]), 1_600_000_000 + base * 600, hard_bits, 1) };
    if base != 0 {
        store.by_hash.insert(prev.block_hash(), (base, prev));
        store.by_height.insert(base, prev);
        texts.push(hdr_text(base, &prev));
    }
    let mut time = prev.time;
    for i in 1..len {
        let height = base + i;
        let step = match rng.below(10) {
            0 => 1,
            1 => 1201 + rng.range(0, 5000) as u32,
            2 => 1200,
            3 => 0,
            _ => rng.range(1, 1200) as u32,
        };
        time = if rng.chance(1, 12) { time.saturating_sub(rng.range(0, 3000) as u32) } else { time + step };
        let bits = if network == bitcoin::Network::Regtest {
            if rng.chance(1, 6) { hard_bits } else { limit }
        } else if min_run && rng.chance(2, 3) {
            limit
        } else {
            hard_bits
        };
        let h = mk(prev.block_hash(), time, bits, height);
        store.by_hash.insert(h.block_hash(), (height, h));
        store.by_height.insert(height, h);
        texts.push(hdr_text(height, &h));
        prev = h;
    }
    out.begin_case(&format!("hdr net={} base={} len={}", net_name(network), base, len));
    out.emit(&format!("h store {} {}", net_name(network), texts.join(";")), "-");
    let heights: Vec<u32> = store.by_height.keys().cloned().filter(|h| *h != 0 || base == 0).collect();
    let n_q = if thorough { 40 } else { 14 };
    let mut fp = format!("{}|{}|{}", net_name(network), base, len);
    for _ in 0..n_q {
        // required target for a successor of the header at `ph`
        let pre_boundary: Vec<u32> = heights.iter().cloned().filter(|h| (h + 1) % 2016 == 0).collect();
        let ph = if !pre_boundary.is_empty() && rng.chance(1, 3) {
            *rng.pick(&pre_boundary)
        } else if rng.chance(1, 3) {
            *heights.last().unwrap()
        } else {
            *rng.pick(&heights)
        };
        let p = store.by_height[&ph];
        let ts = match rng.below(4) {
            0 => p.time + 1200,
            1 => p.time + 1201,
            2 => p.time.saturating_sub(100),
            _ => p.time + rng.range(0, 3000) as u32,
        };
        let mut st = store.clone();
        st.tip_height = ph;
        let v = HeaderValidator::new(st, network);
        let r = crate::canister::guarded(|| v.verif_next_target(&p, ph, ts));
        let obs = match r {
            Ok(t) => hex::encode(t.to_be_bytes()),
            Err(_) => "trap".into(),
        };
        out.count(&format!("next:{}:{}", net_name(network), if obs == "trap" { "trap" } else if (ph + 1) % 2016 == 0 { "boundary" } else { "inside" }));
        fp.push_str(&obs[obs.len().saturating_sub(6)..]);
        out.emit(&format!("h next {} {}", ph, ts), &obs);
        // timestamp rule for a candidate extending `p`
        let cand_time = match rng.below(3) { 0 => p.time, 1 => p.time.saturating_sub(rng.range(0, 4000) as u32), _ => p.time + rng.range(0, 9000) as u32 };
        let now = match rng.below(3) { 0 => cand_time as u64, 1 => (cand_time as u64).saturating_sub(7200), _ => (cand_time as u64).saturating_sub(rng.range(7000, 7400)) };
        let cand = mk(p.block_hash(), cand_time, p.bits.to_consensus(), 99);
        let r = crate::canister::guarded(|| v.verif_is_timestamp_valid(&cand, Duration::from_secs(now)));
        let obs = match r {
            Ok(Ok(())) => "ok".to_string(),
            Ok(Err(e)) => err_text(&e).to_string(),
            Err(_) => "trap".into(),
        };
        out.count(&format!("ts:{}", obs));
        out.emit(&format!("h ts {} {} {}", ph, cand_time, now), &obs);
    }
    out.nontrivial(fnv(fp.as_bytes()) ^ case_no);
}

pub fn run(out: &mut Out, ctx: &crate::Ctx) {
    for k in 0..ctx.cases {
        if let Some(only) = ctx.only_case {
            if only != k {
                continue;
            }
        }
        let mut rng = Rng::new(ctx.seed.wrapping_mul(3_000_017).wrapping_add(k));
        run_case(out, &mut rng, ctx.thorough, k);
    }
}
