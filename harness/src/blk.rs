//! `blk` stream (C12): `BlockValidator::validate_block` on regtest blocks whose header is
//! valid by construction (mined on the genesis block), with every merkle-preserving
//! duplication mutation (CVE-2012-2459) per level, swaps, removals, reorderings and
//! malleated copies (same normalised id, different id).
use crate::canister::{block_text, guarded};
use crate::out::{fnv, Out};
use crate::rng::Rng;
use bitcoin::absolute::LockTime;
use bitcoin::block::{Header, Version};
use bitcoin::hashes::Hash;
use bitcoin::{Amount, Block as BitcoinBlock, CompactTarget, OutPoint, ScriptBuf, Sequence, Transaction, TxIn, TxMerkleNode, TxOut, Witness};
use ic_btc_interface::Network;
use ic_btc_types::Block;
use ic_btc_validation::{BlockValidator, HeaderStore, ValidateBlockError};
use std::time::Duration;

struct GenesisStore(Header);
impl HeaderStore for GenesisStore {
    fn get_with_block_hash(&self, hash: &bitcoin::BlockHash) -> Option<Header> {
        if *hash == self.0.block_hash() { Some(self.0) } else { None }
    }
    fn get_with_height(&self, height: u32) -> Option<Header> {
        if height == 0 { Some(self.0) } else { None }
    }
    fn height(&self) -> u32 { 0 }
}

fn rand_tx(rng: &mut Rng, coinbase: bool, salt: u64) -> Transaction {
    let segwit = !coinbase && rng.chance(1, 2);
    let n_in = if coinbase { 1 } else { rng.range(1, 3) };
    let mut input = vec![];
    for k in 0..n_in {
        let mut witness = Witness::new();
        if segwit { witness.push(rng.bytes(20)); }
        input.push(TxIn {
            previous_output: if coinbase { OutPoint::null() } else { OutPoint { txid: bitcoin::Txid::from_byte_array(rng.bytes(32).try_into().unwrap()), vout: rng.below(4) as u32 } },
            script_sig: ScriptBuf::from_bytes(if coinbase { salt.to_le_bytes().to_vec() } else if segwit { vec![] } else { rng.bytes(1 + k as usize) }),
            sequence: Sequence(0xffffffff),
            witness,
        });
    }
    let n_out = rng.range(1, 3);
    Transaction {
        version: bitcoin::transaction::Version(2),
        lock_time: LockTime::ZERO,
        input,
        output: (0..n_out).map(|_| TxOut { value: Amount::from_sat(rng.range(0, 100_000)), script_pubkey: ScriptBuf::from_bytes(rng.bytes(22)) }).collect(),
    }
}

fn err_text(e: &ValidateBlockError) -> String {
    match e {
        ValidateBlockError::NoTransactions => "NoTransactions".into(),
        ValidateBlockError::InvalidCoinbase => "InvalidCoinbase".into(),
        ValidateBlockError::InvalidMerkleRoot => "InvalidMerkleRoot".into(),
        ValidateBlockError::DuplicateTransactions => "DuplicateTransactions".into(),
        ValidateBlockError::InvalidBlockHeader(h) => format!("hdr:{:?}", h),
    }
}

pub fn run_case(out: &mut Out, rng: &mut Rng, thorough: bool, case_no: u64) {
    let genesis = bitcoin::blockdata::constants::genesis_block(bitcoin::Network::Regtest);
    let n = match rng.below(4) { 0 => rng.range(1, 4), 1 => *rng.pick(&[3u64, 5, 6, 7, 9, 10, 12, 14, 20, 24]), 2 => *rng.pick(&[1u64, 2, 4, 8, 16, 32]), _ => rng.range(1, if thorough { 40 } else { 20 }) };
    let mut txs: Vec<Transaction> = vec![rand_tx(rng, true, case_no)];
    for _ in 1..n { txs.push(rand_tx(rng, false, 0)); }
    // sometimes plant a malleated twin in the committed list (same ntxid, different txid)
    if n >= 2 && rng.chance(1, 6) {
        let k = rng.range(1, n - 1) as usize;
        if txs[k].input[0].witness.is_empty() {
            let mut twin = txs[k].clone();
            twin.input[0].script_sig = ScriptBuf::from_bytes(rng.bytes(9));
            txs.push(twin);
            out.count("planted:malleated-twin");
        }
    }
    if rng.chance(1, 12) { txs[0] = rand_tx(rng, false, 0); out.count("planted:no-coinbase"); }
    let root = bitcoin::merkle_tree::calculate_root(txs.iter().map(|t| *t.compute_txid().as_raw_hash())).unwrap();
    let mut header = Header {
        version: Version::from_consensus(1),
        prev_blockhash: genesis.block_hash(),
        merkle_root: TxMerkleNode::from_raw_hash(root),
        time: genesis.header.time + 600,
        bits: CompactTarget::from_consensus(0x207fffff),
        nonce: 0,
    };
    while header.validate_pow(header.target()).is_err() { header.nonce += 1; }
    let validator = BlockValidator::new(GenesisStore(genesis.header), bitcoin::Network::Regtest);
    out.begin_case(&format!("blk n={}", txs.len()));
    let mut fp = format!("{}", txs.len());
    let mut variants: Vec<(String, Vec<Transaction>)> = vec![("original".into(), txs.clone())];
    // every CVE-2012-2459 mutation: len = 2^j * m, m odd >= 3: append the last 2^j transactions
    let len = txs.len();
    let mut j = 0;
    while (1usize << j) <= len {
        let p = 1usize << j;
        if len % p == 0 && (len / p) % 2 == 1 && len / p >= 3 {
            let mut v = txs.clone();
            v.extend_from_slice(&txs[len - p..]);
            variants.push((format!("cve-level-{}", j), v));
        }
        j += 1;
    }
    if len >= 1 { let mut v = txs.clone(); v.push(txs[len - 1].clone()); variants.push(("dup-last".into(), v)); }
    if len >= 2 { let mut v = txs.clone(); let a = rng.below(len as u64) as usize; let b = rng.below(len as u64) as usize; v.swap(a, b); variants.push(("swap".into(), v)); }
    if len >= 2 { let mut v = txs.clone(); v.remove(rng.below(len as u64) as usize); variants.push(("remove".into(), v)); }
    if len >= 1 { let mut v = txs.clone(); let k = rng.below(len as u64) as usize; v.insert(rng.below(len as u64 + 1) as usize, txs[k].clone()); variants.push(("dup-random".into(), v)); }
    variants.push(("empty".into(), vec![]));
    if len >= 2 {
        // witness malleation keeps both ids; scriptSig malleation changes the id
        let mut v = txs.clone();
        let k = rng.range(1, len as u64 - 1) as usize;
        if !v[k].input[0].witness.is_empty() { v[k].input[0].witness.push(rng.bytes(3)); variants.push(("witness-malleated".into(), v)); }
        else { v[k].input[0].script_sig = ScriptBuf::from_bytes(rng.bytes(5)); variants.push(("scriptsig-malleated".into(), v)); }
    }
    for (name, v) in variants {
        let blk = BitcoinBlock { header, txdata: v };
        let r = guarded(|| validator.validate_block(&blk, Duration::from_secs(2_000_000_000)));
        let obs = match r { Err(_) => "trap".to_string(), Ok(Ok(())) => "ok".to_string(), Ok(Err(e)) => err_text(&e) };
        out.count(&format!("{}:{}", name.split("-level").next().unwrap(), obs));
        fp.push_str(&obs[..2]);
        let b = Block::new(blk);
        out.emit(&format!("b validate {} {}", block_text(&b, Network::Regtest), crate::canister::block_hex(&b)), &obs);
    }
    out.nontrivial(fnv(fp.as_bytes()) ^ case_no.wrapping_mul(0x9E3779B97F4A7C15));
}

pub fn run(out: &mut Out, ctx: &crate::Ctx) {
    for k in 0..ctx.cases {
        if let Some(only) = ctx.only_case { if only != k { continue; } }
        let mut rng = Rng::new(ctx.seed.wrapping_mul(4_000_037).wrapping_add(k));
        run_case(out, &mut rng, ctx.thorough, k);
    }
}
