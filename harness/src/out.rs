//! Output of a stream: `ops.txt` (input of the Lean driver), `impl.txt` (what the real code
//! answered, one line per op line) and `stats.json` (distribution of what was generated).
use std::collections::BTreeMap;
use std::fs::File;
use std::io::{BufWriter, Write};
use std::path::{Path, PathBuf};

pub struct Out {
    ops: BufWriter<File>,
    imp: BufWriter<File>,
    pub dir: PathBuf,
    pub lines: u64,
    pub cases: u64,
    pub hist: BTreeMap<String, u64>,
    pub samples: Vec<String>,
    cur_case: Vec<String>,
    pub nontrivial_keys: std::collections::BTreeSet<u64>,
}

impl Out {
    pub fn new(dir: &Path) -> Out {
        std::fs::create_dir_all(dir).unwrap();
        Out {
            ops: BufWriter::new(File::create(dir.join("ops.txt")).unwrap()),
            imp: BufWriter::new(File::create(dir.join("impl.txt")).unwrap()),
            dir: dir.to_path_buf(),
            lines: 0,
            cases: 0,
            hist: BTreeMap::new(),
            samples: vec![],
            cur_case: vec![],
            nontrivial_keys: Default::default(),
        }
    }

    /// One protocol line and the implementation's observation for it.
    pub fn emit(&mut self, op: &str, obs: &str) {
        debug_assert!(!op.contains('\n') && !obs.contains('\n'));
        writeln!(self.ops, "{}", op).unwrap();
        writeln!(self.imp, "{}", obs).unwrap();
        self.lines += 1;
        if self.samples.len() < 3 && self.cur_case.len() < 12 {
            let mut o = op.to_string();
            if o.len() > 300 {
                o.truncate(300);
                o.push_str("...");
            }
            let mut b = obs.to_string();
            if b.len() > 200 {
                b.truncate(200);
                b.push_str("...");
            }
            self.cur_case.push(format!("{}  =>  {}", o, b));
        }
    }

    pub fn begin_case(&mut self, label: &str) {
        self.end_case();
        self.cases += 1;
        self.emit(&format!("case {} {}", self.cases, label), "-");
    }

    pub fn end_case(&mut self) {
        if !self.cur_case.is_empty() && self.samples.len() < 3 {
            self.samples.push(self.cur_case.join(" ;; "));
        }
        self.cur_case.clear();
    }

    pub fn count(&mut self, key: &str) {
        *self.hist.entry(key.to_string()).or_insert(0) += 1;
    }

    pub fn count_n(&mut self, key: &str, n: u64) {
        *self.hist.entry(key.to_string()).or_insert(0) += n;
    }

    /// Registers a case as non-trivial under a hash of its distinguishing content.
    pub fn nontrivial(&mut self, key: u64) {
        self.nontrivial_keys.insert(key);
    }

    pub fn finish(mut self, extra: &[(&str, String)]) {
        self.end_case();
        self.ops.flush().unwrap();
        self.imp.flush().unwrap();
        let mut s = String::from("{\n");
        s.push_str(&format!("  \"lines\": {},\n  \"cases\": {},\n", self.lines, self.cases));
        s.push_str(&format!(
            "  \"distinct_nontrivial\": {},\n",
            self.nontrivial_keys.len()
        ));
        for (k, v) in extra {
            s.push_str(&format!("  {}: {},\n", json_str(k), v));
        }
        s.push_str("  \"hist\": {");
        let mut first = true;
        for (k, v) in &self.hist {
            if !first {
                s.push(',');
            }
            first = false;
            s.push_str(&format!("\n    {}: {}", json_str(k), v));
        }
        s.push_str("\n  },\n  \"samples\": [");
        let mut first = true;
        for smp in &self.samples {
            if !first {
                s.push(',');
            }
            first = false;
            s.push_str(&format!("\n    {}", json_str(smp)));
        }
        s.push_str("\n  ]\n}\n");
        std::fs::write(self.dir.join("stats.json"), s).unwrap();
    }
}

pub fn json_str(s: &str) -> String {
    let mut o = String::from("\"");
    for c in s.chars() {
        match c {
            '"' => o.push_str("\\\""),
            '\\' => o.push_str("\\\\"),
            '\n' => o.push_str("\\n"),
            '\t' => o.push_str("\\t"),
            c if (c as u32) < 0x20 => o.push_str(&format!("\\u{:04x}", c as u32)),
            c => o.push(c),
        }
    }
    o.push('"');
    o
}

pub fn fnv(data: &[u8]) -> u64 {
    let mut h: u64 = 0xcbf29ce484222325;
    for b in data {
        h ^= *b as u64;
        h = h.wrapping_mul(0x100000001b3);
    }
    h
}
