//! `txc` stream (C19): `bitcoin::consensus::deserialize::<Transaction>` (what send_transaction
//! calls) on serialisations of arbitrary transactions, each truncated / extended / bit-flipped /
//! with non-minimal or oversized length prefixes, and on garbage.
use crate::out::{fnv, Out};
use crate::rng::Rng;
use bitcoin::absolute::LockTime;
use bitcoin::hashes::Hash;
use bitcoin::{Amount, OutPoint, ScriptBuf, Sequence, Transaction, TxIn, TxOut, Witness};

fn rand_tx(rng: &mut Rng) -> Transaction {
    let n_in = *rng.pick(&[0u64, 1, 1, 1, 2, 3]);
    let segwit = rng.chance(1, 2);
    let mut input = vec![];
    for _ in 0..n_in {
        let mut witness = Witness::new();
        if segwit && rng.chance(3, 4) {
            for _ in 0..rng.range(1, 3) {
                let n = rng.range(0, 40) as usize;
                witness.push(rng.bytes(n));
            }
        }
        let sl = rng.range(0, 30) as usize;
        input.push(TxIn {
            previous_output: OutPoint { txid: bitcoin::Txid::from_byte_array(rng.bytes(32).try_into().unwrap()), vout: rng.next() as u32 },
            script_sig: ScriptBuf::from_bytes(rng.bytes(sl)),
            sequence: Sequence(rng.next() as u32),
            witness,
        });
    }
    let n_out = *rng.pick(&[0u64, 1, 1, 2, 3]);
    let output = (0..n_out)
        .map(|_| { let n = *rng.pick(&[0usize, 22, 25, 34, 253, 300]); TxOut { value: Amount::from_sat(rng.next() >> rng.below(40)), script_pubkey: ScriptBuf::from_bytes(rng.bytes(n)) } })
        .collect();
    Transaction { version: bitcoin::transaction::Version(rng.next() as i32), lock_time: LockTime::from_consensus(rng.next() as u32), input, output }
}

pub fn run_case(out: &mut Out, rng: &mut Rng, _thorough: bool, case_no: u64) {
    out.begin_case("txc");
    let tx = rand_tx(rng);
    let ser = bitcoin::consensus::serialize(&tx);
    let mut variants: Vec<(&str, Vec<u8>)> = vec![("exact", ser.clone())];
    { let mut v = ser.clone(); let n = rng.range(1, 5) as usize; v.extend(rng.bytes(n)); variants.push(("extended", v)); }
    { let mut v = ser.clone(); let n = rng.below(v.len() as u64) as usize; v.truncate(n); variants.push(("truncated", v)); }
    for _ in 0..3 { let mut v = ser.clone(); let i = rng.below(v.len() as u64) as usize; v[i] ^= 1 << rng.below(8); variants.push(("bitflip", v)); }
    // replace a one-byte length prefix by a non-minimal / 9-byte one at a random position holding a small byte
    for _ in 0..2 {
        let mut v = ser.clone();
        let i = rng.below(v.len() as u64) as usize;
        let b = v[i];
        if b < 0xfd {
            let repl: Vec<u8> = match rng.below(4) {
                0 => vec![0xfd, b, 0],
                1 => vec![0xfe, b, 0, 0, 0],
                2 => vec![0xff, b, 0, 0, 0, 0, 0, 0, 0],
                _ => vec![0xff, b, 0, 0, 0, 1, 0, 0, 0], // 2^32 + b: truncates to b on 32-bit targets
            };
            v.splice(i..i + 1, repl);
            variants.push(("varint-mangled", v));
        }
    }
    { let n = rng.range(0, 80) as usize; variants.push(("garbage", rng.bytes(n))); }
    // segwit marker edge cases
    { let mut v = ser.clone(); if v.len() > 6 { v[4] = 0; v[5] = *rng.pick(&[0u8, 1, 2]); } variants.push(("marker-mangled", v)); }
    let mut fp = String::new();
    for (name, bytes) in variants {
        let r = crate::canister::guarded(|| bitcoin::consensus::deserialize::<Transaction>(&bytes));
        let obs = match r {
            Err(_) => "trap".to_string(),
            Ok(Err(_)) => "reject".to_string(),
            Ok(Ok(t)) => format!("accept reencodes={}", (bitcoin::consensus::serialize(&t) == bytes) as u8),
        };
        out.count(&format!("{}:{}", name, obs.split(' ').next().unwrap()));
        fp.push_str(&obs[..3]);
        out.emit(&format!("x decode {}", if bytes.is_empty() { "-".to_string() } else { hex::encode(&bytes) }), &obs);
    }
    out.nontrivial(fnv(fp.as_bytes()) ^ fnv(&ser) ^ case_no);
}

pub fn run(out: &mut Out, ctx: &crate::Ctx) {
    for k in 0..ctx.cases {
        if let Some(only) = ctx.only_case { if only != k { continue; } }
        let mut rng = Rng::new(ctx.seed.wrapping_mul(6_000_101).wrapping_add(k));
        run_case(out, &mut rng, ctx.thorough, k);
    }
}
