//! `ledger` stream: direct block feed (`unstable_blocks::push`, as the repo's unit tests do),
//! explicit ingestion rounds with chosen budgets, and every query endpoint in between.
//! Serves C01-C08, C15, C20 (and the tree part of C02/C03).
use crate::canister as c;
use crate::out::{fnv, Out};
use crate::rng::Rng;
use crate::world::{BlockOpts, DiffMode, World};
use ic_btc_canister as can;
use ic_btc_interface::Network;

/// An interleaved page walk (C06): pages of one request are fetched with other messages in between.
pub struct Walk {
    pub addr: String,
    pub limit: usize,
    pub next: Option<Vec<u8>>,
    pub tip: (u32, Vec<u8>),
    pub collected: Vec<(u32, Vec<u8>, u32, u64)>,
    pub same_tip: bool,
    pub pages: u32,
}

/// Labelled answers of every query endpoint (C08: identical at every pause of a sliced ingestion).
pub fn observation_vector(network: Network, addrs: &[String]) -> (Vec<(String, String)>, String) {
    let info = c::get_info();
    let f: Vec<&str> = info.split(' ').collect();
    let mut v = vec![("info".to_string(), f[..4].join(" "))];
    for (i, a) in addrs.iter().enumerate() {
        v.push((format!("utxos{}", i), c::get_utxos_all(a, network, &c::Filter::None, None)));
        v.push((format!("balance{}", i), c::get_balance(a, network, None)));
        v.push((format!("utxos{}c2", i), c::get_utxos_all(a, network, &c::Filter::MinConf(2), None)));
        v.push((format!("balance{}c2", i), c::get_balance(a, network, Some(2))));
    }
    v.push(("headers".to_string(), c::get_headers(network, 0, None)));
    (v, f[4].to_string())
}

pub struct Case {
    pub pre_ingest: Option<(Vec<(String, String)>, String)>,
    pub walk: Option<Walk>,
    pub world: World,
    pub alive: Vec<usize>,
    pub network: Network,
    pub thr: u32,
    pub mode: DiffMode,
}

/// C05: the implementation's balance minus the sum of the values of the UTXOs the implementation
/// returned for the same request (`diff=0` is the property); the error text if the balance call failed
fn sum_diff(balance_obs: &str, utxo_sum: u64) -> String {
    match balance_obs.strip_prefix("ok ").and_then(|b| b.parse::<i128>().ok()) {
        Some(b) => format!("diff={}", b - utxo_sum as i128),
        None => balance_obs.to_string(),
    }
}

/// C03: how many of the heights below the stable height have a block on record in the stable header
/// store (`k/k` is the property: the block recorded at a stable height exists and never changes)
pub fn recorded() -> String {
    can::with_state(|s| {
        let n = s.utxos.next_height();
        let have = (0..n).filter(|h| s.stable_block_headers.block_heights.get(h).is_some()).count();
        format!("recorded={}/{}", have, n)
    })
}

pub fn sync_alive(case: &mut Case) {
    let hashes = can::with_state(can::state::get_block_hashes);
    case.alive = hashes
        .iter()
        .filter_map(|h| case.world.hash_index.get(&h.as_bytes().to_vec()).cloned())
        .collect();
}

pub fn pick_difficulty(rng: &mut Rng, mode: DiffMode, case: &Case, parent: usize) -> u128 {
    match mode {
        DiffMode::Equal => 1,
        DiffMode::Small => rng.range(1, 3) as u128,
        DiffMode::Ties => {
            // aim at exact ties of accumulated difficulty between the branches below the anchor
            // (with different numbers of blocks): give the new block the difficulty that makes its
            // branch catch up exactly with the heaviest rival branch, when that is between 1 and 8
            let root = case.alive[0];
            let acc = |mut n: usize| -> (u128, Option<usize>) {
                // (accumulated difficulty from the anchor's child down to n, that child)
                let mut sum = 0u128;
                let mut top = None;
                while n != root {
                    sum += case.world.nodes[n].diff;
                    top = Some(n);
                    match case.world.nodes[n].parent { Some(p) => n = p, None => break }
                }
                (sum, top)
            };
            let (own, own_top) = acc(parent);
            let rival = case.alive.iter().map(|&n| acc(n)).filter(|(_, t)| t.is_some() && *t != own_top).map(|(s, _)| s).max();
            match rival {
                Some(r) if r > own && r - own <= 8 && rng.chance(2, 3) => r - own,
                _ => *rng.pick(&[1u128, 1, 2, 2, 4]),
            }
        }
        DiffMode::HeavyLight => {
            // children of the same parent alternate between heavy and light branches
            let siblings = case.world.nodes.iter().filter(|n| n.parent == Some(parent)).count();
            let pd = case.world.nodes[parent].diff;
            if case.world.nodes[parent].parent.is_none() || siblings > 0 {
                if rng.chance(1, 2) { rng.range(5, 9) as u128 } else { 1 }
            } else {
                pd.max(1)
            }
        }
    }
}

pub fn pick_parent(rng: &mut Rng, case: &Case) -> usize {
    let alive = &case.alive;
    let r = rng.below(10);
    if r < 5 {
        // extend a tip (a node without alive children)
        let tips: Vec<usize> = alive
            .iter()
            .cloned()
            .filter(|i| !alive.iter().any(|j| case.world.nodes[*j].parent == Some(*i)))
            .collect();
        // prefer the deepest tips
        let maxh = tips.iter().map(|i| case.world.nodes[*i].height).max().unwrap();
        let best: Vec<usize> = tips.iter().cloned().filter(|i| case.world.nodes[*i].height + 1 >= maxh).collect();
        if rng.chance(2, 3) { *rng.pick(&best) } else { *rng.pick(&tips) }
    } else if r < 7 {
        // fork near the anchor
        alive[rng.below(alive.len().min(3) as u64) as usize]
    } else {
        *rng.pick(alive)
    }
}

/// A request address: (string sent to the canister, protocol token, canonical text if accepted).
/// The string is usually an address of the pool; sometimes its upper-case spelling (valid for
/// bech32), a mixed-case / corrupted / truncated / padded variant, an address of another network, or
/// junk. The token carries the classification the REAL parser gives (`Address::from_str_checked`)
/// and the string itself (hex), which the model parses on its own.
pub fn addr_arg(world: &World, rng: &mut Rng) -> (String, String, Option<String>) {
    let addrs = world.addresses();
    let others: &[&str] = match world.network {
        Network::Mainnet => &["bcrt1qg4cvn305es3k8j69x06t9hf4v5yx4mxdaeazl8", "tb1qw508d6qejxtdg4y5r3zarvary0c5xw7kxpjzsx", "mipcBbFg9gMiCh81Kj8tqqdgoZub1ZJRfn", "2MzQwSSnBHWHqSAqtTVQ6v47XtaisrJa1Vc"],
        Network::Testnet => &["bc1qar0srrr7xfkvy5l643lydnw9re59gtzzwf5mdq", "bcrt1qg4cvn305es3k8j69x06t9hf4v5yx4mxdaeazl8", "1BvBMSEYstWetqTFn5Au4m4GFg7xJaNVN2", "3J98t1WpEZ73CNmQviecrnyiWrnqRhWNLy", "mipcBbFg9gMiCh81Kj8tqqdgoZub1ZJRfn"],
        Network::Regtest => &["bc1qar0srrr7xfkvy5l643lydnw9re59gtzzwf5mdq", "tb1qw508d6qejxtdg4y5r3zarvary0c5xw7kxpjzsx", "1BvBMSEYstWetqTFn5Au4m4GFg7xJaNVN2", "bc1p5cyxnuxmeuwuvkwfem96lqzszd02n6xdcjrs20cac6yqjjwudpxqkedrcr", "2MzQwSSnBHWHqSAqtTVQ6v47XtaisrJa1Vc"],
    };
    let base = rng.pick(&addrs).clone();
    let s: String = match rng.below(24) {
        0 => "not-an-address".to_string(),
        1 => rng.pick(others).to_string(),
        2 => base.to_uppercase(),
        3 => {
            // one letter in the other case
            let mut cs: Vec<char> = base.chars().collect();
            let i = rng.below(cs.len() as u64) as usize;
            cs[i] = if cs[i].is_ascii_lowercase() { cs[i].to_ascii_uppercase() } else { cs[i].to_ascii_lowercase() };
            cs.into_iter().collect()
        }
        4 => {
            // one character replaced
            let mut cs: Vec<char> = base.chars().collect();
            let i = rng.below(cs.len() as u64) as usize;
            cs[i] = *rng.pick(&['q', 'z', '2', 'X', '1', 'b']);
            cs.into_iter().collect()
        }
        5 => format!("{} ", base),
        6 => base[..base.len() - 1].to_string(),
        7 => String::new(),
        8 => rng.pick(others).to_uppercase(),
        _ => base.clone(),
    };
    let hexs = if s.is_empty() { "-".to_string() } else { hex::encode(s.as_bytes()) };
    match can::types::Address::from_str_checked(&s, world.network) {
        Ok(a) => { let canon = a.to_string(); (s, format!("a:{}~{}", canon, hexs), Some(canon)) }
        Err(can::types::AddressParseError::MalformedAddress) => (s, format!("bad:{}", hexs), None),
        Err(_) => (s, format!("wrongnet:{}", hexs), None),
    }
}

pub fn queries(out: &mut Out, rng: &mut Rng, case: &Case, heavy: bool) {
    let net = case.network;
    out.emit("c q info", &c::get_info());
    let addrs = case.world.addresses();
    let n_addr_queries = if heavy { addrs.len() } else { 2 };
    for k in 0..n_addr_queries {
        let (req, tok, canon) = if heavy { (addrs[k].clone(), format!("a:{}", addrs[k]), Some(addrs[k].clone())) } else { addr_arg(&case.world, rng) };
        // `req` goes to the canister; the specification lines are about the address it denotes
        let text = canon.unwrap_or_else(|| req.clone());
        // complete answer, no filter, small page size through the hook and the real endpoint
        let lim = *rng.pick(&[1usize, 2, 3, 5, 1000]);
        let (obs, parsed) = c::get_utxos_all_parsed(&req, net, &c::Filter::None, if lim == 1000 { None } else { Some(lim) });
        out.emit(&format!("c q utxosall {} none {}", tok, lim), &obs);
        let bal = c::get_balance(&req, net, None);
        out.emit(&format!("c q balance {} x", tok), &bal);
        if let Some(p) = &parsed {
            // C01: the answer against the ledger at the tip it names
            out.emit(
                &format!("c ledgerat {} {}", text, p.tip_hash),
                &format!("{} {}", p.tip_height, c::canonical_set_text(&p.utxos)),
            );
            // C02: all endpoints agree on the heaviest tip; C05: balance = sum
            let info = c::get_info();
            let f: Vec<&str> = info.split(' ').collect();
            let hdr = c::get_headers(net, f[0].parse().unwrap(), None);
            let hdr_tip = hdr.split(' ').nth(1).unwrap_or("?").to_string();
            let last_hdr = hdr.rsplit(|ch| ch == '[' || ch == ',').next().unwrap_or("").trim_end_matches(']').to_string();
            out.emit(
                &format!("c bestat {}", text),
                &format!(
                    "info={}/{}/{}/{} utxos={}/{} headers={}/{} balance={}",
                    f[0], f[1], f[2], f[3], p.tip_height, p.tip_hash, hdr_tip, last_hdr,
                    bal.trim_start_matches("ok ")
                ),
            );
            out.emit(
                &format!("c sumat {} x", text),
                &sum_diff(&bal, p.utxos.iter().map(|u| u.3).sum::<u64>()),
            );
        }
        let maxc = can::with_state(|s| can::unstable_blocks::get_main_chain_length(&s.unstable_blocks)) as u32;
        let cc = rng.range(0, maxc as u64 + 2) as u32;
        let (obs, parsed) = c::get_utxos_all_parsed(&req, net, &c::Filter::MinConf(cc), if lim == 1000 { None } else { Some(lim) });
        out.emit(&format!("c q utxosall {} c={} {}", tok, cc, lim), &obs);
        let balc = c::get_balance(&req, net, Some(cc));
        out.emit(&format!("c q balance {} {}", tok, cc), &balc);
        if tok.starts_with("a:") && cc >= 1 && obs != "trap" {
            // C04: the named block and the set, against the definition
            let o = match &parsed {
                Some(p) => format!("{} {} {}", p.tip_height, p.tip_hash, c::canonical_set_text(&p.utxos).split(' ').next().unwrap()),
                None => obs.clone(),
            };
            out.emit(&format!("c cutat {} {}", text, cc), &o);
        }
        if let Some(p) = &parsed {
            // C05: balance(c) = sum of utxos(c)
            out.emit(
                &format!("c sumat {} {}", text, cc),
                &sum_diff(&balc, p.utxos.iter().map(|u| u.3).sum::<u64>()),
            );
        }
        out.count(&format!("q:c={}", if cc == 0 { "0" } else if cc <= maxc { "mid" } else { "toolarge" }));
    }
    // headers
    let tip = can::with_state(can::state::main_chain_height);
    for _ in 0..2 {
        let s = rng.range(0, tip as u64 + 2) as u32;
        let e = if rng.chance(1, 3) { None } else { Some(rng.range(0, tip as u64 + 2) as u32) };
        out.emit(
            &format!("c q headers {} {}", s, e.map(|x| x.to_string()).unwrap_or("-".into())),
            &c::get_headers(net, s, e),
        );
    }
    out.emit("c q fees", &c::get_fees(net));
    // C15: the 10 000 cut-off exercised with small numbers of transactions
    let n = *rng.pick(&[1u32, 2, 3, 5, 8, 10_000]);
    out.emit(&format!("c q feesn {}", n), &c::get_fee_rates(n));
    if heavy || rng.chance(1, 3) {
        out.emit("c snap", &c::snapshot(net));
        out.emit("c digest", &c::digest(net));
    }
}

/// Starts or continues the interleaved page walk.
pub fn walk_step(out: &mut Out, rng: &mut Rng, case: &mut Case) {
    let net = case.network;
    match case.walk.take() {
        None => {
            let addrs = case.world.addresses();
            let addr = rng.pick(&addrs).clone();
            let limit = *rng.pick(&[1usize, 1, 2, 3]);
            let r = c::get_utxos(&addr, net, &c::Filter::None, Some(limit));
            out.emit(&format!("c walk start {} {}", addr, limit), &c::utxos_text(&r));
            if let c::QRes::Ok(o) = r {
                if o.next_page.is_some() {
                    out.count("walk:started");
                    case.walk = Some(Walk { addr, limit, next: o.next_page.clone(), tip: (o.tip_height, o.tip_hash.clone()), collected: o.utxos.clone(), same_tip: true, pages: 1 });
                } else {
                    // single page: finished at once
                    out.emit("c walk done", &format!("{} {} sametip=1", o.tip_height, c::canonical_set_text(&o.utxos)));
                }
            }
        }
        Some(mut w) => {
            let tok = w.next.clone().unwrap();
            let r = c::get_utxos(&w.addr, net, &c::Filter::Page(tok), Some(w.limit));
            out.emit("c walk next", &c::utxos_text(&r));
            match r {
                c::QRes::Ok(o) => {
                    w.same_tip &= (o.tip_height, o.tip_hash.clone()) == w.tip;
                    w.collected.extend(o.utxos.iter().cloned());
                    w.pages += 1;
                    w.next = o.next_page.clone();
                    if w.next.is_none() {
                        out.count("walk:finished");
                        out.count_n("walk:pages", w.pages as u64);
                        out.emit("c walk done", &format!("{} {} sametip={}", w.tip.0, c::canonical_set_text(&w.collected), w.same_tip as u8));
                    } else {
                        case.walk = Some(w);
                    }
                }
                _ => {
                    // the tip is gone (explicit error) or a trap: the walk ends
                    out.count("walk:aborted");
                }
            }
        }
    }
}

pub fn run_case(out: &mut Out, rng: &mut Rng, thorough: bool, case_no: u64) {
    let network = *rng.pick(&[Network::Regtest, Network::Regtest, Network::Mainnet, Network::Testnet]);
    let thr = *rng.pick(&[1u32, 1, 2, 2, 3, 4, 6, 144]);
    let mode = *rng.pick(&[DiffMode::Equal, DiffMode::Small, DiffMode::HeavyLight, DiffMode::Ties]);
    let world = World::new(network, rng);
    let mut case = Case { pre_ingest: None, walk: None, world, alive: vec![0], network, thr, mode };
    c::fresh_init(network, thr as u128, None);
    out.begin_case(&format!("ledger net={} thr={} mode={}", c::net_name(network), thr, mode as u8));
    out.emit(
        &format!("c init {} {} {} {}", c::net_name(network), thr, c::block_text(&case.world.nodes[0].block, network), c::block_hex(&case.world.nodes[0].block)),
        "-",
    );
    let steps = if thorough { rng.range(20, 120) } else { rng.range(8, 40) };
    let mut fp = format!("{}|{}|{}", c::net_name(network), thr, mode as u8);
    let mut pushed = 0;
    let mut forks = 0;
    let mut paused = false;
    for _ in 0..steps {
        let mut r = rng.below(100);
        if paused && r < 62 {
            // like the heartbeat, never add blocks while an ingestion is in progress
            r = 70;
        }
        if r < 62 {
            let parent = pick_parent(rng, &case);
            if case.alive.iter().any(|j| case.world.nodes[*j].parent == Some(parent)) {
                forks += 1;
            }
            let difficulty = pick_difficulty(rng, mode, &case, parent);
            let opts = BlockOpts {
                max_txs: if thorough { 5 } else { 3 },
                max_outputs: 4,
                many_outputs: None,
                difficulty,
                mine: false,
                time: None,
                bits: None,
            };
            let idx = case.world.new_block(rng, parent, &opts);
            let block = case.world.nodes[idx].block.clone();
            let text = format!("{} {}", c::block_text(&block, network), c::block_hex(&block));
            let obs = c::push_direct(block);
            out.emit(&format!("c push {}", text), &obs);
            out.count(&format!("push:{}", obs));
            if obs == "trap" {
                out.count("case-cut-after-trap");
                return;
            }
            pushed += 1;
            fp.push_str(&format!("p{}", parent));
            sync_alive(&mut case);
        } else if r < 80 {
            let budget = if rng.chance(1, 2) { c::UNLIMITED } else { rng.range(0, 12) };
            // C03: the chain being served before the ingestion opportunity
            let before_height = c::stable_height();
            let addrs = case.world.addresses();
            if !paused && budget < c::UNLIMITED {
                // C08: what every endpoint answers before this block's ingestion begins
                case.pre_ingest = Some(observation_vector(network, &addrs));
            }
            let served: Vec<String> = c::main_chain_hashes();
            let obs = c::ingest(budget);
            out.emit(&format!("c ingest {}", budget), &obs);
            out.count(&format!("ingest:{}", obs));
            if obs != "trap" {
                // finality facts (C03): how many anchors were popped, is the new anchor on the chain that
                // was being served, is a further advance still pending after an un-paused call
                let (after_height, root, pending) = can::with_state(|s| {
                    (s.stable_height(), hex::encode(can::state::get_block_hashes(s)[0].as_bytes()), s.unstable_blocks.verif_stable_child().is_some())
                });
                let k = (after_height - before_height) as usize;
                let onchain = served.get(k).map(|h| *h == root).unwrap_or(false);
                out.emit("c advance", &format!("popped={} onchain={} pending={} {}", k, onchain as u8, (pending && obs != "paused") as u8, recorded()));
                if k > 0 { out.count("advance:popped>0"); }
            }
            paused = obs == "paused";
            if paused && c::stable_height() != before_height {
                // an earlier anchor was popped in the same call: the snapshot predates that advance
                case.pre_ingest = None;
            }
            if paused {
                if let Some((pre, pre_len)) = &case.pre_ingest {
                    let (cur, cur_len) = observation_vector(network, &addrs);
                    let same = match pre.iter().zip(cur.iter()).find(|(a, b)| a.1 != b.1) {
                        None => "same=1:-".to_string(),
                        Some((a, _)) => format!("same=0:{}", a.0),
                    };
                    out.emit(&format!("c pausedsame {}", addrs.join(",")), &format!("{} len={}", same, (*pre_len == cur_len) as u8));
                    out.count("pausedsame");
                }
            } else {
                case.pre_ingest = None;
            }
            if obs == "trap" {
                // a native panic leaves partial effects behind (no rollback): the rest of the
                // native run corresponds to no IC execution, so the case ends here
                out.count("case-cut-after-trap");
                return;
            }
            fp.push_str(&format!("i{}", budget));
            sync_alive(&mut case);
        } else if r < 84 || (paused && r < 90) {
            // upgrade at a message boundary (more often while an ingestion is paused)
            crate::sync::upgrade_op(out, network, &case.world.addresses(), None);
            out.count(if paused { "upgrade:while-paused" } else { "upgrade" });
            fp.push_str("u");
        } else {
            queries(out, rng, &case, false);
        }
        if rng.chance(1, 4) {
            queries(out, rng, &case, false);
        }
        if case.walk.is_some() || rng.chance(1, 5) {
            if rng.chance(2, 3) {
                walk_step(out, rng, &mut case);
            }
        }
    }
    queries(out, rng, &case, true);
    out.count(&format!("net:{}", c::net_name(network)));
    out.count(&format!("forks>0:{}", (forks > 0) as u8));
    out.count(&format!("stable_height>0:{}", (c::stable_height() > 0) as u8));
    if pushed >= 3 {
        out.nontrivial(fnv(fp.as_bytes()) ^ case_no.wrapping_mul(0x9E3779B97F4A7C15));
    }
}

/// Directed scenario (known finding F11, C06): one transaction with more than 256 outputs to one
/// address; a page walk starts while its block is unstable and continues after it has stabilised.
pub fn run_many_outputs_case(out: &mut Out, rng: &mut Rng) {
    let network = Network::Regtest;
    let thr = 3u32;
    let world = World::new(network, rng);
    let mut case = Case { pre_ingest: None, walk: None, world, alive: vec![0], network, thr, mode: DiffMode::Equal };
    c::fresh_init(network, thr as u128, None);
    out.begin_case("ledger many-outputs");
    out.emit(&format!("c init regtest {} {} {}", thr, c::block_text(&case.world.nodes[0].block, network), c::block_hex(&case.world.nodes[0].block)), "-");
    let plain = BlockOpts { max_txs: 0, max_outputs: 2, many_outputs: None, difficulty: 1, mine: false, time: None, bits: None };
    let mut tip = 0usize;
    let push = |out: &mut Out, case: &mut Case, rng: &mut Rng, parent: usize, opts: &BlockOpts| -> usize {
        let idx = case.world.new_block(rng, parent, opts);
        let block = case.world.nodes[idx].block.clone();
        let text = format!("{} {}", c::block_text(&block, network), c::block_hex(&block));
        out.emit(&format!("c push {}", text), &c::push_direct(block));
        idx
    };
    let ingest = |out: &mut Out| {
        let before = c::stable_height();
        let served = c::main_chain_hashes();
        out.emit(&format!("c ingest {}", c::UNLIMITED), &c::ingest(c::UNLIMITED));
        let (h, root, pending) = can::with_state(|s| (s.stable_height(), hex::encode(can::state::get_block_hashes(s)[0].as_bytes()), s.unstable_blocks.verif_stable_child().is_some()));
        let k = (h - before) as usize;
        out.emit("c advance", &format!("popped={} onchain={} pending={} {}", k, served.get(k).map(|x| *x == root).unwrap_or(false) as u8, pending as u8, recorded()));
    };
    tip = push(out, &mut case, rng, tip, &plain);
    // block 2 carries one transaction with 300 outputs to pool address 0 (a P2PKH address)
    let many = BlockOpts { many_outputs: Some((0, 300)), ..plain.clone() };
    tip = push(out, &mut case, rng, tip, &many);
    tip = push(out, &mut case, rng, tip, &plain);
    tip = push(out, &mut case, rng, tip, &plain);
    ingest(out); // genesis and block 1 stabilise; block 2 is the anchor (still unstable)
    let addr = case.world.pool[0].text.clone().unwrap();
    let limit = 200usize;
    let r = c::get_utxos(&addr, network, &c::Filter::None, Some(limit));
    out.emit(&format!("c walk start {} {}", addr, limit), &c::utxos_text(&r));
    if let c::QRes::Ok(o) = r {
        case.walk = Some(Walk { addr: addr.clone(), limit, next: o.next_page.clone(), tip: (o.tip_height, o.tip_hash.clone()), collected: o.utxos.clone(), same_tip: true, pages: 1 });
    }
    // block 2 stabilises while the walk's tip (block 4) stays in the tree
    tip = push(out, &mut case, rng, tip, &plain);
    let _ = tip;
    ingest(out);
    while case.walk.as_ref().map(|w| w.next.is_some()).unwrap_or(false) {
        walk_step(out, rng, &mut case);
    }
    out.count("many-outputs-scenario");
}

/// Directed family (C08/C09/C01): a block with several transactions (same-block spends, zero-valued
/// outputs) is ingested one step at a time; at EVERY pause position the answers are compared with
/// the ones before the ingestion began, and the canister is upgraded at some of the positions.
pub fn run_slices_case(out: &mut Out, rng: &mut Rng) {
    let network = *rng.pick(&[Network::Regtest, Network::Testnet]);
    let thr = 1u32;
    let world = World::new(network, rng);
    let mut case = Case { pre_ingest: None, walk: None, world, alive: vec![0], network, thr, mode: DiffMode::Equal };
    c::fresh_init(network, thr as u128, None);
    out.begin_case(&format!("ledger slices net={}", c::net_name(network)));
    out.emit(&format!("c init {} {} {} {}", c::net_name(network), thr, c::block_text(&case.world.nodes[0].block, network), c::block_hex(&case.world.nodes[0].block)), "-");
    let mut tip = 0usize;
    let n_blocks = rng.range(4, 6);
    for i in 0..n_blocks {
        let opts = BlockOpts { max_txs: if i == 0 { 2 } else { 5 }, max_outputs: 4, many_outputs: None, difficulty: 1, mine: false, time: None, bits: None };
        let idx = case.world.new_block(rng, tip, &opts);
        let block = case.world.nodes[idx].block.clone();
        let text = format!("{} {}", c::block_text(&block, network), c::block_hex(&block));
        out.emit(&format!("c push {}", text), &c::push_direct(block));
        tip = idx;
    }
    sync_alive(&mut case);
    let addrs = case.world.addresses();
    let mut rounds = 0;
    let mut paused = false;
    loop {
        rounds += 1;
        if rounds > 120 { break; }
        let before_height = c::stable_height();
        if !paused {
            case.pre_ingest = Some(observation_vector(network, &addrs));
        }
        let budget = *rng.pick(&[1u64, 1, 1, 2, 0]);
        let served: Vec<String> = c::main_chain_hashes();
        let obs = c::ingest(budget);
        out.emit(&format!("c ingest {}", budget), &obs);
        if obs == "trap" { out.count("case-cut-after-trap"); return; }
        let (after_height, root, pending) = can::with_state(|s| {
            (s.stable_height(), hex::encode(can::state::get_block_hashes(s)[0].as_bytes()), s.unstable_blocks.verif_stable_child().is_some())
        });
        let k = (after_height - before_height) as usize;
        out.emit("c advance", &format!("popped={} onchain={} pending={} {}", k, served.get(k).map(|h| *h == root).unwrap_or(false) as u8, (pending && obs != "paused") as u8, recorded()));
        paused = obs == "paused";
        if paused && c::stable_height() != before_height { case.pre_ingest = None; }
        if paused {
            if let Some((pre, pre_len)) = &case.pre_ingest {
                let (cur, cur_len) = observation_vector(network, &addrs);
                let same = match pre.iter().zip(cur.iter()).find(|(a, b)| a.1 != b.1) {
                    None => "same=1:-".to_string(),
                    Some((a, _)) => format!("same=0:{}", a.0),
                };
                out.emit(&format!("c pausedsame {}", addrs.join(",")), &format!("{} len={}", same, (*pre_len == cur_len) as u8));
                out.count("pausedsame");
            }
            if rng.chance(1, 2) {
                crate::sync::upgrade_op(out, network, &addrs, None);
                out.count("upgrade:while-paused");
            }
            if rng.chance(1, 3) { queries(out, rng, &case, false); }
        } else {
            case.pre_ingest = None;
            sync_alive(&mut case);
            if !pending { break; }
        }
    }
    queries(out, rng, &case, true);
    out.count("slices-scenario");
}

/// Directed family (C03/C02, "chain lengths reaching the testnet depth bound"): an anchor of high
/// difficulty with two or three children; each child carries a short heavy branch and/or a long
/// light side chain, with accumulated difficulties that tie exactly about half of the time. Long
/// enough for the adaptive depth rule of testnet/regtest to decide.
pub fn run_depth_bound_case(out: &mut Out, rng: &mut Rng, thorough: bool) {
    let network = *rng.pick(&[Network::Regtest, Network::Testnet, Network::Regtest, Network::Mainnet]);
    let thr = *rng.pick(&[2u32, 6, 144, 144]);
    let world = World::new(network, rng);
    let mut case = Case { pre_ingest: None, walk: None, world, alive: vec![0], network, thr, mode: DiffMode::Ties };
    c::fresh_init(network, thr as u128, None);
    out.begin_case(&format!("ledger depth-bound net={} thr={}", c::net_name(network), thr));
    out.emit(&format!("c init {} {} {} {}", c::net_name(network), thr, c::block_text(&case.world.nodes[0].block, network), c::block_hex(&case.world.nodes[0].block)), "-");
    let push = |out: &mut Out, case: &mut Case, rng: &mut Rng, parent: usize, difficulty: u128| -> usize {
        let opts = BlockOpts { max_txs: 0, max_outputs: 1, many_outputs: None, difficulty, mine: false, time: None, bits: None };
        let idx = case.world.new_block(rng, parent, &opts);
        let block = case.world.nodes[idx].block.clone();
        let text = format!("{} {}", c::block_text(&block, network), c::block_hex(&block));
        out.emit(&format!("c push {}", text), &c::push_direct(block));
        idx
    };
    let ingest = |out: &mut Out| {
        let before = c::stable_height();
        let served = c::main_chain_hashes();
        let obs = c::ingest(c::UNLIMITED);
        out.emit(&format!("c ingest {}", c::UNLIMITED), &obs);
        if obs == "trap" { return false; }
        let (h, root, pending) = can::with_state(|s| (s.stable_height(), hex::encode(can::state::get_block_hashes(s)[0].as_bytes()), s.unstable_blocks.verif_stable_child().is_some()));
        let k = (h - before) as usize;
        out.emit("c advance", &format!("popped={} onchain={} pending={} {}", k, served.get(k).map(|x| *x == root).unwrap_or(false) as u8, pending as u8, recorded()));
        true
    };
    // the genesis block has difficulty as mocked by World (1): put a heavy anchor candidate on top
    let heavy: u128 = *rng.pick(&[1u128, 50, 1000]);
    let a0 = push(out, &mut case, rng, 0, heavy);
    // the bound is 500 - (blocks/1500)*(500 - min(thr, 499)): a chain of about 380-410 blocks reaches it
    let long = if thorough { rng.range(385, 700) } else { rng.range(385, 470) } as usize;
    let n_children = rng.range(2, 3);
    // total accumulated difficulty every child aims at (ties), and its shape
    let target: u128 = *rng.pick(&[3u128, 1000, 1001, 1001]);
    let mut plans: Vec<(bool, bool)> = vec![]; // (has short heavy branch, has long light side chain)
    for i in 0..n_children {
        plans.push(match (i, rng.below(4)) { (0, _) => (true, true), (_, 0) => (false, true), (_, 1) => (true, true), _ => (true, false) });
    }
    let mut firsts = vec![];
    for _ in 0..n_children {
        firsts.push(push(out, &mut case, rng, a0, 1));
    }
    // the first child's heavy branch has 1-2 blocks; the others as many or more (same total: the
    // tie is then decided by the number of blocks, then by arrival order)
    let parts0 = rng.range(1, 2) as u128;
    let ingest_each = rng.chance(1, 4);
    for (i, (heavy_branch, long_chain)) in plans.iter().enumerate() {
        let first = firsts[i];
        if *heavy_branch {
            // blocks summing to target-1 (exact tie, three times out of four) or off by one
            let total = if rng.chance(3, 4) { target.saturating_sub(1) } else { target.saturating_sub(1) + rng.range(0, 2) as u128 }.max(1);
            let parts = if i == 0 { parts0 } else { parts0 + rng.below(3) as u128 };
            let mut p = first;
            let mut left = total;
            for j in 0..parts {
                let d = if j + 1 == parts { left } else { (left / 2).max(1) };
                if d == 0 { break; }
                left -= d.min(left);
                p = push(out, &mut case, rng, p, d);
            }
        }
        if *long_chain {
            let len = if i == 0 { long } else if rng.chance(2, 3) { rng.range(1, 30) as usize } else { rng.range(1, (long as u64) / 2) as usize };
            let mut p = first;
            // light blocks; difficulty 0 is not allowed by the mock (use 1) unless the target is huge
            for _ in 0..len {
                p = push(out, &mut case, rng, p, if target >= 1000 { 1 } else { 0u128.max(1) });
            }
        }
        if ingest_each {
            if !ingest(out) { out.count("case-cut-after-trap"); return; }
            sync_alive(&mut case);
            // the remaining children may have been discarded with the old anchor
            if firsts.iter().skip(i + 1).any(|f| !case.alive.contains(f)) { break; }
        }
    }
    // usually the whole tree is built before the first ingestion opportunity
    if !ingest(out) { out.count("case-cut-after-trap"); return; }
    sync_alive(&mut case);
    // a few more rounds: extend random tips, ingest, compare what every endpoint serves
    for _ in 0..4 {
        let parent = pick_parent(rng, &case);
        let dd = *rng.pick(&[1u128, 1, 2, 1000]);
        push(out, &mut case, rng, parent, dd);
        if !ingest(out) { out.count("case-cut-after-trap"); return; }
        sync_alive(&mut case);
    }
    // the tips of all endpoints against the oracle, for one address
    let addrs = case.world.addresses();
    let text = addrs[0].clone();
    let (obs, parsed) = c::get_utxos_all_parsed(&text, network, &c::Filter::None, None);
    out.emit(&format!("c q utxosall a:{} none 1000", text), &obs);
    if let Some(p) = &parsed {
        let info = c::get_info();
        let f: Vec<&str> = info.split(' ').collect();
        let bal = c::get_balance(&text, network, None);
        let hdr = c::get_headers(network, f[0].parse().unwrap(), None);
        let hdr_tip = hdr.split(' ').nth(1).unwrap_or("?").to_string();
        let last_hdr = hdr.rsplit(|ch| ch == '[' || ch == ',').next().unwrap_or("").trim_end_matches(']').to_string();
        out.emit(&format!("c bestat {}", text), &format!("info={}/{}/{}/{} utxos={}/{} headers={}/{} balance={}", f[0], f[1], f[2], f[3], p.tip_height, p.tip_hash, hdr_tip, last_hdr, bal.trim_start_matches("ok ")));
    }
    out.emit("c snap", &c::snapshot(network));
    out.count("depth-bound-scenario");
}

/// Directed family (C02, C03): small trees whose anchor children TIE on accumulated difficulty but
/// differ in the number of blocks of their heaviest branch and in the depth of their subtree (a
/// lighter but longer side branch): the tie-break order (difficulty, then blocks of the heaviest
/// branch, then arrival) is observable only on such shapes.
pub fn run_tie_shapes_case(out: &mut Out, rng: &mut Rng) {
    let network = *rng.pick(&[Network::Regtest, Network::Mainnet, Network::Testnet]);
    let thr = *rng.pick(&[30u32, 50, 144]);
    let world = World::new(network, rng);
    let mut case = Case { pre_ingest: None, walk: None, world, alive: vec![0], network, thr, mode: DiffMode::Ties };
    c::fresh_init(network, thr as u128, None);
    out.begin_case(&format!("ledger tie-shapes net={} thr={}", c::net_name(network), thr));
    out.emit(&format!("c init {} {} {} {}", c::net_name(network), thr, c::block_text(&case.world.nodes[0].block, network), c::block_hex(&case.world.nodes[0].block)), "-");
    let push = |out: &mut Out, case: &mut Case, rng: &mut Rng, parent: usize, difficulty: u128| -> usize {
        let opts = BlockOpts { max_txs: 1, max_outputs: 2, many_outputs: None, difficulty, mine: false, time: None, bits: None };
        let idx = case.world.new_block(rng, parent, &opts);
        let block = case.world.nodes[idx].block.clone();
        let text = format!("{} {}", c::block_text(&block, network), c::block_hex(&block));
        out.emit(&format!("c push {}", text), &c::push_direct(block));
        idx
    };
    let target: u128 = *rng.pick(&[8u128, 12, 20]);
    let n_children = rng.range(2, 3);
    let mut tips = vec![];
    for _ in 0..n_children {
        let first = push(out, &mut case, rng, 0, 1);
        // heaviest branch: 1-3 blocks summing to target-1 (three times out of four exactly)
        let total = if rng.chance(3, 4) { target - 1 } else { target - 1 + rng.range(0, 2) as u128 - 1 }.max(1);
        let parts = rng.range(1, 3) as u128;
        let mut p = first;
        let mut left = total;
        for j in 0..parts {
            let d = if j + 1 == parts { left } else { (left / 2).max(1) };
            if d == 0 { break; }
            left -= d.min(left);
            p = push(out, &mut case, rng, p, d);
        }
        tips.push(p);
        // a lighter side branch of 0-6 blocks of difficulty 1 (its total stays below target-1)
        let side = rng.range(0, 6).min(target as u64 - 2);
        let mut q = first;
        for _ in 0..side {
            q = push(out, &mut case, rng, q, 1);
        }
        if side > 0 { tips.push(q); }
    }
    sync_alive(&mut case);
    queries(out, rng, &case, false);
    // one more block on a random tip (may break or create a tie), asked again
    let t = *rng.pick(&tips);
    let d = *rng.pick(&[1u128, 1, 2]);
    push(out, &mut case, rng, t, d);
    sync_alive(&mut case);
    queries(out, rng, &case, true);
    out.count("tie-shapes-scenario");
}

pub fn run(out: &mut Out, ctx: &crate::Ctx) {
    for k in 0..ctx.cases {
        if let Some(only) = ctx.only_case {
            if only != k {
                continue;
            }
        }
        let mut rng = Rng::new(ctx.seed.wrapping_mul(1_000_003).wrapping_add(k));
        if k == 3 && ctx.shard % 4 == 0 {
            run_many_outputs_case(out, &mut rng);
            continue;
        }
        if k == 2 && ctx.shard % 2 == 1 || (ctx.thorough && k % 16 == 9) {
            run_slices_case(out, &mut rng);
            continue;
        }
        if k == 5 || (ctx.thorough && k % 8 == 3) {
            run_tie_shapes_case(out, &mut rng);
            continue;
        }
        if k == 4 && ctx.shard % 2 == 0 || (ctx.thorough && k % 32 == 17) {
            run_depth_bound_case(out, &mut rng, ctx.thorough);
            continue;
        }
        run_case(out, &mut rng, ctx.thorough, k);
    }
}
