//! Thin, canonicalising wrappers around the real canister crate.
//! Every message runs under `catch_unwind`; a panic is the observable outcome `trap`.
use bitcoin::hashes::Hash;
use ic_btc_canister as can;
use ic_btc_interface::{
    Fees, Flag, GetBalanceRequest, GetBlockHeadersRequest, GetCurrentFeePercentilesRequest,
    GetUtxosRequest, InitConfig, Network, NetworkInRequest, UtxosFilterInRequest,
};
use ic_btc_types::Block;
use ic_stable_structures::DefaultMemoryImpl;
use std::panic::{catch_unwind, AssertUnwindSafe};

pub fn net_name(n: Network) -> &'static str {
    match n {
        Network::Mainnet => "mainnet",
        Network::Testnet => "testnet",
        Network::Regtest => "regtest",
    }
}

pub fn btc_net(n: Network) -> bitcoin::Network {
    match n {
        Network::Mainnet => bitcoin::Network::Bitcoin,
        Network::Testnet => bitcoin::Network::Testnet4,
        Network::Regtest => bitcoin::Network::Regtest,
    }
}

pub fn net_in_req(n: Network) -> NetworkInRequest {
    n.into()
}

/// one of the two spellings of a network in a request (`Mainnet` / `mainnet`, ...) and its protocol token
pub fn net_spelled(n: Network, lower: bool) -> (NetworkInRequest, &'static str) {
    match (n, lower) {
        (Network::Mainnet, false) => (NetworkInRequest::Mainnet, "Mainnet"),
        (Network::Mainnet, true) => (NetworkInRequest::mainnet, "mainnet"),
        (Network::Testnet, false) => (NetworkInRequest::Testnet, "Testnet"),
        (Network::Testnet, true) => (NetworkInRequest::testnet, "testnet"),
        (Network::Regtest, false) => (NetworkInRequest::Regtest, "Regtest"),
        (Network::Regtest, true) => (NetworkInRequest::regtest, "regtest"),
    }
}

thread_local! {
    static MEMORY_SNAPSHOTS: std::cell::RefCell<std::collections::HashMap<&'static str, Vec<u8>>> = std::cell::RefCell::new(std::collections::HashMap::new());
    pub static IN_GUARD: std::cell::Cell<u32> = const { std::cell::Cell::new(0) };
}

/// Panics of the code under test are observations, not errors of the harness: silence them.
pub fn install_panic_hook() {
    let default = std::panic::take_hook();
    std::panic::set_hook(Box::new(move |info| {
        if IN_GUARD.with(|g| g.get()) == 0 {
            default(info);
        }
    }));
}

/// Runs `f`, mapping a panic to `Err(first line of the panic message)`.
pub fn guarded<R>(f: impl FnOnce() -> R) -> Result<R, String> {
    IN_GUARD.with(|g| g.set(g.get() + 1));
    let res = catch_unwind(AssertUnwindSafe(f));
    IN_GUARD.with(|g| g.set(g.get() - 1));
    match res {
        Ok(r) => Ok(r),
        Err(e) => {
            let msg = if let Some(s) = e.downcast_ref::<&str>() {
                s.to_string()
            } else if let Some(s) = e.downcast_ref::<String>() {
                s.clone()
            } else {
                "panic".to_string()
            };
            Err(msg.lines().next().unwrap_or("").to_string())
        }
    }
}

/// Fresh stable memory + `init`. Without the memory reset `StableBTreeMap::init` would
/// silently reload the previous case's data.
pub fn fresh_init(network: Network, stability_threshold: u128, fees: Option<Fees>) {
    // A fresh stable memory costs ~1 s (the memory manager allocates an 8 MiB bucket per
    // region). The bytes right after `init` on a fresh memory depend on the network only, so a
    // copy of them is an equally fresh memory: `init` then re-attaches the (empty) structures.
    let t_a = std::time::Instant::now();
    let snapshot = MEMORY_SNAPSHOTS.with(|m| m.borrow().get(net_name(network)).cloned());
    if std::env::var("VERIF_TIMING").is_ok() { eprintln!("clone {} us", t_a.elapsed().as_micros()); }
    let have_snapshot = snapshot.is_some() && std::env::var("VERIF_NO_SNAPSHOT").is_err();
    match snapshot {
        Some(bytes) if have_snapshot => {
            can::memory::set_memory(std::rc::Rc::new(std::cell::RefCell::new(bytes)));
        }
        _ => can::memory::set_memory(DefaultMemoryImpl::default()),
    }
    if std::env::var("VERIF_TIMING").is_ok() { eprintln!("set_memory done at {} us", t_a.elapsed().as_micros()); }
    let t_init = std::time::Instant::now();
    can::init(InitConfig {
        stability_threshold: Some(stability_threshold),
        network: Some(network),
        fees,
        ..Default::default()
    });
    if std::env::var("VERIF_TIMING").is_ok() { eprintln!("init {} us, memory bytes {}", t_init.elapsed().as_micros(), can::memory::get_memory().borrow().len()); }
    if !have_snapshot {
        let bytes: Vec<u8> = can::memory::get_memory().borrow().clone();
        MEMORY_SNAPSHOTS.with(|m| m.borrow_mut().insert(net_name(network), bytes));
    }
    if std::env::var("VERIF_TIMING").is_ok() { eprintln!("all done at {} us", t_a.elapsed().as_micros()); }
    can::runtime::mock_time::set_mock_time_secs(2_000_000_000);
    can::verif_hooks::set_performance_counter_step(0);
    can::verif_hooks::performance_counter_reset();
    can::verif_hooks::set_cycles_available(None);
    can::verif_hooks::reset_cycles_balance();
    can::verif_hooks::set_manual_mode(false);
    can::verif_hooks::take_successors_calls();
    can::verif_hooks::take_sent_transactions();
    can::runtime::set_successors_responses(vec![]);
}

pub fn hex32(bytes: &[u8]) -> String {
    hex::encode(bytes)
}

pub fn block_hash_hex(b: &Block) -> String {
    hex::encode(b.block_hash().as_bytes())
}

pub fn header_hex(h: &bitcoin::block::Header) -> String {
    use bitcoin::consensus::Encodable;
    let mut v = vec![];
    h.consensus_encode(&mut v).unwrap();
    hex::encode(v)
}

/// The address the canister derives for a script (the library function the model takes as given).
pub fn script_address(script: &bitcoin::Script, network: Network) -> Option<String> {
    can::types::Address::from_script(script, network)
        .ok()
        .map(|a| a.to_string())
}

/// Protocol text of a block:
/// `hash,prev,diff,time,bits,header80,tx;tx;..` with
/// tx = `txid:cb:vsize:in|in..:out|out..`, in = `txid.vout`, out = `value.addr-or-dash.opret`.
/// consensus encoding of the block, hex (decoded by the model itself: `Btc.BlockCodec`)
pub fn block_hex(b: &Block) -> String {
    let mut v = vec![];
    b.consensus_encode(&mut v).unwrap();
    hex::encode(v)
}

pub fn block_text(b: &Block, network: Network) -> String {
    let hdr = b.header();
    let mut txs: Vec<String> = vec![];
    let raw_txs = &b.internal_bitcoin_block().txdata;
    for (tx_i, tx) in b.txdata().iter().enumerate() {
        let ntxid = hex::encode(raw_txs[tx_i].compute_ntxid().to_byte_array());
        let ins: Vec<String> = tx
            .input()
            .iter()
            .filter(|i| !i.previous_output.is_null())
            .map(|i| {
                format!(
                    "{}.{}",
                    hex::encode(i.previous_output.txid.as_byte_array()),
                    i.previous_output.vout
                )
            })
            .collect();
        let outs: Vec<String> = tx
            .output()
            .iter()
            .map(|o| {
                format!(
                    "{}.{}.{}",
                    o.value.to_sat(),
                    script_address(&o.script_pubkey, network).unwrap_or("-".into()),
                    if o.script_pubkey.is_op_return() { 1 } else { 0 }
                )
            })
            .collect();
        txs.push(format!(
            "{}:{}:{}:{}:{}:{}",
            hex::encode(tx.txid().as_bytes()),
            ntxid,
            if tx.is_coinbase() { 1 } else { 0 },
            tx.vsize(),
            ins.join("|"),
            outs.join("|")
        ));
    }
    format!(
        "{},{},{},{},{},{},{},{}",
        block_hash_hex(b),
        hex::encode(hdr.prev_blockhash.as_byte_array()),
        // `Target::difficulty` panics on a zero target (such a header never passes validation)
        guarded(|| b.difficulty(network)).unwrap_or(0),
        hdr.time,
        hdr.bits.to_consensus(),
        header_hex(hdr),
        if b.internal_bitcoin_block().check_merkle_root() { 1 } else { 0 },
        txs.join(";")
    )
}

// ---------------------------------------------------------------- mutations

/// `unstable_blocks::push` directly (no validation), as the repo's own unit tests do.
pub fn push_direct(block: Block) -> String {
    match guarded(|| {
        can::with_state_mut(|s| {
            can::unstable_blocks::push(&mut s.unstable_blocks, &s.utxos, block)
        })
    }) {
        Ok(Ok(())) => "ok".into(),
        Ok(Err(_)) => "noextend".into(),
        Err(_) => "trap".into(),
    }
}

/// `ingest_stable_blocks_into_utxoset` with exactly `budget` input/output steps allowed.
pub fn ingest(budget: u64) -> String {
    set_budget(budget);
    let r = guarded(|| can::with_state_mut(can::state::ingest_stable_blocks_into_utxoset));
    can::verif_hooks::set_performance_counter_step(0);
    can::verif_hooks::performance_counter_reset();
    match r {
        Ok(can::types::Slicing::Paused(())) => "paused".into(),
        Ok(can::types::Slicing::Done(true)) => "done1".into(),
        Ok(can::types::Slicing::Done(false)) => "done0".into(),
        Err(_) => "trap".into(),
    }
}

/// Arranges the mock instruction counter so that `should_time_slice` allows exactly
/// `budget` steps: the predicate is `inc_performance_counter() >= 1_000_000_000`.
pub fn set_budget(budget: u64) {
    const THRESHOLD: u64 = 1_000_000_000;
    can::verif_hooks::set_performance_counter_step(1);
    let b = budget.min(THRESHOLD - 1);
    can::verif_hooks::set_performance_counter(THRESHOLD - 1 - b);
}

pub const UNLIMITED: u64 = 900_000_000;

// ---------------------------------------------------------------- queries

pub enum Filter {
    None,
    MinConf(u32),
    Page(Vec<u8>),
}

pub fn filter_text(f: &Filter) -> String {
    match f {
        Filter::None => "none".into(),
        Filter::MinConf(c) => format!("c={}", c),
        Filter::Page(p) => format!("page={}", if p.is_empty() { "-".to_string() } else { hex::encode(p) }),
    }
}

pub struct UtxosOk {
    pub tip_height: u32,
    pub tip_hash: Vec<u8>,
    pub utxos: Vec<(u32, Vec<u8>, u32, u64)>,
    pub next_page: Option<Vec<u8>>,
}

pub enum QRes<T> {
    Ok(T),
    Err(String),
    Trap(String),
}

fn utxos_err(e: ic_btc_interface::GetUtxosError) -> String {
    use ic_btc_interface::GetUtxosError::*;
    match e {
        MalformedAddress => "err MalformedAddress".into(),
        AddressForWrongNetwork { .. } => "err AddressForWrongNetwork".into(),
        MinConfirmationsTooLarge { given, max } => {
            format!("err MinConfirmationsTooLarge {} {}", given, max)
        }
        UnknownTipBlockHash { tip_block_hash } => {
            format!("err UnknownTipBlockHash {}", hex::encode(tip_block_hash))
        }
        MalformedPage { .. } => "err MalformedPage".into(),
    }
}

/// One `bitcoin_get_utxos_query` call (`limit = None`: the real endpoint with its own page
/// size; `Some(l)`: the hook with page size `l`).
pub fn get_utxos(address: &str, network: Network, filter: &Filter, limit: Option<usize>) -> QRes<UtxosOk> {
    let req = GetUtxosRequest {
        address: address.to_string(),
        network: net_in_req(network),
        filter: match filter {
            Filter::None => None,
            Filter::MinConf(c) => Some(UtxosFilterInRequest::MinConfirmations(*c)),
            Filter::Page(p) => Some(UtxosFilterInRequest::Page(serde_bytes::ByteBuf::from(p.clone()))),
        },
    };
    let r = guarded(|| match limit {
        None => can::get_utxos_query(req),
        Some(l) => can::verif_hooks::get_utxos_with_limit(req, l),
    });
    match r {
        Err(m) => QRes::Trap(m),
        Ok(Err(e)) => QRes::Err(utxos_err(e)),
        Ok(Ok(resp)) => QRes::Ok(UtxosOk {
            tip_height: resp.tip_height,
            tip_hash: resp.tip_block_hash,
            utxos: resp
                .utxos
                .iter()
                .map(|u| {
                    let txid: [u8; 32] = u.outpoint.txid.into();
                    (u.height, txid.to_vec(), u.outpoint.vout, u.value)
                })
                .collect(),
            next_page: resp.next_page.map(|p| p.to_vec()),
        }),
    }
}

pub fn utxo_list_text(us: &[(u32, Vec<u8>, u32, u64)]) -> String {
    let v: Vec<String> = us
        .iter()
        .map(|(h, t, v, val)| format!("{}:{}:{}:{}", h, hex::encode(t), v, val))
        .collect();
    format!("[{}]", v.join(","))
}

pub fn utxos_text(r: &QRes<UtxosOk>) -> String {
    match r {
        QRes::Trap(_) => "trap".into(),
        QRes::Err(e) => e.clone(),
        QRes::Ok(o) => format!(
            "ok {} {} {} {}",
            o.tip_height,
            hex::encode(&o.tip_hash),
            utxo_list_text(&o.utxos),
            o.next_page.as_ref().map(hex::encode).unwrap_or("-".into())
        ),
    }
}

/// Follows `next_page` to the end. Observation: first response's tip, the concatenation,
/// the number of pages, and whether every page named the same tip and respected the limit.
pub fn get_utxos_all(address: &str, network: Network, filter: &Filter, limit: Option<usize>) -> String {
    let first = get_utxos(address, network, filter, limit);
    let first = match first {
        QRes::Ok(o) => o,
        other => return utxos_text(&other),
    };
    let (tip_height, tip_hash) = (first.tip_height, first.tip_hash.clone());
    let lim = limit.unwrap_or(1000);
    let mut all = first.utxos.clone();
    let mut same_tip = true;
    let mut within = first.utxos.len() <= lim;
    let mut pages = 1;
    let mut next = first.next_page.clone();
    while let Some(p) = next {
        if pages > 5000 {
            return "err too-many-pages".into();
        }
        match get_utxos(address, network, &Filter::Page(p), limit) {
            QRes::Ok(o) => {
                same_tip &= o.tip_hash == tip_hash && o.tip_height == tip_height;
                within &= o.utxos.len() <= lim;
                all.extend(o.utxos.iter().cloned());
                next = o.next_page.clone();
                pages += 1;
            }
            other => return format!("pagefail {} {}", pages, utxos_text(&other)),
        }
    }
    format!(
        "ok {} {} {} sametip={} within={}",
        tip_height,
        hex::encode(&tip_hash),
        utxo_list_text(&all),
        same_tip as u8,
        within as u8
    )
}

/// Parsed form of a `get_utxos_all` observation: (tip height, tip hash hex, utxos).
pub struct AllOk {
    pub tip_height: u32,
    pub tip_hash: String,
    pub utxos: Vec<(u32, Vec<u8>, u32, u64)>,
}

/// Like `get_utxos_all` but returns the parsed content as well.
pub fn get_utxos_all_parsed(address: &str, network: Network, filter: &Filter, limit: Option<usize>) -> (String, Option<AllOk>) {
    let text = get_utxos_all(address, network, filter, limit);
    if !text.starts_with("ok ") {
        return (text, None);
    }
    let parts: Vec<&str> = text.split(' ').collect();
    let tip_height: u32 = parts[1].parse().unwrap();
    let tip_hash = parts[2].to_string();
    let list = parts[3].trim_start_matches('[').trim_end_matches(']');
    let mut utxos = vec![];
    if !list.is_empty() {
        for e in list.split(',') {
            let f: Vec<&str> = e.split(':').collect();
            utxos.push((f[0].parse().unwrap(), hex::decode(f[1]).unwrap(), f[2].parse().unwrap(), f[3].parse().unwrap()));
        }
    }
    (text, Some(AllOk { tip_height, tip_hash, utxos }))
}

/// Canonical presentation of a set of UTXOs (height descending, txid bytes, vout) together
/// with two facts about the order in which they were returned.
pub fn canonical_set_text(us: &[(u32, Vec<u8>, u32, u64)]) -> String {
    let desc = us.windows(2).all(|w| w[0].0 >= w[1].0);
    let mut sorted = us.to_vec();
    sorted.sort_by(|a, b| b.0.cmp(&a.0).then(a.1.cmp(&b.1)).then(a.2.cmp(&b.2)).then(a.3.cmp(&b.3)));
    let mut keys: Vec<(Vec<u8>, u32)> = us.iter().map(|u| (u.1.clone(), u.2)).collect();
    keys.sort();
    let nodup = keys.windows(2).all(|w| w[0] != w[1]);
    format!("{} desc={} nodup={}", utxo_list_text(&sorted), desc as u8, nodup as u8)
}

pub fn get_balance(address: &str, network: Network, min_conf: Option<u32>) -> String {
    let req = GetBalanceRequest {
        address: address.to_string(),
        network: net_in_req(network),
        min_confirmations: min_conf,
    };
    match guarded(|| can::get_balance_query(req)) {
        Err(_) => "trap".into(),
        Ok(Ok(v)) => format!("ok {}", v),
        Ok(Err(e)) => {
            use ic_btc_interface::GetBalanceError::*;
            match e {
                MalformedAddress => "err MalformedAddress".into(),
                AddressForWrongNetwork { .. } => "err AddressForWrongNetwork".into(),
                MinConfirmationsTooLarge { given, max } => {
                    format!("err MinConfirmationsTooLarge {} {}", given, max)
                }
            }
        }
    }
}

pub fn get_headers(network: Network, start: u32, end: Option<u32>) -> String {
    let req = GetBlockHeadersRequest {
        start_height: start,
        end_height: end,
        network: net_in_req(network),
    };
    can::verif_hooks::set_cycles_available(None);
    match guarded(|| can::get_block_headers(req)) {
        Err(_) => "trap".into(),
        Ok(Ok(r)) => format!(
            "ok {} [{}]",
            r.tip_height,
            r.block_headers.iter().map(hex::encode).collect::<Vec<_>>().join(",")
        ),
        Ok(Err(e)) => {
            use ic_btc_interface::GetBlockHeadersError::*;
            match e {
                StartHeightDoesNotExist { requested, chain_height } => {
                    format!("err StartHeightDoesNotExist {} {}", requested, chain_height)
                }
                EndHeightDoesNotExist { requested, chain_height } => {
                    format!("err EndHeightDoesNotExist {} {}", requested, chain_height)
                }
                StartHeightLargerThanEndHeight { start_height, end_height } => {
                    format!("err StartHeightLargerThanEndHeight {} {}", start_height, end_height)
                }
            }
        }
    }
}

pub fn get_info() -> String {
    match guarded(can::get_blockchain_info) {
        Err(_) => "trap".into(),
        Ok(i) => format!(
            "{} {} {} {} {}",
            i.height,
            hex::encode(&i.block_hash),
            i.timestamp,
            i.difficulty,
            i.utxos_length
        ),
    }
}

pub fn get_fees(network: Network) -> String {
    let req = GetCurrentFeePercentilesRequest { network: net_in_req(network) };
    match guarded(|| can::get_current_fee_percentiles(req)) {
        Err(_) => "trap".into(),
        Ok(v) => format!("[{}]", v.iter().map(|x| x.to_string()).collect::<Vec<_>>().join(",")),
    }
}

/// the fee rates ranked by `get_current_fee_percentiles` if it looked at `n` transactions (hook)
pub fn get_fee_rates(n: u32) -> String {
    match guarded(|| can::verif_hooks::fees_per_byte(n)) {
        Err(_) => "trap".into(),
        Ok(v) => format!("[{}]", v.iter().map(|x| x.to_string()).collect::<Vec<_>>().join(",")),
    }
}

/// hashes of the chain currently being served (anchor first)
pub fn main_chain_hashes() -> Vec<String> {
    can::verif_hooks::main_chain_hashes().iter().map(|h| hex::encode(h.as_bytes())).collect()
}

pub fn stable_height() -> u32 {
    can::with_state(|s| s.stable_height())
}

pub fn set_flag(b: bool) -> Flag {
    if b { Flag::Enabled } else { Flag::Disabled }
}

// ---------------------------------------------------------------- dumps (hooks)

fn op_text(o: &ic_btc_types::OutPoint) -> String {
    format!("{}.{}", hex::encode(o.txid.as_bytes()), o.vout)
}

fn addr_of_script(script: &[u8], network: Network) -> String {
    script_address(bitcoin::Script::from_bytes(script), network).unwrap_or("-".into())
}

/// C20: the bookkeeping kept for unstable blocks, canonically sorted.
pub fn snapshot(network: Network) -> String {
    can::with_state(|s| {
        let u = &s.unstable_blocks;
        let mut tree: Vec<String> = u.verif_tree_shape().iter().map(|(h, _)| hex::encode(h.as_bytes())).collect();
        tree.sort();
        let mut cache: Vec<String> = u.verif_cache_hashes().iter().map(|h| hex::encode(h.as_bytes())).collect();
        cache.sort();
        let mut txo: Vec<String> = u
            .verif_tx_outs()
            .iter()
            .map(|(o, v, script, h, c)| format!("{}={}/{}/{}/{}", op_text(o), v, addr_of_script(script, network), h, c))
            .collect();
        txo.sort();
        let dump = |m: Vec<(ic_btc_types::BlockHash, Vec<(String, Vec<ic_btc_types::OutPoint>)>)>| {
            let mut v: Vec<String> = m
                .iter()
                .map(|(h, per)| {
                    let mut p: Vec<String> = per
                        .iter()
                        .map(|(a, os)| format!("{}>{}", a, os.iter().map(op_text).collect::<Vec<_>>().join("+")))
                        .collect();
                    p.sort();
                    format!("{}:{}", hex::encode(h.as_bytes()), p.join("/"))
                })
                .collect();
            v.sort();
            v.join(",")
        };
        let mut nh: Vec<String> = u
            .verif_next_headers_by_hash()
            .iter()
            .map(|(h, ht)| format!("{}@{}", hex::encode(h.as_bytes()), ht))
            .collect();
        nh.sort();
        let mut nhh: Vec<String> = u
            .verif_next_headers_by_height()
            .iter()
            .map(|(ht, v)| {
                let mut hs: Vec<String> = v.iter().map(|h| hex::encode(h.as_bytes())).collect();
                hs.sort();
                format!("{}@{}", ht, hs.join("+"))
            })
            .collect();
        nhh.sort();
        let mut td = u.verif_tip_depths_cache();
        td.sort();
        let mut tdr = u.verif_tip_depths_recomputed();
        tdr.sort();
        format!(
            "tree=[{}] cache=[{}] txouts=[{}] added=[{}] removed=[{}] next=[{}] nextbyheight=[{}] tips={:?} tipsfresh={:?}",
            tree.join(","),
            cache.join(","),
            txo.join(","),
            dump(u.verif_added()),
            dump(u.verif_removed()),
            nh.join(","),
            nhh.join(","),
            td,
            tdr
        )
    })
}

/// C08/C09: canonical dump of the stable structures.
pub fn digest(network: Network) -> String {
    can::with_state(|s| {
        let utxos: Vec<String> = s
            .utxos
            .verif_utxos()
            .iter()
            .map(|(o, v, script, h)| format!("{}={}/{}/{}", op_text(o), v, addr_of_script(script, network), h))
            .collect();
        let idx: Vec<String> = s.utxos.verif_address_index_keys().iter().map(hex::encode).collect();
        let mut bal: Vec<String> = s.utxos.verif_balances().iter().map(|(a, v)| format!("{}={}", a, v)).collect();
        bal.sort();
        let heights: Vec<String> = s
            .stable_block_headers
            .block_heights
            .iter()
            .map(|e| {
                let (h, hash) = e.into_pair();
                format!("{}@{}", h, hex::encode(hash.as_bytes()))
            })
            .collect();
        let ing = match s.utxos.verif_ingesting() {
            None => "-".to_string(),
            Some((h, t, i, o)) => {
                // a coinbase has one (null) input in the code and none in the model
                let cb = s.utxos.ingesting_block.as_ref().map(|b| b.block.txdata().get(t).map(|tx| tx.is_coinbase()).unwrap_or(false)).unwrap_or(false);
                format!("{}/{}/{}/{}", hex::encode(h.as_bytes()), t, if cb { 0 } else { i }, o)
            }
        };
        format!(
            "next={} ingesting={} utxos=[{}] index=[{}] balances=[{}] headers=[{}]",
            s.utxos.next_height(),
            ing,
            utxos.join(","),
            idx.join(","),
            bal.join(","),
            heights.join(",")
        )
    })
}
