mod blk;
mod canister;
mod hdr;
mod ledger;
mod out;
mod rng;
mod sync;
mod tf;
mod txc;
mod wd;
mod world;

use std::path::PathBuf;

/// Run parameters common to all streams.
pub struct Ctx {
    pub seed: u64,
    pub cases: u64,
    pub thorough: bool,
    pub shard: u64,
    pub shards: u64,
    pub only_case: Option<u64>,
}

fn main() {
    let args: Vec<String> = std::env::args().collect();
    if args.len() < 2 {
        eprintln!("usage: verif-harness <stream> --seed N --cases K --out DIR [--thorough]");
        std::process::exit(2);
    }
    let stream = args[1].clone();
    let mut seed = 1u64;
    let mut cases = 100u64;
    let mut dir = PathBuf::from("/tmp/verif-out");
    let mut thorough = false;
    let mut shard = 0u64;
    let mut shards = 1u64;
    let mut only_case: Option<u64> = None;
    let mut i = 2;
    while i < args.len() {
        match args[i].as_str() {
            "--seed" => { seed = args[i + 1].parse().unwrap(); i += 2; }
            "--cases" => { cases = args[i + 1].parse().unwrap(); i += 2; }
            "--out" => { dir = PathBuf::from(&args[i + 1]); i += 2; }
            "--thorough" => { thorough = true; i += 1; }
            "--shard" => { shard = args[i + 1].parse().unwrap(); i += 2; }
            "--shards" => { shards = args[i + 1].parse().unwrap(); i += 2; }
            "--only-case" => { only_case = Some(args[i + 1].parse().unwrap()); i += 2; }
            other => { eprintln!("unknown arg {}", other); std::process::exit(2); }
        }
    }
    canister::install_panic_hook();
    let mut out = out::Out::new(&dir);
    let ctx = Ctx { seed, cases, thorough, shard, shards, only_case };
    match stream.as_str() {
        "wd" => wd::run(&mut out, &ctx),
        "ledger" => ledger::run(&mut out, &ctx),
        "sync" => sync::run(&mut out, &ctx),
        "hdr" => hdr::run(&mut out, &ctx),
        "blk" => blk::run(&mut out, &ctx),
        "tf" => tf::run(&mut out, &ctx),
        "txc" => txc::run(&mut out, &ctx),
        other => { eprintln!("unknown stream {}", other); std::process::exit(2); }
    }
    out.finish(&[("seed", seed.to_string()), ("stream", out::json_str(&stream))]);
}
