/-
  Parsing / printing helpers for the line protocol. Import-free.
-/
namespace Driver

def hexDigit (c : Char) : Option Nat :=
  if '0' ≤ c ∧ c ≤ '9' then some (c.toNat - '0'.toNat)
  else if 'a' ≤ c ∧ c ≤ 'f' then some (c.toNat - 'a'.toNat + 10)
  else if 'A' ≤ c ∧ c ≤ 'F' then some (c.toNat - 'A'.toNat + 10)
  else none

/-- hex string → number (big-endian digits) -/
def hexToNat? (s : String) : Option Nat :=
  s.toList.foldl (fun acc c => match acc, hexDigit c with
    | some a, some d => some (a * 16 + d)
    | _, _ => none) (some 0)

def hexToNat (s : String) : Nat := (hexToNat? s).getD 0

def hexChar (n : Nat) : Char :=
  if n < 10 then Char.ofNat ('0'.toNat + n) else Char.ofNat ('a'.toNat + n - 10)

/-- number → hex string of exactly `digits` digits (big-endian) -/
def natToHex (n : Nat) (digits : Nat) : String :=
  let rec go (k : Nat) (n : Nat) (acc : List Char) : List Char :=
    match k with
    | 0 => acc
    | k + 1 => go k (n / 16) (hexChar (n % 16) :: acc)
  String.ofList (go digits n [])

/-- hex string → bytes -/
def hexToBytes (s : String) : List Nat :=
  let rec go : List Char → List Nat
    | a :: b :: rest => ((hexDigit a).getD 0 * 16 + (hexDigit b).getD 0) :: go rest
    | _ => []
  go s.toList

def bytesToHex (bs : List Nat) : String :=
  String.ofList (bs.flatMap (fun b => [hexChar (b / 16), hexChar (b % 16)]))

def optNat (s : String) : Option Nat :=
  if s == "x" || s == "-" || s == "none" then none else s.toNat?

def showOptNat : Option Nat → String
  | none => "x"
  | some n => toString n

def showOptInt : Option Int → String
  | none => "x"
  | some n => toString n

def showOptBool : Option Bool → String
  | none => "x"
  | some true => "1"
  | some false => "0"

def joinWith (sep : String) (l : List String) : String :=
  match l with
  | [] => ""
  | x :: xs => xs.foldl (fun acc y => acc ++ sep ++ y) x

/-- split on a separator character, keeping empty fields -/
def splitOnChar (s : String) (c : Char) : List String :=
  let rec go : List Char → List Char → List String → List String
    | [], cur, acc => (String.ofList cur.reverse :: acc).reverse
    | x :: xs, cur, acc =>
      if x == c then go xs [] (String.ofList cur.reverse :: acc) else go xs (x :: cur) acc
  go s.toList [] []

def words (s : String) : List String :=
  (splitOnChar s ' ').filter (fun w => w != "")

end Driver
