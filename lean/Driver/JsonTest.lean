import Driver.Transform
import BtcModel.Model.Json
import BtcModel.Model.JsonTestHex

/-
  Cross-check of the two ways the driver can obtain the parsed body of a `t` line (C18):
  from the protocol text of serde_json's value that `harness/src/tf.rs::parsed_text` sends today
  (`Driver.parseJsonText`; the texts below were printed by the same formatting code running on the
  real `serde_json::Value`, see `BtcModel/Model/JsonTest.probe.rs.txt`, section `driver`) and from the
  raw body bytes with the model's own parser (`Btc.Json.parseModel` = `toModelValue <$> Btc.Json.parse`).
  `#guard`s: the build fails if the two model values differ, or if any endpoint's transform output
  differs between the two. So `Driver.stepTransform` can be switched to `Btc.Json.parseModel`.
-/
namespace Driver.JsonTest
open Btc.Transform Btc.Json.Test

mutual
def jsonBeq : Json → Json → Bool
  | .null, .null => true
  | .bool a, .bool b => a == b
  | .uint a, .uint b => a == b
  | .otherNum, .otherNum => true
  | .str a, .str b => a == b
  | .arr a, .arr b => listBeq a b
  | .obj a, .obj b => membersBeq a b
  | _, _ => false
def listBeq : List Json → List Json → Bool
  | [], [] => true
  | x :: xs, y :: ys => jsonBeq x y && listBeq xs ys
  | _, _ => false
def membersBeq : List (String × Json) → List (String × Json) → Bool
  | [], [] => true
  | (k, x) :: xs, (k', y) :: ys => k == k' && jsonBeq x y && membersBeq xs ys
  | _, _ => false
end

/-- the value the driver reads from the protocol text (`X` = no value) -/
def viaText (text : String) : Option (Option Json) :=
  if text == "X" then some none
  else
    match parseJsonText text.toList with
    | some (j, []) => some (some j)
    | _ => none

/-- same model value from the protocol text and from the body bytes, and the same transform
    output for every endpoint and status 200 -/
def agrees (body : List Nat) (text : String) : Bool :=
  match viaText text with
  | none => false
  | some pj =>
    (match pj, Btc.Json.parseModel body with
      | none, none => true
      | some a, some b => jsonBeq a b
      | _, _ => false) &&
    Endpoint.all.all (fun ep =>
      transform (fun _ => pj) ep ⟨200, [], body⟩ == transform Btc.Json.parseModel ep ⟨200, [], body⟩)

#guard agrees (hex "6e756c6c") "n"
#guard agrees (hex "74727565") "t"
#guard agrees (hex "2066616c736520") "f"
#guard agrees (hex "30") "u0"
#guard agrees (hex "3138343436373434303733373039353531363135") "u18446744073709551615"
#guard agrees (hex "3138343436373434303733373039353531363136") "x"
#guard agrees (hex "2d35") "x"
#guard agrees (hex "312e30") "x"
#guard agrees (hex "316533") "x"
#guard agrees (hex "2222") "s"
#guard agrees (hex "2261626322") "s616263"
#guard agrees (hex "225c75303065395c75643833645c75646530305c6e22") "sc3a9f09f98800a"
#guard agrees (hex "22e282bf22") "se282bf"
#guard agrees (hex "5b5d") "a()"
#guard agrees (hex "5b312c322c335d") "a(u1,u2,u3)"
#guard agrees (hex "5b5b5d2c5b5b5d5d2c7b7d5d") "a(a(),a(a()),o())"
#guard agrees (hex "7b7d") "o()"
#guard agrees (hex "7b22686569676874223a3730303030307d") "o(686569676874:u700000)"
#guard agrees (hex "7b2262223a312c2261223a322c2262223a337d") "o(61:u2,62:u3)"
#guard agrees (hex "5b7b22686569676874223a3831323030302c2268617368223a2230306162227d5d") "a(o(68617368:s30306162,686569676874:u812000))"
#guard agrees (hex "7b2264617461223a7b22626573745f626c6f636b5f686569676874223a3831323334357d2c22636f6e74657874223a7b7d7d") "o(636f6e74657874:o(),64617461:o(626573745f626c6f636b5f686569676874:u812345))"
#guard agrees (hex "7b22c3a9223a312c227a223a5b747275652c6e756c6c5d2c22223a2278227d") "o(:s78,7a:a(t,n),c3a9:u1)"
#guard agrees (hex "5b312c") "X"
#guard agrees (hex "7b2261223a317d78") "X"
#guard agrees (hex "5b31653330395d") "X"
#guard agrees (hex "22ff22") "X"
#guard agrees (hex "5b207b202268617368223a0a223030616222202c2274696d65223a5b312c322c7b2261223a6e756c6c7d5d20200d0a7d5d") "a(o(68617368:s30306162,74696d65:a(u1,u2,o(61:n))))"
#guard agrees (hex "7b2264617461223a3436373738307d") "o(64617461:u467780)"
#guard agrees (hex "7b22686569676874223a2d352c20200d0a226865696768742220200d0a3a0a5b315d7d") "o(686569676874:a(u1))"
#guard agrees (hex "5b5b5b5b5b5b5b5b5b5b5b5b5b5b5b5b5b5b5b5b5b5b5b5b5b5b5b5b5b5b5b5b5b5b5b5b5b5b5b5b5b5b5b5b5b5b5b5b5b5b5b5b5b5b5b5b5b5b5b5b5b5b5b5b5b5b5b5b5b5b5b5b5b5b5b5b5b5b5b5b5b5b5b5b5b5b5b5b5b5b5b5b5b5b5b5b5b5b5b5b5b5b5b5b5b5b5b5b5b5b5b5b5b5b5b5b5b5b5b5b5b5b5b5b5b5b5b5b5b5b5b5b5b5b5b5b5b5b5b5b5b5b5b5b5b5b5b5b5b5b5b5b5b5b5b5b5b5b5b5b5b5b5b5b5b5b5b5b5b5b5b5b5b5b5b5b5b5b5b5b5b5b5b5b5b5b5b5b5b5b5b5b5b5b5b5b5b5b5b5b") "X"
#guard agrees (hex "7b22636f6e74657874223a7b7d2c2264617461220a3a7b20200d0a22626573745f626c6f636b5f6865696768742209203a20200d0a343035313431207d09207d") "o(636f6e74657874:o(),64617461:o(626573745f626c6f636b5f686569676874:u405141))"
#guard agrees (hex "7b226865696768742220200d0a3a0a31653320200d0a2c09202268617368223a20200d0a22303061622220200d0a2c092022686569676874223a22373030303030227d") "o(68617368:s30306162,686569676874:s373030303030)"
#guard agrees (hex "5b207b0a2268617368223a2230306162222c0a2268617368223a2230306162222c0a226865696768742209203a20200d0a7472") "X"
#guard agrees (hex "7b22636f6e74657874223a7b7d2c09202264617461223a7b20200d0a20200d0a7d7d") "o(636f6e74657874:o(),64617461:o())"
#guard agrees (hex "7b20200d0a2268656967687422203a6e756c6c0a7d") "o(686569676874:n)"
#guard agrees (hex "5b7b22686569676874223a307d2c7b20200d0a22686569676874220a3a09203165330a7d5d") "a(o(686569676874:u0),o(686569676874:x))"
#guard agrees (hex "7b22636f6e74657874223a7b7d2c0a22646174612209203a7b2274696d65223a5b312c322c7b2261223a6e756c6c7d5d20200d0a7d09207d") "o(636f6e74657874:o(),64617461:o(74696d65:a(u1,u2,o(61:n))))"
#guard agrees (hex "7b226e6f7465223a22787861e282bf61e282bf61e282bf61e282bf61e282bf61e282bf61e282bf61e282bf61e282bf61e282bf61e282bf61e282bf61e282bf61e282bf61e282bf61e282bf61e282bf61e282bf61e282bf61e282bf61e282bf61e282bf61e282bf61e282bf61e282bf61e282bf61e282bf61e282bf61e282bf61e282bf61e282bf61e282bf61e282bf61e282bf61e282bf61e282bf61e282bf61e282bf61e282bf61e282bf61e282bf61e282bf61e282bf61e282bf61e282bf222c2274696d65223a5b312c322c7b2261223a6e756c6c7d5d207d") "o(6e6f7465:s787861e282bf61e282bf61e282bf61e282bf61e282bf61e282bf61e282bf61e282bf61e282bf61e282bf61e282bf61e282bf61e282bf61e282bf61e282bf61e282bf61e282bf61e282bf61e282bf61e282bf61e282bf61e282bf61e282bf61e282bf61e282bf61e282bf61e282bf61e282bf61e282bf61e282bf61e282bf61e282bf61e282bf61e282bf61e282bf61e282bf61e282bf61e282bf61e282bf61e282bf61e282bf61e282bf61e282bf61e282bf61e282bf,74696d65:a(u1,u2,o(61:n)))"
#guard agrees (hex "5b207b092022686569676874220a3a312e3020200d0a2c092022686569676874223a373635343538207d5d") "a(o(686569676874:u765458))"
#guard agrees (hex "7b22636f6e74657874223a7b7d2c202264617461223a7b092022626573745f626c6f636b5f686569676874223a0a3136303630342c20226e6573746564223a7b22686569676874223a317d0a7d7d") "o(636f6e74657874:o(),64617461:o(626573745f626c6f636b5f686569676874:u160604,6e6573746564:o(686569676874:u1)))"
#guard agrees (hex "5b5b5b5b5b5b5b5b5b5b5b5b5b5b5b5b5b5b5b5b5b5b5b5b5b5b5b5b5b5b5b5b5b5b5b5b5b5b5b5b5b5b5b5b5b5b5b5b5b5b5b5b5b5b5b5b5b5b5b5b5b5b5b5b5b5b5b5b5b5b5b5b5b5b5b5b5b5b5b5b5b5b5b5b5b5b5b5b5b5b5b5b5b5b5b5b5b5b5b5b5b5b5b5b5b5b5b5b5b5b5b5b5b5b5b5b5b5b5b5b5b5b5b5b5b5b5b5b5b5b5b5b5b5b5b5b5b5b5b5b5b5b5b5b5b5b5b5b5b5b5b5b5b5b5b5b5b5b5b5b5b5b5b5b5b5b5b5b5b5b5b5b5b5b5b5b5b5b5b5b5b5b5b5b5b5b5b5b5b5b5b5b5b5b5b5b5b5b5b5b") "X"
#guard agrees (hex "22205c625c6e5c745c6222") "s20080a0908"
#guard agrees (hex "5b5d") "a()"
#guard agrees (hex "7b22223a090a0d74727565092c2261223a0d200a66616c7365200a2c0d092264617461220a20203a5b5d2c226161223a5b6e756c6c20095d7d") "o(:t,61:f,6161:a(n),64617461:a())"
#guard agrees (hex "5b0909205b0d7b200d0a7d2c225c5c22090a0a5d5d") "a(a(o(),s5c))"
#guard agrees (hex "225c725c725c225c226befbfbf22") "s0d0d22226befbfbf"
#guard agrees (hex "2d31") "x"
#guard agrees (hex "6e756c6c") "n"
#guard agrees (hex "5b5b200a095d2c09090d66616c73652c5b5b66616c73650d2c225c62222c2d305d0a2c747275650a0d0d5d5d") "a(a(),f,a(a(f,s08,x),t))"
#guard agrees (hex "74727565") "t"
#guard agrees (hex "5b0d0a0a31383434363734343037333730393535313631362c0d205b0d0a225c625c665c745c75646164315c7544444446222c0d0d6e756c6c200a5d2c225c2f205c625c2222090d5d") "a(x,a(s080c09f384979f,n),s2f200822)"
#guard agrees (hex "66616c7365") "f"
#guard agrees (hex "5b5d") "a()"
#guard agrees (hex "74727565") "t"
#guard agrees (hex "74727565") "t"
#guard agrees (hex "5b095b0a0a0a5b7472756509205d0909202c225c75643830385c75444544415c75646238335c7544453739e0a0805c74225d5d") "a(a(a(t),sf0928b9af3b0b9b9e0a08009))"

end Driver.JsonTest
