import Driver.Util
import BtcModel.Model.Fees
import BtcModel.Spec.Ledger
import BtcModel.Gen.Constants
import BtcModel.Model.Merkle
import BtcModel.Model.AddrParse

/-
  Line protocol for the canister model: parsing of blocks / requests and canonical printing of
  observations (must match `harness/src/canister.rs` character for character).
-/
open Btc

namespace Driver

/-- `testnet_unstable_max_depth_difference` mirrored with IEEE doubles (see DESIGN.md §2.1). -/
def testnetBound (n thr : Nat) : Nat :=
  let maxD := Btc.Gen.maxTestnetUnstableDepthDifference
  let minD := min thr (maxD - 1)
  if n ≥ Btc.Gen.maxUnstableBlocks then minD
  else
    let range : Float := (maxD - minD).toFloat
    let ratio : Float := n.toFloat / Btc.Gen.maxUnstableBlocks.toFloat
    let interp : Float := maxD.toFloat - ratio * range
    interp.round.toUInt64.toNat

def strBytes (s : String) : List Nat := s.toUTF8.toList.map (·.toNat)
def bytesStr (b : List Nat) : String := String.ofList (b.map (fun n => Char.ofNat n))

def parseNet (s : String) : Tree.Net :=
  if s == "mainnet" then .mainnet else if s == "testnet" then .testnet else .regtest

def showNet : Tree.Net → String
  | .mainnet => "mainnet" | .testnet => "testnet" | .regtest => "regtest"

/-- the network a spelling NAMES (case-insensitively): the specification of the conversion -/
def parseNetByName (s : String) : Tree.Net :=
  if s.toLower == "mainnet" then .mainnet else if s.toLower == "testnet" then .testnet else .regtest

/-- a network as spelled in a request (`Regtest` / `regtest` …), converted with the table that the
    translator regenerates from `impl From<NetworkInRequest> for Network` -/
def parseNetInRequest (s : String) : Tree.Net :=
  let lower := s == s.toLower
  let named : Btc.Gen.Network :=
    if s.toLower == "mainnet" then .mainnet else if s.toLower == "testnet" then .testnet else .regtest
  match Btc.Gen.networkInRequestTable.find? (fun r => r.1 == (named, lower)) with
  | some (_, .mainnet) => .mainnet
  | some (_, .testnet) => .testnet
  | some (_, .regtest) => .regtest
  | none => .regtest

def parseOutPoint (s : String) : OutPoint :=
  match splitOnChar s '.' with
  | [t, v] => ⟨hexToNat t, v.toNat!⟩
  | _ => ⟨0, 0⟩

def parseTxOut (s : String) : TxOut :=
  match splitOnChar s '.' with
  | [v, a, o] => ⟨v.toNat!, if a == "-" then none else some (strBytes a), o == "1"⟩
  | _ => ⟨0, none, false⟩

def parseList (s : String) (c : Char) : List String :=
  if s == "" then [] else splitOnChar s c

def parseTx (s : String) : Tx :=
  match splitOnChar s ':' with
  | [txid, ntxid, cb, vsize, ins, outs] =>
    { txid := hexToNat txid, ntxid := hexToNat ntxid, coinbase := cb == "1", vsize := vsize.toNat!,
      ins := (parseList ins '|').map parseOutPoint, outs := (parseList outs '|').map parseTxOut }
  | _ => { txid := 0, coinbase := false, vsize := 0, ins := [], outs := [] }

def parseBlock (s : String) : Block :=
  match splitOnChar s ',' with
  | [hash, prev, diff, time, bits, hdr, _mok, txs] =>
    let txl := (parseList txs ';').map parseTx
    -- the merkle root committed in the header: bytes 36..68 of the 80-byte header
    let root := hexToNat ((hdr.drop 72).take 64).toString
    -- `check_merkle_root` decided by the model's own SHA-256d (not by the harness' flag)
    { hash := hexToNat hash, prev := hexToNat prev, diff := diff.toNat!, time := time.toNat!,
      bits := bits.toNat!, header := hdr, txs := txl,
      merkleOk := Btc.Merkle.checkMerkleRoot Btc.Merkle.hashPair root txl }
  | _ => { hash := 0, prev := 0, diff := 0, time := 0, bits := 0, header := "", txs := [] }

def hash64 (n : Nat) : String := natToHex n 64

def showOutPoint (o : OutPoint) : String := s!"{hash64 o.txid}.{o.vout}"

def showUtxo (u : Utxo) : String := s!"{u.height}:{hash64 u.outpoint.txid}:{u.outpoint.vout}:{u.value}"

def showUtxoList (l : List Utxo) : String := "[" ++ joinWith "," (l.map showUtxo) ++ "]"

def parseAddrArg (s : String) : State.AddrArg :=
  if s == "bad" || s.startsWith "bad:" then .malformed
  else if s == "wrongnet" || s.startsWith "wrongnet:" then .wrongNetwork
  else .ok (strBytes ((s.drop 2).toString.splitOn "~")[0]!)

/-- the request's address string as sent (`<class>:<hex of the string>` or `a:<canonical>~<hex>`) -/
def requestString (s : String) : Option String :=
  let hexPart : Option String :=
    if s.startsWith "bad:" then some (s.drop 4).toString
    else if s.startsWith "wrongnet:" then some (s.drop 9).toString
    else if s.startsWith "a:" then (match (s.drop 2).toString.splitOn "~" with | [_, h] => some h | _ => none)
    else none
  hexPart.map (fun h => String.ofList ((hexToBytes h).map (fun b => Char.ofNat b)))

/-- `Address::from_str_checked` as modelled (`Btc.AddrParse.parseAddress`) applied to the request's
    string; the ledger key is the canonical text of the script it denotes -/
def addrArgOwn (net : Tree.Net) (text : String) : State.AddrArg :=
  match Btc.AddrParse.parseAddress net (strBytes text) with
  | .ok script =>
    match Btc.BlockCodec.addressOf net script with
    | some a => .ok a
    | none => .malformed
  | .wrongNetwork => .wrongNetwork
  | .malformed => .malformed

/-- The model's own reading of the request string when the line carries it, cross-checked with the
    classification the real parser gave (second component: they agree). -/
def addrArgChecked (net : Tree.Net) (tok : String) : State.AddrArg × Bool :=
  let given := parseAddrArg tok
  match requestString tok with
  | none => (given, true)
  | some text =>
    let own := addrArgOwn net text
    (own, own == given)

/-- `Page::from_bytes` on hex text: 72 bytes = tip(32) ‖ height (XOR-ed BE, 4) ‖ txid(32) ‖ vout LE (4) -/
def parsePage (hex : String) : Option (Nat × Nat × OutPoint) :=
  let bs := if hex == "-" then [] else hexToBytes hex
  if bs.length ≠ Btc.Gen.expectedPageLength then none
  else
    let tip := (bs.take 32).foldl (fun a b => a * 256 + b) 0
    let height := ((bs.drop 32).take 4).foldl (fun a b => a * 256 + (255 - b)) 0
    let txid := ((bs.drop 36).take 32).foldl (fun a b => a * 256 + b) 0
    let vout := ((bs.drop 68).take 4).reverse.foldl (fun a b => a * 256 + b) 0
    some (tip, height, ⟨txid, vout⟩)

/-- `Page::to_bytes` as hex -/
def showPage (p : Nat × Nat × OutPoint) : String :=
  bytesToHex (beBytes 32 p.1 ++ heightBytes p.2.1 ++ outPointBytes p.2.2)

def parseFilter (s : String) : State.UtxosFilter :=
  if s == "none" then .none_
  else if s.startsWith "c=" then .minConf (s.drop 2).toString.toNat!
  else if s.startsWith "page=" then .page (parsePage (s.drop 5).toString)
  else .none_

def showUtxosError : State.UtxosError → String
  | .malformedAddress => "err MalformedAddress"
  | .wrongNetwork => "err AddressForWrongNetwork"
  | .minConfirmationsTooLarge g m => s!"err MinConfirmationsTooLarge {g} {m}"
  | .unknownTipBlockHash t => s!"err UnknownTipBlockHash {hash64 t}"
  | .malformedPage => "err MalformedPage"

def showUtxosResult : State.QResult State.UtxosResponse → String
  | .trap _ => "trap"
  | .err e => showUtxosError e
  | .ok r =>
    let np := match r.nextPage with | some p => showPage p | none => "-"
    s!"ok {r.tipHeight} {hash64 r.tipHash} {showUtxoList r.utxos} {np}"

/-- follow `next_page` to the end, as `harness::canister::get_utxos_all` does -/
def utxosAll (s : State) (addr : State.AddrArg) (filter : State.UtxosFilter) (limit : Nat) : String :=
  match s.getUtxos addr filter limit with
  | .trap _ => "trap"
  | .err e => showUtxosError e
  | .ok first =>
    let rec go (fuel : Nat) (acc : List Utxo) (next : Option (Nat × Nat × OutPoint)) (pages : Nat)
        (sameTip within : Bool) : String :=
      match next with
      | none =>
        s!"ok {first.tipHeight} {hash64 first.tipHash} {showUtxoList acc} sametip={if sameTip then 1 else 0} within={if within then 1 else 0}"
      | some p =>
        match fuel with
        | 0 => "err too-many-pages"
        | fuel + 1 =>
          match s.getUtxos addr (.page (some p)) limit with
          | .ok r =>
            go fuel (acc ++ r.utxos) r.nextPage (pages + 1)
              (sameTip && r.tipHash == first.tipHash && r.tipHeight == first.tipHeight)
              (within && r.utxos.length ≤ limit)
          | other => s!"pagefail {pages} {showUtxosResult other}"
    go 5000 first.utxos first.nextPage 1 true (first.utxos.length ≤ limit)

def showBalance : State.QResult Nat → String
  | .trap _ => "trap"
  | .ok v => s!"ok {v}"
  | .err e => showUtxosError e

def showHeaders : Except State.HeadersError (Nat × List String) → String
  | .ok (tip, hs) => s!"ok {tip} [{joinWith "," hs}]"
  | .error (.startHeightDoesNotExist r c) => s!"err StartHeightDoesNotExist {r} {c}"
  | .error (.endHeightDoesNotExist r c) => s!"err EndHeightDoesNotExist {r} {c}"
  | .error (.startLargerThanEnd a b) => s!"err StartHeightLargerThanEndHeight {a} {b}"

def showInfo (i : State.BlockchainInfo) : String :=
  s!"{i.height} {hash64 i.hash} {i.timestamp} {i.difficulty} {i.utxosLength}"

def showNatList (l : List Nat) : String := "[" ++ joinWith "," (l.map toString) ++ "]"

def sortStrings (l : List String) : List String := l.mergeSort (fun a b => a < b || a == b)

def addrText : Option Addr → String
  | none => "-"
  | some a => bytesStr a

/-- Rust `{:?}` of a `Vec<usize>` -/
def debugVec (l : List Nat) : String := "[" ++ joinWith ", " (l.map toString) ++ "]"

def sortNats (l : List Nat) : List Nat := l.mergeSort (fun a b => a ≤ b)

def showDeltaMap (m : List (Nat × List (Addr × List OutPoint))) : String :=
  joinWith "," (sortStrings (m.map (fun p =>
    let per := sortStrings (p.2.map (fun q => s!"{bytesStr q.1}>{joinWith "+" (q.2.map showOutPoint)}"))
    s!"{hash64 p.1}:{joinWith "/" per}")))

/-- C20 snapshot, same canonical text as `harness::canister::snapshot` -/
def snapshot (s : State) : String :=
  let u := s.unstable
  let tree := sortStrings (u.tree.blocks.map (fun b => hash64 b.hash))
  let cache := sortStrings (u.blockCache.map hash64)
  let txo := sortStrings (u.cache.txOuts.map (fun p =>
    s!"{showOutPoint p.1}={p.2.txout.value}/{addrText p.2.txout.addr}/{p.2.height}/{p.2.count}"))
  let nh := sortStrings (u.next.byHash.map (fun p => s!"{hash64 p.1}@{p.2.1}"))
  let nhh := sortStrings (u.next.byHeight.map (fun p => s!"{p.1}@{joinWith "+" (sortStrings (p.2.map hash64))}"))
  s!"tree=[{joinWith "," tree}] cache=[{joinWith "," cache}] txouts=[{joinWith "," txo}] added=[{showDeltaMap u.cache.added}] removed=[{showDeltaMap u.cache.removed}] next=[{joinWith "," nh}] nextbyheight=[{joinWith "," nhh}] tips={debugVec (sortNats u.tipDepthsCache)} tipsfresh={debugVec (sortNats u.tree.tipDepths)}"

/-- C08/C09 digest, same canonical text as `harness::canister::digest` -/
def digest (s : State) : String :=
  let utxos := (sortBy (fun (a b : OutPoint × (TxOut × Nat)) => a.1.lt b.1) s.utxos.utxos).map (fun p =>
    s!"{showOutPoint p.1}={p.2.1.value}/{addrText p.2.1.addr}/{p.2.2}")
  let idx := (sortBy (fun (a b : IdxEntry) => lexLt a.key b.key) s.utxos.index).map (fun e => bytesToHex e.key)
  let bal := sortStrings (s.utxos.balances.map (fun p => s!"{bytesStr p.1}={p.2}"))
  let heights := (sortBy (fun (a b : Nat × Nat) => a.1 < b.1) s.headers.byHeight).map (fun p => s!"{p.1}@{hash64 p.2}")
  let ing := match s.utxos.ingesting with
    | none => "-"
    | some i => s!"{hash64 i.block.hash}/{i.txIdx}/{i.inIdx}/{i.outIdx}"
  s!"next={s.utxos.nextHeight} ingesting={ing} utxos=[{joinWith "," utxos}] index=[{joinWith "," idx}] balances=[{joinWith "," bal}] headers=[{joinWith "," heights}]"

end Driver
