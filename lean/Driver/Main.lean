import Driver.Util
import BtcModel.Model.Tree
import BtcModel.Model.Watchdog

open Btc

namespace Driver

structure DState where
  wdCfg : Watchdog.Cfg := ⟨0, 0, 0⟩
  wdStore : Watchdog.Store := ⟨[], none⟩

def statusCode : Watchdog.Status → Nat
  | .notEnoughData => 0 | .ok => 1 | .ahead => 2 | .behind => 3

/-- One protocol line → new state and the model's observation. -/
def step (st : DState) (ws : List String) : DState × String :=
  match ws with
  | "case" :: _ => ({}, "-")
  | ["wd", "cfg", b, a, m, n] =>
    ({ st with wdCfg := ⟨b.toNat!, a.toNat!, m.toNat!⟩, wdStore := Watchdog.Store.init n.toNat! }, "-")
  | "wd" :: "round" :: can :: hs =>
    let store := st.wdStore.round (hs.map optNat) (optNat can)
    let d := store.decision st.wdCfg
    ({ st with wdStore := store },
      s!"{statusCode d.1} {showOptNat d.2.1} {showOptInt d.2.2.1} {showOptBool d.2.2.2}")
  | _ => (st, "bad-op")

partial def loop (h : IO.FS.Stream) (out : IO.FS.Stream) (st : DState) : IO Unit := do
  let line ← h.getLine
  if line.isEmpty then return ()
  let ws := words (line.trimAscii.toString)
  let (st', o) := step st ws
  out.putStrLn o
  loop h out st'

end Driver

def main (args : List String) : IO Unit := do
  let out ← IO.getStdout
  match args with
  | [path] =>
    let h ← IO.FS.Handle.mk path IO.FS.Mode.read
    Driver.loop (IO.FS.Stream.ofHandle h) out {}
  | _ =>
    let h ← IO.getStdin
    Driver.loop h out {}
