import Driver.Util
import BtcModel.Model.Tree
import BtcModel.Model.Watchdog
import Driver.Canister
import Driver.Transform
import BtcModel.Model.TxCodec
import BtcModel.Model.Endpoints
import BtcModel.Model.EndpointsPaged
import BtcModel.Model.BlockCodec
import BtcModel.Spec.FeeSpec

open Btc

namespace Driver

structure DState where
  wdCfg : Watchdog.Cfg := ⟨0, 0, 0⟩
  wdStore : Watchdog.Store := ⟨[], none⟩
  /-- canister model state -/
  st : Option State := none
  /-- ghost: the blocks ingested so far (the stable chain below the anchor), genesis first -/
  ghost : List Block := []
  now : Nat := 0
  /-- decode oracle: what the library decoders return for the blobs seen so far -/
  decBlocks : List (String × Option Block) := []
  decHeaders : List (String × Option NextHeader) := []
  /-- C11 stream: synthetic header store (height, header) and its network -/
  hdrStore : List (Nat × Header.Hdr) := []
  hdrNet : Tree.Net := .regtest
  /-- C03: the chain served before the last ingestion opportunity, and how many anchors it popped -/
  servedBefore : List Nat := []
  /-- C08: the state before the ingestion of the current anchor began -/
  preIngest : Option State := none
  /-- C06: interleaved page walk (address, limit, next token, first tip, collected so far, same tip, expected set) -/
  walk : Option (Addr × Nat × (Nat × Nat × OutPoint) × (Nat × Nat) × List Utxo × Bool × String) := none
  lastPopped : Nat := 0
  /-- number of blocks on which the model's own decoding disagreed with the library's -/
  codecBad : Nat := 0
  /-- F13 precondition: the stability threshold was RAISED while the anchor's ingestion was paused -/
  thrRaisedWhilePaused : Bool := false
  /-- how many iterations of the loop of `insert_next_block_headers` fit under the instruction
      threshold in the next heartbeat (announced by the harness with `c hdrslots <n>`) -/
  hdrSlots : Nat := 1000000000

/-- the address argument as the model itself parses the request string, and a mark for the output
    line when the real parser classified the string differently -/
def addrMark (s : State) (tok : String) : State.AddrArg × String :=
  let (a, ok) := addrArgChecked s.network tok
  (a, if ok then "" else " !addr")

def statusCode : Watchdog.Status → Nat
  | .notEnoughData => 0 | .ok => 1 | .ahead => 2 | .behind => 3

/-- full chain (genesis first) ending at the tree block with hash `tip` -/
def fullChainTo (ghost : List Block) (s : State) (tip : Nat) : Option (List Block) :=
  (Tree.chainWithTip CBlock.hash tip s.unstable.tree).map (fun p => ghost ++ p.1.map (·.blk))

def canonUtxos (l : List Utxo) : String := showUtxoList (Spec.canonical l)

def summary (s : State) : String :=
  let sy := s.syncing
  let resp := match sy.response with
    | none => "none"
    | some (.complete r) => s!"complete:{r.blocks.length}:{r.next.length}"
    | some (.partial_ p k) => s!"partial:{k}/{p.remaining}:{p.partialBlock.length / 2}"
  let b (x : Bool) : Nat := if x then 1 else 0
  s!"stable={s.utxos.nextHeight} ingesting={b s.utxos.ingesting.isSome} fetching={b sy.isFetching} resp={resp} rej={sy.rejects} deser={sy.deserializeErrors} insert={sy.insertErrors} blocks={s.unstable.tree.blocksCount} maxnext={showOptNat s.unstable.next.maxHeight} nnext={s.unstable.next.byHash.length}"

def envOf (d : DState) : Env :=
  { now := d.now
    dec := { block := fun blob => (AList.find? d.decBlocks blob).getD none
             header := fun blob => (AList.find? d.decHeaders blob).getD none }
    bound := testnetBound
    syncedThreshold := Btc.Gen.syncedThreshold
    maxHeaders := Btc.Gen.maxBlockHeadersPerResponse
    numTransactions := Btc.Gen.numTransactions
    headerSlots := d.hdrSlots }

def parseHeaderDec (raw : String) (s : String) : Option NextHeader :=
  if s == "G" then none
  else match splitOnChar s ',' with
    | [h, p, t, b] => some ⟨hexToNat h, hexToNat p, t.toNat!, b.toNat!, raw⟩
    | _ => none

/-- `blob=decoded` → (blob, decoded) -/
def splitBlob (s : String) : String × String :=
  match splitOnChar s '=' with
  | [a, b] => (if a == "-" then "" else a, b)
  | _ => (s, "G")

/-- The model's own decoding of a block from its consensus bytes (`Btc.BlockCodec`): hash, txids,
    virtual sizes, coinbase flags, OP_RETURN flags and address texts are *computed* here. The
    harness' text (what the real library derived) supplies only the float-valued difficulty; any other
    disagreement is counted in `codecBad` and marks the output line. -/
def decodeChecked (net : Tree.Net) (hex : String) (text : String) : Option Block × Bool :=
  let claimed : Option Block := if text == "G" then none else some (parseBlock text)
  let diff := match claimed with | some b => b.diff | none => 0
  -- prefix decode: the heartbeat uses `consensus_decode` on a reader, trailing bytes are ignored
  let own := Btc.BlockCodec.blockOfBytesPrefix net (fun _ => diff) (hexToBytes hex)
  (own, own == claimed)

def netOf (d : DState) : Tree.Net := match d.st with | some s => s.network | none => .regtest

def registerBlocks (d : DState) (items : List String) : DState × List String :=
  items.foldl (fun (acc : DState × List String) it =>
    let (blob, dec) := splitBlob it
    let (decoded, same) := decodeChecked (netOf d) blob dec
    ({ acc.1 with decBlocks := AList.insert acc.1.decBlocks blob decoded,
                  codecBad := acc.1.codecBad + (if same then 0 else 1) }, acc.2 ++ [blob])) (d, [])

/-- the model's own decoding of an announced 80-byte header blob (hash = SHA-256d of the bytes) -/
def decodeHeaderOwn (blob : String) : Option NextHeader :=
  let bs := hexToBytes blob
  match Btc.BlockCodec.decodeHeader bs with
  | some (h, []) => some ⟨Btc.BlockCodec.headerHash bs, Btc.Merkle.ofBeBytes h.prev, h.time, h.bits, blob⟩
  | _ => none

def registerHeaders (d : DState) (items : List String) : DState × List String :=
  items.foldl (fun (acc : DState × List String) it =>
    let (blob, dec) := splitBlob it
    let own := decodeHeaderOwn blob
    let same := own == parseHeaderDec blob dec
    ({ acc.1 with decHeaders := AList.insert acc.1.decHeaders blob own,
                  codecBad := acc.1.codecBad + (if same then 0 else 1) }, acc.2 ++ [blob])) (d, [])

def dropPrefix (s : String) (n : Nat) : String := (s.drop n).toString

def showRequest : State.Request → String
  | .initial a ps => s!"initial {hash64 a} [{joinWith "," (ps.map hash64)}]"
  | .followUp k => s!"followup {k}"

def applyReply (d : DState) (s : State) (r : State.Reply) : DState × String :=
  let mark := if d.codecBad > 0 then s!" !codec={d.codecBad}" else ""
  match s.heartbeatReply r with
  | some s' => ({ d with st := some s' }, s!"stored | {summary s'}{mark}")
  | none =>
    let s' := s.replyTrapState
    ({ d with st := some s' }, s!"trap | {summary s'}{mark}")

def parseFees (csv : String) : Fees :=
  match (splitOnChar csv ',').map String.toNat! with
  | [a, b, c, e, f, g, h, i, j, k, l, m] =>
    { getUtxosBase := a, getUtxosCyclesPerTenInstructions := b, getUtxosMaximum := c, getBalance := e,
      getBalanceMaximum := f, getCurrentFeePercentiles := g, getCurrentFeePercentilesMaximum := h,
      sendTransactionBase := i, sendTransactionPerByte := j, getBlockHeadersBase := k,
      getBlockHeadersCyclesPerTenInstructions := l, getBlockHeadersMaximum := m }
  | _ => {}

def showRefusal : State.Refusal → String
  | .apiDisabled => "trap api-disabled"
  | .wrongNetwork => "trap wrong-network"
  | .notSynced => "trap not-synced"

def showTrap : State.CallTrap → String
  | .refused r => showRefusal r
  | .cycles => "trap cycles"
  | .other => "trap other"

/-- a gated endpoint call: `(new state, result text, accepted cycles)` -/
def endpointCall (d : DState) (s : State) (ep : String) (reqNet : Tree.Net) (avail ins : Nat)
    (addr : State.AddrArg) (cc start : Nat) (flt : State.UtxosFilter) (end_ : Option Nat) : State × String × Nat :=
  let env := envOf d
  let r : State.DataReq := { reqNet := reqNet, available := avail, instructions := ins, addr := addr,
                             minConf := cc, start := start, limit := Btc.Gen.maxUtxosPerResponse }
  let showU (q : State.QResult State.UtxosResponse) : String := match q with
    | .ok v => s!"ok {v.tipHeight} n={v.utxos.length} next={if v.nextPage.isSome then 1 else 0}" | .err _ => "err" | .trap _ => "trap other"
  let showB (q : State.QResult Nat) : String := match q with
    | .ok v => s!"ok {v}" | .err _ => "err" | .trap _ => "trap other"
  if ep == "get_utxos" then
    match s.callGetUtxosF env r flt with
    | .trap t => (s, showTrap t, 0)
    | .answered a acc s' => (s', showU a, acc)
  else if ep == "get_utxos_query" then
    match s.callGetUtxosQueryF env r flt with
    | .trap t => (s, showTrap t, 0)
    | .answered a acc s' => (s', showU a, acc)
  else if ep == "get_balance" then
    match s.callGetBalance env r with
    | .trap t => (s, showTrap t, 0)
    | .answered a acc s' => (s', showB a, acc)
  else if ep == "get_balance_query" then
    match s.callGetBalanceQuery env r with
    | .trap t => (s, showTrap t, 0)
    | .answered a acc s' => (s', showB a, acc)
  else if ep == "get_block_headers" then
    match s.callGetBlockHeadersE env r end_ with
    | .trap t => (s, showTrap t, 0)
    | .answered (.ok (tip, hs)) acc s' => (s', s!"ok {tip} n={hs.length}", acc)
    | .answered (.error _) acc s' => (s', "err", acc)
  else
    match s.callFeePercentiles env r with
    | .trap t => (s, showTrap t, 0)
    | .answered p acc s' => (s', s!"ok {p.length}", acc)

/-- canister ops (`c ...`) -/
def stepCanister (d : DState) (ws : List String) : DState × String :=
  match ws, d.st with
  | ["time", t], _ => ({ d with now := t.toNat! }, "-")
  | ["hdrslots", n], _ => ({ d with hdrSlots := n.toNat! }, "-")
  | ["setfees", csv], some s => ({ d with st := some { s with fees := parseFees csv } }, "-")
  | ["hb", budget], some s =>
    let finish (s' : State) (o : String) : DState × String :=
      let popped := match Tree.chainWithTip CBlock.hash s'.unstable.tree.root.hash s.unstable.tree with
        | some (p, _) => (p.dropLast).map (·.blk)
        | none => []
      ({ d with st := some s', ghost := d.ghost ++ popped,
                thrRaisedWhilePaused := d.thrRaisedWhilePaused && s'.utxos.ingesting.isSome },
        s!"{o} | {summary s'}")
    match s.heartbeatStart (envOf d) budget.toNat! with
    | .trap =>
      -- specification (C09/C08): a heartbeat never traps on a state reached from valid inputs.
      -- Known finding F13: exactly the traps of a heartbeat that resumes a paused ingestion after
      -- the threshold was raised during the pause.
      (d, "trap | - ## done-or-await" ++
        (if d.thrRaisedWhilePaused && s.utxos.ingesting.isSome then " ## F13" else ""))
    | .ingested s' _ => finish s' "done"
    | .processed s' => finish s' "done"
    | .awaiting s' r => finish s' s!"await {showRequest r}"
  | ["reply", "reject"], some s => applyReply d s .reject
  | ["reply", "complete", blocks, next], some s =>
    let (d1, bs) := registerBlocks d (parseList (dropPrefix blocks 7) '&')
    let (d2, hs) := registerHeaders d1 (parseList (dropPrefix next 5) '&')
    applyReply d2 s (.complete ⟨bs, hs⟩)
  | ["reply", "partial", k, piece, next, decoded], some s =>
    let (d1, _) := registerBlocks d [dropPrefix decoded 8]
    let (d2, hs) := registerHeaders d1 (parseList (dropPrefix next 5) '&')
    applyReply d2 s (.partial_ ⟨if piece == "-" then "" else piece, hs, k.toNat!⟩)
  | ["reply", "followup", piece], some s => applyReply d s (.followUp (if piece == "-" then "" else piece))
  | ["upgrade", arg, addrs], some s =>
    let cfg : Option State.SetConfig :=
      if arg.startsWith "thr=" then some { stabilityThreshold := some (dropPrefix arg 4).toNat! } else none
    -- the fee percentiles are asked (an update call: it may fill the cache) before and after
    let fees (st : State) : State × String :=
      if (st.guard (envOf d) st.network true).isSome then (st, "trap") else
      match st.feePercentiles Btc.Gen.numTransactions with
      | none => (st, "trap")
      | some (st', p) => (st', showNatList p)
    let (s, feesBefore) := fees s
    let (s', feesAfter) := fees (s.upgrade cfg)
    let raised := s.utxos.ingesting.isSome && s'.unstable.thr > s.unstable.thr
    -- C09: the labelled answers of every query endpoint before and after
    let obsVec (st : State) : List (String × String) :=
      let guarded (o : String) : String := if (st.guard (envOf d) st.network true).isSome then "trap" else o
      let al := parseList addrs ','
      [("info", showInfo st.blockchainInfo)] ++
      ((List.range al.length).zip al).flatMap (fun p =>
        [(s!"utxos{p.1}", guarded (utxosAll st (.ok (strBytes p.2)) .none_ Btc.Gen.maxUtxosPerResponse)),
         (s!"balance{p.1}", guarded (showBalance (st.getBalance (.ok (strBytes p.2)) 0)))]) ++
      [("headers", guarded (showHeaders (st.getBlockHeaders Btc.Gen.maxBlockHeadersPerResponse 0 none))),
       ("synced", if st.isSynced Btc.Gen.syncedThreshold then "1" else "0")]
    let same := match ((obsVec s ++ [("fees", feesBefore)]).zip (obsVec s' ++ [("fees", feesAfter)])).find? (fun p => p.1.2 != p.2.2) with
      | none => "same=1:-"
      | some p => s!"same=0:{p.1.1}"
    ({ d with st := some s', thrRaisedWhilePaused := d.thrRaisedWhilePaused || raised },
      s!"ok | {summary s'} | {same} ## ok | {summary s'} | same=1:-")
  | ["setcfg", kv], some s =>
    let v := kv.endsWith "=1"
    let cfg : State.SetConfig :=
      if kv.startsWith "api=" then { apiAccess := some v }
      else if kv.startsWith "syncflag=" then { disableApiIfNotSynced := some v }
      else if kv.startsWith "syncing=" then { syncing := some v }
      else if kv.startsWith "lazy=" then { lazyFees := some v }
      else if kv.startsWith "thr=" then { stabilityThreshold := some (dropPrefix kv 4).toNat! }
      else {}
    let s' := s.setConfig cfg
    ({ d with st := some s',
              thrRaisedWhilePaused := d.thrRaisedWhilePaused ||
                (s.utxos.ingesting.isSome && s'.unstable.thr > s.unstable.thr) }, "-")
  | ["call", ep, net, avail, ins, tok, cc, start, fl, en], some s =>
    let (addrArg, amark) := addrMark s tok
    let flt := parseFilter fl
    let end_ : Option Nat := if en == "-" then none else some en.toNat!
    let (s', text, acc) := endpointCall d s ep (parseNetInRequest net) avail.toNat! ins.toNat! addrArg cc.toNat! start.toNat! flt end_
    -- specification column: the same call with the network the spelling NAMES (C14/C19: the
    -- generated conversion table must not matter)
    let (_, textN, accN) := endpointCall d s ep (parseNetByName net) avail.toNat! ins.toNat! addrArg cc.toNat! start.toNat! flt end_
    ({ d with st := some s' }, s!"{text} accepted={acc} unchanged=1{amark} ## {textN} accepted={accN} unchanged=1")
  | ["sendtx", net, avail, payload], some s =>
    let bytes := if payload == "-" then [] else hexToBytes payload
    -- well-formedness decided by the model's own consensus decoder (64-bit `usize`: native harness)
    let wf := (Btc.TxCodec.decodeExact bytes).isSome
    let out (n : Tree.Net) : Option State × String :=
      match s.callSendTransaction (envOf d) n avail.toNat! bytes.length wf with
      | .trap t => (none, s!"{showTrap t} accepted=0 counted=0 forwarded=none")
      | .answered true acc s' => (some s', s!"ok accepted={acc} counted=1 forwarded={showNet n}:same")
      | .answered false acc _ => (none, s!"err MalformedTransaction accepted={acc} counted=0 forwarded=none")
    let (st', text) := out (parseNetInRequest net)
    -- specification column: the network the spelling names (independent of the generated table)
    let (_, textN) := out (parseNetByName net)
    ({ d with st := match st' with | some x => some x | none => d.st }, text ++ " ## " ++ textN)
  | ["q", "synced"], some s => (d, if s.isSynced Btc.Gen.syncedThreshold then "1" else "0")
  | ["init", net, thr, blk, raw], _ =>
    match decodeChecked (parseNet net) raw blk with
    | (some b, true) =>
      (match State.new thr.toNat! (parseNet net) b with
      | some s => ({ d with st := some s, ghost := [] }, "-")
      | none => (d, "trap"))
    | _ => ({ d with codecBad := d.codecBad + 1 }, "codec-mismatch")
  | ["push", blk, raw], some s =>
    match decodeChecked s.network raw blk with
    | (some b, true) =>
      (match s.unstable.push s.utxos b with
      | .ok u => ({ d with st := some { s with unstable := u } }, "ok")
      | .doesNotExtend => (d, "noextend")
      | .trap _ => (d, "trap"))
    | _ => ({ d with codecBad := d.codecBad + 1 }, "codec-mismatch")
  | ["ingest", budget], some s =>
    let finish (s' : State) (o : String) : DState × String :=
      -- ghost: the roots that were popped, in order
      let popped := match Tree.chainWithTip CBlock.hash s'.unstable.tree.root.hash s.unstable.tree with
        | some (p, _) => (p.dropLast).map (·.blk)
        | none => []
      ({ d with st := some s', ghost := d.ghost ++ popped,
                preIngest := if s'.utxos.ingesting.isSome then
                    (if s.utxos.ingesting.isSome then d.preIngest
                     else if s'.utxos.nextHeight == s.utxos.nextHeight then some s else none)
                  else none,
                servedBefore := s.unstable.mainChain.map CBlock.hash,
                lastPopped := s'.utxos.nextHeight - s.utxos.nextHeight }, o)
    match s.ingestStable testnetBound budget.toNat! with
    | .trap _ => (d, "trap")
    | .paused s' => finish s' "paused"
    | .done s' true => finish s' "done1"
    | .done s' false => finish s' "done0"
  | ["walk", "start", addr, lim], some s =>
    let a := strBytes addr
    let res := s.getUtxos (.ok a) .none_ lim.toNat!
    let d' := match res with
      | .ok r =>
        -- specification (C06/C01): the whole walk must deliver the ledger state at this first tip
        let expectedL := match fullChainTo d.ghost s r.tipHash with
          | some chain => some (Spec.ledgerFor a chain)
          | none => none
        -- F11 concerns exactly the answers that contain an output index >= 256
        let big := match expectedL with | some l => l.any (fun u => u.outpoint.vout ≥ 256) | none => false
        let expected := (match expectedL with
          | some l => canonUtxos l
          | none => "unknown-tip") ++ (if big then " big" else "")
        match r.nextPage with
        | some tok => { d with walk := some (a, lim.toNat!, tok, (r.tipHeight, r.tipHash), r.utxos, true, expected) }
        | none => { d with walk := some (a, lim.toNat!, (0, 0, ⟨0, 0⟩), (r.tipHeight, r.tipHash), r.utxos, true, expected) }
      | _ => { d with walk := none }
    (d', showUtxosResult res)
  | ["walk", "next"], some s =>
    match d.walk with
    | none => (d, "no-walk")
    | some (a, lim, tok, tip, coll, same, expected) =>
      let res := s.getUtxos (.ok a) (.page (some tok)) lim
      match res with
      | .ok r =>
        let same' := same && r.tipHeight == tip.1 && r.tipHash == tip.2
        let tok' := r.nextPage.getD (0, 0, ⟨0, 0⟩)
        ({ d with walk := some (a, lim, tok', tip, coll ++ r.utxos, same', expected) }, showUtxosResult res)
      | _ => ({ d with walk := none }, showUtxosResult res)
  | ["walk", "done"], some _ =>
    match d.walk with
    | none => (d, "no-walk")
    | some (_, _, _, tip, coll, same, expected0) =>
      let big := expected0.endsWith " big"
      let expected := if big then (expected0.dropRight 4) else expected0
      let desc := decide (coll.Pairwise (fun x y => x.height ≥ y.height))
      let nodup := decide ((coll.map (·.outpoint)).Nodup)
      let b (x : Bool) : Nat := if x then 1 else 0
      -- known finding F11: outputs with vout >= 256 of one transaction are ordered differently in the
      -- stable index (little-endian bytes) and on the unstable side (numerically)
      let f11 := coll.any (fun u => u.outpoint.vout ≥ 256) || big
      ({ d with walk := none },
        s!"{tip.1} {canonUtxos coll} desc={b desc} nodup={b nodup} sametip={b same} ## {tip.1} {expected} desc=1 nodup=1 sametip=1" ++ (if f11 then " ## F11" else ""))
  | ["pausedsame", addrs], some s =>
    match d.preIngest with
    | none => (d, "no-snapshot")
    | some s0 =>
      let obsVec (st : State) : List (String × String) :=
        let i := st.blockchainInfo
        let al := parseList addrs ','
        [("info", s!"{i.height} {hash64 i.hash} {i.timestamp} {i.difficulty}")] ++
        ((List.range al.length).zip al).flatMap (fun p =>
          let a : State.AddrArg := .ok (strBytes p.2)
          [(s!"utxos{p.1}", utxosAll st a .none_ Btc.Gen.maxUtxosPerResponse),
           (s!"balance{p.1}", showBalance (st.getBalance a 0)),
           (s!"utxos{p.1}c2", utxosAll st a (.minConf 2) Btc.Gen.maxUtxosPerResponse),
           (s!"balance{p.1}c2", showBalance (st.getBalance a 2))]) ++
        [("headers", showHeaders (st.getBlockHeaders Btc.Gen.maxBlockHeadersPerResponse 0 none))]
      let same := match ((obsVec s0).zip (obsVec s)).find? (fun p => p.1.2 != p.2.2) with
        | none => "same=1:-"
        | some p => s!"same=0:{p.1.1}"
      let lenSame := s0.blockchainInfo.utxosLength == s.blockchainInfo.utxosLength
      -- specification (C08): every answer equals the answer before the ingestion began;
      -- the utxos_length deviation is the known finding F10
      (d, s!"{same} len={if lenSame then 1 else 0} ## same=1:- len=1" ++ (if same == "same=1:-" && !lenSame then " ## F10" else ""))
  | ["advance"], some s =>
    let k := d.lastPopped
    let onchain := d.servedBefore[k]? == some s.unstable.tree.root.hash
    let pending := (Unstable.stableChildIdx testnetBound s.unstable).isSome && !s.utxos.ingesting.isSome
    let b (x : Bool) : Nat := if x then 1 else 0
    -- specification (C03): the new anchor lies on the chain that was being served and, after an
    -- un-paused ingestion opportunity, no advance is withheld
    -- … and a block is on record in the stable header store at every height below the stable height
    let n := s.utxos.nextHeight
    let haveN := ((List.range n).filter (fun h => (AList.find? s.headers.byHeight h).isSome)).length
    (d, s!"popped={k} onchain={b onchain} pending={b pending} recorded={haveN}/{n} ## popped={k} onchain=1 pending=0 recorded={n}/{n}")
  | ["q", "info"], some s => (d, showInfo s.blockchainInfo)
  | ["q", "utxos", tok, filter, lim], some s =>
    if (s.guard (envOf d) s.network true).isSome then (d, "trap") else
    let (addrArg, amark) := addrMark s tok
    (d, showUtxosResult (s.getUtxos addrArg (parseFilter filter) lim.toNat!) ++ amark)
  | ["q", "utxosall", tok, filter, lim], some s =>
    if (s.guard (envOf d) s.network true).isSome then (d, "trap") else
    let (addrArg, amark) := addrMark s tok
    (d, utxosAll s addrArg (parseFilter filter) lim.toNat! ++ amark)
  | ["q", "balance", tok, c], some s =>
    if (s.guard (envOf d) s.network true).isSome then (d, "trap") else
    let (addrArg, amark) := addrMark s tok
    (d, showBalance (s.getBalance addrArg ((optNat c).getD 0)) ++ amark)
  | ["q", "headers", a, b], some s =>
    if (s.guard (envOf d) s.network true).isSome then (d, "trap") else
    -- specification (C07): one header per height of the full best chain (stable chain ++ heaviest branch)
    let full := d.ghost.map (·.header) ++ (Spec.bestPath CBlock.diff s.unstable.tree).map (·.blk.header)
    let tip := full.length - 1
    let start := a.toNat!
    let spec : String :=
      if start > tip then s!"err StartHeightDoesNotExist {start} {tip}"
      else match optNat b with
        | some e =>
          if e < start then s!"err StartHeightLargerThanEndHeight {start} {e}"
          else if e > tip then s!"err EndHeightDoesNotExist {e} {tip}"
          else
            let hi := min e (start + 99)
            s!"ok {hi} [{joinWith "," ((full.drop start).take (hi - start + 1))}]"
        | none =>
          let hi := min tip (start + 99)
          s!"ok {hi} [{joinWith "," ((full.drop start).take (hi - start + 1))}]"
    (d, showHeaders (s.getBlockHeaders Btc.Gen.maxBlockHeadersPerResponse a.toNat! (optNat b)) ++ " ## " ++ spec)
  | ["q", "fees"], some s =>
    if (s.guard (envOf d) s.network true).isSome then (d, "trap") else
    match s.feePercentiles Btc.Gen.numTransactions with
    | none => (d, "trap")
    | some (s', p) => ({ d with st := some s' }, showNatList p)
  | ["q", "feesn", n], some s =>
    -- C15: the fee rates that are ranked, for a caller-chosen number of transactions (hook);
    -- specification column: the rates computed from the history alone (`Spec.recentFeeRates`)
    let model := match s.feesPerByte n.toNat! s.unstable.mainChain.reverse [] with
      | some l => showNatList l
      | none => "trap"
    (d, model ++ " ## " ++ showNatList (Spec.recentFeeRates n.toNat! d.ghost (Spec.bestChain s)))
  | ["snap"], some s => (d, snapshot s)
  | ["digest"], some s => (d, digest s)
  -- specification lines: the model column is the specification itself
  | ["ledgerat", addr, tip], some s =>
    -- C01: the ledger state for `addr` at the tip the implementation named
    match fullChainTo d.ghost s (hexToNat tip) with
    | none => (d, "unknown-tip")
    | some chain => (d, s!"{chain.length - 1} {canonUtxos (Spec.ledgerFor (strBytes addr) chain)} desc=1 nodup=1")
  | ["bestat", addr], some s =>
    -- C02: everything is answered for the last block of the heaviest branch
    let best := Spec.bestPath CBlock.diff s.unstable.tree
    match best.getLast? with
    | none => (d, "no-best")
    | some tip =>
      let chain := d.ghost ++ best.map (·.blk)
      let bal := ((Spec.ledgerFor (strBytes addr) chain).map (·.value)).foldl (· + ·) 0
      let h := chain.length - 1
      (d, s!"info={h}/{hash64 tip.hash}/{tip.blk.time}/{tip.blk.diff} utxos={h}/{hash64 tip.hash} headers={h}/{tip.blk.header} balance={bal}")
  | ["sumat", addr, c], some s =>
    -- C05: the balance for the same request (compared with the sum of the reported UTXOs)
    -- implementation column: get_balance; specification column: the sum over get_utxos for the
    -- same request (whose pages are compared with the implementation's on the `q utxosall` line)
    -- implementation column: its balance minus the sum of the UTXOs IT returned for the same request;
    -- the model computes the same difference for its own answers; the specification is `diff=0`
    let filter : State.UtxosFilter := match optNat c with | some k => .minConf k | none => .none_
    let model := match s.getBalance (.ok (strBytes addr)) ((optNat c).getD 0),
                       s.getUtxos (.ok (strBytes addr)) filter Btc.Gen.maxUtxosPerResponse with
      | .ok v, .ok r => s!"diff={(v : Int) - ((r.utxos.map (·.value)).foldl (· + ·) 0 : Nat)}"
      | .ok _, other => showUtxosResult other
      | other, _ => showBalance other
    (d, model ++ " ## diff=0")
  | ["cutat", addr, c], some s =>
    -- C04: the block named by min_confirmations = c and the ledger state there
    let best := Spec.bestPath CBlock.diff s.unstable.tree
    let cN := c.toNat!
    if cN > best.length then (d, s!"err MinConfirmationsTooLarge {cN} {best.length}")
    else
      let pre := Spec.buriedPrefix CBlock.hash s.unstable.tree cN best 0
      match pre.getLast? with
      | none => (d, "no-block-qualifies")
      | some tip =>
        let chain := d.ghost ++ pre.map (·.blk)
        (d, s!"{chain.length - 1} {hash64 tip.hash} {canonUtxos (Spec.ledgerFor (strBytes addr) chain)}")
  | _, _ => (d, "bad-op")

def synthStore (hs : List (Nat × Header.Hdr)) (tip : Nat) : Header.Store :=
  { getByHash := fun h => (hs.find? (fun p => p.2.hash == h)).map (·.2)
    getByHeight := fun ht => (hs.find? (fun p => p.1 == ht)).map (·.2)
    height := tip }

/-- One protocol line → new state and the model's observation. -/
def step (st : DState) (ws : List String) : DState × String :=
  match ws with
  | "case" :: _ => ({}, "-")
  | ["wd", "cfg", b, a, m, n] =>
    ({ st with wdCfg := ⟨b.toNat!, a.toNat!, m.toNat!⟩, wdStore := Watchdog.Store.init n.toNat! }, "-")
  | "wd" :: "round" :: can :: hs =>
    let store := st.wdStore.round (hs.map optNat) (optNat can)
    let d := store.decision st.wdCfg
    ({ st with wdStore := store },
      s!"{statusCode d.1} {showOptNat d.2.1} {showOptInt d.2.2.1} {showOptBool d.2.2.2}")
  | "c" :: rest => stepCanister st rest
  | ["x", "decode", payload] =>
    let bytes := if payload == "-" then [] else hexToBytes payload
    match Btc.TxCodec.decodeExact bytes with
    | none => (st, "reject")
    | some t => (st, s!"accept reencodes={if Btc.TxCodec.encodeTx t == bytes then 1 else 0}")
  | ["t", ep, status, nh, body, parsed] => (st, stepTransform ep status nh body parsed)
  | ["b", "validate", blk, raw] =>
    match decodeChecked .regtest raw blk with
    | (none, _) | (_, false) => (st, "codec-mismatch")
    | (some b, true) =>
    match State.validateBody b with
    | none => (st, "ok")
    | some .noTransactions => (st, "NoTransactions")
    | some .invalidCoinbase => (st, "InvalidCoinbase")
    | some .invalidMerkleRoot => (st, "InvalidMerkleRoot")
    | some .duplicateTransactions => (st, "DuplicateTransactions")
  | ["h", "store", net, items] =>
    let hs := (parseList items ';').filterMap (fun it => match splitOnChar it ':' with
      | [ht, h, p, t, b] => some (ht.toNat!, (⟨hexToNat h, hexToNat p, t.toNat!, b.toNat!⟩ : Header.Hdr))
      | _ => none)
    ({ st with hdrStore := hs, hdrNet := parseNet net }, "-")
  | ["h", "next", ph, ts] =>
    let store := synthStore st.hdrStore ph.toNat!
    match store.getByHeight ph.toNat! with
    | none => (st, "bad-op")
    | some p =>
      match Header.nextTarget st.hdrNet store p ph.toNat! ts.toNat! with
      | none => (st, "trap")
      | some t => (st, natToHex t 64)
  | ["h", "ts", ph, ct, now] =>
    let store := synthStore st.hdrStore ph.toNat!
    match store.getByHeight ph.toNat! with
    | none => (st, "bad-op")
    | some p =>
      match Header.timestampCheck store ⟨0, p.hash, ct.toNat!, p.bits⟩ now.toNat! with
      | none => (st, "ok")
      | some .tooFarInFuture => (st, "future")
      | some .headerIsOld => (st, "old")
      | some _ => (st, "other")
  | _ => (st, "bad-op")

partial def loop (h : IO.FS.Stream) (out : IO.FS.Stream) (st : DState) : IO Unit := do
  let line ← h.getLine
  if line.isEmpty then return ()
  let ws := words (line.trimAscii.toString)
  let (st', o) := step st ws
  out.putStrLn o
  loop h out st'

end Driver

def main (args : List String) : IO Unit := do
  let out ← IO.getStdout
  match args with
  | [path] =>
    let h ← IO.FS.Handle.mk path IO.FS.Mode.read
    Driver.loop (IO.FS.Stream.ofHandle h) out {}
  | _ =>
    let h ← IO.getStdin
    Driver.loop h out {}
