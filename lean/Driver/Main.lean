import Driver.Util
import BtcModel.Model.Tree
import BtcModel.Model.Watchdog
import Driver.Canister

open Btc

namespace Driver

structure DState where
  wdCfg : Watchdog.Cfg := ⟨0, 0, 0⟩
  wdStore : Watchdog.Store := ⟨[], none⟩
  /-- canister model state -/
  st : Option State := none
  /-- ghost: the blocks ingested so far (the stable chain below the anchor), genesis first -/
  ghost : List Block := []

def statusCode : Watchdog.Status → Nat
  | .notEnoughData => 0 | .ok => 1 | .ahead => 2 | .behind => 3

/-- full chain (genesis first) ending at the tree block with hash `tip` -/
def fullChainTo (ghost : List Block) (s : State) (tip : Nat) : Option (List Block) :=
  (Tree.chainWithTip CBlock.hash tip s.unstable.tree).map (fun p => ghost ++ p.1.map (·.blk))

def canonUtxos (l : List Utxo) : String := showUtxoList (Spec.canonical l)

/-- canister ops (`c ...`) -/
def stepCanister (d : DState) (ws : List String) : DState × String :=
  match ws, d.st with
  | ["init", net, thr, blk], _ =>
    match State.new thr.toNat! (parseNet net) (parseBlock blk) with
    | some s => ({ d with st := some s, ghost := [] }, "-")
    | none => (d, "trap")
  | ["push", blk], some s =>
    match s.unstable.push s.utxos (parseBlock blk) with
    | .ok u => ({ d with st := some { s with unstable := u } }, "ok")
    | .doesNotExtend => (d, "noextend")
    | .trap _ => (d, "trap")
  | ["ingest", budget], some s =>
    let finish (s' : State) (o : String) : DState × String :=
      -- ghost: the roots that were popped, in order
      let popped := match Tree.chainWithTip CBlock.hash s'.unstable.tree.root.hash s.unstable.tree with
        | some (p, _) => (p.dropLast).map (·.blk)
        | none => []
      ({ d with st := some s', ghost := d.ghost ++ popped }, o)
    match s.ingestStable testnetBound budget.toNat! with
    | .trap _ => (d, "trap")
    | .paused s' => finish s' "paused"
    | .done s' true => finish s' "done1"
    | .done s' false => finish s' "done0"
  | ["q", "info"], some s => (d, showInfo s.blockchainInfo)
  | ["q", "utxos", tok, filter, lim], some s =>
    (d, showUtxosResult (s.getUtxos (parseAddrArg tok) (parseFilter filter) lim.toNat!))
  | ["q", "utxosall", tok, filter, lim], some s =>
    (d, utxosAll s (parseAddrArg tok) (parseFilter filter) lim.toNat!)
  | ["q", "balance", tok, c], some s =>
    (d, showBalance (s.getBalance (parseAddrArg tok) ((optNat c).getD 0)))
  | ["q", "headers", a, b], some s =>
    (d, showHeaders (s.getBlockHeaders Btc.Gen.maxBlockHeadersPerResponse a.toNat! (optNat b)))
  | ["q", "fees"], some s =>
    match s.feePercentiles Btc.Gen.numTransactions with
    | none => (d, "trap")
    | some (s', p) => ({ d with st := some s' }, showNatList p)
  | ["snap"], some s => (d, snapshot s)
  | ["digest"], some s => (d, digest s)
  -- specification lines: the model column is the specification itself
  | ["ledgerat", addr, tip], some s =>
    -- C01: the ledger state for `addr` at the tip the implementation named
    match fullChainTo d.ghost s (hexToNat tip) with
    | none => (d, "unknown-tip")
    | some chain => (d, s!"{chain.length - 1} {canonUtxos (Spec.ledgerFor (strBytes addr) chain)} desc=1 nodup=1")
  | ["bestat", addr], some s =>
    -- C02: everything is answered for the last block of the heaviest branch
    let best := Spec.bestPath CBlock.diff s.unstable.tree
    match best.getLast? with
    | none => (d, "no-best")
    | some tip =>
      let chain := d.ghost ++ best.map (·.blk)
      let bal := ((Spec.ledgerFor (strBytes addr) chain).map (·.value)).foldl (· + ·) 0
      let h := chain.length - 1
      (d, s!"info={h}/{hash64 tip.hash}/{tip.blk.time}/{tip.blk.diff} utxos={h}/{hash64 tip.hash} headers={h}/{tip.blk.header} balance={bal}")
  | ["sumat", addr, c], some s =>
    -- C05: the balance for the same request (compared with the sum of the reported UTXOs)
    match s.getBalance (.ok (strBytes addr)) ((optNat c).getD 0) with
    | .ok v => (d, toString v)
    | other => (d, showBalance other)
  | ["cutat", addr, c], some s =>
    -- C04: the block named by min_confirmations = c and the ledger state there
    let best := Spec.bestPath CBlock.diff s.unstable.tree
    let cN := c.toNat!
    if cN > best.length then (d, s!"err MinConfirmationsTooLarge {cN} {best.length}")
    else
      let pre := Spec.buriedPrefix CBlock.hash s.unstable.tree cN best 0
      match pre.getLast? with
      | none => (d, "no-block-qualifies")
      | some tip =>
        let chain := d.ghost ++ pre.map (·.blk)
        (d, s!"{chain.length - 1} {hash64 tip.hash} {canonUtxos (Spec.ledgerFor (strBytes addr) chain)}")
  | _, _ => (d, "bad-op")

/-- One protocol line → new state and the model's observation. -/
def step (st : DState) (ws : List String) : DState × String :=
  match ws with
  | "case" :: _ => ({}, "-")
  | ["wd", "cfg", b, a, m, n] =>
    ({ st with wdCfg := ⟨b.toNat!, a.toNat!, m.toNat!⟩, wdStore := Watchdog.Store.init n.toNat! }, "-")
  | "wd" :: "round" :: can :: hs =>
    let store := st.wdStore.round (hs.map optNat) (optNat can)
    let d := store.decision st.wdCfg
    ({ st with wdStore := store },
      s!"{statusCode d.1} {showOptNat d.2.1} {showOptInt d.2.2.1} {showOptBool d.2.2.2}")
  | "c" :: rest => stepCanister st rest
  | _ => (st, "bad-op")

partial def loop (h : IO.FS.Stream) (out : IO.FS.Stream) (st : DState) : IO Unit := do
  let line ← h.getLine
  if line.isEmpty then return ()
  let ws := words (line.trimAscii.toString)
  let (st', o) := step st ws
  out.putStrLn o
  loop h out st'

end Driver

def main (args : List String) : IO Unit := do
  let out ← IO.getStdout
  match args with
  | [path] =>
    let h ← IO.FS.Handle.mk path IO.FS.Mode.read
    Driver.loop (IO.FS.Stream.ofHandle h) out {}
  | _ =>
    let h ← IO.getStdin
    Driver.loop h out {}
