import BtcModel.Model.Json
import Driver.Util
import BtcModel.Model.Transform

/- `t` ops (C18): parse the protocol text of a serde_json value and run the transform model. -/
open Btc.Transform

namespace Driver

mutual
/-- parse one value; returns the value and the rest -/
partial def parseJsonText : List Char → Option (Json × List Char)
  | 'n' :: r => some (.null, r)
  | 't' :: r => some (.bool true, r)
  | 'f' :: r => some (.bool false, r)
  | 'x' :: r => some (.otherNum, r)
  | 'u' :: r =>
    let ds := r.takeWhile Char.isDigit
    some (.uint ((String.ofList ds).toNat!), r.drop ds.length)
  | 's' :: r =>
    let hs := r.takeWhile (fun c => (hexDigit c).isSome)
    some (.str (String.ofList ((hexToBytes (String.ofList hs)).map Char.ofNat)), r.drop hs.length)
  | 'a' :: '(' :: r => match parseItems r [] with
    | some (items, rest) => some (.arr items, rest)
    | none => none
  | 'o' :: '(' :: r => match parseMembers r [] with
    | some (ms, rest) => some (.obj ms, rest)
    | none => none
  | _ => none
partial def parseItems : List Char → List Json → Option (List Json × List Char)
  | ')' :: r, acc => some (acc.reverse, r)
  | ',' :: r, acc => parseItems r acc
  | cs, acc => match parseJsonText cs with
    | some (v, rest) => parseItems rest (v :: acc)
    | none => none
partial def parseMembers : List Char → List (String × Json) → Option (List (String × Json) × List Char)
  | ')' :: r, acc => some (acc.reverse, r)
  | ',' :: r, acc => parseMembers r acc
  | cs, acc =>
    let ks := cs.takeWhile (fun c => (hexDigit c).isSome)
    match cs.drop ks.length with
    | ':' :: rest => match parseJsonText rest with
      | some (v, rest') => parseMembers rest' ((String.ofList ((hexToBytes (String.ofList ks)).map Char.ofNat), v) :: acc)
      | none => none
    | _ => none
end

mutual
def jsonBeq : Json → Json → Bool
  | .null, .null => true
  | .bool a, .bool b => a == b
  | .uint a, .uint b => a == b
  | .otherNum, .otherNum => true
  | .str a, .str b => a == b
  | .arr a, .arr b => listBeq a b
  | .obj a, .obj b => membersBeq a b
  | _, _ => false
def listBeq : List Json → List Json → Bool
  | [], [] => true
  | x :: xs, y :: ys => jsonBeq x y && listBeq xs ys
  | _, _ => false
def membersBeq : List (String × Json) → List (String × Json) → Bool
  | [], [] => true
  | (k, x) :: xs, (k', y) :: ys => k == k' && jsonBeq x y && membersBeq xs ys
  | _, _ => false
end

/-- The body is parsed by the MODEL's own UTF-8 validator and JSON parser (`Btc.Json.parseModel`);
    the value the real `serde_json` produced (protocol text `parsed`) is only used as a cross-check:
    any difference marks the line with `!json`. -/
def stepTransform (ep status nh body parsed : String) : String :=
  match Endpoint.ofName? ep with
  | none => "bad-op"
  | some e =>
    let given : Option Json := if parsed == "X" then none else (parseJsonText parsed.toList).map (·.1)
    let bodyBytes := if body == "-" then [] else hexToBytes body
    let own : Option Json := Btc.Json.parseModel bodyBytes
    let same := match own, given with
      | none, none => true
      | some a, some b => jsonBeq a b
      | _, _ => false
    let r := transform (fun _ => own) e
      { status := status.toNat!, headers := (List.range nh.toNat!).map (fun i => (toString i, "")), body := bodyBytes }
    s!"status={r.status} headers={r.headers.length} body={if r.body.isEmpty then "-" else bytesToHex r.body}" ++
      (if same then "" else " !json")

end Driver
