import BtcModel.Model.Tree
import BtcModel.Model.Watchdog
