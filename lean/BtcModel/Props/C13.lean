import BtcModel.Lemmas.Fetch
import BtcModel.Props.C10

/-!
# C13 — the block-fetching protocol survives any reply sequence and any interleaving

The transition system is `Btc.Spec.Fetch` (`Spec/FetchProtocol.lean`): a system state is the
canister state plus the request of the heartbeat suspended at its await; actions are heartbeats,
replies of the block source, upgrades, configuration changes and queries, in any order, each with
its own environment (time, decoders).

* `Inv` (I1 single flight, I2 well-formed stored response, request/response agreement) holds in
  every reachable state: `inv_initial`, `inv_step`, `inv_run`.
* `at_most_one_outstanding`, `request_only_when_idle`: at most one request is outstanding.
* `successorsRequest_never_traps`: the assertion in `maybe_get_successors_request` holds on
  every reachable state.
* `request_selection` (I3): which request a heartbeat sends.
* `reassembly` / `reassembly_run` (I4): follow-ups are numbered 0,1,2,… and the pages are
  concatenated in order; `trace_consecutive`: in every well-typed schedule the requests sent are
  numbered consecutively.
* `reject_*` (I5): a reject discards partial data; the next request is an initial one.
* `no_block_twice_*` (I6) and `complete_response_applied` (liveness of processing).
-/
namespace Btc.Props.C13
open Btc Btc.State Btc.Spec.Fetch Btc.Lemmas.Fetch

/-! ## The invariant -/

/-- I2: a stored partial response still expects at least one page -/
def WFResp : Option ResponseToProcess → Prop
  | none => True
  | some (.complete _) => True
  | some (.partial_ p k) => k < p.remaining

/-- the suspended request agrees with the stored response: an initial request is outstanding
    only while nothing is stored, follow-up `k` only while `k` pages have been received -/
def Matches : Option Request → Option ResponseToProcess → Prop
  | none, _ => True
  | some (.initial _ _), resp => resp = none
  | some (.followUp k), resp => ∃ p, resp = some (.partial_ p k)

structure Inv (sys : Sys) : Prop where
  /-- I1: the fetch guard is held exactly while a request is outstanding -/
  singleFlight : sys.pending.isSome ↔ sys.st.syncing.isFetching = true
  /-- I2 -/
  wf : WFResp sys.st.syncing.response
  agree : Matches sys.pending sys.st.syncing.response

/-! ## Facts about the pieces -/

theorem fetchDecision_some_some {s : State} {req : Request} (h : fetchDecision s = some (some req)) :
    s.syncing.syncing = true ∧ s.syncing.isFetching = false ∧ successorsRequest s = some (some req) := by
  unfold fetchDecision at h
  split at h
  · cases h
  · split at h
    · cases h
    · simp_all

/-- pre-order listing of a tree is never empty -/
theorem blocks_ne_nil {α : Type} (t : Tree α) : t.blocks ≠ [] := by
  cases t with
  | node r cs => simp [Tree.blocks]

/-- I3 at the level of `maybe_get_successors_request` -/
theorem successorsRequest_some {s : State} {req : Request} (h : successorsRequest s = some (some req)) :
    (s.syncing.response = none ∧
      ∃ anchor rest, req = .initial anchor rest ∧ anchor :: rest = s.unstable.tree.blocks.map CBlock.hash) ∨
    (∃ p k, s.syncing.response = some (.partial_ p k) ∧ req = .followUp k) := by
  unfold successorsRequest at h
  split at h
  · cases h
  · rename_i p k hr
    split at h
    · cases h; exact .inr ⟨p, k, hr, rfl⟩
    · cases h
  · rename_i hr
    split at h
    · cases h
    · rename_i anchor rest hl
      cases h
      exact .inl ⟨hr, anchor, rest, rfl, hl.symm⟩

/-- the assertion `remaining_follow_ups >= follow_up_index` and the "at least one block"
    assumption of `maybe_get_successors_request` hold whenever the stored response is well formed -/
theorem successorsRequest_ne_none (s : State) (h : WFResp s.syncing.response) :
    successorsRequest s ≠ none := by
  unfold successorsRequest
  split
  · simp
  · rename_i p k hr
    rw [hr] at h
    have : p.remaining ≥ k := Nat.le_of_lt h
    simp [this]
  · split
    · rename_i hl
      have := blocks_ne_nil s.unstable.tree
      simp_all
    · simp

/-- the continuation only writes the fetch state, always releases the guard, keeps I2 -/
theorem heartbeatReply_spec {s s' : State} {r : Reply} (h : heartbeatReply s r = some s') :
    (∃ sy, s' = { s with syncing := sy }) ∧ s'.syncing.isFetching = false ∧
    s'.syncing.syncing = s.syncing.syncing ∧
    (WFResp s.syncing.response → WFResp s'.syncing.response) := by
  unfold heartbeatReply at h
  dsimp only at h
  split at h
  · cases h; exact ⟨⟨_, rfl⟩, rfl, rfl, fun _ => trivial⟩
  · split at h
    · cases h
    · cases h; exact ⟨⟨_, rfl⟩, rfl, rfl, fun _ => trivial⟩
  · rename_i p
    split at h
    · cases h
    · cases h
      refine ⟨⟨_, rfl⟩, rfl, rfl, fun _ => ?_⟩
      dsimp only
      split
      · trivial
      · simp only [WFResp]; omega
  · rename_i bytes
    split at h
    · rename_i p pages hr
      split at h
      · cases h
      · cases h
        refine ⟨⟨_, rfl⟩, rfl, rfl, fun hw => ?_⟩
        rw [hr] at hw
        simp only [WFResp] at hw
        dsimp only
        split
        · trivial
        · simp only [WFResp]; omega
    · cases h

theorem processResponse_response {env : Env} {s s' : State} (h : processResponse env s = some s') :
    (∃ r, s.syncing.response = some (.complete r) ∧ s'.syncing.response = none) ∨
    ((∀ r, s.syncing.response ≠ some (.complete r)) ∧ s' = s) := by
  unfold processResponse at h
  split at h
  · rename_i r hr
    left
    refine ⟨r, hr, ?_⟩
    dsimp only at h
    split at h
    · cases h
    · cases h
      have := processBlocks_frame _ _ _ _ _ ‹_›
      simp_all
    · have := processBlocks_frame _ _ _ _ _ ‹_›
      have := insertNextHeaders_syncing _ _ _ _ h
      simp_all
  · rename_i hn
    cases h
    exact .inr ⟨fun r hr => hn r hr, rfl⟩

/-- what one run of the heartbeat up to its await does to the fetch state -/
theorem heartbeatStart_spec (env : Env) (s : State) (budget : Nat) :
    match heartbeatStart env s budget with
    | .trap => True
    | .ingested s' _ => s'.syncing = s.syncing
    | .processed s' =>
        s.ingestStable env.bound budget = .done s false ∧ fetchDecision s = some none ∧
        s'.syncing.syncing = s.syncing.syncing ∧ s'.syncing.isFetching = s.syncing.isFetching ∧
        s'.syncing.rejects = s.syncing.rejects ∧
        ∃ s2, processResponse env s = some s2 ∧ s'.syncing = s2.syncing
    | .awaiting s' req =>
        s.ingestStable env.bound budget = .done s false ∧ fetchDecision s = some (some req) ∧
        s' = { s with syncing := { s.syncing with isFetching := true } } := by
  rw [heartbeatStart_eq]
  have hsy := ingestStable_syncing env.bound s budget
  cases hi : s.ingestStable env.bound budget with
  | trap m => trivial
  | paused s' => rw [hi] at hsy; exact hsy
  | done s' w =>
    cases w with
    | true => rw [hi] at hsy; exact hsy
    | false =>
      have := ingestStable_done_false hi
      subst this
      dsimp only
      unfold afterIngest
      cases hd : fetchDecision s' with
      | none => trivial
      | some o =>
        cases o with
        | some req => exact ⟨rfl, rfl, rfl⟩
        | none =>
          dsimp only
          cases hf : finish env s' with
          | trap => trivial
          | ingested a b => exact absurd hf (finish_ne_ingested _ _ _ _)
          | awaiting a b => exact absurd hf (finish_ne_awaiting _ _ _ _)
          | processed s2 =>
            have := finish_frame hf
            exact ⟨rfl, rfl, this⟩

/-! ## I1, I2: the invariant is inductive -/

theorem inv_initial {sys : Sys} (h : sys.Initial) : Inv sys := by
  obtain ⟨hp, hf, hr⟩ := h
  refine ⟨?_, ?_, ?_⟩
  · simp [hp, hf]
  · rw [hr]; trivial
  · rw [hp]; trivial

theorem inv_step (env : Env) {sys : Sys} (a : Action) (inv : Inv sys) : Inv (step env sys a) := by
  obtain ⟨st, pending⟩ := sys
  obtain ⟨h1, h2, h3⟩ := inv
  dsimp only at h1 h2 h3
  cases a with
  | query => exact ⟨h1, h2, h3⟩
  | setConfig c =>
    have := setConfig_isFetching st c
    refine ⟨?_, ?_, ?_⟩ <;> simp only [step, this] <;> assumption
  | upgrade cfg =>
    have := upgrade_fetch st cfg
    refine ⟨?_, ?_, ?_⟩ <;> simp only [step, this]
    · simp
    · trivial
    · trivial
  | reply r =>
    cases pending with
    | none => exact ⟨h1, h2, h3⟩
    | some req =>
      simp only [step]
      cases hr : heartbeatReply st r with
      | none =>
        refine ⟨?_, ?_, ?_⟩
        · simp [replyTrapState]
        · exact h2
        · trivial
      | some s' =>
        have := heartbeatReply_spec hr
        refine ⟨?_, ?_, ?_⟩
        · simp [this.2.1]
        · exact this.2.2.2 h2
        · trivial
  | heartbeat budget =>
    have hs := heartbeatStart_spec env st budget
    simp only [step]
    cases hh : heartbeatStart env st budget with
    | trap => exact ⟨h1, h2, h3⟩
    | ingested s' b =>
      rw [hh] at hs
      dsimp only at hs ⊢
      refine ⟨?_, ?_, ?_⟩ <;> dsimp only <;> rw [hs] <;> assumption
    | processed s' =>
      rw [hh] at hs
      obtain ⟨_, _, _, hf, _, s2, hp, hsy⟩ := hs
      refine ⟨?_, ?_, ?_⟩ <;> dsimp only
      · rw [hf]; exact h1
      · rw [hsy]
        rcases processResponse_response hp with ⟨r, _, hn⟩ | ⟨_, rfl⟩
        · rw [hn]; trivial
        · exact h2
      · rw [hsy]
        rcases processResponse_response hp with ⟨r, hc, hn⟩ | ⟨_, rfl⟩
        · -- a complete response is stored only while nothing is outstanding
          cases pending with
          | none => trivial
          | some req =>
            cases req with
            | initial a l => simp only [Matches] at h3; rw [h3] at hc; cases hc
            | followUp k =>
              simp only [Matches] at h3
              obtain ⟨p, hp'⟩ := h3
              rw [hp'] at hc; cases hc
        · exact h3
    | awaiting s' req =>
      rw [hh] at hs
      obtain ⟨_, hd, rfl⟩ := hs
      obtain ⟨_, hnf, hreq⟩ := fetchDecision_some_some hd
      refine ⟨?_, ?_, ?_⟩ <;> dsimp only
      · simp
      · exact h2
      · rcases successorsRequest_some hreq with ⟨hn, a, l, rfl, _⟩ | ⟨p, k, hp, rfl⟩
        · exact hn
        · exact ⟨p, hp⟩

/-- I1 + I2 hold after every schedule of messages -/
theorem inv_run {sys : Sys} (acts : List (Env × Action)) (inv : Inv sys) : Inv (run sys acts) := by
  induction acts generalizing sys with
  | nil => exact inv
  | cons ea rest ih => exact ih (inv_step ea.1 ea.2 inv)

theorem inv_reachable {sys : Sys} (h : sys.Initial) (acts : List (Env × Action)) : Inv (run sys acts) :=
  inv_run acts (inv_initial h)

/-! ## At most one request is outstanding -/

/-- the assertion of `maybe_get_successors_request` never fails on a reachable state -/
theorem successorsRequest_never_traps {sys : Sys} (inv : Inv sys) : successorsRequest sys.st ≠ none :=
  successorsRequest_ne_none _ inv.wf

theorem issued_some {env : Env} {sys : Sys} {a : Action} {req : Request} (h : issued env sys a = some req) :
    ∃ budget, a = .heartbeat budget ∧
      sys.st.ingestStable env.bound budget = .done sys.st false ∧
      fetchDecision sys.st = some (some req) ∧
      step env sys a = ⟨{ sys.st with syncing := { sys.st.syncing with isFetching := true } }, some req⟩ := by
  cases a with
  | heartbeat budget =>
    refine ⟨budget, rfl, ?_⟩
    have hs := heartbeatStart_spec env sys.st budget
    simp only [issued] at h
    simp only [step]
    split at h
    · rename_i s' r hh
      cases h
      rw [hh] at hs ⊢
      obtain ⟨h1, h2, rfl⟩ := hs
      exact ⟨h1, h2, rfl⟩
    · cases h
  | _ => simp [issued] at h

/-- I1: a message sends a request only if none is outstanding; afterwards exactly that one is -/
theorem request_only_when_idle {env : Env} {sys : Sys} (inv : Inv sys) {a : Action} {req : Request}
    (h : issued env sys a = some req) :
    sys.pending = none ∧ (step env sys a).pending = some req := by
  obtain ⟨budget, rfl, _, hd, hstep⟩ := issued_some h
  obtain ⟨_, hnf, _⟩ := fetchDecision_some_some hd
  refine ⟨?_, by rw [hstep]⟩
  cases hp : sys.pending with
  | none => rfl
  | some r =>
    have := inv.singleFlight.mp (by simp [hp])
    rw [hnf] at this; cases this

/-- I1: while a request is outstanding no message sends another one -/
theorem no_request_while_pending {env : Env} {sys : Sys} (inv : Inv sys) (a : Action)
    (h : sys.pending.isSome) : issued env sys a = none := by
  cases hi : issued env sys a with
  | none => rfl
  | some req =>
    have := (request_only_when_idle inv hi).1
    simp [this] at h

/-- only a reply (or an upgrade, which abandons the call) ends the wait for the outstanding request -/
theorem pending_persists {env : Env} {sys : Sys} (inv : Inv sys) {a : Action} {req : Request}
    (hp : sys.pending = some req) :
    (step env sys a).pending = some req ∨ (step env sys a).pending = none ∧
      ((∃ r, a = .reply r) ∨ ∃ c, a = .upgrade c) := by
  cases a with
  | query => left; exact hp
  | setConfig c => left; exact hp
  | upgrade c => right; exact ⟨rfl, .inr ⟨c, rfl⟩⟩
  | reply r =>
    right
    refine ⟨?_, .inl ⟨r, rfl⟩⟩
    simp only [step, hp]
    split <;> rfl
  | heartbeat budget =>
    left
    have := no_request_while_pending (env := env) inv (.heartbeat budget) (by simp [hp])
    simp only [issued] at this
    simp only [step]
    split <;> first | exact hp | simp_all

/-! ## I3: request selection -/

/-- which request a heartbeat sends: with nothing stored, an initial request naming the anchor and
    every other unstable block (pre-order); with `k` pages stored, follow-up number `k`; with a
    complete response stored, none. A request is sent only when ingestion had nothing to do, syncing
    is enabled and no request is outstanding. -/
theorem request_selection {env : Env} {sys : Sys} {a : Action} {req : Request}
    (h : issued env sys a = some req) :
    (∃ budget, a = .heartbeat budget ∧ sys.st.ingestStable env.bound budget = .done sys.st false) ∧
    sys.st.syncing.syncing = true ∧ sys.st.syncing.isFetching = false ∧
    match sys.st.syncing.response with
    | none => ∃ anchor rest, req = .initial anchor rest ∧
        anchor :: rest = sys.st.unstable.tree.blocks.map CBlock.hash
    | some (.partial_ _ k) => req = .followUp k
    | some (.complete _) => False := by
  obtain ⟨budget, rfl, hi, hd, _⟩ := issued_some h
  obtain ⟨hs, hnf, hreq⟩ := fetchDecision_some_some hd
  refine ⟨⟨budget, rfl, hi⟩, hs, hnf, ?_⟩
  rcases successorsRequest_some hreq with ⟨hn, a, l, rfl, hl⟩ | ⟨p, k, hp, rfl⟩
  · rw [hn]; exact ⟨a, l, rfl, hl⟩
  · rw [hp]

/-- conversely: an idle, syncing canister whose ingestion has nothing to do does send the request -/
theorem request_sent {env : Env} {sys : Sys} {budget : Nat}
    (hi : sys.st.ingestStable env.bound budget = .done sys.st false)
    (hs : sys.st.syncing.syncing = true) (hf : sys.st.syncing.isFetching = false)
    (hw : WFResp sys.st.syncing.response) (hc : ∀ r, sys.st.syncing.response ≠ some (.complete r)) :
    ∃ req, issued env sys (.heartbeat budget) = some req := by
  have hne := successorsRequest_ne_none _ hw
  cases hreq : successorsRequest sys.st with
  | none => exact absurd hreq hne
  | some o =>
    cases o with
    | none =>
      unfold successorsRequest at hreq
      split at hreq
      · rename_i r hr; exact absurd hr (hc r)
      · split at hreq <;> cases hreq
      · split at hreq <;> cases hreq
    | some req =>
      refine ⟨req, ?_⟩
      simp only [issued, heartbeatStart_eq, hi, afterIngest, fetchDecision, hs, hf, hreq]
      rfl

/-! ## I5: rejects -/

/-- a reject discards whatever was stored (partial data included), counts, releases the guard -/
theorem reject_effect (s : State) :
    heartbeatReply s .reject =
      some { s with syncing := { s.syncing with rejects := s.syncing.rejects + 1, response := none,
                                                 isFetching := false } } := rfl

theorem reject_step (env : Env) (sys : Sys) (req : Request) (hp : sys.pending = some req) :
    step env sys (.reply .reject) =
      ⟨{ sys.st with syncing := { sys.st.syncing with rejects := sys.st.syncing.rejects + 1,
                                                      response := none, isFetching := false } }, none⟩ := by
  simp only [step, hp, reject_effect]

/-- with nothing stored, the request a heartbeat sends is an initial one naming the current anchor
    and every other unstable block -/
theorem request_after_reject {env : Env} {sys : Sys} {a : Action} {req : Request}
    (hn : sys.st.syncing.response = none) (h : issued env sys a = some req) :
    ∃ anchor rest, req = .initial anchor rest ∧
      anchor :: rest = sys.st.unstable.tree.blocks.map CBlock.hash := by
  have := (request_selection h).2.2.2
  rw [hn] at this
  exact this

/-! ## I4: consecutive follow-ups and reassembly -/

/-- a partial response announcing `n ≥ 1` follow-ups is stored with page count 0 -/
theorem reply_partial (s : State) (p : PartialResp) (hn : s.syncing.response = none)
    (hr : p.remaining ≠ 0) :
    heartbeatReply s (.partial_ p) =
      some { s with syncing := { s.syncing with response := some (.partial_ p 0), isFetching := false } } := by
  simp [heartbeatReply, hn, hr]

/-- a partial response announcing no follow-up is stored as the complete response it is -/
theorem reply_partial_zero (s : State) (p : PartialResp) (hn : s.syncing.response = none)
    (hr : p.remaining = 0) :
    heartbeatReply s (.partial_ p) =
      some { s with syncing := { s.syncing with response := some (.complete ⟨[p.partialBlock], p.next⟩),
                                                 isFetching := false } } := by
  simp [heartbeatReply, hn, hr]

/-- page `j+1` is appended to the bytes received so far; the response becomes complete exactly
    when the announced number of follow-ups has arrived -/
theorem reply_followUp (s : State) (acc : String) (next : List String) (n j : Nat) (page : String)
    (hr : s.syncing.response = some (.partial_ ⟨acc, next, n⟩ j)) (hj : j + 1 ≤ 255) :
    heartbeatReply s (.followUp page) =
      some { s with syncing := { s.syncing with
        response := some (if j + 1 = n then .complete ⟨[acc ++ page], next⟩
                          else .partial_ ⟨acc ++ page, next, n⟩ (j + 1)),
        isFetching := false } } := by
  have : ¬ (j + 1 > 255) := by omega
  simp [heartbeatReply, hr, this]

/-- the pages received so far, appended in order of arrival -/
def joinPages (acc : String) : List String → String
  | [] => acc
  | page :: rest => joinPages (acc ++ page) rest

/-- the continuation of the heartbeat applied to a sequence of follow-up pages (between two pages
    the next heartbeat re-acquires the guard, which the continuation does not read) -/
def feedPages (s : State) : List String → Option State
  | [] => some s
  | page :: rest =>
    match heartbeatReply s (.followUp page) with
    | none => none
    | some s' => feedPages s' rest

/-- I4 (reply level): after the partial response `⟨b0, next, n⟩` and `m ≤ n` follow-up pages the
    stored response is `partial_ ⟨b0 ++ b1 ++ … ++ bm, next, n⟩ m` while `m < n`, and the complete
    response with the single block `b0 ++ … ++ bn` when `m = n` -/
theorem reassembly (s : State) (acc : String) (next : List String) (n j : Nat) (pages : List String)
    (hr : s.syncing.response = some (.partial_ ⟨acc, next, n⟩ j)) (hn : n ≤ 255)
    (hm : j + pages.length ≤ n) (hj : j < n) :
    ∃ s', feedPages s pages = some s' ∧
      s'.syncing.response = some (if j + pages.length = n then .complete ⟨[joinPages acc pages], next⟩
                                  else .partial_ ⟨joinPages acc pages, next, n⟩ (j + pages.length)) ∧
      s'.unstable = s.unstable ∧ s'.utxos = s.utxos := by
  induction pages generalizing s acc j with
  | nil =>
    refine ⟨s, rfl, ?_, rfl, rfl⟩
    have : ¬ (j = n) := by omega
    simp [joinPages, hr, this]
  | cons page rest ih =>
    simp only [List.length_cons] at hm
    have h1 := reply_followUp s acc next n j page hr (by omega)
    simp only [feedPages, h1]
    by_cases hlast : j + 1 = n
    · -- that was the last page
      have : rest = [] := by
        cases rest with
        | nil => rfl
        | cons a b => simp only [List.length_cons] at hm; omega
      subst this
      refine ⟨_, rfl, ?_, rfl, rfl⟩
      simp [joinPages, hlast]
    · obtain ⟨s', hf, hresp, hu, hx⟩ := ih
        { s with syncing := { s.syncing with
            response := some (if j + 1 = n then .complete ⟨[acc ++ page], next⟩
                              else .partial_ ⟨acc ++ page, next, n⟩ (j + 1)),
            isFetching := false } } (acc ++ page) (j + 1) (by simp [hlast]) (by omega) (by omega)
      refine ⟨s', hf, ?_, hu, hx⟩
      rw [hresp]
      simp only [List.length_cons, joinPages]
      have : j + 1 + rest.length = j + (rest.length + 1) := by omega
      rw [this]

/-- in particular: the partial response and its `n` follow-ups give back the block bit-identically
    (`++` on `String` is concatenation of the hex text of the bytes) -/
theorem reassembly_complete (s : State) (b0 : String) (next : List String) (pages : List String)
    (hn : s.syncing.response = none) (h1 : 1 ≤ pages.length) (h255 : pages.length ≤ 255) :
    ∃ s1 s', heartbeatReply s (.partial_ ⟨b0, next, pages.length⟩) = some s1 ∧
      feedPages s1 pages = some s' ∧
      s'.syncing.response = some (.complete ⟨[joinPages b0 pages], next⟩) := by
  have hp := reply_partial s ⟨b0, next, pages.length⟩ hn (by simp only; omega)
  obtain ⟨s', hf, hresp, _, _⟩ := reassembly
    { s with syncing := { s.syncing with response := some (.partial_ ⟨b0, next, pages.length⟩ 0),
                                         isFetching := false } }
    b0 next pages.length 0 pages rfl h255 (by omega) (by omega)
  refine ⟨_, s', hp, hf, ?_⟩
  rw [hresp]; simp

theorem joinPages_eq (acc : String) (pages : List String) :
    joinPages acc pages = pages.foldl (· ++ ·) acc := by
  induction pages generalizing acc with
  | nil => rfl
  | cons p ps ih => simp [joinPages, ih]

/-! ### I4 at the level of schedules: other heartbeats and queries may be interleaved anywhere -/

/-- messages that are not replies, upgrades or configuration changes -/
def IsNoise : Action → Prop
  | .heartbeat _ => True
  | .query => True
  | _ => False

def Noise (acts : List (Env × Action)) : Prop := ∀ ea ∈ acts, IsNoise ea.2

theorem run_append (sys : Sys) (a b : List (Env × Action)) : run sys (a ++ b) = run (run sys a) b := by
  induction a generalizing sys with
  | nil => rfl
  | cons x xs ih => exact ih _

theorem trace_append (sys : Sys) (a b : List (Env × Action)) :
    trace sys (a ++ b) = trace sys a ++ trace (run sys a) b := by
  induction a generalizing sys with
  | nil => rfl
  | cons x xs ih =>
    obtain ⟨env, act⟩ := x
    simp only [List.cons_append, trace, run, ih, List.append_assoc]

/-- while the stored response is not complete, a heartbeat or query leaves it untouched; it sends
    at most the one request that the stored response calls for, and only if none is outstanding -/
theorem noise_step (env : Env) {sys : Sys} (inv : Inv sys) (a : Action) (hn : IsNoise a)
    (hc : ∀ r, sys.st.syncing.response ≠ some (.complete r)) :
    (step env sys a).st.syncing.response = sys.st.syncing.response ∧
    ((issued env sys a = none ∧ (step env sys a).pending = sys.pending) ∨
     (sys.pending = none ∧ ∃ req, issued env sys a = some req ∧ (step env sys a).pending = some req)) := by
  cases a with
  | query => exact ⟨rfl, .inl ⟨rfl, rfl⟩⟩
  | reply r => exact absurd hn (by simp [IsNoise])
  | upgrade c => exact absurd hn (by simp [IsNoise])
  | setConfig c => exact absurd hn (by simp [IsNoise])
  | heartbeat budget =>
    cases hi : issued env sys (.heartbeat budget) with
    | some req =>
      obtain ⟨_, _, _, _, hstep⟩ := issued_some hi
      have := request_only_when_idle inv hi
      exact ⟨by rw [hstep], .inr ⟨this.1, req, rfl, this.2⟩⟩
    | none =>
      have hs := heartbeatStart_spec env sys.st budget
      simp only [issued] at hi
      simp only [step]
      cases hh : heartbeatStart env sys.st budget with
      | trap => exact ⟨rfl, .inl ⟨trivial, rfl⟩⟩
      | ingested s' b =>
        rw [hh] at hs
        dsimp only at hs ⊢
        exact ⟨by rw [hs], .inl ⟨trivial, rfl⟩⟩
      | awaiting s' req => rw [hh] at hi; cases hi
      | processed s' =>
        rw [hh] at hs
        obtain ⟨_, _, _, _, _, s2, hp, hsy⟩ := hs
        dsimp only
        refine ⟨?_, .inl ⟨trivial, rfl⟩⟩
        rcases processResponse_response hp with ⟨r, hr, _⟩ | ⟨_, rfl⟩
        · exact absurd hr (hc r)
        · rw [hsy]

/-- a whole phase of heartbeats and queries while the stored response is not complete -/
theorem noise_phase {sys : Sys} (inv : Inv sys) (acts : List (Env × Action)) (hn : Noise acts)
    (hc : ∀ r, sys.st.syncing.response ≠ some (.complete r)) :
    (run sys acts).st.syncing.response = sys.st.syncing.response ∧
    ((trace sys acts = [] ∧ (run sys acts).pending = sys.pending) ∨
     (sys.pending = none ∧ ∃ req, trace sys acts = [req] ∧ (run sys acts).pending = some req)) := by
  induction acts generalizing sys with
  | nil => exact ⟨rfl, .inl ⟨rfl, rfl⟩⟩
  | cons ea rest ih =>
    obtain ⟨env, a⟩ := ea
    have hna : IsNoise a := hn (env, a) List.mem_cons_self
    have hnr : Noise rest := fun x hx => hn x (List.mem_cons_of_mem _ hx)
    obtain ⟨hresp, hcase⟩ := noise_step env inv a hna hc
    have inv' := inv_step env a inv
    have hc' : ∀ r, (step env sys a).st.syncing.response ≠ some (.complete r) := by rw [hresp]; exact hc
    obtain ⟨hresp2, hcase2⟩ := ih inv' hnr hc'
    simp only [run, trace]
    refine ⟨by rw [hresp2, hresp], ?_⟩
    rcases hcase with ⟨hi, hp⟩ | ⟨hp, req, hi, hp'⟩
    · rcases hcase2 with ⟨ht, hp2⟩ | ⟨hp2, req, ht, hp2'⟩
      · exact .inl ⟨by simp [hi, ht], by rw [hp2, hp]⟩
      · exact .inr ⟨by rw [← hp]; exact hp2, req, by simp [hi, ht], hp2'⟩
    · rcases hcase2 with ⟨ht, hp2⟩ | ⟨hp2, req2, ht, hp2'⟩
      · exact .inr ⟨hp, req, by simp [hi, ht], by rw [hp2, hp']⟩
      · rw [hp'] at hp2; cases hp2

/-- one round of the protocol: any number of heartbeats/queries, then the source delivers a page -/
structure Round where
  noise : List (Env × Action)
  env : Env
  page : String

def Round.acts (r : Round) : List (Env × Action) := r.noise ++ [(r.env, .reply (.followUp r.page))]

def schedule : List Round → List (Env × Action)
  | [] => []
  | r :: rs => r.acts ++ schedule rs

/-- every page is delivered to a suspended heartbeat (i.e. one of the heartbeats of the round did
    send the request the page answers) -/
def Delivered : Sys → List Round → Prop
  | _, [] => True
  | sys, r :: rs => Noise r.noise ∧ (run sys r.noise).pending.isSome ∧ Delivered (run sys r.acts) rs

/-- **I4 (schedule level)**. Start with `j` pages of a partial response stored and no request
    outstanding. Whatever heartbeats and queries are interleaved, if the source delivers `m` more
    pages (`j + m ≤ n`), the requests sent are exactly `followUp j, …, followUp (j+m-1)` in this
    order, no request is outstanding afterwards, and the pages have been appended in order; the
    response is complete exactly when `j + m = n`. -/
theorem reassembly_run {sys : Sys} (inv : Inv sys) (hp : sys.pending = none)
    (acc : String) (next : List String) (n j : Nat)
    (hr : sys.st.syncing.response = some (.partial_ ⟨acc, next, n⟩ j)) (hn : n ≤ 255)
    (rs : List Round) (hd : Delivered sys rs) (hm : j + rs.length ≤ n) :
    (run sys (schedule rs)).pending = none ∧
    trace sys (schedule rs) = (List.range rs.length).map (fun i => Request.followUp (j + i)) ∧
    (run sys (schedule rs)).st.syncing.response =
      some (if j + rs.length = n then .complete ⟨[joinPages acc (rs.map (·.page))], next⟩
            else .partial_ ⟨joinPages acc (rs.map (·.page)), next, n⟩ (j + rs.length)) := by
  induction rs generalizing sys acc j with
  | nil =>
    have hj : j < n := by have := inv.wf; rw [hr] at this; exact this
    have : ¬ (j = n) := by omega
    simp [schedule, run, trace, hp, hr, joinPages, this]
  | cons r rs ih =>
    have hj : j < n := by have := inv.wf; rw [hr] at this; exact this
    obtain ⟨hnoise, hpend, hd'⟩ := hd
    simp only [List.length_cons] at hm
    -- the noise phase: the response stays, exactly one request is sent: follow-up `j`
    have hc : ∀ c, sys.st.syncing.response ≠ some (.complete c) := by rw [hr]; intro c h; cases h
    obtain ⟨hresp1, hcase⟩ := noise_phase inv r.noise hnoise hc
    have inv1 := inv_run r.noise inv
    rcases hcase with ⟨_, hp1⟩ | ⟨_, req, ht1, hp1⟩
    · rw [hp1, hp] at hpend; cases hpend
    · have hreq : req = .followUp j := by
        have := inv1.agree
        rw [hp1, hresp1, hr] at this
        cases req with
        | initial a l => cases this
        | followUp k => obtain ⟨p, hpk⟩ := this; cases hpk; rfl
      subst hreq
      -- the reply
      have hreply := reply_followUp (run sys r.noise).st acc next n j r.page (by rw [hresp1, hr]) (by omega)
      have hstep : run sys r.acts =
          ⟨{ (run sys r.noise).st with syncing := { (run sys r.noise).st.syncing with
              response := some (if j + 1 = n then .complete ⟨[acc ++ r.page], next⟩
                                else .partial_ ⟨acc ++ r.page, next, n⟩ (j + 1)),
              isFetching := false } }, none⟩ := by
        simp only [Round.acts, run_append, run, step, hp1, hreply]
      have htr : trace sys r.acts = [.followUp j] := by
        simp only [Round.acts, trace_append, ht1, trace, issued]
        rfl
      simp only [schedule, run_append, trace_append, htr]
      by_cases hlast : j + 1 = n
      · have : rs = [] := by
          cases rs with
          | nil => rfl
          | cons a b => simp only [List.length_cons] at hm; omega
        subst this
        simp [schedule, run, trace, hstep, hlast, joinPages]
      · have inv2 : Inv (run sys r.acts) := inv_run _ inv
        have hr2 : (run sys r.acts).st.syncing.response = some (.partial_ ⟨acc ++ r.page, next, n⟩ (j + 1)) := by
          rw [hstep]; simp [hlast]
        obtain ⟨h1, h2, h3⟩ := ih inv2 (by rw [hstep]) (acc ++ r.page) (j + 1) hr2 hd' (by omega)
        refine ⟨h1, ?_, ?_⟩
        · rw [h2]
          simp only [List.length_cons, List.range_succ_eq_map, List.map_cons, List.map_map,
            Nat.add_zero, List.singleton_append, List.cons.injEq, true_and]
          apply List.map_congr_left
          intro i _
          simp only [Function.comp, Nat.succ_eq_add_one]
          congr 1; omega
        · rw [h3]
          simp only [List.length_cons, List.map_cons, joinPages]
          have : j + 1 + rs.length = j + (rs.length + 1) := by omega
          rw [this]

/-- **I4, whole exchange.** From an idle canister with nothing stored: heartbeats/queries, the
    source answers the initial request with a partial response announcing `n = rs.length ≥ 1`
    follow-ups, then delivers the `n` pages (heartbeats and queries interleaved anywhere). The
    requests sent are one initial request followed by `followUp 0, …, followUp (n-1)`, and the stored
    response is then the complete response whose single block is `b0 ++ b1 ++ … ++ bn`. -/
theorem fetch_block_in_pages {sys : Sys} (inv : Inv sys) (hp : sys.pending = none)
    (hr : sys.st.syncing.response = none)
    (noise0 : List (Env × Action)) (hn0 : Noise noise0) (hsent : (run sys noise0).pending.isSome)
    (env0 : Env) (b0 : String) (next : List String) (rs : List Round)
    (h1 : 1 ≤ rs.length) (h255 : rs.length ≤ 255)
    (hd : Delivered (run sys (noise0 ++ [(env0, .reply (.partial_ ⟨b0, next, rs.length⟩))])) rs) :
    let full := noise0 ++ [(env0, .reply (.partial_ ⟨b0, next, rs.length⟩))] ++ schedule rs
    (∃ anchor rest, trace sys full =
        .initial anchor rest :: (List.range rs.length).map (fun i => Request.followUp i)) ∧
    (run sys full).pending = none ∧
    (run sys full).st.syncing.response = some (.complete ⟨[joinPages b0 (rs.map (·.page))], next⟩) := by
  intro full
  have hc : ∀ c, sys.st.syncing.response ≠ some (.complete c) := by rw [hr]; intro c h; cases h
  obtain ⟨hresp1, hcase⟩ := noise_phase inv noise0 hn0 hc
  have inv1 := inv_run noise0 inv
  rcases hcase with ⟨_, hp1⟩ | ⟨_, req, ht1, hp1⟩
  · rw [hp1, hp] at hsent; cases hsent
  · obtain ⟨anchor, rest, rfl⟩ : ∃ a l, req = .initial a l := by
      have := inv1.agree
      rw [hp1, hresp1, hr] at this
      cases req with
      | initial a l => exact ⟨a, l, rfl⟩
      | followUp k => obtain ⟨p, hpk⟩ := this; cases hpk
    have hreply := reply_partial (run sys noise0).st ⟨b0, next, rs.length⟩ (by rw [hresp1, hr])
      (by simp only; omega)
    have hstep : run sys (noise0 ++ [(env0, .reply (.partial_ ⟨b0, next, rs.length⟩))]) =
        ⟨{ (run sys noise0).st with syncing := { (run sys noise0).st.syncing with
            response := some (.partial_ ⟨b0, next, rs.length⟩ 0), isFetching := false } }, none⟩ := by
      simp only [run_append, run, step, hp1, hreply]
    have inv2 : Inv (run sys (noise0 ++ [(env0, .reply (.partial_ ⟨b0, next, rs.length⟩))])) :=
      inv_run _ inv
    obtain ⟨g1, g2, g3⟩ := reassembly_run inv2 (by rw [hstep]) b0 next rs.length 0 (by rw [hstep])
      h255 rs hd (by omega)
    refine ⟨⟨anchor, rest, ?_⟩, ?_, ?_⟩
    · simp only [full, trace_append, g2, ht1, trace, issued]
      simp
    · simp only [full, run_append] at g1 ⊢; exact g1
    · simp only [full, run_append] at g3 ⊢
      rw [g3]; simp

/-! ## I5 at the level of schedules -/

/-- after a reject nothing is stored and no request is outstanding; whatever heartbeats and
    queries follow, the first (and only) request they send is an initial one -/
theorem reject_then_initial {sys : Sys} (inv : Inv sys) (env : Env) (req : Request)
    (hp : sys.pending = some req) (noise : List (Env × Action)) (hn : Noise noise) :
    let sys' := step env sys (.reply .reject)
    sys'.st.syncing.response = none ∧ sys'.pending = none ∧
    sys'.st.syncing.rejects = sys.st.syncing.rejects + 1 ∧
    (trace sys' noise = [] ∨ ∃ anchor rest, trace sys' noise = [.initial anchor rest]) := by
  intro sys'
  have hs : sys' = _ := reject_step env sys req hp
  have inv' : Inv sys' := inv_step env _ inv
  have hresp : sys'.st.syncing.response = none := by rw [hs]
  refine ⟨hresp, by rw [hs], by rw [hs], ?_⟩
  have hc : ∀ c, sys'.st.syncing.response ≠ some (.complete c) := by rw [hresp]; intro c h; cases h
  obtain ⟨hresp1, hcase⟩ := noise_phase inv' noise hn hc
  rcases hcase with ⟨ht, _⟩ | ⟨_, r, ht, hp1⟩
  · exact .inl ht
  · right
    have := (inv_run noise inv').agree
    rw [hp1, hresp1, hresp] at this
    cases r with
    | initial a l => exact ⟨a, l, ht⟩
    | followUp k => obtain ⟨p, hpk⟩ := this; cases hpk

/-! ## Consecutive numbering on every well-typed schedule -/

/-- `r` may follow `prev` in the sequence of requests: follow-up 0 comes right after an initial
    request, follow-up `k+1` right after follow-up `k` -/
def follows (prev : Option Request) : Request → Prop
  | .initial _ _ => True
  | .followUp 0 => ∃ a l, prev = some (.initial a l)
  | .followUp (k + 1) => prev = some (.followUp k)

def Consecutive : Option Request → List Request → Prop
  | _, [] => True
  | prev, r :: rs => follows prev r ∧ Consecutive (some r) rs

/-- bookkeeping invariant relating the last request sent to the stored response -/
structure Ghost (sys : Sys) (last : Option Request) : Prop where
  pend : ∀ req, sys.pending = some req → last = some req
  stored : sys.pending = none → ∀ p k, sys.st.syncing.response = some (.partial_ p k) →
    follows last (.followUp k)
  u8 : ∀ p k, sys.st.syncing.response = some (.partial_ p k) → p.remaining ≤ 255

theorem ghost_idle {sys : Sys} {last : Option Request} (hp : sys.pending = none)
    (hr : ∀ p k, sys.st.syncing.response ≠ some (.partial_ p k)) : Ghost sys last :=
  ⟨fun _ h => (by rw [hp] at h; cases h), fun _ p k h => absurd h (hr p k), fun p k h => absurd h (hr p k)⟩

theorem reply_complete (s : State) (c : CompleteResp) (hn : s.syncing.response = none) :
    heartbeatReply s (.complete c) =
      some { s with syncing := { s.syncing with response := some (.complete c), isFetching := false } } := by
  simp [heartbeatReply, hn]

/-- a heartbeat leaves the stored response alone or consumes it -/
theorem heartbeat_response (env : Env) (sys : Sys) (budget : Nat) :
    (step env sys (.heartbeat budget)).st.syncing.response = sys.st.syncing.response ∨
    (step env sys (.heartbeat budget)).st.syncing.response = none := by
  have hs := heartbeatStart_spec env sys.st budget
  simp only [step]
  cases hh : heartbeatStart env sys.st budget with
  | trap => exact .inl rfl
  | ingested s' b => rw [hh] at hs; dsimp only at hs ⊢; left; rw [hs]
  | awaiting s' req => rw [hh] at hs; obtain ⟨_, _, rfl⟩ := hs; exact .inl rfl
  | processed s' =>
    rw [hh] at hs
    obtain ⟨_, _, _, _, _, s2, hp, hsy⟩ := hs
    dsimp only
    rw [hsy]
    rcases processResponse_response hp with ⟨r, _, hn⟩ | ⟨_, rfl⟩
    · exact .inr hn
    · exact .inl rfl

/-- on a reachable state a well-typed reply is always accepted: the continuation does not trap -/
theorem welltyped_reply_accepted {sys : Sys} {last : Option Request} (inv : Inv sys) (g : Ghost sys last)
    {req : Request} (hp : sys.pending = some req) {r : Reply} (ha : answers req r) :
    heartbeatReply sys.st r ≠ none := by
  have hag := inv.agree
  rw [hp] at hag
  cases req with
  | initial a l =>
    simp only [Matches] at hag
    cases r with
    | complete c => rw [reply_complete _ _ hag]; simp
    | partial_ p =>
      by_cases h0 : p.remaining = 0
      · rw [reply_partial_zero _ _ hag h0]; simp
      · rw [reply_partial _ _ hag h0]; simp
    | followUp b => cases ha
    | reject => simp [reject_effect]
  | followUp k =>
    obtain ⟨p, hpk⟩ := hag
    cases r with
    | complete c => cases ha
    | partial_ p => cases ha
    | reject => simp [reject_effect]
    | followUp b =>
      have h255 := g.u8 p k hpk
      have hk := inv.wf
      rw [hpk] at hk
      simp only [WFResp] at hk
      obtain ⟨acc, next, n⟩ := p
      rw [reply_followUp _ acc next n k b hpk (by simp only at h255 hk; omega)]
      simp

theorem ghost_step (env : Env) {sys : Sys} {last : Option Request} (inv : Inv sys) (g : Ghost sys last)
    (a : Action)
    (hw : match a, sys.pending with
      | .reply r, some req => answers req r
      | _, _ => True) :
    (∀ req, issued env sys a = some req → follows last req) ∧
    Ghost (step env sys a) (match issued env sys a with | some r => some r | none => last) := by
  obtain ⟨g1, g2, g3⟩ := g
  cases a with
  | query => exact ⟨fun _ h => by simp [issued] at h, ⟨g1, g2, g3⟩⟩
  | setConfig c =>
    have := setConfig_isFetching sys.st c
    refine ⟨fun _ h => by simp [issued] at h, ⟨g1, ?_, ?_⟩⟩ <;> simp only [step, this]
    · exact g2
    · exact g3
  | upgrade c =>
    have := upgrade_fetch sys.st c
    refine ⟨fun _ h => by simp [issued] at h, ghost_idle rfl ?_⟩
    simp only [step, this]
    intro p k h; cases h
  | heartbeat budget =>
    cases hi : issued env sys (.heartbeat budget) with
    | some req =>
      obtain ⟨_, _, _, hd, hstep⟩ := issued_some hi
      have hidle := (request_only_when_idle inv hi).1
      obtain ⟨_, _, hreq⟩ := fetchDecision_some_some hd
      refine ⟨?_, ⟨?_, ?_, ?_⟩⟩
      · intro req' h'
        cases h'
        rcases successorsRequest_some hreq with ⟨_, a, l, rfl, _⟩ | ⟨p, k, hp, rfl⟩
        · trivial
        · exact g2 hidle p k hp
      · intro r h; rw [hstep] at h; cases h; rfl
      · intro h; rw [hstep] at h; cases h
      · intro p k h; rw [hstep] at h; exact g3 p k h
    | none =>
      have hpend : (step env sys (.heartbeat budget)).pending = sys.pending := by
        simp only [issued] at hi
        simp only [step]
        split <;> first | rfl | simp_all
      refine ⟨fun _ h => (by cases h), ⟨?_, ?_, ?_⟩⟩
      · rw [hpend]; exact g1
      · rw [hpend]
        intro hn p k h
        rcases heartbeat_response env sys budget with he | he
        · rw [he] at h; exact g2 hn p k h
        · rw [he] at h; cases h
      · intro p k h
        rcases heartbeat_response env sys budget with he | he
        · rw [he] at h; exact g3 p k h
        · rw [he] at h; cases h
  | reply r =>
    refine ⟨fun _ h => by simp [issued] at h, ?_⟩
    simp only [issued]
    cases hp : sys.pending with
    | none =>
      have : step env sys (.reply r) = sys := by simp [step, hp]
      rw [this]; exact ⟨g1, g2, g3⟩
    | some req =>
      rw [hp] at hw
      simp only at hw
      have hlast := g1 req hp
      subst hlast
      have hag := inv.agree
      rw [hp] at hag
      have hk := inv.wf
      simp only [step, hp]
      cases req with
      | initial a l =>
        simp only [Matches] at hag
        cases r with
        | followUp b => cases hw
        | reject =>
          rw [reject_effect]
          exact ghost_idle rfl (fun p k h => by cases h)
        | complete c =>
          rw [reply_complete _ _ hag]
          exact ghost_idle rfl (fun p k h => by cases h)
        | partial_ p =>
          by_cases h0 : p.remaining = 0
          · rw [reply_partial_zero _ _ hag h0]
            exact ghost_idle rfl (fun p k h => by cases h)
          · rw [reply_partial _ _ hag h0]
            refine ⟨fun _ h => (by cases h), fun _ p' k h => ?_, fun p' k h => ?_⟩
            · cases h; exact ⟨a, l, rfl⟩
            · cases h; exact hw
      | followUp k =>
        obtain ⟨p, hpk⟩ := hag
        cases r with
        | complete c => cases hw
        | partial_ p => cases hw
        | reject =>
          rw [reject_effect]
          exact ghost_idle rfl (fun p k h => by cases h)
        | followUp b =>
          have h255 := g3 p k hpk
          rw [hpk] at hk
          simp only [WFResp] at hk
          obtain ⟨acc, next, n⟩ := p
          rw [reply_followUp _ acc next n k b hpk (by simp only at h255 hk; omega)]
          by_cases hl : k + 1 = n
          · simp only [hl, if_true]
            exact ghost_idle rfl (fun p k h => by cases h)
          · simp only [hl, if_false]
            refine ⟨fun _ h => (by cases h), fun _ p' k' h => ?_, fun p' k' h => ?_⟩
            · cases h; rfl
            · cases h; exact h255

theorem trace_consecutive_from {sys : Sys} {last : Option Request} (inv : Inv sys) (g : Ghost sys last)
    (acts : List (Env × Action)) (hw : WellTyped sys acts) : Consecutive last (trace sys acts) := by
  induction acts generalizing sys last with
  | nil => trivial
  | cons ea rest ih =>
    obtain ⟨env, a⟩ := ea
    obtain ⟨hw1, hw2⟩ := hw
    obtain ⟨hf, g'⟩ := ghost_step env inv g a hw1
    have inv' := inv_step env a inv
    have := ih inv' g' hw2
    simp only [trace]
    cases hi : issued env sys a with
    | none => rw [hi] at this; simpa using this
    | some req => rw [hi] at this; exact ⟨hf req hi, this⟩

/-- **Follow-up requests are numbered consecutively from 0**: in every schedule (any interleaving
    of heartbeats, replies, rejects, upgrades, configuration changes and queries) in which the
    source answers each request with a reply of the right kind, every `followUp 0` request comes
    immediately after an initial request and every `followUp (k+1)` immediately after `followUp k`. -/
theorem trace_consecutive {sys : Sys} (h : sys.Initial) (acts : List (Env × Action))
    (hw : WellTyped sys acts) : Consecutive none (trace sys acts) := by
  refine trace_consecutive_from (inv_initial h) ?_ acts hw
  obtain ⟨hp, _, hr⟩ := h
  exact ghost_idle hp (fun p k h' => by rw [hr] at h'; cases h')

/-! ## I6: no block is applied twice -/

/-- what the code guarantees by itself: an accepted block was not yet a child of its parent, and
    the hashes of the unstable blocks afterwards are the old ones plus the new one -/
theorem accepted_not_a_sibling_and_hashes (env : Env) (s s' : State) (b : Block)
    (h : insertBlock env s b = .ok s') :
    (∃ chain succ, Tree.chainWithTip CBlock.hash b.prev s.unstable.tree = some (chain, succ) ∧
      b.hash ∉ succ.map CBlock.hash) ∧
    (s'.unstable.tree.blocks.map CBlock.hash).Perm (b.hash :: s.unstable.tree.blocks.map CBlock.hash) := by
  obtain ⟨chain, succ, u, hc, hany, _, _, _, _⟩ := (C10.accepted_iff env s s' b).mp h
  obtain ⟨_, _, c, hcb, _, _, hperm, _⟩ := C10.accepted_is_visible env s s' b h
  refine ⟨⟨chain, succ, hc, ?_⟩, ?_⟩
  · intro hm
    obtain ⟨x, hx, hxe⟩ := List.mem_map.mp hm
    have : succ.any (fun c => c.hash == b.hash) = true := by
      rw [List.any_eq_true]; exact ⟨x, hx, by simp [hxe]⟩
    rw [hany] at this; cases this
  · have := hperm.map CBlock.hash
    simpa [CBlock.hash, hcb] using this

/-- hence the hashes stay pairwise distinct iff the new hash is new -/
theorem nodup_after_acceptance (env : Env) (s s' : State) (b : Block) (h : insertBlock env s b = .ok s') :
    (s'.unstable.tree.blocks.map CBlock.hash).Nodup ↔
      (s.unstable.tree.blocks.map CBlock.hash).Nodup ∧ b.hash ∉ s.unstable.tree.blocks.map CBlock.hash := by
  rw [(accepted_not_a_sibling_and_hashes env s s' b h).2.nodup_iff, List.nodup_cons]
  exact ⟨fun ⟨a, b⟩ => ⟨b, a⟩, fun ⟨a, b⟩ => ⟨b, a⟩⟩

/-- **No block is applied twice.** If the unstable blocks form a proper tree (children point to
    their parents, hashes pairwise distinct), a hash determines the parent hash (the hash is the
    hash of the header, which contains `prev`) and the offered block is not the anchor itself, then
    an accepted block was not in the tree before, and the tree is again proper afterwards. -/
theorem no_block_twice (env : Env) (s s' : State) (b : Block)
    (hok : TreeOk s.unstable.tree)
    (hdet : ∀ x ∈ s.unstable.tree.blocks, x.hash = b.hash → x.blk.prev = b.prev)
    (hanchor : s.unstable.tree.root.hash ≠ b.hash)
    (h : insertBlock env s b = .ok s') :
    b.hash ∉ s.unstable.tree.blocks.map CBlock.hash ∧ TreeOk s'.unstable.tree := by
  obtain ⟨hlinked, hnodup⟩ := hok
  obtain ⟨⟨chain, succ, hc, hns⟩, _⟩ := accepted_not_a_sibling_and_hashes env s s' b h
  have hnew : b.hash ∉ s.unstable.tree.blocks.map CBlock.hash := by
    intro hm
    obtain ⟨x, hx, hxe⟩ := List.mem_map.mp hm
    rcases child_of_parent CBlock.hash (fun c => c.blk.prev) _ hlinked hnodup x hx with rfl | ⟨ch, su, hc', hs⟩
    · exact hanchor hxe
    · have hp := hdet x hx hxe
      simp only [hp] at hc'
      rw [hc] at hc'
      cases hc'
      exact hns (List.mem_map.mpr ⟨x, hs, hxe⟩)
  refine ⟨hnew, ?_, (nodup_after_acceptance env s s' b h).mpr ⟨hnodup, hnew⟩⟩
  obtain ⟨u, hu, rfl⟩ := insertBlock_ok_eq h
  obtain ⟨depth, cache, m, tree, _, _, ht, rfl⟩ := (C10.push_ok_iff _ _ _ _).mp hu
  exact extend_linked CBlock.hash (fun c => c.blk.prev) b.prev _ rfl _ _ hlinked ht

/-! ## Liveness of processing: a complete response is applied by the next idle heartbeat -/

theorem acceptAll_hashes (env : Env) (s sEnd : State) (blocks : List Block)
    (h : C10.acceptAll env s blocks = some sEnd) :
    (sEnd.unstable.tree.blocks.map CBlock.hash).Perm
      (blocks.map (·.hash) ++ s.unstable.tree.blocks.map CBlock.hash) := by
  induction blocks generalizing s with
  | nil => simp only [C10.acceptAll] at h; cases h; simp
  | cons b bs ih =>
    simp only [C10.acceptAll] at h
    split at h
    · rename_i s' hs'
      have h1 := (accepted_not_a_sibling_and_hashes env s s' b hs').2
      have h2 := ih s' h
      refine h2.trans ?_
      simp only [List.map_cons, List.cons_append]
      exact (List.Perm.append_left _ h1).trans List.perm_middle
    · cases h

/-- **Every offered valid block is applied.** With a complete response stored, the next heartbeat
    whose ingestion round has nothing to do processes it — whether or not syncing is enabled and
    whatever the fetch guard says. If every blob decodes and every block is accepted in turn, and
    neither the announced headers nor the fee percentiles trap, the heartbeat completes, the
    response is consumed, and every offered block is among the unstable blocks. -/
theorem complete_response_applied (env : Env) (s : State) (budget : Nat) (r : CompleteResp)
    (blocks : List Block) (sEnd s2 : State)
    (hi : s.ingestStable env.bound budget = .done s false)
    (hr : s.syncing.response = some (.complete r))
    (hdec : r.blocks.map env.dec.block = blocks.map some)
    (hadm : C10.acceptAll env { s with syncing := { s.syncing with response := none } } blocks = some sEnd)
    (hnext : insertNextHeaders env sEnd r.next = some s2)
    (hfee : s2.lazyFees = true ∨ (s2.feePercentiles env.numTransactions).isSome) :
    ∃ s3, heartbeatStart env s budget = .processed s3 ∧
      s3.syncing.response = none ∧
      s3.unstable = s2.unstable ∧
      (s3.unstable.tree.blocks.map CBlock.hash).Perm
        (blocks.map (·.hash) ++ s.unstable.tree.blocks.map CBlock.hash) := by
  have hpb := (C10.processBlocks_all_accepted_iff env _ sEnd r.blocks).mpr ⟨blocks, hdec, hadm⟩
  have hproc : processResponse env s = some s2 := by
    simp only [processResponse, hr, hpb, hnext]
  have hdecision : fetchDecision s = some none := by
    simp only [fetchDecision, successorsRequest, hr]
    split
    · rfl
    · split <;> rfl
  have hresp : s2.syncing.response = none := C10.processResponse_consumes env s s2 r hr hproc
  have htree : s2.unstable.tree = sEnd.unstable.tree := (insertNextHeaders_tree _ _ _ _ hnext).1
  have hperm := acceptAll_hashes env _ sEnd blocks hadm
  rw [heartbeatStart_eq, hi]
  simp only [afterIngest, hdecision, finish, hproc]
  rcases hfee with hl | hf
  · refine ⟨s2, by simp [hl], hresp, rfl, ?_⟩
    rw [htree]; exact hperm
  · by_cases hl : s2.lazyFees = true
    · refine ⟨s2, by simp [hl], hresp, rfl, ?_⟩
      rw [htree]; exact hperm
    · cases hfp : s2.feePercentiles env.numTransactions with
      | none => rw [hfp] at hf; cases hf
      | some x =>
        obtain ⟨s3, p⟩ := x
        have he := feePercentiles_eq hfp
        refine ⟨s3, by simp [hl], ?_, ?_, ?_⟩
        · rw [he]; exact hresp
        · rw [he]
        · rw [he]; dsimp only; rw [htree]; exact hperm

/-! ## Non-vacuity: a concrete canister, block source and schedule -/

namespace Example

def coinbase (id : Nat) : Tx :=
  { txid := id, ntxid := id, coinbase := true, vsize := 100, ins := [], outs := [⟨50, none, false⟩] }
/-- regtest "genesis" and a valid successor (minimum-difficulty bits, increasing time) -/
def gen : Block :=
  { hash := 1, prev := 0, diff := 1, time := 100, bits := 0x207fffff, header := "g", txs := [coinbase 100] }
def b2 : Block :=
  { hash := 2, prev := 1, diff := 1, time := 101, bits := 0x207fffff, header := "h2", txs := [coinbase 200] }
def orphan : Block :=
  { hash := 9, prev := 77, diff := 1, time := 101, bits := 0x207fffff, header := "h9", txs := [coinbase 900] }

/-- a canister holding only the anchor -/
def s0 : State :=
  { utxos := {},
    unstable := { thr := 2, tree := .leaf ⟨gen, some [], 1⟩, net := .regtest, blockCache := [1] } }

/-- the block `b2` is served as the text "B2" (possibly in two pages "B" ++ "2") -/
def dec : Decoders :=
  { block := fun blob => if blob = "B2" then some b2 else if blob = "ORPHAN" then some orphan else none
    header := fun _ => none }
def env : Env :=
  { now := 200, dec := dec, bound := fun _ _ => 1000, syncedThreshold := 2, maxHeaders := 100,
    numTransactions := 1000 }
def sys0 : Sys := ⟨s0, none⟩

theorem sys0_initial : sys0.Initial := ⟨rfl, rfl, rfl⟩

/-- heartbeats and a query, the partial response (1 follow-up), more heartbeats, the page, then
    two more heartbeats (the first processes the block, the second asks for more) -/
def sched : List (Env × Action) :=
  [(env, .heartbeat 10), (env, .query), (env, .heartbeat 10),
   (env, .reply (.partial_ ⟨"B", [], 1⟩)), (env, .heartbeat 10), (env, .heartbeat 7),
   (env, .reply (.followUp "2")), (env, .heartbeat 10), (env, .heartbeat 10)]

example : trace sys0 sched = [.initial 1 [], .followUp 0, .initial 1 [2]] := by decide
example : (run sys0 (sched.take 7)).st.syncing.response = some (.complete ⟨["B2"], []⟩) := by decide
example : (run sys0 sched).st.unstable.tree.blocks.map CBlock.hash = [1, 2] := by decide
theorem sched_wellTyped : WellTyped sys0 sched := (wellTyped_iff _ _).mpr (by decide)
example : Consecutive none (trace sys0 sched) := trace_consecutive sys0_initial sched sched_wellTyped
example : Inv (run sys0 sched) := inv_reachable sys0_initial sched

/-- the hypotheses of `fetch_block_in_pages` are satisfiable: instantiate it on the schedule above -/
example :
    (∃ anchor rest, trace sys0 (sched.take 7) = [.initial anchor rest, .followUp 0]) ∧
    (run sys0 (sched.take 7)).st.syncing.response = some (.complete ⟨["B2"], []⟩) := by
  have hn0 : Noise [(env, Action.heartbeat 10), (env, .query), (env, .heartbeat 10)] := by
    intro ea h
    simp only [List.mem_cons, List.not_mem_nil, or_false] at h
    rcases h with rfl | rfl | rfl <;> trivial
  have hn1 : Noise [(env, Action.heartbeat 10), (env, .heartbeat 7)] := by
    intro ea h
    simp only [List.mem_cons, List.not_mem_nil, or_false] at h
    rcases h with rfl | rfl <;> trivial
  have := fetch_block_in_pages (inv_initial sys0_initial) rfl rfl _ hn0 (by decide) env "B" []
    [⟨[(env, .heartbeat 10), (env, .heartbeat 7)], env, "2"⟩] (by decide) (by decide)
    ⟨hn1, by decide, trivial⟩
  obtain ⟨⟨a, l, ht⟩, _, hr⟩ := this
  exact ⟨⟨a, l, ht⟩, hr⟩

/-- a reject in the middle of a multi-page block: the partial data is dropped and the next request
    is an initial one -/
def schedReject : List (Env × Action) :=
  [(env, .heartbeat 10), (env, .reply (.partial_ ⟨"B", [], 3⟩)), (env, .heartbeat 10),
   (env, .reply (.followUp "x")), (env, .heartbeat 10), (env, .reply .reject), (env, .heartbeat 10)]

example : trace sys0 schedReject = [.initial 1 [], .followUp 0, .followUp 1, .initial 1 []] := by decide
example : (run sys0 schedReject).st.syncing.rejects = 1 := by decide
example : (run sys0 (schedReject.take 6)).st.syncing.response = none := by decide

/-- `no_block_twice`: its hypotheses hold for the anchor-only tree and `b2` -/
example : ∃ s', insertBlock env s0 b2 = .ok s' ∧ TreeOk s'.unstable.tree := by
  have hok : TreeOk s0.unstable.tree :=
    ⟨⟨by simp [Tree.rootsOf], trivial⟩, by decide⟩
  cases h : insertBlock env s0 b2 with
  | ok s' =>
    refine ⟨s', rfl, (no_block_twice env s0 s' b2 hok ?_ (by decide) h).2⟩
    intro x hx hxe
    simp only [s0, Tree.leaf, Tree.blocks, Tree.blocksList, List.mem_singleton] at hx
    subst hx
    exact absurd hxe (by decide)
  | rejected why =>
    have : (match insertBlock env s0 b2 with | .ok _ => true | _ => false) = true := by decide
    rw [h] at this; cases this
  | trap =>
    have : (match insertBlock env s0 b2 with | .ok _ => true | _ => false) = true := by decide
    rw [h] at this; cases this

end Example

end Btc.Props.C13
