import BtcModel.Lemmas.SpecsExtraC11
import BtcModel.Props.FullSysExample
import BtcModel.Gen.Constants

/-!
# C11 — independent characterisations for header validation (target encoding, store coherence)

`Props/C11.lean` states the header rules on top of two things it shares with the model or leaves
to the caller:

* the compact target encoding `Header.fromCompact` (the specification `Spec/Consensus.lean` uses
  the model's own decoder), and
* the hypotheses of `C11.nextTarget_eq_requiredBits` about the header store (`SelfChain`, `hbase`).

This file closes both gaps.

## Part A — the compact encoding against Bitcoin Core's `arith_uint256::SetCompact`

`Model/SpecsExtraC11Test.lean` transcribes `SetCompact` (value as an unbounded integer, flags
`negative` and `overflow`) from the C++ text with `>>`, `&`, `<<`; it imports nothing.  Here:

* `fromCompact_eq_compactToTarget`, `fromCompact_of_coreDeriveTarget`: the model's decoder
  (rust-bitcoin `Target::from_compact`) equals Core's wherever Core reports neither flag — except
  on the `LowSign` encodings; in particular on every encoding Core's `DeriveTarget` accepts.
* `differs_iff_lowSign`, `lowSign_target`, `negative_decodes_zero`, `fromCompact_wraparound`,
  `model_accepts_core_rejects_iff`: **exactly** where they differ.
* `validateHeader_depends_on_target`: `validate_header` reads `bits` only through the decoded
  target, so a non-canonical encoding of the required target is accepted (as in the Rust code).
* `regtest_limit_encodings`, `mainnet_limit_encodings`: all 32-bit encodings of the two
  proof-of-work limits under the model.

## Part B — store coherence for the retarget theorem

* `reachable_targets_le_max`: a new invariant of the message-level system (`Spec/FullSys.lean`):
  every stored header except the genesis header carries a target `≤ max_target(network)`.
* `store_coherence_block` / `store_coherence_header`: the hypotheses `SelfChain` and `hbase` of
  `C11.nextTarget_eq_requiredBits` hold for `State.validationStore` in every reachable state.
* `nextTarget_eq_requiredBits_block` / `_header`, `accept_iff_core_rule_block`: the retarget theorem
  and the acceptance criterion without store hypotheses.

Residual hypotheses (both are facts about the environment that the model cannot know):
`hgen` — the genesis header (never validated: it is a parameter of `State::new`) carries a target
`≤ max_target`; and, for chains through *announced* headers only, `hfreshNext` — no announced
header carries the hash of a stable block (hash-collision freedom; block hashes are free fields
of the model).
-/
namespace Btc.Props.SpecsExtraC11
open Btc Btc.State Btc.Spec Btc.Spec.Full Btc.Header Btc.Spec.Consensus
open Btc.Lemmas.SpecsExtraC11 Btc.Lemmas.FullSys
open Btc.Tree (Net)

export Btc.SpecsExtraC11 (compactSize compactWord compactToTarget compactToTarget256
  compactNegative compactOverflow setCompact coreDeriveTarget getCompact)
export Btc.Lemmas.SpecsExtraC11 (LowSign TargetOk TgtInv FromTree FromNext)

/-! ## A.1 Model = Core on Core's domain -/

/-- **The model's decoder is Bitcoin Core's `SetCompact`** (exact unbounded value) for every
    compact value on which Core reports neither `negative` nor `overflow`, except the `LowSign`
    encodings (sign bit set, size 1 or 2). -/
theorem fromCompact_eq_compactToTarget (c : Nat) (hn : compactNegative c = false)
    (ho : compactOverflow c = false) (hl : ¬ LowSign c) : fromCompact c = compactToTarget c :=
  fromCompact_eq_core c hn ho hl

/-- the arithmetic content of the transcription: `nSize = c / 2^24`, `nWord = c mod 2^23`, the
    value is `nWord / 256^(3 - nSize)` for `nSize ≤ 3` and `nWord · 256^(nSize - 3)` above -/
theorem compactToTarget_arith (c : Nat) :
    compactToTarget c =
      if c / 2 ^ 24 ≤ 3 then c % 2 ^ 23 / 2 ^ (8 * (3 - c / 2 ^ 24))
      else c % 2 ^ 23 * 2 ^ (8 * (c / 2 ^ 24 - 3)) := compactToTarget_eq c

/-- Core accepts the encoding: neither flag, nonzero target -/
def CoreValid (c : Nat) : Prop :=
  compactNegative c = false ∧ compactOverflow c = false ∧ compactToTarget c ≠ 0

instance (c : Nat) : Decidable (CoreValid c) := by unfold CoreValid; infer_instance

/-- on every encoding that Core accepts the two decoders agree, and the value fits 256 bits -/
theorem fromCompact_of_coreValid (c : Nat) (h : CoreValid c) :
    fromCompact c = compactToTarget c ∧ compactToTarget c < 2 ^ 256 := by
  obtain ⟨hn, ho, hz⟩ := h
  have hl : ¬ LowSign c := fun hl => hz (lowSign_core_zero c hl hn)
  have e := fromCompact_eq_core c hn ho hl
  exact ⟨e, by rw [← e]; exact fromCompact_lt_two256 c⟩

/-- **Every `nBits` that Core's `DeriveTarget` / `CheckProofOfWork` turns into a target `t`
    (below the limit `L`) decodes to the same `t` in the model.** -/
theorem fromCompact_of_coreDeriveTarget (c L t : Nat) (h : coreDeriveTarget c L = some t) :
    fromCompact c = t ∧ t ≤ L ∧ t ≠ 0 ∧ compactToTarget c = t := by
  unfold Btc.SpecsExtraC11.coreDeriveTarget at h
  split at h
  · cases h
  · rename_i hc
    simp only [Bool.or_eq_true, beq_iff_eq, decide_eq_true_eq, not_or, Bool.not_eq_true,
      Nat.not_lt] at hc
    obtain ⟨⟨⟨hn, hz⟩, ho⟩, hle⟩ := hc
    have hz' : compactToTarget c ≠ 0 := by
      intro h0
      apply hz
      unfold Btc.SpecsExtraC11.compactToTarget256
      rw [h0]
    obtain ⟨e, hlt⟩ := fromCompact_of_coreValid c ⟨hn, ho, hz'⟩
    have e256 : compactToTarget256 c = compactToTarget c := Nat.mod_eq_of_lt hlt
    rw [e256] at h hle hz
    cases h
    exact ⟨e, hle, hz, rfl⟩

/-! ## A.2 Exactly where the model (= rust-bitcoin) and Core differ -/

/-- **on Core's no-flag domain the decoders differ exactly on the `LowSign` encodings** -/
theorem differs_iff_lowSign (c : Nat) (hn : compactNegative c = false)
    (ho : compactOverflow c = false) : fromCompact c ≠ compactToTarget c ↔ LowSign c := by
  constructor
  · intro h
    by_cases hl : LowSign c
    · exact hl
    · exact absurd (fromCompact_eq_core c hn ho hl) h
  · intro hl h
    have := lowSign_decode c hl
    have hp : 0 < 2 ^ (8 * (c / 2 ^ 24) - 1) := Nat.two_pow_pos _
    omega

/-- on a `LowSign` encoding (sign bit set, size `k ∈ {1, 2}`) rust-bitcoin shifts the 24-bit
    mantissa *including the sign bit* before testing the sign: the model's target is Core's value
    plus `2^(8k - 1)` (`0x80` resp. `0x8000`); Core's value is 0 unless Core reports `negative` -/
theorem lowSign_target (c : Nat) (hl : LowSign c) :
    fromCompact c = compactToTarget c + 2 ^ (8 * (c / 2 ^ 24) - 1) ∧
    (compactNegative c = false → compactToTarget c = 0) :=
  ⟨Btc.Lemmas.SpecsExtraC11.lowSign_decode c hl, lowSign_core_zero c hl⟩

/-- an encoding that Core flags `negative` decodes to target 0 in the model when its size is at
    least 3, and is a `LowSign` encoding otherwise -/
theorem negative_decodes_zero (c : Nat) (hn : compactNegative c = true) :
    (3 ≤ c / 2 ^ 24 → fromCompact c = 0) ∧ (c / 2 ^ 24 < 3 → LowSign c) :=
  ⟨negative_decode c hn, negative_small_lowSign c hn⟩

/-- **wrap-around**: rust-bitcoin's `U256 <<` takes the shift amount modulo 256, so adding 32 to a
    size above 3 (any number of times) does not change the decoded target; Core flags such
    encodings `overflow` whenever the mantissa is nonzero -/
theorem fromCompact_wraparound (c k : Nat) (he : 3 < c / 2 ^ 24) :
    fromCompact (c + k * 2 ^ 29) = fromCompact c := fromCompact_wrap_mul c k he

/-- a wrapped encoding of a nonzero mantissa is an overflow for Core -/
theorem wrapped_is_core_overflow (c : Nat) (he : 3 < c / 2 ^ 24) (hw : c % 2 ^ 23 ≠ 0) :
    compactOverflow (c + 2 ^ 29) = true := by
  rw [compactOverflow_iff, compactWord_eq]
  have h1 : (c + 2 ^ 29) / 2 ^ 24 = c / 2 ^ 24 + 32 := by simp only [Nat.reducePow]; omega
  have h2 : (c + 2 ^ 29) % 2 ^ 23 = c % 2 ^ 23 := by simp only [Nat.reducePow]; omega
  rw [h1, h2]
  have : ¬ c / 2 ^ 24 + 32 ≤ 3 := by omega
  simp only [this, if_false]
  exact ⟨hw, Or.inl (by omega)⟩

/-- Core's 256-bit register holds 0 after a shift by 256 bits or more (size ≥ 35) -/
theorem compactToTarget256_large (c : Nat) (he : 35 ≤ c / 2 ^ 24) : compactToTarget256 c = 0 := by
  unfold Btc.SpecsExtraC11.compactToTarget256
  rw [compactToTarget_eq]
  have h3 : ¬ c / 2 ^ 24 ≤ 3 := by omega
  simp only [h3, if_false]
  apply Nat.mod_eq_zero_of_dvd
  exact Nat.dvd_trans (Nat.pow_dvd_pow 2 (by omega)) (Nat.dvd_mul_left _ _)

/-- **Complete classification, for every compact value**: the model's target in terms of Core's
    three results.  `LowSign`: Core's value plus the shifted sign bit; otherwise `negative`: 0;
    otherwise `overflow`: the 23-bit word shifted by `(size - 3) mod 32` bytes, truncated to 256
    bits (Core's register holds `compactToTarget256`, which is 0 from size 35 on); otherwise
    (Core's own domain): Core's value. -/
theorem fromCompact_classification (c : Nat) :
    fromCompact c =
      if LowSign c then compactToTarget c + 2 ^ (8 * (c / 2 ^ 24) - 1)
      else if compactNegative c then 0
      else if compactOverflow c then c % 2 ^ 23 * 2 ^ (8 * ((c / 2 ^ 24 - 3) % 32)) % 2 ^ 256
      else compactToTarget c := by
  by_cases hl : LowSign c
  · rw [if_pos hl]; exact Btc.Lemmas.SpecsExtraC11.lowSign_decode c hl
  rw [if_neg hl]
  cases hn : compactNegative c with
  | true =>
    simp only [if_true]
    by_cases he : 3 ≤ c / 2 ^ 24
    · exact negative_decode c hn he
    · exact absurd (negative_small_lowSign c hn (by omega)) hl
  | false =>
    simp only [Bool.false_eq_true, if_false]
    cases ho : compactOverflow c with
    | false => simp only [Bool.false_eq_true, if_false]; exact fromCompact_eq_core c hn ho hl
    | true =>
      simp only [if_true]
      obtain ⟨hw, hov⟩ := (compactOverflow_iff c).mp ho
      have he : 3 < c / 2 ^ 24 := by omega
      have hs : c / 2 ^ 23 % 2 = 0 := by
        rcases not_negative hn with h0 | h0
        · exact absurd h0 hw
        · exact h0
      have hsplit := low24_split c
      have hm : c % 2 ^ 24 = c % 2 ^ 23 := by
        simp only [Nat.reducePow] at hsplit hs ⊢; omega
      have hlt : ¬ 0x7FFFFF < c % 2 ^ 24 := by
        rw [hm]
        have : c % 2 ^ 23 < 2 ^ 23 := Nat.mod_lt _ (Nat.two_pow_pos _)
        simp only [Nat.reducePow] at this ⊢; omega
      rw [fromCompact_large' he, if_neg hlt, hm]

/-- **The encodings the model turns into a nonzero target although Core rejects them** are exactly
    the `LowSign` encodings and the overflowing encodings with a clear sign bit whose wrapped shift
    leaves something in the low 256 bits. -/
theorem model_accepts_core_rejects_iff (c : Nat) :
    (fromCompact c ≠ 0 ∧ ¬ CoreValid c) ↔
      (LowSign c ∨ (compactOverflow c = true ∧ c / 2 ^ 23 % 2 = 0 ∧ fromCompact c ≠ 0)) := by
  constructor
  · rintro ⟨hnz, hinv⟩
    by_cases hl : LowSign c
    · exact Or.inl hl
    · right
      cases hn : compactNegative c with
      | true =>
        exfalso
        by_cases he : 3 ≤ c / 2 ^ 24
        · exact hnz (negative_decode c hn he)
        · exact hl (negative_small_lowSign c hn (by omega))
      | false =>
        cases ho : compactOverflow c with
        | true =>
          refine ⟨rfl, ?_, hnz⟩
          by_cases hs : c / 2 ^ 23 % 2 = 1
          · exact absurd (overflow_sign_decode c ho hs) hnz
          · omega
        | false =>
          exfalso
          apply hinv
          refine ⟨hn, ho, ?_⟩
          rw [← fromCompact_eq_core c hn ho hl]
          exact hnz
  · rintro (hl | ⟨ho, _, hnz⟩)
    · have hd := Btc.Lemmas.SpecsExtraC11.lowSign_decode c hl
      have hp : 0 < 2 ^ (8 * (c / 2 ^ 24) - 1) := Nat.two_pow_pos _
      refine ⟨by omega, ?_⟩
      rintro ⟨hn, _, hz⟩
      exact hz (lowSign_core_zero c hl hn)
    · refine ⟨hnz, ?_⟩
      rintro ⟨_, ho', _⟩
      rw [ho] at ho'
      cases ho'

/-- size and mantissa of a word assembled from them -/
theorem split24 (a b : Nat) (hb : b < 2 ^ 23) :
    (a * 2 ^ 24 + b) / 2 ^ 24 = a ∧ (a * 2 ^ 24 + b) % 2 ^ 24 = b ∧ (a * 2 ^ 24 + b) % 2 ^ 23 = b := by
  simp only [Nat.reducePow] at *
  omega

/-- **Non-canonical encodings that are not wrap-arounds**: a mantissa with a zero high byte can be
    written one byte shorter with a size one larger.  Both decoders (the model's and Core's) give
    the two words the same target.  (Core's `ContextualCheckBlockHeader` compares the `nBits`
    *words* with `GetNextWorkRequired` and would reject the non-canonical one as `bad-diffbits`;
    the Rust code compares `Target`s, see `validateHeader_depends_on_target`.) -/
theorem shifted_mantissa_same_target (e m : Nat) (he : 3 < e) (he' : e ≤ 33) (hm : m < 2 ^ 15) :
    fromCompact ((e + 1) * 2 ^ 24 + m) = fromCompact (e * 2 ^ 24 + m * 256) ∧
    compactToTarget ((e + 1) * 2 ^ 24 + m) = compactToTarget (e * 2 ^ 24 + m * 256) := by
  have hm1 : m < 2 ^ 23 := by simp only [Nat.reducePow] at *; omega
  have hm2 : m * 256 < 2 ^ 23 := by simp only [Nat.reducePow] at *; omega
  obtain ⟨d1, r1, q1⟩ := split24 (e + 1) m hm1
  obtain ⟨d2, r2, q2⟩ := split24 e (m * 256) hm2
  have hpow : m * 2 ^ (8 * (e + 1 - 3)) = m * 256 * 2 ^ (8 * (e - 3)) := by
    have : 8 * (e + 1 - 3) = 8 + 8 * (e - 3) := by omega
    rw [this, Nat.pow_add, Nat.mul_assoc]
  constructor
  · rw [fromCompact_large (by rw [d1]; omega), fromCompact_large (by rw [d2]; exact he), d1, r1, d2, r2]
    have c1 : ¬ 0x7FFFFF < m := by simp only [Nat.reducePow] at hm1; omega
    have c2 : ¬ 0x7FFFFF < m * 256 := by simp only [Nat.reducePow] at hm2; omega
    rw [if_neg c1, if_neg c2]
    have k1 : 8 * (e + 1 - 3) % 256 = 8 * (e + 1 - 3) := Nat.mod_eq_of_lt (by omega)
    have k2 : 8 * (e - 3) % 256 = 8 * (e - 3) := Nat.mod_eq_of_lt (by omega)
    rw [k1, k2, hpow]
  · rw [compactToTarget_eq, compactToTarget_eq, d1, q1, d2, q2]
    have n1 : ¬ e + 1 ≤ 3 := by omega
    have n2 : ¬ e ≤ 3 := by omega
    rw [if_neg n1, if_neg n2, hpow]

/-! ## A.3 `validate_header` reads `bits` only through the decoded target -/

/-- **Acceptance (and every other verdict) depends on `bits` only through the decoded target.**
    Two headers with the same hash, parent and time whose `bits` decode to the same target get the
    same verdict: the Rust code compares `Target`s (`header.target() > max_target`,
    `validate_pow(target)`: `self.target() != required_target`), never the compact words.
    Hence a header whose `bits` is a non-canonical encoding of the required target is accepted by
    the model iff it is by the Rust code. -/
theorem validateHeader_depends_on_target (net : Net) (s : Store) (h h' : Hdr) (now : Nat)
    (hh : h'.hash = h.hash) (hp : h'.prev = h.prev) (ht : h'.time = h.time)
    (hb : fromCompact h'.bits = fromCompact h.bits) :
    validateHeader net s h' now = validateHeader net s h now := by
  obtain ⟨a, p, t, b⟩ := h
  obtain ⟨a', p', t', b'⟩ := h'
  simp only at hh hp ht hb
  subst hh hp ht
  have e1 : timestampCheck s ⟨a', p', t', b'⟩ now = timestampCheck s ⟨a', p', t', b⟩ now := rfl
  have e2 : ∀ x, powOk ⟨a', p', t', b'⟩ x = powOk ⟨a', p', t', b⟩ x := fun _ => rfl
  unfold validateHeader
  simp only [e1, e2, hb]

/-- re-encoding the target of an accepted header keeps it accepted -/
theorem accept_noncanonical (net : Net) (s : Store) (h : Hdr) (now : Nat) (bits' : Nat)
    (hb : fromCompact bits' = fromCompact h.bits) (hok : validateHeader net s h now = .ok) :
    validateHeader net s { h with bits := bits' } now = .ok := by
  rw [validateHeader_depends_on_target net s h { h with bits := bits' } now rfl rfl rfl hb]
  exact hok

/-! ## A.4 All encodings of the proof-of-work limits -/

/-- **the 32-bit compact values that the model decodes to the regtest limit** `0x7fffff·2^232`:
    the canonical `0x207fffff` and its six wrap-around encodings (size `0x20 + 32k`); Core flags
    the six others `overflow` -/
theorem regtest_limit_encodings (c : Nat) (hc : c < 2 ^ 32) :
    fromCompact c = maxTarget .regtest ↔
      c ∈ [0x207fffff, 0x407fffff, 0x607fffff, 0x807fffff, 0xa07fffff, 0xc07fffff, 0xe07fffff] := by
  constructor
  · intro h
    rw [maxTarget_regtest_eq] at h
    by_cases he : c / 2 ^ 24 ≤ 3
    · have := fromCompact_small_lt he
      rw [h] at this
      exact absurd this (by decide)
    · have he' : 3 < c / 2 ^ 24 := by omega
      rw [fromCompact_large' he'] at h
      split at h
      · exact absurd h (by decide)
      · rename_i hm
        obtain ⟨hj, hmm⟩ := shifted_eq_regtest _ _ (by omega) (Nat.mod_lt _ (by decide)) h
        simp only [List.mem_cons, List.not_mem_nil, or_false]
        simp only [Nat.reducePow] at hc hj hmm he' ⊢
        omega
  · intro h
    simp only [List.mem_cons, List.not_mem_nil, or_false] at h
    rcases h with rfl | rfl | rfl | rfl | rfl | rfl | rfl <;> decide

/-- **the 32-bit compact values that the model decodes to the mainnet / testnet limit**
    `0xffff·2^208`: the canonical `0x1d00ffff` and its seven wrap-around encodings -/
theorem mainnet_limit_encodings (c : Nat) (hc : c < 2 ^ 32) :
    fromCompact c = maxTarget .mainnet ↔
      c ∈ [0x1d00ffff, 0x3d00ffff, 0x5d00ffff, 0x7d00ffff, 0x9d00ffff, 0xbd00ffff, 0xdd00ffff,
        0xfd00ffff] := by
  constructor
  · intro h
    have hmx : maxTarget .mainnet = 0xFFFF * 2 ^ 208 := rfl
    rw [hmx] at h
    by_cases he : c / 2 ^ 24 ≤ 3
    · have := fromCompact_small_lt he
      rw [h] at this
      exact absurd this (by decide)
    · have he' : 3 < c / 2 ^ 24 := by omega
      rw [fromCompact_large' he'] at h
      split at h
      · exact absurd h (by decide)
      · rename_i hm
        obtain ⟨hj, hmm⟩ := shifted_eq_mainnet _ _ (by omega) (Nat.mod_lt _ (by decide)) h
        simp only [List.mem_cons, List.not_mem_nil, or_false]
        simp only [Nat.reducePow] at hc hj hmm he' ⊢
        omega
  · intro h
    simp only [List.mem_cons, List.not_mem_nil, or_false] at h
    rcases h with rfl | rfl | rfl | rfl | rfl | rfl | rfl | rfl <;> decide

/-- among them only the canonical encodings are accepted by Core -/
theorem limit_encodings_core :
    (∀ c ∈ [0x407fffff, 0x607fffff, 0x807fffff, 0xa07fffff, 0xc07fffff, 0xe07fffff],
      compactOverflow c = true) ∧
    (∀ c ∈ [0x3d00ffff, 0x5d00ffff, 0x7d00ffff, 0x9d00ffff, 0xbd00ffff, 0xdd00ffff, 0xfd00ffff],
      compactOverflow c = true) ∧
    coreDeriveTarget 0x207fffff (maxTarget .regtest) = some (maxTarget .regtest) ∧
    coreDeriveTarget 0x1d00ffff (maxTarget .mainnet) = some (maxTarget .mainnet) := by
  decide

/-! ## A.5 Concrete values -/

section Examples
open Btc.Props.C11.Ex

/-- canonical encodings: the two decoders agree -/
example : fromCompact 0x1d00ffff = compactToTarget 0x1d00ffff := by decide
example : fromCompact 0x207fffff = compactToTarget 0x207fffff := by decide
example : fromCompact 0x1b0404cb = compactToTarget 0x1b0404cb ∧
    compactToTarget 0x1b0404cb = 0x0404cb * 2 ^ (8 * (0x1b - 3)) := by decide
example : setCompact 0x01003456 = ⟨0, false, false⟩ ∧ fromCompact 0x01003456 = 0 := by decide
example : setCompact 0x01123456 = ⟨0x12, false, false⟩ ∧ fromCompact 0x01123456 = 0x12 := by decide
example : setCompact 0x04923456 = ⟨0x12345600, true, false⟩ ∧ fromCompact 0x04923456 = 0 := by decide
example : setCompact 0x01fedcba = ⟨0x7e, true, false⟩ ∧ fromCompact 0x01fedcba = 0xfe := by decide
example : (setCompact 0xff123456).overflow = true ∧ (setCompact 0xff123456).negative = false := by decide

/-- wrap-around: `0x407fffff` is the regtest limit for the model, an overflow for Core (whose
    256-bit register then holds 0) -/
example : fromCompact 0x407fffff = fromCompact 0x207fffff ∧ compactOverflow 0x407fffff = true ∧
    compactToTarget256 0x407fffff = 0 ∧ coreDeriveTarget 0x407fffff (maxTarget .regtest) = none := by
  decide
example : fromCompact 0x3d00ffff = fromCompact 0x1d00ffff ∧ compactOverflow 0x3d00ffff = true := by decide
/-- size 35, mantissa 1: Core overflow; the model shifts by `8·32 mod 256 = 0` and gets target 1 -/
example : fromCompact 0x23000001 = 1 ∧ compactOverflow 0x23000001 = true := by decide
/-- shifted mantissas are *not* encodings of the limits (a byte is lost) -/
example : fromCompact 0x1e0000ff ≠ fromCompact 0x1d00ffff ∧ fromCompact 0x21007fff ≠ fromCompact 0x207fffff ∧
    fromCompact 0x1cffff00 = 0 := by decide
/-- shifted mantissas with a zero high byte *are* encodings of the same target, for both decoders;
    only the first is canonical (`GetCompact`) -/
example : fromCompact 0x1d000100 = fromCompact 0x1c010000 ∧ fromCompact 0x1e000001 = fromCompact 0x1c010000 ∧
    compactToTarget 0x1d000100 = compactToTarget 0x1c010000 ∧ CoreValid 0x1d000100 ∧
    CoreValid 0x1c010000 ∧ getCompact (compactToTarget 0x1d000100) = 0x1c010000 := by decide
/-- `LowSign`: Core decodes `0x02800000` to 0 without any flag (and `CheckProofOfWork` rejects the
    zero target); rust-bitcoin and the model decode it to `0x8000` -/
example : LowSign 0x02800000 ∧ setCompact 0x02800000 = ⟨0, false, false⟩ ∧
    fromCompact 0x02800000 = 0x8000 ∧ coreDeriveTarget 0x02800000 (maxTarget .regtest) = none := by
  decide
example : LowSign 0x01800000 ∧ setCompact 0x01800000 = ⟨0, false, false⟩ ∧
    fromCompact 0x01800000 = 0x80 := by decide
example : LowSign 0x02801234 ∧ setCompact 0x02801234 = ⟨0x12, true, false⟩ ∧
    fromCompact 0x02801234 = 0x8012 := by decide
/-- the hypotheses of `fromCompact_eq_compactToTarget` / `fromCompact_of_coreValid` are satisfiable -/
example : compactNegative 0x1b0404cb = false ∧ compactOverflow 0x1b0404cb = false ∧
    ¬ LowSign 0x1b0404cb ∧ CoreValid 0x1b0404cb := by decide
/-- the canonical re-encoding of the wrapped regtest limit is the canonical word -/
example : getCompact (fromCompact 0x407fffff) = 0x207fffff ∧
    toCompactLossy (fromCompact 0x407fffff) = 0x207fffff := by decide

/-- the limits are the constants extracted from the Rust sources (`Gen/Constants.lean`) -/
example : Btc.Gen.powLimitBitsRegtest = 0x207fffff ∧ Btc.Gen.powLimitBitsMainnet = 0x1d00ffff ∧
    Btc.Gen.powLimitBitsTestnet = 0x1d00ffff ∧
    powLimitBits .regtest = Btc.Gen.powLimitBitsRegtest ∧
    powLimitBits .mainnet = Btc.Gen.powLimitBitsMainnet ∧
    powLimitBits .testnet = Btc.Gen.powLimitBitsTestnet := by decide
/-- the regtest header `good` of `Props/C11.lean` with its `bits` replaced by the wrap-around
    encoding `0x407fffff` is still accepted (the Rust code compares targets) -/
example : validateHeader .regtest store { good with bits := 0x407fffff } 400 = .ok := by decide
example : validateHeader .regtest store { good with bits := 0x407fffff } 400 = .ok :=
  accept_noncanonical .regtest store good 400 0x407fffff (by decide) (by decide)

end Examples

/-! ### Sweeps (evaluated, not proofs): all sizes × mantissas around every threshold -/

/-- mantissas around the thresholds of `SetCompact` (`0xff`, `0xffff`, the sign bit) -/
def sweepMantissas : List Nat :=
  [0, 1, 0x7f, 0x80, 0xff, 0x100, 0x1234, 0x7fff, 0x8000, 0xffff, 0x10000, 0x123456, 0x7fffff,
   0x800000, 0x800001, 0x8000ff, 0x800100, 0x80ffff, 0x810000, 0x923456, 0xffffff]

-- no flag and not `LowSign` ⇒ equal; no flag ⇒ (different ⇔ `LowSign`)
#guard (List.range 256).all fun e => sweepMantissas.all fun m =>
  let c := e * 2 ^ 24 + m
  (compactNegative c || compactOverflow c || decide (LowSign c) || fromCompact c == compactToTarget c) &&
  (compactNegative c || compactOverflow c || (decide (LowSign c) == (fromCompact c != compactToTarget c)))

-- `model_accepts_core_rejects_iff`
#guard (List.range 256).all fun e => sweepMantissas.all fun m =>
  let c := e * 2 ^ 24 + m
  (fromCompact c != 0 && !decide (CoreValid c)) ==
    (decide (LowSign c) || (compactOverflow c && c / 2 ^ 23 % 2 == 0 && fromCompact c != 0))

-- wrap-around, and Core's register after an overflowing shift
#guard (List.range 256).all fun e => sweepMantissas.all fun m =>
  let c := e * 2 ^ 24 + m
  (e ≤ 3 || e ≥ 224 || fromCompact (c + 2 ^ 29) == fromCompact c) &&
  (e < 35 || compactToTarget256 c == 0)

-- Core's `GetCompact` and rust-bitcoin's `to_compact_lossy` agree on decoded targets
#guard (List.range 256).all fun e => sweepMantissas.all fun m =>
  let c := e * 2 ^ 24 + m
  getCompact (fromCompact c) == toCompactLossy (fromCompact c)

/-! ## B. Store coherence in every reachable configuration -/

variable {sys : Fetch.Sys} {G : List Block} {s : State}

/-- **New invariant of the message-level system: every stored header except the genesis header
    passed the check `target ≤ max_target(network)`.**  In every configuration reachable by
    messages (`Spec.Full.FullReachable`), with `g0` the block at height 0 (the genesis block given
    to `State::new`, which nothing validates): every ingested block (`G`), every unstable block and
    every announced header other than `g0` carries a target `≤ max_target` of the canister's
    network (which never changes).  Blocks enter through `insert_block`, announced headers through
    `insert_next_block_headers`; both call `validate_header`, whose third check this is. -/
theorem reachable_targets_le_max (hr : FullReachable sys G) :
    ∃ g0 : Block,
      (G ++ [sys.st.unstable.tree.root.blk]).head? = some g0 ∧
      (∀ b ∈ G, b = g0 ∨ fromCompact b.bits ≤ maxTarget sys.st.network) ∧
      (∀ c ∈ sys.st.unstable.tree.blocks, c.blk = g0 ∨
        fromCompact c.blk.bits ≤ maxTarget sys.st.network) ∧
      (∀ x h, sys.st.unstable.next.getHeader x = some h →
        fromCompact h.bits ≤ maxTarget sys.st.network) := by
  obtain ⟨g0, ht⟩ := fullReachable_tgt hr
  exact ⟨g0, ht.head, ht.stable, ht.tree, ht.next⟩

/-- every message preserves the target invariant (the step of `reachable_targets_le_max`); the
    ledger invariant `Inv2` is only used to read an ingesting heartbeat as a sequence of `pop`s -/
theorem message_preserves_targets {net : Net} {g0 : Block} (env : Env) (m : Msg)
    (h2 : Lemmas.Reach2.Inv2 sys.st G) (ht : TgtInv net g0 sys.st.unstable G) :
    TgtInv net g0 (stepMsg env (sys, G) m).1.st.unstable (stepMsg env (sys, G) m).2 :=
  stepMsg_tgt env sys G m h2 ht

/-- `StoreInv s G`: the ledger invariant `InvAll s G` and the target invariant.  It holds in every
    reachable configuration in which no block is partially ingested … -/
theorem storeInv_reachable (hr : FullReachable sys G) (hn : ¬ Paused sys.st) : StoreInv sys.st G :=
  storeInv_of_reachable hr hn

/-- … **and in every state in which `validate_header` is actually called**: these are states
    *inside* a heartbeat that processes a stored complete response `r` (after the pushes and
    insertions of the earlier loop iterations) — the states of the block loop
    (`blockLoopStates`), the state `s1` the block loop ends in, and the states of the header loop
    (`headerLoopStates`).  (A heartbeat gets there only if no block is partially ingested.) -/
theorem validation_states_storeInv (hr : FullReachable sys G) (env : Env) (budget : Nat)
    (ht : Trusted env (sys, G) (.heartbeat budget))
    (hi : sys.st.ingestStable env.bound budget = .done sys.st false) (r : CompleteResp)
    (hresp : sys.st.syncing.response = some (.complete r)) :
    (∀ sMid ∈ blockLoopStates env
        { sys.st with syncing := { sys.st.syncing with response := none } } r.blocks,
      StoreInv sMid G) ∧
    ∀ s1, processBlocks env
        { sys.st with syncing := { sys.st.syncing with response := none } } r.blocks =
          some (s1, false) →
      StoreInv s1 G ∧
      ∀ sMid ∈ headerLoopStates env s1 (r.next.take env.headerSlots), StoreInv sMid G := by
  have hni := (ingestStable_done_false' hi).2
  have hA : InvAll sys.st G :=
    (Props.FullSys.fullReachable_inv hr).1 (by simp [Paused, hni])
  obtain ⟨g0, hT⟩ := fullReachable_tgt hr
  obtain ⟨ht1, ht2⟩ := ht (pastIngestion_iff.mpr hi) r hresp
  simp only at ht1 ht2
  have hA0 := invAll_frame (clearResponse_frame sys.st) hA
  have hT0 : TgtInv sys.st.network g0
      ({ sys.st with syncing := { sys.st.syncing with response := none } } : State).unstable G := hT
  refine ⟨fun sMid hm => ?_, fun s1 hb => ?_⟩
  · obtain ⟨h1, h2⟩ := blockLoop_inv env G r.blocks _ hA0 hT0 ht1 sMid hm
    exact storeInv_mk h1 h2
  · obtain ⟨h1, h2⟩ := processBlocks_inv env G r.blocks _ s1 false hA0 hT0 ht1 hb
    refine ⟨storeInv_mk h1 h2, fun sMid hm => ?_⟩
    obtain ⟨h3, h4⟩ := headerLoop_inv env G _ s1 h1 h2 (ht2 s1 hb) sMid hm
    exact storeInv_mk h3 h4

/-- the looked-up parent of a header whose parent hash is carried by a header of the chain is a
    header of the chain -/
theorem prev_known {chain : List Hdr} {h prev : Hdr}
    (hlast : ∃ c ∈ chain, c.hash = h.prev)
    (hp : (validationStore s chain).getByHash h.prev = some prev) : Known G chain prev := by
  obtain ⟨c, hcm, hce⟩ := hlast
  obtain ⟨c', hc', hlook⟩ := getByHash_of_mem s hcm
  rw [hce, hp] at hlook
  cases hlook
  exact Or.inl hc'

/-- **Store coherence when a block is validated** (`insert_block`: `ValidationContext::new`).
    In every state satisfying `StoreInv` (every reachable non-paused configuration, every state in
    which the validator is called), for the store the canister hands to `validate_header` for a
    header `h` (`chain` = the unstable chain to its parent) and the parent `prev` the validator
    looks up: the hypotheses of `C11.nextTarget_eq_requiredBits` hold — `prev` has a complete
    ancestor chain in the store (by `prev` links down to the initial header) and the base targets
    of a retarget are `≤ max_target` — provided the genesis header's is. -/
theorem store_coherence_block (hS : StoreInv s G) {h prev : Hdr}
    {chain : List Hdr} (hc : validationContext s h = .ok chain)
    (hp : (validationStore s chain).getByHash h.prev = some prev)
    (hgen : ∀ g, (validationStore s chain).getByHeight 0 = some g →
      fromCompact g.bits ≤ maxTarget s.network) :
    (∃ l, SelfChain (validationStore s chain)
      ((validationStore s chain).initialHash.getD 0) prev l true) ∧
    ∀ x, (x = prev ∨ (validationStore s chain).getByHeight
        ((validationStore s chain).height + 1 - 2016) = some x) →
      fromCompact x.bits ≤ maxTarget s.network := by
  obtain ⟨hA, g0, ht⟩ := hS
  have hI := hA.invU.inv
  obtain ⟨hck, x, hx, hxe⟩ := chainOk_validationContext hI hc
  have hm := validationContext_mem hc
  have hk : Known G chain prev := prev_known (getLast?_mem_hash hx hxe) hp
  obtain ⟨h1, h2⟩ := store_coherent hI ht hck (fun c hc' => Or.inl (hm c hc'))
    (fun c hc' => fromTree_fresh hI (hm c hc')) hgen hk
  exact ⟨h1, fun x hx => h2 x _ hx⟩

/-- **Store coherence when an announced header is validated** (`insert_next_block_headers`:
    `ValidationContext::new_with_next_block_headers`; `chain` = the unstable chain followed by
    announced headers).  As `store_coherence_block`, under one more assumption on the environment:
    no announced header carries the hash of a stable block (the tree-block part of this is the
    invariant `Inv.hashesNodup`; for announced headers nothing in the model excludes it, because
    block hashes are free fields there — in the code a hash is the double SHA-256 of the header). -/
theorem store_coherence_header (hS : StoreInv s G) {h prev : Hdr}
    {chain : List Hdr} (hc : validationContextWithNext s h = .ok chain)
    (hp : (validationStore s chain).getByHash h.prev = some prev)
    (hgen : ∀ g, (validationStore s chain).getByHeight 0 = some g →
      fromCompact g.bits ≤ maxTarget s.network)
    (hfreshNext : ∀ x nh, s.unstable.next.getHeader x = some nh → ∀ g ∈ G, nh.hash ≠ g.hash) :
    (∃ l, SelfChain (validationStore s chain)
      ((validationStore s chain).initialHash.getD 0) prev l true) ∧
    ∀ x, (x = prev ∨ (validationStore s chain).getByHeight
        ((validationStore s chain).height + 1 - 2016) = some x) →
      fromCompact x.bits ≤ maxTarget s.network := by
  obtain ⟨hA, g0, ht⟩ := hS
  have hI := hA.invU.inv
  obtain ⟨hck, hlast⟩ := chainOk_validationContextWithNext hI hA.next.ok hc
  have hm := validationContextWithNext_mem hc
  have hk : Known G chain prev := prev_known hlast hp
  have hfresh : ∀ c ∈ chain, ∀ g ∈ G, c.hash ≠ g.hash := by
    intro c hc' g hg
    rcases hm c hc' with hT | ⟨x, nh, hx, rfl⟩
    · exact fromTree_fresh hI hT g hg
    · exact hfreshNext x nh hx g hg
  obtain ⟨h1, h2⟩ := store_coherent hI ht hck hm hfresh hgen hk
  exact ⟨h1, fun x hx => h2 x _ hx⟩

/-- **`C11.nextTarget_eq_requiredBits` without store hypotheses, for blocks.**  In every state
    satisfying `StoreInv`, when `insert_block` validates a header `h` whose parent lookup yields
    `prev`: the complete ancestor chain `l` of `prev` exists in the store, and for every such chain
    the target `get_next_target` requires of a header with timestamp `time` is Bitcoin Core's
    `GetNextWorkRequired` (`requiredBits`) — given only that the genesis header's target does not
    exceed the maximum. -/
theorem nextTarget_eq_requiredBits_block (hS : StoreInv s G)
    {h prev : Hdr} {chain : List Hdr} (hc : validationContext s h = .ok chain)
    (hp : (validationStore s chain).getByHash h.prev = some prev)
    (hgen : ∀ g, (validationStore s chain).getByHeight 0 = some g →
      fromCompact g.bits ≤ maxTarget s.network) (time : Nat) :
    (∃ l, SelfChain (validationStore s chain)
      ((validationStore s chain).initialHash.getD 0) prev l true) ∧
    ∀ l b, SelfChain (validationStore s chain)
        ((validationStore s chain).initialHash.getD 0) prev l b →
      nextTarget s.network (validationStore s chain) prev
          (validationStore s chain).height time =
        (requiredBits s.network l b
          ((validationStore s chain).getByHeight
            ((validationStore s chain).height + 1 - 2016)) prev
          (validationStore s chain).height time).map fromCompact := by
  obtain ⟨h1, h2⟩ := store_coherence_block hS hc hp hgen
  exact ⟨h1, fun l b hl =>
    Props.C11.nextTarget_eq_requiredBits _ _ prev _ time (fun _ => hl) h2⟩

/-- the same when an announced header is validated (with the extra freshness assumption) -/
theorem nextTarget_eq_requiredBits_header (hS : StoreInv s G)
    {h prev : Hdr} {chain : List Hdr} (hc : validationContextWithNext s h = .ok chain)
    (hp : (validationStore s chain).getByHash h.prev = some prev)
    (hgen : ∀ g, (validationStore s chain).getByHeight 0 = some g →
      fromCompact g.bits ≤ maxTarget s.network)
    (hfreshNext : ∀ x nh, s.unstable.next.getHeader x = some nh → ∀ g ∈ G, nh.hash ≠ g.hash)
    (time : Nat) :
    (∃ l, SelfChain (validationStore s chain)
      ((validationStore s chain).initialHash.getD 0) prev l true) ∧
    ∀ l b, SelfChain (validationStore s chain)
        ((validationStore s chain).initialHash.getD 0) prev l b →
      nextTarget s.network (validationStore s chain) prev
          (validationStore s chain).height time =
        (requiredBits s.network l b
          ((validationStore s chain).getByHeight
            ((validationStore s chain).height + 1 - 2016)) prev
          (validationStore s chain).height time).map fromCompact := by
  obtain ⟨h1, h2⟩ := store_coherence_header hS hc hp hgen hfreshNext
  exact ⟨h1, fun l b hl =>
    Props.C11.nextTarget_eq_requiredBits _ _ prev _ time (fun _ => hl) h2⟩

/-- **On mainnet the freshness assumption is not needed**: the mainnet rule never walks the
    ancestor chain (`requiredBits .mainnet` ignores its chain arguments), so for announced headers
    too the required target is Core's `GetNextWorkRequired`, for any `l`, `b`. -/
theorem nextTarget_eq_requiredBits_header_mainnet (hS : StoreInv s G) (hnet : s.network = .mainnet)
    {h prev : Hdr} {chain : List Hdr} (hc : validationContextWithNext s h = .ok chain)
    (hp : (validationStore s chain).getByHash h.prev = some prev)
    (hgen : ∀ g, (validationStore s chain).getByHeight 0 = some g →
      fromCompact g.bits ≤ maxTarget s.network) (time : Nat) (l : List Hdr) (b : Bool) :
    nextTarget s.network (validationStore s chain) prev (validationStore s chain).height time =
      (requiredBits s.network l b
        ((validationStore s chain).getByHeight ((validationStore s chain).height + 1 - 2016)) prev
        (validationStore s chain).height time).map fromCompact := by
  obtain ⟨hA, g0, ht⟩ := hS
  have hI := hA.invU.inv
  obtain ⟨hck, hlast⟩ := chainOk_validationContextWithNext hI hA.next.ok hc
  have hm := validationContextWithNext_mem hc
  have hk : Known G chain prev := prev_known hlast hp
  have h2 := store_targets hI ht hck hm hgen hk
  exact Props.C11.nextTarget_eq_requiredBits _ _ prev _ time
    (fun hne => absurd hnet hne) (fun x hx => h2 x _ hx)

/-- **The composition asked for: `nextTarget_eq_requiredBits` for every `FullReachable`
    configuration, without the store hypotheses.**  (Residual hypothesis: the genesis header's
    target is `≤ max_target`; a configuration with a partially ingested block never validates.) -/
theorem nextTarget_eq_requiredBits_reachable (hr : FullReachable sys G) (hn : ¬ Paused sys.st)
    {h prev : Hdr} {chain : List Hdr} (hc : validationContext sys.st h = .ok chain)
    (hp : (validationStore sys.st chain).getByHash h.prev = some prev)
    (hgen : ∀ g, (validationStore sys.st chain).getByHeight 0 = some g →
      fromCompact g.bits ≤ maxTarget sys.st.network) (time : Nat) :
    ∃ l, SelfChain (validationStore sys.st chain)
        ((validationStore sys.st chain).initialHash.getD 0) prev l true ∧
      nextTarget sys.st.network (validationStore sys.st chain) prev
          (validationStore sys.st chain).height time =
        (requiredBits sys.st.network l true
          ((validationStore sys.st chain).getByHeight
            ((validationStore sys.st chain).height + 1 - 2016)) prev
          (validationStore sys.st chain).height time).map fromCompact := by
  obtain ⟨⟨l, hl⟩, h2⟩ :=
    nextTarget_eq_requiredBits_block (storeInv_of_reachable hr hn) hc hp hgen time
  exact ⟨l, hl, h2 l true hl⟩

/-- **What `insert_block` accepts, in terms of Core's rule only.**  In every state satisfying
    `StoreInv` (genesis target `≤ max`), `validate_header` accepts the header of a delivered
    block iff: the parent is known, the complete ancestor chain `l` of the parent exists, the
    timestamp rules hold, the declared target does not exceed the maximum and is met by the hash,
    and the declared **target** equals the decoded `GetNextWorkRequired` bits. -/
theorem accept_iff_core_rule_block (hS : StoreInv s G) {h : Hdr}
    {chain : List Hdr} (hc : validationContext s h = .ok chain)
    (hgen : ∀ g, (validationStore s chain).getByHeight 0 = some g →
      fromCompact g.bits ≤ maxTarget s.network) (now : Nat) :
    validateHeader s.network (validationStore s chain) h now = .ok ↔
      ∃ prev l, (validationStore s chain).getByHash h.prev = some prev ∧
        SelfChain (validationStore s chain)
          ((validationStore s chain).initialHash.getD 0) prev l true ∧
        h.time ≤ now + 7200 ∧
        medianPast (validationStore s chain) h < h.time ∧
        fromCompact h.bits ≤ maxTarget s.network ∧
        powOk h (fromCompact h.bits) = true ∧
        (requiredBits s.network l true
          ((validationStore s chain).getByHeight
            ((validationStore s chain).height + 1 - 2016)) prev
          (validationStore s chain).height h.time).map fromCompact =
            some (fromCompact h.bits) := by
  rw [Props.C11.accept_iff]
  constructor
  · rintro ⟨prev, hp, h1, h2, h3, h4, h5⟩
    obtain ⟨⟨l, hl⟩, hreq⟩ := nextTarget_eq_requiredBits_block hS hc hp hgen h.time
    exact ⟨prev, l, hp, hl, h1, h2, h3, h4, by rw [← hreq l true hl]; exact h5⟩
  · rintro ⟨prev, l, hp, hl, h1, h2, h3, h4, h5⟩
    obtain ⟨_, hreq⟩ := nextTarget_eq_requiredBits_block hS hc hp hgen h.time
    exact ⟨prev, hp, h1, h2, h3, h4, by rw [hreq l true hl]; exact h5⟩

/-- the residual hypothesis holds when the genesis block carries the proof-of-work limit of its
    network (true of the genesis blocks of mainnet `0x1d00ffff`, testnet4 `0x1d00ffff` and regtest
    `0x207fffff`) -/
theorem hgen_of_powLimit (net : Net) (S : Store)
    (h : ∀ g, S.getByHeight 0 = some g → g.bits = powLimitBits net) :
    ∀ g, S.getByHeight 0 = some g → fromCompact g.bits ≤ maxTarget net := by
  intro g hg
  rw [h g hg, fromCompact_powLimitBits]
  exact Nat.le_refl _

/-! ### Non-vacuity: the final configuration of `Props/FullSysExample.lean` -/

section Example
open Btc.Props.FullSys.Example

/-- a header on top of `b2`, the only unstable block of the final configuration `cE`
    (ghost `[gen]`, tree `[b2]`, announced header `h3`) -/
def h4 : Hdr := ⟨4, 2, 103, 0x207fffff⟩

theorem ctx_h4 : validationContext cE.1.st h4 = .ok [hdrOfBlock b2] := by
  have h : (match validationContext cE.1.st h4 with
      | .ok c => decide (c = [hdrOfBlock b2])
      | .error _ => false) = true := by decide +kernel
  cases hv : validationContext cE.1.st h4 with
  | error e => rw [hv] at h; cases h
  | ok c =>
    rw [hv] at h
    simp only [decide_eq_true_eq] at h
    rw [h]

theorem prev_h4 : (validationStore cE.1.st [hdrOfBlock b2]).getByHash h4.prev = some (hdrOfBlock b2) := by
  decide +kernel

theorem gen_h4 : ∀ g, (validationStore cE.1.st [hdrOfBlock b2]).getByHeight 0 = some g →
    fromCompact g.bits ≤ maxTarget cE.1.st.network := by
  have e : (validationStore cE.1.st [hdrOfBlock b2]).getByHeight 0 = some (hdrOfBlock gen) := by
    decide +kernel
  have en : cE.1.st.network = .regtest := by decide +kernel
  intro g hg
  rw [e] at hg
  cases hg
  rw [en]
  decide

/-- all hypotheses of `nextTarget_eq_requiredBits_block` hold in a concrete reachable
    configuration; its conclusion there: the ancestor chain of `b2` is `[b2, gen]` and the required
    target is the regtest limit -/
example :
    (∃ l, SelfChain (validationStore cE.1.st [hdrOfBlock b2])
      ((validationStore cE.1.st [hdrOfBlock b2]).initialHash.getD 0) (hdrOfBlock b2) l true) ∧
    SelfChain (validationStore cE.1.st [hdrOfBlock b2])
      ((validationStore cE.1.st [hdrOfBlock b2]).initialHash.getD 0) (hdrOfBlock b2)
      [hdrOfBlock b2, hdrOfBlock gen] true ∧
    nextTarget cE.1.st.network (validationStore cE.1.st [hdrOfBlock b2]) (hdrOfBlock b2)
      (validationStore cE.1.st [hdrOfBlock b2]).height h4.time = some (maxTarget .regtest) := by
  obtain ⟨hr, hp, _⟩ := ex_run.2
  obtain ⟨h1, h2⟩ := nextTarget_eq_requiredBits_block (storeInv_of_reachable hr hp) ctx_h4 prev_h4 gen_h4 h4.time
  refine ⟨h1, ?_, by decide +kernel⟩
  exact .step (by decide +kernel) (p := hdrOfBlock gen) (by decide +kernel) (.stop (by decide +kernel))

/-- the header `h4` is accepted there, and so is its re-encoding with `bits = 0x407fffff` -/
example : validateHeader cE.1.st.network (validationStore cE.1.st [hdrOfBlock b2]) h4 200 = .ok ∧
    validateHeader cE.1.st.network (validationStore cE.1.st [hdrOfBlock b2])
      { h4 with bits := 0x407fffff } 200 = .ok := by
  have h : validateHeader cE.1.st.network (validationStore cE.1.st [hdrOfBlock b2]) h4 200 = .ok := by
    decide +kernel
  exact ⟨h, accept_noncanonical _ _ h4 200 0x407fffff (by decide) h⟩

/-- the target invariant in the final configuration -/
example : ∃ g0 : Block, (cE.2 ++ [cE.1.st.unstable.tree.root.blk]).head? = some g0 ∧
    (∀ b ∈ cE.2, b = g0 ∨ fromCompact b.bits ≤ maxTarget cE.1.st.network) := by
  obtain ⟨g0, h1, h2, _⟩ := reachable_targets_le_max ex_run.2.1
  exact ⟨g0, h1, h2⟩

/-- `validation_states_storeInv` applies to the heartbeat `m3` of the example schedule (which
    processes the response `["B2"], ["H3"]` in the reachable configuration `c2`): the state `s2` in
    which `insert_block` validates `b2` satisfies `StoreInv`, so the coherence theorems apply there -/
example : s2 ∈ blockLoopStates m3.1 s2 ["B2"] ∧ StoreInv s2 [] := by
  have hr : FullReachable c2.1 c2.2 := reachable 2
  have hg : c2.2 = [] := by decide +kernel
  have hi : c2.1.st.ingestStable m3.1.bound 100 = .done c2.1.st false :=
    pastIngestion_iff.mp (by decide +kernel)
  have hresp : c2.1.st.syncing.response = some (.complete ⟨["B2"], ["H3"]⟩) := by decide +kernel
  have hmem : s2 ∈ blockLoopStates m3.1 s2 ["B2"] := by
    have hd : m3.1.dec.block "B2" = some b2 := by decide
    unfold blockLoopStates
    simp [hd]
  obtain ⟨hb, _⟩ := validation_states_storeInv hr m3.1 100 trusted3 hi _ hresp
  have := hb s2 hmem
  rw [hg] at this
  exact ⟨hmem, this⟩

end Example

end Btc.Props.SpecsExtraC11
