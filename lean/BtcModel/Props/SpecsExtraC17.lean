import BtcModel.Lemmas.SpecsExtraC17
import BtcModel.Props.C17

/-!
# C17 — independent characterisations for the watchdog's health decision

Three additions to `Props/C17.lean`, none of which reuses the model's code on the
specification side:

* (a) `IsMedian m l`: the median described purely by counting elements of `l`; the model's
  `Watchdog.median` meets it and it determines the value (`median_eq_some_iff`).
* (b) `Rust.*`: a line-by-line transcription of `watchdog/src/health.rs` with explicit wrapping
  casts (`as i64`, `as u64`, `as usize`), `i64::saturating_add` written with `max`/`min`, and core's
  `List.mergeSort` for `values.sort()`; it is equal to the model on every input in which the
  casts are lossless (`rust_compare_eq_model`).  The decision theorems of `Props/C17.lean` are
  re-proved without `InDomain` (`heightTarget_eq_some_iff`, `decision_eq_some_iff`,
  `decision_total`), covering the underflow region `median < blocks_behind_threshold`.
* (c) the generated configurations satisfy every side condition
  (`generated_side_conditions`), and the decision theorems are specialised to them.
-/
namespace Btc.Props.SpecsExtraC17
open Btc.Watchdog List

/-! ## (a) The median, by counting -/

/-- `a` is the element of (0-based) rank `i` of `l`: it occurs in `l`, at most `i` elements are
    strictly smaller, and more than `i` elements are `≤ a`. No sorting is involved. -/
def IsRank (a i : Nat) (l : List Nat) : Prop :=
  a ∈ l ∧ l.countP (fun x => decide (x < a)) ≤ i ∧ i < l.countP (fun x => decide (x ≤ a))

instance (a i : Nat) (l : List Nat) : Decidable (IsRank a i l) := by unfold IsRank; infer_instance

/-- `m` is the median of `l` in the sense of `health::median`.
    Odd length `n`: `m` occurs in `l` and at most `n / 2` elements are smaller and at most `n / 2`
    are larger.  Even length `n = 2k > 0`: `m = (a + b) / 2` (floor of the mean, as the Rust `u64`
    division) where `a` is the `k`-th and `b` the `(k+1)`-th smallest element. -/
def IsMedian (m : Nat) (l : List Nat) : Prop :=
  (l.length % 2 = 1 ∧ m ∈ l ∧
      l.countP (fun x => decide (x < m)) ≤ l.length / 2 ∧
      l.countP (fun x => decide (x > m)) ≤ l.length / 2) ∨
  (l.length % 2 = 0 ∧ l ≠ [] ∧
      ∃ a b, IsRank a (l.length / 2 - 1) l ∧ IsRank b (l.length / 2) l ∧ m = (a + b) / 2)

/-- The element at index `i` of the model's sorted list has rank `i` in the input. -/
theorem sortAsc_getElem_isRank (l : List Nat) (i : Nat) (h : i < l.length) :
    IsRank ((sortAsc l)[i]'(by rw [sortAsc_length]; exact h)) i l := by
  have hS : i < (sortAsc l).length := by rw [sortAsc_length]; exact h
  refine ⟨(sortAsc_perm l).mem_iff.mp (getElem_mem hS), ?_, ?_⟩
  · rw [← (sortAsc_perm l).countP_eq]
    exact sorted_countP_lt_getElem _ (sortAsc_sorted l) i hS
  · rw [← (sortAsc_perm l).countP_eq]
    exact sorted_countP_le_getElem _ (sortAsc_sorted l) i hS

/-- A rank determines the element. -/
theorem isRank_unique {a a' i : Nat} {l : List Nat} (h : IsRank a i l) (h' : IsRank a' i l) :
    a = a' := by
  obtain ⟨_, h1, h2⟩ := h
  obtain ⟨_, h1', h2'⟩ := h'
  rcases Nat.lt_trichotomy a a' with hlt | heq | hgt
  · have := countP_le_le_countP_lt l hlt; omega
  · exact heq
  · have := countP_le_le_countP_lt l hgt; omega

/-- Ranks are monotone: a smaller rank has a smaller (or equal) element. -/
theorem isRank_mono {a b i j : Nat} {l : List Nat} (ha : IsRank a i l) (hb : IsRank b j l)
    (hij : i ≤ j) : a ≤ b := by
  obtain ⟨_, h1, _⟩ := ha
  obtain ⟨_, _, h2'⟩ := hb
  rcases Nat.lt_or_ge b a with hlt | hge
  · have := countP_le_le_countP_lt l hlt; omega
  · exact hge

/-- For odd length the two-sided counting condition says that `m` has rank `n / 2`. -/
theorem odd_isRank {m : Nat} {l : List Nat} (hodd : l.length % 2 = 1) (hmem : m ∈ l)
    (hlt : l.countP (fun x => decide (x < m)) ≤ l.length / 2)
    (hgt : l.countP (fun x => decide (x > m)) ≤ l.length / 2) : IsRank m (l.length / 2) l := by
  refine ⟨hmem, hlt, ?_⟩
  have := countP_le_add_countP_gt l m
  omega

/-- **The model's median meets the counting characterisation.** -/
theorem median_isMedian {l : List Nat} {m : Nat} (h : median l = some m) : IsMedian m l := by
  unfold median at h
  simp only at h
  by_cases hn : l.length = 0
  · simp [hn] at h
  · rw [if_neg hn] at h
    have hne : l ≠ [] := by intro h0; simp [h0] at hn
    have hmid : l.length / 2 < l.length := by omega
    have hmidS : l.length / 2 < (sortAsc l).length := by rw [sortAsc_length]; exact hmid
    by_cases hpar : l.length % 2 = 0
    · rw [if_pos hpar] at h
      have hm1 : l.length / 2 - 1 < l.length := by omega
      have hm1S : l.length / 2 - 1 < (sortAsc l).length := by rw [sortAsc_length]; exact hm1
      rw [getD_eq_getElem_of_lt _ _ hm1S, getD_eq_getElem_of_lt _ _ hmidS] at h
      injection h with h
      exact Or.inr ⟨hpar, hne, _, _, sortAsc_getElem_isRank l _ hm1,
        sortAsc_getElem_isRank l _ hmid, h.symm⟩
    · rw [if_neg hpar] at h
      rw [getD_eq_getElem_of_lt _ _ hmidS] at h
      injection h with h
      obtain ⟨hmem, hlt, hle⟩ := sortAsc_getElem_isRank l _ hmid
      rw [h] at hmem hlt hle
      refine Or.inl ⟨by omega, hmem, hlt, ?_⟩
      have := countP_le_add_countP_gt l m
      omega

/-- `median` returns `None` exactly on the empty slice. -/
theorem median_eq_none_iff (l : List Nat) : median l = none ↔ l = [] := by
  unfold median
  simp only
  constructor
  · intro h
    by_cases hn : l.length = 0
    · exact List.length_eq_zero_iff.mp hn
    · rw [if_neg hn] at h; split at h <;> simp at h
  · intro h; simp [h]

/-- **The counting characterisation determines the value**: a list has at most one median. -/
theorem isMedian_unique {m m' : Nat} {l : List Nat} (h : IsMedian m l) (h' : IsMedian m' l) :
    m = m' := by
  rcases h with ⟨hodd, hmem, hlt, hgt⟩ | ⟨hev, _, a, b, ha, hb, rfl⟩
  · rcases h' with ⟨_, hmem', hlt', hgt'⟩ | ⟨hev', _⟩
    · exact isRank_unique (odd_isRank hodd hmem hlt hgt) (odd_isRank hodd hmem' hlt' hgt')
    · omega
  · rcases h' with ⟨hodd', _⟩ | ⟨_, _, a', b', ha', hb', rfl⟩
    · omega
    · rw [isRank_unique ha ha', isRank_unique hb hb']

/-- The model's `median` returns `m` exactly when `m` is the median by counting. -/
theorem median_eq_some_iff (l : List Nat) (m : Nat) : median l = some m ↔ IsMedian m l := by
  constructor
  · exact median_isMedian
  · intro h
    cases hm : median l with
    | none =>
      have hnil := (median_eq_none_iff l).mp hm
      rcases h with ⟨hodd, _⟩ | ⟨_, hne, _⟩
      · simp [hnil] at hodd
      · exact absurd hnil hne
    | some m' => rw [isMedian_unique (median_isMedian hm) h]

/-- Every non-empty list has a median (so `IsMedian` is satisfiable whenever it should be). -/
theorem isMedian_exists {l : List Nat} (h : l ≠ []) : ∃ m, IsMedian m l := by
  cases hm : median l with
  | none => exact absurd ((median_eq_none_iff l).mp hm) h
  | some m => exact ⟨m, median_isMedian hm⟩

/-- The median lies between the smallest and the largest element; in particular any strict upper
    bound of the elements bounds the median. -/
theorem isMedian_lt {m B : Nat} {l : List Nat} (h : IsMedian m l) (hB : ∀ x ∈ l, x < B) :
    m < B := by
  rcases h with ⟨_, hmem, _⟩ | ⟨_, _, a, b, ha, hb, rfl⟩
  · exact hB m hmem
  · have := hB a ha.1; have := hB b hb.1; omega

/-- In the even case the two middle elements are ordered and the median lies between them. -/
theorem isMedian_even_between {a b : Nat} {l : List Nat}
    (ha : IsRank a (l.length / 2 - 1) l) (hb : IsRank b (l.length / 2) l) :
    a ≤ (a + b) / 2 ∧ (a + b) / 2 ≤ b := by
  have := isRank_mono ha hb (by omega)
  omega

example : IsMedian 2 [3, 2, 1] := Or.inl (by decide)
example : IsMedian 2 [4, 3, 2, 1] := Or.inr ⟨by decide, by decide, 2, 3, by decide, by decide, by decide⟩
example : IsMedian 15 [20, 20, 10, 10] :=
  Or.inr ⟨by decide, by decide, 10, 20, by decide, by decide, by decide⟩
example : median [20, 20, 10, 10] = some 15 := by decide

/-! ## (b) `health.rs`, line by line, with the machine arithmetic made explicit

All Rust `u64`/`usize` values are `Nat`s, all `i64` values are `Int`s.  Casts and `i64`
operations are written with their release-build semantics (wrap-around; the workspace
`Cargo.toml` does not enable `overflow-checks`, so `+`, `-` and unary `-` wrap in the canister).
`usize` is 32 bits (the canister is a `wasm32` module). -/
namespace Rust

/-- `2^63` -/ def p63 : Int := 9223372036854775808
/-- `2^64` -/ def p64 : Int := 18446744073709551616
/-- `2^64` as a natural number -/ def p64n : Nat := 18446744073709551616
/-- `2^32` -/ def p32 : Nat := 4294967296

example : p63 = 2 ^ 63 ∧ p64 = 2 ^ 64 ∧ p64n = 2 ^ 64 ∧ p32 = 2 ^ 32 := by decide

/-- wrap an integer into the `i64` range (two's complement) -/
def wrapI64 (x : Int) : Int := (x + p63) % p64 - p63
/-- `x as i64` for `x : u64` -/
def u64AsI64 (x : Nat) : Int := wrapI64 x
/-- `x as u64` for `x : i64` -/
def i64AsU64 (x : Int) : Nat := (x % p64).toNat
/-- `x as usize` for `x : u64` on `wasm32` -/
def u64AsUsize (x : Nat) : Nat := x % p32
/-- `i64::saturating_add` -/
def i64SaturatingAdd (a b : Int) : Int := max (-p63) (min (p63 - 1) (a + b))
/-- `a - b` on `i64` (release: wrapping) -/
def i64Sub (a b : Int) : Int := wrapI64 (a - b)
/-- `-a` on `i64` (release: wrapping) -/
def i64Neg (a : Int) : Int := wrapI64 (-a)
/-- `a + b` on `u64` (release: wrapping) -/
def u64Add (a b : Nat) : Nat := (a + b) % p64n

/-- `Config`: the three fields the decision reads (all `u64`). -/
structure Config where
  blocks_behind_threshold : Nat
  blocks_ahead_threshold : Nat
  min_explorers : Nat

/-- `Config::get_blocks_behind_threshold`: `-(self.blocks_behind_threshold as i64)` -/
def Config.getBlocksBehindThreshold (c : Config) : Int := i64Neg (u64AsI64 c.blocks_behind_threshold)
/-- `Config::get_blocks_ahead_threshold`: `self.blocks_ahead_threshold as i64` -/
def Config.getBlocksAheadThreshold (c : Config) : Int := u64AsI64 c.blocks_ahead_threshold

/-- `fn median(values: &[u64]) -> Option<u64>`; `values.sort()` is core's `List.mergeSort`. -/
def median (values : List Nat) : Option Nat :=
  let length := values.length
  if length = 0 then none
  else
    let values := values.mergeSort (fun a b => decide (a ≤ b))
    let midIndex := length / 2
    let medianValue :=
      if length % 2 = 0 then u64Add values[midIndex - 1]! values[midIndex]! / 2
      else values[midIndex]!
    some medianValue

/-- `fn calculate_height_target(heights, min_explorers: usize, blocks_behind_threshold: i64,
    blocks_ahead_threshold: i64) -> Option<u64>` -/
def calculateHeightTarget (heights : List Nat) (minExplorers : Nat)
    (blocksBehindThreshold blocksAheadThreshold : Int) : Option Nat :=
  if heights.length < minExplorers then none
  else
    match median heights with
    | none => none                                      -- the `?`
    | some med =>
      let threshold : Int := u64AsI64 med
      let lo := i64AsU64 (i64SaturatingAdd threshold blocksBehindThreshold)
      let hi := i64AsU64 (i64SaturatingAdd threshold blocksAheadThreshold)
      let validExplorers := heights.countP (fun x => decide (lo ≤ x ∧ x ≤ hi))
      if validExplorers ≥ minExplorers then some (i64AsU64 threshold) else none

/-- `fn compare(canister_height, explorers, config) -> HealthStatus`, returning
    `(height_status, explorer_height, height_diff)`; `explorers` is the list of `block.height`s. -/
def compare (canisterHeight : Option Nat) (explorers : List (Option Nat)) (config : Config) :
    Status × Option Nat × Option Int :=
  let heights := explorers.filterMap id
  let explorerHeight := calculateHeightTarget heights (u64AsUsize config.min_explorers)
    config.getBlocksBehindThreshold config.getBlocksAheadThreshold
  let heightDiff : Option Int :=
    match canisterHeight, explorerHeight with               -- `zip` then `map`
    | some source, some target => some (i64Sub (u64AsI64 source) (u64AsI64 target))
    | _, _ => none
  let heightStatus :=
    match heightDiff with                                    -- `map_or`
    | none => Status.notEnoughData
    | some diff =>
      if diff < config.getBlocksBehindThreshold then Status.behind
      else if diff > config.getBlocksAheadThreshold then Status.ahead
      else Status.ok
  (heightStatus, explorerHeight, heightDiff)

/-- `api_access::calculate_target` -/
def calculateTarget : Status → Option Bool
  | .ok => some true
  | .behind | .ahead => some false
  | .notEnoughData => none

/-- the configuration the model's `Cfg` stands for -/
def ofCfg (cfg : Cfg) : Config := ⟨cfg.behind, cfg.ahead, cfg.minExplorers⟩

/-! ### The casts are the identity in the lossless range -/

theorem u64AsI64_small {x : Nat} (h : x < two63) : u64AsI64 x = x := by
  unfold u64AsI64 wrapI64 p63 p64; unfold two63 at h; omega

theorem i64AsU64_eq_asU64 {x : Int} (h1 : -p63 ≤ x) (h2 : x < p63) : i64AsU64 x = asU64 x := by
  unfold i64AsU64 asU64 two64; unfold p63 at h1 h2; unfold p64
  split <;> omega

theorem i64SaturatingAdd_eq (a b : Int) : i64SaturatingAdd a b = satAddI64 a b := by
  unfold i64SaturatingAdd satAddI64 two63 p63
  simp only
  split
  · omega
  · split <;> omega

theorem i64SaturatingAdd_range (a b : Int) :
    -p63 ≤ i64SaturatingAdd a b ∧ i64SaturatingAdd a b < p63 := by
  unfold i64SaturatingAdd p63; omega

end Rust

/-- Heights below `2^63`: the range in which `as i64` is lossless. -/
def Lossless (hs : List Nat) : Prop := ∀ x ∈ hs, x < two63

instance (hs : List Nat) : Decidable (Lossless hs) := by unfold Lossless; infer_instance

theorem getD_lt_of_forall {s : List Nat} {B : Nat} (h : ∀ x ∈ s, x < B) (hB : 0 < B) (i : Nat) :
    s.getD i 0 < B := by
  rw [getD_eq_getElem?_getD]
  by_cases hi : i < s.length
  · simp only [getElem?_eq_getElem hi, Option.getD_some]; exact h _ (getElem_mem hi)
  · simp only [getElem?_eq_none (Nat.le_of_not_lt hi), Option.getD_none]; exact hB

/-- **Median: Rust = model** whenever the heights are below `2^63` (so the `u64` sum of the two
    middle elements cannot wrap). -/
theorem rust_median_eq_model {l : List Nat} (h : Lossless l) : Rust.median l = median l := by
  unfold Rust.median median
  simp only [← sortAsc_eq_mergeSort, getElem!_eq_getElem?_getD, ← getD_eq_getElem?_getD,
    Nat.default_eq_zero]
  have hs : ∀ x ∈ sortAsc l, x < two63 := fun x hx => h x ((sortAsc_perm l).mem_iff.mp hx)
  have h1 := getD_lt_of_forall hs (by decide) (l.length / 2 - 1)
  have h2 := getD_lt_of_forall hs (by decide) (l.length / 2)
  have hadd : Rust.u64Add ((sortAsc l).getD (l.length / 2 - 1) 0) ((sortAsc l).getD (l.length / 2) 0)
      = (sortAsc l).getD (l.length / 2 - 1) 0 + (sortAsc l).getD (l.length / 2) 0 := by
    unfold Rust.u64Add Rust.p64n
    unfold two63 at h1 h2
    apply Nat.mod_eq_of_lt
    omega
  rw [hadd]
  split
  · rfl
  · split <;> rfl

/-- The band test, in integers: `m - behind ≤ x ≤ m + ahead` (no truncated subtraction). -/
def Band (cfg : Cfg) (m x : Nat) : Prop :=
  (m : Int) - (cfg.behind : Int) ≤ (x : Int) ∧ (x : Int) ≤ (m : Int) + (cfg.ahead : Int)

instance (cfg : Cfg) (m x : Nat) : Decidable (Band cfg m x) := by unfold Band; infer_instance

/-- For `behind ≤ m` the integer band is the band of `Props/C17.lean`. -/
theorem band_iff_inBand {cfg : Cfg} {m : Nat} (hb : cfg.behind ≤ m) (x : Nat) :
    Band cfg m x ↔ C17.InBand cfg m x := by
  unfold Band C17.InBand; omega

/-- The number of explorers the model counts as valid, in closed form: the explorers in the integer
    band when `behind ≤ m`, and **none at all** in the underflow region `m < behind` (where the
    lower bound, a negative `i64` cast to `u64`, is at least `2^63`). -/
theorem valid_count (cfg : Cfg) (hs : List Nat) (m : Nat) (hlt : Lossless hs) (hm : m < two63) :
    (hs.filter (fun x => decide (asU64 (satAddI64 (m : Int) (-(cfg.behind : Int))) ≤ x) &&
        decide (x ≤ asU64 (satAddI64 (m : Int) (cfg.ahead : Int))))).length =
      if cfg.behind ≤ m then hs.countP (fun x => decide (Band cfg m x)) else 0 := by
  rw [hi_closed m cfg.ahead hm]
  split
  · rename_i hb
    rw [lo_regular m cfg.behind hb hm, countP_eq_length_filter]
    congr 1
    apply filter_congr
    intro x hx
    have := hlt x hx
    unfold Band
    rw [← Bool.decide_and]
    apply decide_eq_decide.mpr
    unfold two63 at *
    omega
  · rename_i hb
    have hlo := lo_underflow m cfg.behind (by omega)
    rw [length_eq_zero_iff, filter_eq_nil_iff]
    intro x hx
    have := hlt x hx
    simp only [Bool.and_eq_true, decide_eq_true_eq]
    omega

/-- `calculate_height_target` in closed form, for every median (no `InDomain`). -/
theorem heightTarget_closed (cfg : Cfg) (hs : List Nat) (m : Nat) (hmed : median hs = some m)
    (hlt : Lossless hs) :
    heightTarget hs cfg =
      if hs.length < cfg.minExplorers then none
      else if cfg.minExplorers ≤
          (if cfg.behind ≤ m then hs.countP (fun x => decide (Band cfg m x)) else 0)
        then some m else none := by
  have hm : m < two63 := isMedian_lt (median_isMedian hmed) hlt
  unfold heightTarget
  rw [hmed]
  simp only [valid_count cfg hs m hlt hm, ge_iff_le]

/-- The quorum condition, stated without any model code: `m` is the median by counting, there
    are at least `min_explorers` heights, and — unless `min_explorers = 0` — the median is at least
    `blocks_behind_threshold` and at least `min_explorers` heights lie in the integer band. -/
def QuorumSpec (cfg : Cfg) (hs : List Nat) (m : Nat) : Prop :=
  IsMedian m hs ∧ cfg.minExplorers ≤ hs.length ∧
    (cfg.minExplorers = 0 ∨
      (cfg.behind ≤ m ∧ cfg.minExplorers ≤ hs.countP (fun x => decide (Band cfg m x))))

/-- **`calculate_height_target` = the quorum rule, without `InDomain`.** For heights below `2^63`
    the model returns `some m` exactly when `QuorumSpec` holds.  The clause `behind ≤ m` is part
    of the rule: below it the code finds no valid explorer. -/
theorem heightTarget_eq_some_iff (cfg : Cfg) (hs : List Nat) (m : Nat) (hlt : Lossless hs) :
    heightTarget hs cfg = some m ↔ QuorumSpec cfg hs m := by
  unfold QuorumSpec
  cases hmed : median hs with
  | none =>
    have h1 : heightTarget hs cfg = none := by unfold heightTarget; rw [hmed]; split <;> rfl
    rw [h1]
    constructor
    · intro h; cases h
    · rintro ⟨him, _⟩
      rw [(median_eq_some_iff hs m).mpr him] at hmed; cases hmed
  | some m' =>
    rw [heightTarget_closed cfg hs m' hmed hlt]
    constructor
    · intro h
      by_cases h1 : hs.length < cfg.minExplorers
      · rw [if_pos h1] at h; cases h
      · rw [if_neg h1] at h
        by_cases h2 : cfg.minExplorers ≤
            (if cfg.behind ≤ m' then hs.countP (fun x => decide (Band cfg m' x)) else 0)
        · rw [if_pos h2] at h
          injection h with h; subst h
          refine ⟨median_isMedian hmed, by omega, ?_⟩
          by_cases h0 : cfg.minExplorers = 0
          · exact Or.inl h0
          · right
            by_cases hb : cfg.behind ≤ m'
            · rw [if_pos hb] at h2; exact ⟨hb, h2⟩
            · rw [if_neg hb] at h2; omega
        · rw [if_neg h2] at h; cases h
    · rintro ⟨him, hlen, hq⟩
      have : m' = m := isMedian_unique (median_isMedian hmed) him
      subst this
      rw [if_neg (by omega), if_pos]
      rcases hq with h0 | ⟨hb, hc⟩
      · omega
      · rw [if_pos hb]; exact hc

/-- The status of a known difference, read as the band test on the canister height. -/
theorem apiTarget_statusOf (cfg : Cfg) (c m : Nat) :
    apiTarget (statusOf cfg (some ((c : Int) - (m : Int)))) = some (decide (Band cfg m c)) := by
  simp only [statusOf]
  by_cases h1 : ((c : Int) - (m : Int)) < -(cfg.behind : Int)
  · rw [if_pos h1]; simp only [apiTarget, Option.some.injEq]
    exact (decide_eq_false (by unfold Band; omega)).symm
  · rw [if_neg h1]
    by_cases h2 : ((c : Int) - (m : Int)) > (cfg.ahead : Int)
    · rw [if_pos h2]; simp only [apiTarget, Option.some.injEq]
      exact (decide_eq_false (by unfold Band; omega)).symm
    · rw [if_neg h2]; simp only [apiTarget, Option.some.injEq]
      exact (decide_eq_true (by unfold Band; omega)).symm

/-- **Decision = specification, without `InDomain`.** For explorer heights below `2^63`, the
    watchdog sets the flag to `b` exactly when the canister height `c` is known, the quorum rule
    holds for the median `m`, and `b` says whether `c` lies in the integer band around `m`. -/
theorem decision_eq_some_iff (can : Option Nat) (es : List (Option Nat)) (cfg : Cfg) (b : Bool)
    (hlt : Lossless (es.filterMap id)) :
    decision can es cfg = some b ↔
      ∃ c m, can = some c ∧ QuorumSpec cfg (es.filterMap id) m ∧ b = decide (Band cfg m c) := by
  unfold decision compareHeights
  simp only
  cases ht : heightTarget (es.filterMap id) cfg with
  | none =>
    constructor
    · intro h; cases can <;> simp [heightDiff, statusOf, apiTarget] at h
    · rintro ⟨c, m, _, hq, _⟩
      rw [(heightTarget_eq_some_iff cfg _ m hlt).mpr hq] at ht; cases ht
  | some m =>
    have hq := (heightTarget_eq_some_iff cfg _ m hlt).mp ht
    cases can with
    | none =>
      constructor
      · intro h; simp [heightDiff, statusOf, apiTarget] at h
      · rintro ⟨c, m', h, _⟩; cases h
    | some c =>
      simp only [heightDiff, apiTarget_statusOf]
      constructor
      · intro h; injection h with h; exact ⟨c, m, rfl, hq, h.symm⟩
      · rintro ⟨c', m', hc, hq', hb⟩
        injection hc with hc; subst hc
        have : m' = m := isMedian_unique hq'.1 hq.1
        subst this; rw [hb]

/-- No action exactly when the canister height is unknown or no median satisfies the quorum rule. -/
theorem decision_eq_none_iff (can : Option Nat) (es : List (Option Nat)) (cfg : Cfg)
    (hlt : Lossless (es.filterMap id)) :
    decision can es cfg = none ↔ can = none ∨ ∀ m, ¬ QuorumSpec cfg (es.filterMap id) m := by
  constructor
  · intro h
    cases can with
    | none => exact Or.inl rfl
    | some c =>
      right
      intro m hq
      have := (decision_eq_some_iff (some c) es cfg (decide (Band cfg m c)) hlt).mpr
        ⟨c, m, rfl, hq, rfl⟩
      rw [h] at this; cases this
  · intro h
    cases hd : decision can es cfg with
    | none => rfl
    | some b =>
      obtain ⟨c, m, hc, hq, _⟩ := (decision_eq_some_iff can es cfg b hlt).mp hd
      rcases h with h | h
      · rw [h] at hc; cases hc
      · exact absurd hq (h m)

/-! ### The Rust arithmetic equals the model on the lossless range -/

/-- Side conditions on a configuration under which its casts are lossless: both thresholds fit
    an `i64` and `min_explorers` fits the 32-bit `usize`. -/
def CfgLossless (cfg : Cfg) : Prop :=
  cfg.behind < two63 ∧ cfg.ahead < two63 ∧ cfg.minExplorers < Rust.p32

instance (cfg : Cfg) : Decidable (CfgLossless cfg) := by unfold CfgLossless; infer_instance

theorem rust_behind_eq {cfg : Cfg} (h : CfgLossless cfg) :
    (Rust.ofCfg cfg).getBlocksBehindThreshold = -(cfg.behind : Int) := by
  obtain ⟨h1, _, _⟩ := h
  unfold Rust.Config.getBlocksBehindThreshold Rust.i64Neg Rust.u64AsI64 Rust.wrapI64 Rust.ofCfg
    Rust.p63 Rust.p64
  unfold two63 at h1
  simp only
  omega

theorem rust_ahead_eq {cfg : Cfg} (h : CfgLossless cfg) :
    (Rust.ofCfg cfg).getBlocksAheadThreshold = (cfg.ahead : Int) := by
  obtain ⟨_, h2, _⟩ := h
  exact Rust.u64AsI64_small h2

theorem rust_minExplorers_eq {cfg : Cfg} (h : CfgLossless cfg) :
    Rust.u64AsUsize (Rust.ofCfg cfg).min_explorers = cfg.minExplorers := by
  obtain ⟨_, _, h3⟩ := h
  unfold Rust.u64AsUsize Rust.ofCfg
  exact Nat.mod_eq_of_lt h3

/-- **`calculate_height_target`: Rust = model**, for all heights below `2^63` and every
    configuration (including the underflow region `median < behind` and `min_explorers = 0`). -/
theorem rust_calculateHeightTarget_eq_model (hs : List Nat) (cfg : Cfg) (hlt : Lossless hs) :
    Rust.calculateHeightTarget hs cfg.minExplorers (-(cfg.behind : Int)) (cfg.ahead : Int) =
      heightTarget hs cfg := by
  unfold Rust.calculateHeightTarget heightTarget
  rw [rust_median_eq_model hlt]
  cases hmed : median hs with
  | none => rfl
  | some m =>
    have hm : m < two63 := isMedian_lt (median_isMedian hmed) hlt
    have hthr : Rust.u64AsI64 m = (m : Int) := Rust.u64AsI64_small hm
    have hback : Rust.i64AsU64 (m : Int) = m := by
      unfold Rust.i64AsU64 Rust.p64; unfold two63 at hm; omega
    have hlo := Rust.i64SaturatingAdd_range (m : Int) (-(cfg.behind : Int))
    have hhi := Rust.i64SaturatingAdd_range (m : Int) (cfg.ahead : Int)
    rw [Rust.i64SaturatingAdd_eq] at hlo hhi
    simp only [hthr, hback, Rust.i64AsU64_eq_asU64 hlo.1 hlo.2, Rust.i64AsU64_eq_asU64 hhi.1 hhi.2,
      Rust.i64SaturatingAdd_eq, countP_eq_length_filter, Bool.decide_and]

/-- **`compare`: Rust = model.** If every explorer height and the canister height are below
    `2^63` and the configuration's casts are lossless, the line-by-line Rust transcription (with
    wrapping casts, `saturating_add`, wrapping `i64` subtraction and `mergeSort`) returns exactly
    the model's `(status, explorer height, height difference)`. -/
theorem rust_compare_eq_model (can : Option Nat) (es : List (Option Nat)) (cfg : Cfg)
    (hlt : Lossless (es.filterMap id)) (hcan : ∀ c, can = some c → c < two63)
    (hcfg : CfgLossless cfg) :
    Rust.compare can es (Rust.ofCfg cfg) = compareHeights can es cfg := by
  unfold Rust.compare compareHeights
  simp only [rust_behind_eq hcfg, rust_ahead_eq hcfg, rust_minExplorers_eq hcfg,
    rust_calculateHeightTarget_eq_model _ cfg hlt]
  cases ht : heightTarget (es.filterMap id) cfg with
  | none => cases can <;> rfl
  | some m =>
    cases can with
    | none => rfl
    | some c =>
      have hc : c < two63 := hcan c rfl
      have hm : m < two63 :=
        isMedian_lt ((heightTarget_eq_some_iff cfg _ m hlt).mp ht).1 hlt
      have hsub : Rust.i64Sub (Rust.u64AsI64 c) (Rust.u64AsI64 m) = (c : Int) - (m : Int) := by
        rw [Rust.u64AsI64_small hc, Rust.u64AsI64_small hm]
        unfold Rust.i64Sub Rust.wrapI64 Rust.p63 Rust.p64
        unfold two63 at hc hm
        omega
      simp only [hsub, heightDiff, statusOf]

/-- `calculate_target`: Rust = model (both are the same four-line match). -/
theorem rust_calculateTarget_eq_model (s : Status) : Rust.calculateTarget s = apiTarget s := by
  cases s <;> rfl

/-! ### Outside the lossless range the model and the Rust code differ

The model's docstring assumes heights `< 2^63`; these examples show the assumption is needed. -/

/-- One explorer at height `2^63`, thresholds 0, `min_explorers = 1`: the Rust code wraps the
    median to `i64::MIN`, both bounds wrap back to `2^63`, and it reports the target `2^63`;
    the model saturates `2^63 + 0` to `2^63 - 1` and finds no valid explorer. -/
example :
    Rust.calculateHeightTarget [9223372036854775808] 1 0 0 = some 9223372036854775808 ∧
    heightTarget [9223372036854775808] ⟨0, 0, 1⟩ = none := by
  constructor
  · simp [Rust.calculateHeightTarget, Rust.median, Rust.u64AsI64, Rust.wrapI64, Rust.i64AsU64,
      Rust.i64SaturatingAdd, Rust.p63, Rust.p64]
    omega
  · decide

/-- Two explorers at height `2^63`: the `u64` sum in `median` wraps to 0 in a release build (and
    panics in a debug build), the model's median is `2^63`. -/
example :
    Rust.median [9223372036854775808, 9223372036854775808] = some 0 ∧
    median [9223372036854775808, 9223372036854775808] = some 9223372036854775808 := by
  constructor
  · unfold Rust.median
    rw [← sortAsc_eq_mergeSort]
    decide
  · decide

/-! ### The underflow region `median < blocks_behind_threshold` -/

/-- **Underflow region.** If the median of the explorer heights is below
    `blocks_behind_threshold`, the lower bound `(median as i64 - behind) as u64` is at least `2^63`,
    no explorer is counted as valid, and `calculate_height_target` returns the median only for
    `min_explorers = 0`, otherwise `None`. -/
theorem heightTarget_underflow (cfg : Cfg) (hs : List Nat) (m : Nat) (hmed : median hs = some m)
    (hlt : Lossless hs) (hu : m < cfg.behind) :
    heightTarget hs cfg = if cfg.minExplorers = 0 then some m else none := by
  rw [heightTarget_closed cfg hs m hmed hlt, if_neg (by omega : ¬ cfg.behind ≤ m)]
  by_cases h0 : cfg.minExplorers = 0
  · rw [if_pos h0, if_neg (by omega), if_pos (by omega)]
  · rw [if_neg h0]
    split
    · rfl
    · rw [if_neg (by omega)]

/-- **Underflow region, decision.** With `min_explorers ≥ 1` and a median below
    `blocks_behind_threshold`, the outcome is `NotEnoughData` with no target and no difference, and
    the watchdog takes no action — whatever the explorers and the canister report. -/
theorem decision_underflow (can : Option Nat) (es : List (Option Nat)) (cfg : Cfg) (m : Nat)
    (hmed : median (es.filterMap id) = some m) (hlt : Lossless (es.filterMap id))
    (hu : m < cfg.behind) (hmin : 1 ≤ cfg.minExplorers) :
    compareHeights can es cfg = (Status.notEnoughData, none, none) ∧
      decision can es cfg = none := by
  have ht : heightTarget (es.filterMap id) cfg = none := by
    rw [heightTarget_underflow cfg _ m hmed hlt hu, if_neg (by omega)]
  unfold decision compareHeights
  rw [ht]
  cases can <;> simp [heightDiff, statusOf, apiTarget]

/-- The same region on the Rust side (by `rust_compare_eq_model`): `compare` yields
    `NotEnoughData`. -/
theorem rust_compare_underflow (can : Option Nat) (es : List (Option Nat)) (cfg : Cfg) (m : Nat)
    (hmed : median (es.filterMap id) = some m) (hlt : Lossless (es.filterMap id))
    (hcan : ∀ c, can = some c → c < two63) (hcfg : CfgLossless cfg)
    (hu : m < cfg.behind) (hmin : 1 ≤ cfg.minExplorers) :
    Rust.compare can es (Rust.ofCfg cfg) = (Status.notEnoughData, none, none) := by
  rw [rust_compare_eq_model can es cfg hlt hcan hcfg]
  exact (decision_underflow can es cfg m hmed hlt hu hmin).1

/-! ### `Props/C17.lean` re-proved with a weaker hypothesis, and why `behind ≤ m` cannot go -/

/-- `C17.heightTarget_spec` with `InDomain cfg m` (`behind ≤ m ∧ m + ahead < 2^63`) replaced by
    `behind ≤ m` and "all heights `< 2^63`": the upper half of `InDomain` is not needed. -/
theorem heightTarget_spec_weak (cfg : Cfg) (hs : List Nat) (m : Nat)
    (hmed : median hs = some m) (hlt : Lossless hs) (hb : cfg.behind ≤ m) :
    heightTarget hs cfg = if C17.Quorum cfg hs m then some m else none := by
  have hcnt : (hs.filter (fun x => decide (C17.InBand cfg m x))).length =
      hs.countP (fun x => decide (Band cfg m x)) := by
    rw [countP_eq_length_filter]
    congr 1
    apply filter_congr
    intro x _
    exact decide_eq_decide.mpr (band_iff_inBand hb x).symm
  have hq : C17.Quorum cfg hs m ↔ (cfg.minExplorers ≤ hs.length ∧
      cfg.minExplorers ≤ hs.countP (fun x => decide (Band cfg m x))) := by
    unfold C17.Quorum; rw [hcnt]; simp [hmed]
  rw [heightTarget_closed cfg hs m hmed hlt, if_pos hb]
  by_cases h1 : hs.length < cfg.minExplorers
  · rw [if_pos h1, if_neg]; intro h; have := (hq.mp h).1; omega
  · rw [if_neg h1]
    by_cases h2 : cfg.minExplorers ≤ hs.countP (fun x => decide (Band cfg m x))
    · rw [if_pos h2, if_pos (hq.mpr ⟨by omega, h2⟩)]
    · rw [if_neg h2, if_neg]; intro h; exact h2 (hq.mp h).2

/-- **The decision for every median, region by region** (the total form of `C17.decision_spec`):
    for `behind ≤ m` it is the quorum rule of `Props/C17.lean`; for `m < behind` there is no action
    unless `min_explorers = 0`, in which case only the upper bound is tested. -/
theorem decision_total (can : Option Nat) (es : List (Option Nat)) (cfg : Cfg) (m : Nat)
    (hmed : median (es.filterMap id) = some m) (hlt : Lossless (es.filterMap id)) :
    decision can es cfg =
      match can with
      | none => none
      | some c =>
        if cfg.behind ≤ m then
          (if C17.Quorum cfg (es.filterMap id) m then some (decide (C17.InBand cfg m c)) else none)
        else if cfg.minExplorers = 0 then some (decide (c ≤ m + cfg.ahead)) else none := by
  unfold decision compareHeights
  simp only
  cases can with
  | none => cases heightTarget (es.filterMap id) cfg <;> simp [heightDiff, statusOf, apiTarget]
  | some c =>
    simp only
    by_cases hb : cfg.behind ≤ m
    · rw [if_pos hb, heightTarget_spec_weak cfg _ m hmed hlt hb]
      by_cases hq : C17.Quorum cfg (es.filterMap id) m
      · rw [if_pos hq, if_pos hq]
        simp only [heightDiff, apiTarget_statusOf, Option.some.injEq]
        exact decide_eq_decide.mpr (band_iff_inBand hb c)
      · rw [if_neg hq, if_neg hq]; simp [heightDiff, statusOf, apiTarget]
    · rw [if_neg hb, heightTarget_underflow cfg _ m hmed hlt (by omega)]
      by_cases h0 : cfg.minExplorers = 0
      · rw [if_pos h0, if_pos h0]
        simp only [heightDiff, apiTarget_statusOf, Option.some.injEq]
        apply decide_eq_decide.mpr
        unfold Band; omega
      · rw [if_neg h0, if_neg h0]; simp [heightDiff, statusOf, apiTarget]

/-- **`C17.decision_spec` is false without `behind ≤ m`.** Mainnet thresholds `(2, 2, 3)`, three
    explorers and the canister all at height 1: the quorum of `Props/C17.lean` holds (its band uses
    truncated subtraction, `1 - 2 = 0`) and the canister is in the band, so the right-hand side of
    `decision_spec` is `some true`; but the decision (model and Rust) is `none`. -/
theorem decision_spec_needs_behind_le :
    let cfg : Cfg := ⟨2, 2, 3⟩
    let es := [some 1, some 1, some 1]
    median (es.filterMap id) = some 1 ∧ ¬ C17.InDomain cfg 1 ∧
      C17.Quorum cfg (es.filterMap id) 1 ∧ C17.InBand cfg 1 1 ∧
      decision (some 1) es cfg = none ∧
      (Rust.compare (some 1) es (Rust.ofCfg cfg)).1 = Status.notEnoughData := by
  refine ⟨by decide, by decide, by decide, by decide, by decide, ?_⟩
  rw [rust_compare_eq_model _ _ _ (by decide) (by decide) (by decide)]
  decide

/-- **Some bound on the heights is needed too**: with one explorer at `2^63` (thresholds 0,
    `min_explorers = 1`) `behind ≤ m` and the quorum of `Props/C17.lean` hold, yet the model gives
    no target. (Here the model also differs from the Rust code, see above.) -/
theorem heightTarget_spec_needs_height_bound :
    let cfg : Cfg := ⟨0, 0, 1⟩
    let hs := [9223372036854775808]
    median hs = some 9223372036854775808 ∧ cfg.behind ≤ 9223372036854775808 ∧
      C17.Quorum cfg hs 9223372036854775808 ∧ heightTarget hs cfg = none := by
  decide

/-! ## (c) `min_explorers = 0`, and the generated configurations -/

/-- The empty explorer list never yields a target, for **every** configuration, including
    `min_explorers = 0`: the length test passes (`0 < 0` is false) but `median(&[])?` returns. -/
theorem heightTarget_nil (cfg : Cfg) : heightTarget [] cfg = none := by
  unfold heightTarget; split <;> rfl

/-- The same on the Rust side: `calculate_height_target(&[], ..)` is `None` for all arguments. -/
theorem rust_calculateHeightTarget_nil (minExplorers : Nat) (b a : Int) :
    Rust.calculateHeightTarget [] minExplorers b a = none := by
  unfold Rust.calculateHeightTarget; split <;> rfl

/-- With `min_explorers = 0` and no explorer data, model and Rust agree: `NotEnoughData`, no
    target, no difference, no action. -/
theorem no_data_minExplorers_zero (can : Option Nat) (es : List (Option Nat)) (cfg : Cfg)
    (h : es.filterMap id = []) :
    compareHeights can es cfg = (Status.notEnoughData, none, none) ∧
      Rust.compare can es (Rust.ofCfg cfg) = (Status.notEnoughData, none, none) ∧
      decision can es cfg = none := by
  refine ⟨?_, ?_, C17.no_heights_no_action can es cfg h⟩
  · unfold compareHeights; rw [h, heightTarget_nil]; cases can <;> rfl
  · unfold Rust.compare; simp only [h, rust_calculateHeightTarget_nil]

/-- **`min_explorers = 0` disables the quorum**: for a non-empty list of heights the target is the
    median, however far apart the explorers are (one explorer suffices). The Rust code does the
    same (`rust_calculateHeightTarget_eq_model`). -/
theorem heightTarget_minExplorers_zero (cfg : Cfg) (hs : List Nat) (h0 : cfg.minExplorers = 0)
    (hlt : Lossless hs) : heightTarget hs cfg = median hs := by
  cases hmed : median hs with
  | none => unfold heightTarget; rw [hmed]; split <;> rfl
  | some m =>
    rw [heightTarget_closed cfg hs m hmed hlt, if_neg (by omega), if_pos (by omega)]

example : heightTarget [5, 1000000] ⟨2, 2, 0⟩ = some 500002 := by decide
example : decision (some 500002) [some 5, some 1000000] ⟨2, 2, 0⟩ = some true := by decide

/-- A generated row `(behind, ahead, min_explorers, number of explorers)` as the model's `Cfg`.
    The driver builds its `Cfg` the same way: the harness emits `wd cfg behind ahead min n` and
    `Driver/Main.lean` reads `⟨b, a, m⟩`. -/
def cfgOfRow (r : Nat × Nat × Nat × Nat) : Cfg := ⟨r.1, r.2.1, r.2.2.1⟩

/-- The configurations of `watchdog/src/config.rs`, as the decision theorems see them. -/
def generatedCfgs : List Cfg := Btc.Gen.watchdogConfigs.map cfgOfRow

/-- **Every generated configuration satisfies every side condition**: `min_explorers ≥ 1` (so the
    quorum is real and the `min_explorers = 0` branch never applies), `min_explorers` is at most the
    number of configured explorers (so the quorum is attainable), and all three casts are
    lossless. -/
theorem generated_side_conditions :
    ∀ r ∈ Btc.Gen.watchdogConfigs,
      1 ≤ (cfgOfRow r).minExplorers ∧ (cfgOfRow r).minExplorers ≤ r.2.2.2 ∧
        CfgLossless (cfgOfRow r) := by decide

theorem generatedCfgs_minExplorers_pos : ∀ cfg ∈ generatedCfgs, 1 ≤ cfg.minExplorers := by decide

theorem generatedCfgs_lossless : ∀ cfg ∈ generatedCfgs, CfgLossless cfg := by decide

example : generatedCfgs = [⟨2, 2, 3⟩, ⟨2, 2, 3⟩, ⟨1000, 1000, 1⟩, ⟨4, 4, 2⟩, ⟨4, 4, 2⟩] := by decide

/-- **The decision under every generated configuration**: the flag is set to `b` exactly when the
    canister height `c` is known, the median `m` (by counting) of the explorer heights is at least
    `blocks_behind_threshold`, at least `min_explorers` heights lie in `[m - behind, m + ahead]`,
    and `b` says whether `c` lies in that band. -/
theorem decision_generated (cfg : Cfg) (hcfg : cfg ∈ generatedCfgs) (can : Option Nat)
    (es : List (Option Nat)) (b : Bool) (hlt : Lossless (es.filterMap id)) :
    decision can es cfg = some b ↔
      ∃ c m, can = some c ∧ IsMedian m (es.filterMap id) ∧ cfg.behind ≤ m ∧
        cfg.minExplorers ≤ (es.filterMap id).countP (fun x => decide (Band cfg m x)) ∧
        b = decide (Band cfg m c) := by
  have hpos := generatedCfgs_minExplorers_pos cfg hcfg
  rw [decision_eq_some_iff can es cfg b hlt]
  constructor
  · rintro ⟨c, m, hc, ⟨him, _, hq⟩, hb⟩
    rcases hq with h0 | ⟨h1, h2⟩
    · omega
    · exact ⟨c, m, hc, him, h1, h2, hb⟩
  · rintro ⟨c, m, hc, him, h1, h2, hb⟩
    have : (es.filterMap id).countP (fun x => decide (Band cfg m x)) ≤ (es.filterMap id).length :=
      countP_le_length
    exact ⟨c, m, hc, ⟨him, by omega, Or.inr ⟨h1, h2⟩⟩, hb⟩

/-- Under every generated configuration the Rust transcription and the model agree on all heights
    below `2^63`. -/
theorem rust_compare_eq_model_generated (cfg : Cfg) (hcfg : cfg ∈ generatedCfgs)
    (can : Option Nat) (es : List (Option Nat)) (hlt : Lossless (es.filterMap id))
    (hcan : ∀ c, can = some c → c < two63) :
    Rust.compare can es (Rust.ofCfg cfg) = compareHeights can es cfg :=
  rust_compare_eq_model can es cfg hlt hcan (generatedCfgs_lossless cfg hcfg)

/-- Under every generated configuration, a median below `blocks_behind_threshold` (2, 1000 or 4
    blocks) means no action. -/
theorem decision_underflow_generated (cfg : Cfg) (hcfg : cfg ∈ generatedCfgs) (can : Option Nat)
    (es : List (Option Nat)) (m : Nat) (hmed : median (es.filterMap id) = some m)
    (hlt : Lossless (es.filterMap id)) (hu : m < cfg.behind) : decision can es cfg = none :=
  (decision_underflow can es cfg m hmed hlt hu (generatedCfgs_minExplorers_pos cfg hcfg)).2

/-! ### Non-vacuity -/

example : (⟨2, 2, 3⟩ : Cfg) ∈ generatedCfgs := by decide
example : Lossless ([some 100, some 101, none, some 99, some 100].filterMap id) := by decide
example : CfgLossless ⟨2, 2, 3⟩ := by decide

/-- `QuorumSpec` is satisfiable (both disjuncts). -/
example : QuorumSpec ⟨2, 2, 3⟩ [100, 101, 99, 100] 100 :=
  ⟨Or.inr ⟨by decide, by decide, 100, 100, by decide, by decide, by decide⟩, by decide,
    Or.inr (by decide)⟩
example : QuorumSpec ⟨2, 2, 0⟩ [5] 5 := ⟨Or.inl (by decide), by decide, Or.inl rfl⟩

/-- the underflow hypotheses are satisfiable (testnet thresholds, chain height 500) -/
example : median ([some 500, some 501].filterMap id) = some 500 ∧
    Lossless ([some 500, some 501].filterMap id) ∧ 500 < (⟨1000, 1000, 1⟩ : Cfg).behind ∧
    decision (some 500) [some 500, some 501] ⟨1000, 1000, 1⟩ = none := by decide

example : decision (some 101) [some 100, none, some 101, some 99, some 100] ⟨2, 2, 3⟩ = some true ∧
    Band ⟨2, 2, 3⟩ 100 101 := by decide

end Btc.Props.SpecsExtraC17
