import BtcModel.Lemmas.FeeSpec

/-!
# C15 (specification level) — `get_current_fee_percentiles` as a function of the history

`Spec/FeeSpec.lean` defines the answer from the history alone: the stable chain `G` (ghost) and the
best chain's unstable blocks `best = Spec.bestChain s` (the heaviest root path of the tree, anchor
first).  This file proves that the model (`Model/Fees.lean`, mirroring
`canister/src/api/fee_percentiles.rs`) refines it.

1. per block: what `get_fees_per_byte` uses for a block — the rates cached at insertion time or the
   rates recomputed through the tx-out cache — are the specified rates of the block;
2. the rates fed into `percentiles` are `Spec.recentFeeRates n G best`;
3. headline: the call returns `Spec.feeAnswerSpec n G best cache` (fresh answer / cached answer for
   the same tip / previous answer when there is nothing to report), never traps;
4. the cached answer is the fresh answer of an earlier moment (`CacheIsSpec`, an invariant of the
   transition system extended by fee queries), so every answer has 0 or 101 entries;
5. independence from which blocks still carry insertion-time rates;
6. examples.
-/
namespace Btc.Props.C15Spec
open Btc Btc.Spec Btc.Tree Btc.Lemmas.FeeSpec

/-! ## 0. The best chain -/

/-- the chain the code walks (`unstable_blocks::get_main_chain`, anchor included) is the
    specification's best chain -/
theorem bestChain_eq_mainChain (s : State) : bestChain s = s.unstable.mainChain.map (·.blk) := by
  unfold bestChain Unstable.mainChain
  rw [Btc.Props.C02.mainChain_eq_bestPath]

/-- `main_chain.tip().block_hash()` is the hash of the best chain's last block -/
theorem tipHash_eq_tipOf (s : State) : C15.tipHash s = tipOf (bestChain s) := by
  unfold C15.tipHash tipOf
  rw [bestChain_eq_mainChain, List.getLast?_map]
  cases h : s.unstable.mainChain.getLast? with
  | none =>
    rw [List.getLast?_eq_none_iff] at h
    exact absurd h (Tree.mainChain_ne_nil _ _)
  | some x => rfl

/-- the best chain is a root path of the tree -/
theorem bestChain_isRootPath {s : State} {G : List Block} (hinv : Inv s G) :
    pathBlocks s.unstable.tree (tipOf (bestChain s)) = some (bestChain s) := by
  obtain ⟨tip, sib, hlast, hroot⟩ := C01.mainChain_isRootPath hinv
  have ht : tipOf (bestChain s) = tip.hash := by
    unfold tipOf
    rw [bestChain_eq_mainChain, List.getLast?_map, hlast]
    rfl
  rw [ht, bestChain_eq_mainChain]
  simp [pathBlocks, hroot]

/-! ## 1. Per-block fee rates -/

/-- **Recomputed rates** (`get_tx_fee_per_byte` over a block without cached rates, e.g. after an
    upgrade): for every block of the tree, the rates recomputed through the tx-out cache are the
    specified rates of the block on its own chain `G ++ p` (`p` any root path through the block).
    Needs the invariant only. In particular the recomputation never panics. -/
theorem recomputed_rates_spec {s : State} {G : List Block} (hinv : Inv s G) {tip : Nat}
    {p : List Block} (hp : pathBlocks s.unstable.tree tip = some p) {c : CBlock}
    (hc : c ∈ s.unstable.tree.blocks) (hcp : c.blk ∈ p) :
    C09.fallbackRates s c.blk = some (Spec.blockFeeRates (G ++ p) c.blk) := by
  rw [blockFeeRates_path_eq_tree hinv hp hcp, C09.fallbackRates_spec s _ hinv.caches c hc,
    blockFeeRates_eq_feeRatesSpec _ c.blk (tree_resolved' hinv.caches hc)]

/-- **Cached rates** (computed by `insert_outpoints` at insertion time): under `FeeCacheOk` they
    are the specified rates of the block on the chain `G ++ p`, for any root path `p` through it. -/
theorem cached_rates_spec {s : State} {G : List Block} (hinv : Inv s G) (hf : FeeCacheOk s G)
    {tip : Nat} {p : List Block} (hp : pathBlocks s.unstable.tree tip = some p) {c : CBlock}
    (hc : c ∈ s.unstable.tree.blocks) (hcp : c.blk ∈ p) {r : List Nat} (hr : c.feeRates = some r) :
    r = Spec.blockFeeRates (G ++ p) c.blk := by
  rw [blockFeeRates_path_eq_tree hinv hp hcp]
  exact (feeCacheOk_iff hinv).mp hf c hc r hr

/-- **What `get_fees_per_byte` uses for a block**, cached or recomputed. -/
theorem blockFeeRates_path_spec {s : State} {G : List Block} (hinv : Inv s G) (hf : FeeCacheOk s G)
    {tip : Nat} {p : List Block} (hp : pathBlocks s.unstable.tree tip = some p) {c : CBlock}
    (hc : c ∈ s.unstable.tree.blocks) (hcp : c.blk ∈ p) :
    s.blockFeeRates c = some (Spec.blockFeeRates (G ++ p) c.blk) := by
  cases hfr : c.feeRates with
  | none => rw [C09.blockFeeRates_none s c hfr]; exact recomputed_rates_spec hinv hp hc hcp
  | some r =>
    rw [C15.blockFeeRates_cached s c r hfr, cached_rates_spec hinv hf hp hc hcp hfr]

/-- … for the blocks of the best chain -/
theorem blockFeeRates_spec {s : State} {G : List Block} (hinv : Inv s G) (hf : FeeCacheOk s G)
    {c : CBlock} (hc : c ∈ s.unstable.mainChain) :
    s.blockFeeRates c = some (Spec.blockFeeRates (G ++ bestChain s) c.blk) := by
  apply blockFeeRates_path_spec hinv hf (bestChain_isRootPath hinv)
    (Tree.mainChain_mem_blocks _ _ c hc)
  rw [bestChain_eq_mainChain]
  exact List.mem_map.mpr ⟨c, hc, rfl⟩

/-- The specified rates of a block only depend on the chain up to and including the block:
    "spent outputs are in the stable set or in earlier unstable blocks" (or earlier in the block). -/
theorem blockFeeRates_prefix {s : State} {G : List Block} (hinv : Inv s G) {tip : Nat}
    {q rest : List Block} {B : Block} (hp : pathBlocks s.unstable.tree tip = some (q ++ B :: rest)) :
    Spec.blockFeeRates (G ++ (q ++ B :: rest)) B = Spec.blockFeeRates (G ++ q ++ [B]) B := by
  have hsub : ∀ b ∈ G ++ q ++ [B], b ∈ G ++ (q ++ B :: rest) := by
    intro b hb
    simp only [List.mem_append, List.mem_cons, List.not_mem_nil, or_false] at hb ⊢
    rcases hb with (h | h) | h
    · exact Or.inl h
    · exact Or.inr (Or.inl h)
    · exact Or.inr (Or.inr (Or.inl h))
  have hcons : TxidsConsistent (G ++ (q ++ B :: rest)) :=
    InsertOutpoints.TxidsConsistent.of_subset hinv.txids (path_subset_hist hp)
  have hv : TxValid (G ++ q ++ [B]) := by
    have := hinv.valid tip _ hp
    unfold TxValid at this ⊢
    have e : G ++ (q ++ B :: rest) = (G ++ q ++ [B]) ++ rest := by simp
    rw [e, InsertOutpoints.txValidFrom_append] at this
    exact this.1
  symm
  apply blockFeeRates_mono hcons hsub
  intro tx htx o ho
  obtain ⟨tx', htx', hid⟩ := Btc.TxValid_input_source _ hv B (by simp) tx htx o ho
  obtain ⟨t, ht, _⟩ := path_resolved hinv hp (B := B) (by simp) htx ho
  have hc' : TxidsConsistent (G ++ q ++ [B]) := InsertOutpoints.TxidsConsistent.of_subset hcons hsub
  have htx'' : tx' ∈ txsOf (G ++ (q ++ B :: rest)) := by
    rw [InsertOutpoints.mem_txsOf] at htx' ⊢
    obtain ⟨b, hb, hm⟩ := htx'
    exact ⟨b, hsub b hb, hm⟩
  rw [InsertOutpoints.outAt_of_mem hc' htx' hid, ← InsertOutpoints.outAt_of_mem hcons htx'' hid, ht]
  rfl

/-! ## 2. The fee rates fed into `percentiles` -/

/-- **`get_fees_per_byte` computes `Spec.recentFeeRates`**: never panics, and yields the rates of
    the non-coinbase transactions of the best chain's unstable blocks, newest block first, at most
    `n` of them. -/
theorem currentFees_spec {s : State} {G : List Block} (hinv : Inv s G) (hf : FeeCacheOk s G)
    (n : Nat) : C15.currentFees s n = some (recentFeeRates n G (bestChain s)) := by
  unfold C15.currentFees
  rw [C15.feesPerByte_eq_take s n (fun c => Spec.blockFeeRates (G ++ bestChain s) c.blk) _
    (fun c hc => blockFeeRates_spec hinv hf (List.mem_reverse.mp hc))]
  unfold recentFeeRates
  congr 2
  rw [bestChain_eq_mainChain, ← List.map_reverse, List.flatMap_map]

/-! ## 3. Headline -/

theorem with_feeCache_self (s : State) (c : Option (Nat × List Nat)) (h : s.feeCache = c) :
    { s with feeCache := c } = s := by
  subst h; rfl

/-- **Refinement.** Under the invariant and `FeeCacheOk`, the call never traps, returns
    `Spec.feeAnswerSpec n G best cache` and changes nothing but the cache:
    * no cache, or a cache keyed by another tip while fee rates are available: the fresh answer
      `percentiles (recentFeeRates n G best)`, stored under the current tip;
    * cache keyed by the current tip: the cached answer, untouched;
    * cache keyed by another tip and no fee rate available: the previous answer; the cache stays
      keyed by the *old* tip. -/
theorem feePercentiles_refines {s : State} {G : List Block} (hinv : Inv s G) (hf : FeeCacheOk s G)
    (n : Nat) :
    s.feePercentiles n =
      some ({ s with feeCache := (feeAnswerSpec n G (bestChain s) s.feeCache).2 },
            (feeAnswerSpec n G (bestChain s) s.feeCache).1) := by
  have hfees := currentFees_spec hinv hf n
  have htip := tipHash_eq_tipOf s
  cases hc : s.feeCache with
  | none =>
    rw [C15.feePercentiles_no_cache s n _ hc hfees, htip]
    rfl
  | some v =>
    obtain ⟨h, p⟩ := v
    have hs : { s with feeCache := some (h, p) } = s := with_feeCache_self s _ hc
    by_cases hk : h = tipOf (bestChain s)
    · rw [C15.feePercentiles_cache_hit s n p (by rw [hc, htip, hk])]
      simp only [feeAnswerSpec, hk, if_true]
      rw [← hk, hs]
    · by_cases he : recentFeeRates n G (bestChain s) = []
      · rw [C15.feePercentiles_empty_keeps_cache s n h p hc (by rw [htip]; exact hk)
          (by rw [hfees, he])]
        simp only [feeAnswerSpec, hk, he, if_true, if_false]
        rw [hs]
      · rw [C15.feePercentiles_recompute s n h p _ hc (by rw [htip]; exact hk) hfees he, htip]
        simp only [feeAnswerSpec, hk, he, if_false]
        rfl

/-- never traps -/
theorem feePercentiles_isSome {s : State} {G : List Block} (hinv : Inv s G) (hf : FeeCacheOk s G)
    (n : Nat) : (s.feePercentiles n).isSome := by
  rw [feePercentiles_refines hinv hf n]; rfl

/-- **No cache hit, something to report (or nothing cached at all): the fresh answer.** -/
theorem feePercentiles_fresh {s : State} {G : List Block} (hinv : Inv s G) (hf : FeeCacheOk s G)
    (n : Nat)
    (hmiss : s.feeCache = none ∨
      ∃ h p, s.feeCache = some (h, p) ∧ h ≠ tipOf (bestChain s) ∧
        recentFeeRates n G (bestChain s) ≠ []) :
    (s.feePercentiles n).map (·.2) = some (percentiles (recentFeeRates n G (bestChain s))) ∧
    (s.feePercentiles n).map (·.1.feeCache) =
      some (some (tipOf (bestChain s), percentiles (recentFeeRates n G (bestChain s)))) := by
  rw [feePercentiles_refines hinv hf n]
  rcases hmiss with hc | ⟨h, p, hc, hk, he⟩
  · rw [hc]; exact ⟨rfl, rfl⟩
  · rw [hc]
    simp only [feeAnswerSpec, hk, he, if_false]
    exact ⟨rfl, rfl⟩

/-- **Cache hit: the cached vector, whatever it is.** -/
theorem feePercentiles_hit {s : State} {G : List Block} (hinv : Inv s G) (hf : FeeCacheOk s G)
    (n : Nat) (p : List Nat) (hc : s.feeCache = some (tipOf (bestChain s), p)) :
    s.feePercentiles n = some (s, p) := by
  rw [feePercentiles_refines hinv hf n, hc]
  simp only [feeAnswerSpec, if_true]
  rw [with_feeCache_self s _ hc]

/-- the fresh answer has no entry (no fee rate available) or exactly 101 -/
theorem feePercentilesSpec_length (n : Nat) (G best : List Block) :
    (feePercentilesSpec n G best).length = 0 ∨ (feePercentilesSpec n G best).length = 101 := by
  unfold feePercentilesSpec
  by_cases h : recentFeeRates n G best = []
  · left; rw [h]; rfl
  · right; exact C15.percentiles_length h

/-- at most `n` fee rates enter the percentile computation -/
theorem recentFeeRates_length_le (n : Nat) (G best : List Block) :
    (recentFeeRates n G best).length ≤ n := by
  unfold recentFeeRates
  rw [List.length_take]
  exact Nat.min_le_left _ _

/-! ## 4. The cache holds the fresh answer of an earlier moment -/

theorem new_feeCache {thr : Nat} {net : Tree.Net} {genesis : Block} {s0 : State}
    (h : State.new thr net genesis = some s0) : s0.feeCache = none := by
  unfold State.new at h
  cases hu : Unstable.new ({} : UtxoSet) thr genesis net with
  | none => simp [hu] at h
  | some u =>
    simp only [hu, Option.some.injEq] at h
    subst h; rfl

/-- the three behaviours of a call, as a case distinction on `feeAnswerSpec` -/
theorem feeAnswerSpec_cases (n : Nat) (G best : List Block) (cache : Option (Nat × List Nat)) :
    feeAnswerSpec n G best cache =
        (feePercentilesSpec n G best, some (tipOf best, feePercentilesSpec n G best)) ∨
    ∃ h p, cache = some (h, p) ∧ (h = tipOf best ∨ recentFeeRates n G best = []) ∧
      feeAnswerSpec n G best cache = (p, cache) := by
  cases cache with
  | none => left; rfl
  | some v =>
    obtain ⟨h, p⟩ := v
    by_cases hk : h = tipOf best
    · right; exact ⟨h, p, rfl, Or.inl hk, by simp [feeAnswerSpec, hk]⟩
    · by_cases he : recentFeeRates n G best = []
      · right; exact ⟨h, p, rfl, Or.inr he, by simp [feeAnswerSpec, hk, he]⟩
      · left; simp [feeAnswerSpec, hk, he]

/-- **Invariants of the transition system with fee queries**: the extended invariant,
    `FeeCacheOk`, and `CacheIsSpec` — the cached answer, if any, is the fresh answer
    `percentiles (recentFeeRates n G₀ best₀)` of an earlier call, made when the stable chain was
    `G₀` and the best chain `best₀`, whose tip is the cache key. -/
theorem feeReachable_inv {bound : Unstable.BoundFn} {n : Nat} {s : State} {G : List Block}
    {past : List Snapshot} (h : FeeReachable bound n s G past) :
    InvU s G ∧ FeeCacheOk s G ∧ CacheIsSpec n s past := by
  induction h with
  | init thr net genesis s0 hv hn =>
    refine ⟨Btc.Lemmas.Reach.init_establishes_invU thr net genesis s0 hv hn,
      feeCacheOk_new hv hn, ?_⟩
    intro h p hc
    rw [new_feeCache hn] at hc
    cases hc
  | step s G past op s' G' _ hd hs ih =>
    obtain ⟨i1, i2, i3⟩ := ih
    obtain ⟨j1, j2, j3⟩ := step_preserves bound s G op s' G' i1 i2 hd hs
    exact ⟨j1, j2, fun h p hc => i3 h p (by rw [← j3]; exact hc)⟩
  | feeQuery s G past s' r _ hq ih =>
    obtain ⟨i1, i2, i3⟩ := ih
    rw [feePercentiles_refines i1.inv i2 n] at hq
    simp only [Option.some.injEq, Prod.mk.injEq] at hq
    obtain ⟨rfl, -⟩ := hq
    refine ⟨?_, feeCacheOk_congr rfl i2, ?_⟩
    · exact Btc.Lemmas.Reach.invU_transfer (s := s) rfl rfl rfl rfl i1.inv.caches.tipDepths rfl
        (fun _ => rfl) i1.inv.linked rfl i1
    · intro h p hc
      simp only at hc
      rcases feeAnswerSpec_cases n G (bestChain s) s.feeCache with e | ⟨h0, p0, hc0, _, e⟩
      · rw [e] at hc
        simp only [Option.some.injEq, Prod.mk.injEq] at hc
        exact ⟨(G, bestChain s), List.mem_cons_self, hc.1, hc.2.symm⟩
      · rw [e] at hc
        obtain ⟨sn, hsn, h1, h2⟩ := i3 h p hc
        exact ⟨sn, List.mem_cons_of_mem _ hsn, h1, h2⟩

/-- **Every answer in a reachable state is a specified answer**: the call never traps; it returns
    the fresh answer for the current history, or the fresh answer of an earlier call — made at a
    moment when the best chain ended in the same block (cache hit), or arbitrary if there is no
    fee rate to report now (fallback). In all cases the vector has 0 or 101 entries. -/
theorem feePercentiles_feeReachable {bound : Unstable.BoundFn} {n : Nat} {s : State}
    {G : List Block} {past : List Snapshot} (h : FeeReachable bound n s G past) :
    ∃ s' r, s.feePercentiles n = some (s', r) ∧
      FeeReachable bound n s' G ((G, bestChain s) :: past) ∧
      (r = feePercentilesSpec n G (bestChain s) ∨
        ∃ sn ∈ past, r = feePercentilesSpec n sn.1 sn.2 ∧
          (tipOf sn.2 = tipOf (bestChain s) ∨ recentFeeRates n G (bestChain s) = [])) ∧
      (r.length = 0 ∨ r.length = 101) := by
  obtain ⟨i1, i2, i3⟩ := feeReachable_inv h
  have hq := feePercentiles_refines i1.inv i2 n
  refine ⟨_, _, hq, FeeReachable.feeQuery s G past _ _ h hq, ?_⟩
  rcases feeAnswerSpec_cases n G (bestChain s) s.feeCache with e | ⟨h0, p0, hc0, hk, e⟩
  · rw [e]
    exact ⟨Or.inl rfl, feePercentilesSpec_length n G _⟩
  · rw [e]
    obtain ⟨sn, hsn, h1, h2⟩ := i3 h0 p0 hc0
    refine ⟨Or.inr ⟨sn, hsn, h2, ?_⟩, by rw [h2]; exact feePercentilesSpec_length n _ _⟩
    rcases hk with hk | hk
    · exact Or.inl (h1.trans hk)
    · exact Or.inr hk

/-- the system of `Spec/Reach.lean` is the system with fee queries in which none is made -/
theorem reachable_feeReachable {bound : Unstable.BoundFn} (n : Nat) {s : State} {G : List Block}
    (h : Reachable bound s G) : FeeReachable bound n s G [] := by
  induction h with
  | init thr net genesis s0 hv hn => exact FeeReachable.init thr net genesis s0 hv hn
  | step s G op s' G' _ hd hs ih => exact FeeReachable.step s G [] op s' G' ih hd hs

/-- **`FeeCacheOk` holds in every reachable state** (of either system). -/
theorem reachable_feeCacheOk {bound : Unstable.BoundFn} {s : State} {G : List Block}
    (h : Reachable bound s G) : FeeCacheOk s G :=
  (feeReachable_inv (reachable_feeReachable 0 h)).2.1

/-- **Reachable states of `Spec/Reach.lean`** (no fee query made so far, hence no cache): the call
    returns exactly the fresh answer and stores it under the current tip. -/
theorem feePercentiles_reachable {bound : Unstable.BoundFn} {s : State} {G : List Block}
    (h : Reachable bound s G) (n : Nat) :
    s.feePercentiles n =
      some ({ s with feeCache := some (tipOf (bestChain s), feePercentilesSpec n G (bestChain s)) },
            feePercentilesSpec n G (bestChain s)) := by
  obtain ⟨i1, i2, i3⟩ := feeReachable_inv (reachable_feeReachable n h)
  have hc : s.feeCache = none := by
    cases hc : s.feeCache with
    | none => rfl
    | some v =>
      obtain ⟨sn, hsn, _⟩ := i3 v.1 v.2 hc
      cases hsn
  rw [feePercentiles_refines i1.inv i2 n, hc]
  rfl

/-! ## 5. Independence from "cached at insertion" versus "recomputed" -/

/-- the answer and the new cache only depend on the history and the old cache -/
theorem feePercentiles_indep {s s' : State} {G : List Block} (hinv : Inv s G) (hf : FeeCacheOk s G)
    (hinv' : Inv s' G) (hf' : FeeCacheOk s' G) (hb : bestChain s' = bestChain s)
    (hc : s'.feeCache = s.feeCache) (n : Nat) :
    (s'.feePercentiles n).map C09.feeView = (s.feePercentiles n).map C09.feeView := by
  rw [feePercentiles_refines hinv hf n, feePercentiles_refines hinv' hf' n, hb, hc]
  rfl

/-- `s'` is `s` with the cached metrics of some blocks forgotten (`fee_rates = None`): same ledger
    data, caches, header store and fee cache; the tree has the same shape and the same blocks, and
    every block keeps its cached rates or loses them.  Nothing is said about the fetch state, the
    announced headers and the configuration. -/
structure ForgetsRates (s s' : State) : Prop where
  utxos : s'.utxos = s.utxos
  headers : s'.headers = s.headers
  cache : s'.unstable.cache = s.unstable.cache
  blockCache : s'.unstable.blockCache = s.unstable.blockCache
  tipDepths : s'.unstable.tipDepthsCache = s.unstable.tree.tipDepths
  feeCache : s'.feeCache = s.feeCache
  tree : ∃ f : CBlock → CBlock,
    (∀ c, (f c).blk = c.blk ∧ ((f c).feeRates = c.feeRates ∨ (f c).feeRates = none)) ∧
    s'.unstable.tree = Tree.mapT f s.unstable.tree

theorem forgetsRates_inv {s s' : State} {G : List Block} (hinv : Inv s G) (hf : FeeCacheOk s G)
    (h : ForgetsRates s s') : Inv s' G ∧ FeeCacheOk s' G ∧ bestChain s' = bestChain s := by
  obtain ⟨f, hfp, ht⟩ := h.tree
  have hblk : ∀ c, (f c).blk = c.blk := fun c => (hfp c).1
  refine ⟨?_, ?_, ?_⟩
  · apply Btc.Lemmas.Reach.inv_transfer h.utxos h.headers h.cache h.blockCache ?_ ?_ ?_ ?_ ?_ hinv
    · rw [h.tipDepths, ht, Btc.Lemmas.Reach.tipDepths_mapT]
    · rw [ht, Btc.Lemmas.Reach.blocks_mapT, List.map_map]
      apply List.map_congr_left
      intro c _; exact hblk c
    · intro tip; rw [ht]; exact Btc.Lemmas.Reach.pathBlocks_mapT f hblk _ tip
    · rw [ht]; exact Btc.Lemmas.Reach.linked_mapT f hblk _ hinv.linked
    · rw [ht, Btc.Lemmas.Reach.root_mapT]; exact hblk _
  · intro tip p hp c' hc' htip r hr
    rw [ht, Btc.Lemmas.Reach.pathBlocks_mapT f hblk] at hp
    rw [ht, Btc.Lemmas.Reach.blocks_mapT] at hc'
    obtain ⟨c, hc, rfl⟩ := List.mem_map.mp hc'
    have hr' : c.feeRates = some r := by
      rcases (hfp c).2 with e | e
      · rw [← e]; exact hr
      · rw [e] at hr; cases hr
    rw [hblk c]
    exact hf tip p hp c hc (by rw [← htip]; simp [CBlock.hash, hblk]) r hr'
  · rw [bestChain_eq_mainChain, bestChain_eq_mainChain]
    unfold Unstable.mainChain
    rw [ht, Tree.mainChain_mapT f CBlock.diff CBlock.diff (fun a => by simp [CBlock.diff, hblk]),
      List.map_map]
    apply List.map_congr_left
    intro c _; exact hblk c

/-- **Independence**: two states that differ only in which blocks still carry their insertion-time
    fee rates give the same answer and leave the same cache. -/
theorem feePercentiles_forgetsRates {s s' : State} {G : List Block} (hinv : Inv s G)
    (hf : FeeCacheOk s G) (h : ForgetsRates s s') (n : Nat) :
    (s'.feePercentiles n).map C09.feeView = (s.feePercentiles n).map C09.feeView := by
  obtain ⟨i1, i2, i3⟩ := forgetsRates_inv hinv hf h
  exact feePercentiles_indep hinv hf i1 i2 i3 h.feeCache n

/-- an upgrade (with or without a new configuration) forgets all cached rates and nothing else
    that matters -/
theorem forgetsRates_upgrade (s : State) (c : Option State.SetConfig) :
    ForgetsRates s (s.upgrade c) := by
  have hbase : ForgetsRates s (Btc.Lemmas.Reach.upgraded s) :=
    ⟨rfl, rfl, rfl, rfl, rfl, rfl, Btc.Lemmas.Reach.clearF, fun _ => ⟨rfl, Or.inr rfl⟩, rfl⟩
  rw [Btc.Lemmas.Reach.upgrade_eq]
  cases c with
  | none => exact hbase
  | some c =>
    obtain ⟨h1, h2, h3, h4, h5, h6, _, _⟩ :=
      Btc.Lemmas.Reach.setConfig_frame (Btc.Lemmas.Reach.upgraded s) c
    simp only
    exact ⟨h1.trans hbase.utxos, h2.trans hbase.headers, h4.trans hbase.cache,
      h5.trans hbase.blockCache, h6.trans hbase.tipDepths,
      (setConfig_feeCache _ c).trans hbase.feeCache,
      Btc.Lemmas.Reach.clearF, fun _ => ⟨rfl, Or.inr rfl⟩, h3⟩

/-- **`get_current_fee_percentiles` before and after an upgrade**: same answer, same new cache —
    although before the upgrade the rates come from the per-block caches and afterwards every one
    of them is recomputed through the tx-out cache. -/
theorem feePercentiles_upgrade {s : State} {G : List Block} (hinv : Inv s G) (hf : FeeCacheOk s G)
    (c : Option State.SetConfig) (n : Nat) :
    ((s.upgrade c).feePercentiles n).map C09.feeView = (s.feePercentiles n).map C09.feeView :=
  feePercentiles_forgetsRates hinv hf (forgetsRates_upgrade s c) n

/-! ## 6. Examples / non-vacuity -/

/-! ### The definitions on hand-made transactions -/

private def o50 : TxOut := ⟨50, some [1], false⟩
private def hist0 : List Block :=
  [{ hash := 1, prev := 0, diff := 1, time := 0, bits := 0, header := "",
     txs := [{ txid := 7, coinbase := true, vsize := 100, ins := [], outs := [o50, o50] }] }]
private def mkTx (coinbase : Bool) (vsize : Nat) (ins : List OutPoint) (out : Nat) : Tx :=
  { txid := 8, coinbase := coinbase, vsize := vsize, ins := ins, outs := [⟨out, none, false⟩] }

-- fee = 50 + 50 - 90 = 10 satoshi, 1000 * 10 / 300 = 33 msat/vbyte (integer division)
example : txFee hist0 (mkTx false 300 [⟨7, 0⟩, ⟨7, 1⟩] 90) = some 10 := by decide
example : feeRate hist0 (mkTx false 300 [⟨7, 0⟩, ⟨7, 1⟩] 90) = some 33 := by decide
-- a coinbase has no fee rate
example : feeRate hist0 (mkTx true 300 [] 50) = none := by decide
-- outputs above inputs (`checked_sub` fails): no fee rate
example : feeRate hist0 (mkTx false 300 [⟨7, 0⟩] 51) = none := by decide
-- `vsize = 0`: no fee rate
example : feeRate hist0 (mkTx false 0 [⟨7, 0⟩] 40) = none := by decide
-- an input that designates nothing: no fee rate in the specification (the code would panic; under
-- the invariant this does not occur for blocks of the tree: `path_resolved`)
example : feeRate hist0 (mkTx false 100 [⟨9, 0⟩] 40) = none := by decide

/-! ### A run of the system: genesis, three more blocks

`exG0 ← exB1 ← exB2 ← exB3`, stability threshold 2, mainnet rule.
* `exB1`: transaction 102 spends the genesis coinbase output (fee 5, 200 vbytes: 25 msat/vb);
* `exB2`: transaction 104 spends output 0 of 102 (fee 10, 100 vbytes: 100 msat/vb); transaction 105
  spends output 1 of 102 and the coinbase of `exB1` (fee 5, 250 vbytes: 20 msat/vb);
* `exB3`: transaction 107 spends the output of 104 (fee 7, 140 vbytes: 50 msat/vb). -/

def exG0 : Block :=
  { hash := 1, prev := 0, diff := 1, time := 0, bits := 0, header := "g0",
    txs := [{ txid := 100, coinbase := true, vsize := 100, ins := [], outs := [⟨50, some [1], false⟩] }] }

def exB1 : Block :=
  { hash := 2, prev := 1, diff := 1, time := 1, bits := 0, header := "b1",
    txs := [{ txid := 101, coinbase := true, vsize := 100, ins := [], outs := [⟨50, some [2], false⟩] },
            { txid := 102, coinbase := false, vsize := 200, ins := [⟨100, 0⟩],
              outs := [⟨30, some [2], false⟩, ⟨15, some [1], false⟩] }] }

def exB2 : Block :=
  { hash := 3, prev := 2, diff := 1, time := 2, bits := 0, header := "b2",
    txs := [{ txid := 103, coinbase := true, vsize := 100, ins := [], outs := [⟨50, some [3], false⟩] },
            { txid := 104, coinbase := false, vsize := 100, ins := [⟨102, 0⟩],
              outs := [⟨20, some [3], false⟩] },
            { txid := 105, coinbase := false, vsize := 250, ins := [⟨102, 1⟩, ⟨101, 0⟩],
              outs := [⟨60, some [1], false⟩] }] }

def exB3 : Block :=
  { hash := 4, prev := 3, diff := 1, time := 3, bits := 0, header := "b3",
    txs := [{ txid := 106, coinbase := true, vsize := 100, ins := [], outs := [⟨50, some [4], false⟩] },
            { txid := 107, coinbase := false, vsize := 140, ins := [⟨104, 0⟩],
              outs := [⟨13, some [4], false⟩] }] }

def exBound : Unstable.BoundFn := fun _ _ => 0

private def exDummy : State :=
  { utxos := {}, unstable := { thr := 0, tree := Tree.leaf ⟨exG0, none, 0⟩, net := .mainnet } }

/-- `State::new` on `exG0` -/
def exS0 : State := (State.new 2 .mainnet exG0).getD exDummy
/-- … `exB1` pushed -/
def exSG1 : State × List Block := (step exBound (exS0, []) (.push exB1)).getD (exS0, [])
/-- … `exB2` pushed -/
def exSG2 : State × List Block := (step exBound exSG1 (.push exB2)).getD exSG1
/-- … stable blocks ingested: `exG0` becomes stable, `exB1` is the anchor -/
def exSG3 : State × List Block := (step exBound exSG2 (.ingest 1000)).getD exSG2

theorem step_some_of_isSome {bound : Unstable.BoundFn} {sg : State × List Block} {op : Op}
    (h : (step bound sg op).isSome = true) :
    step bound sg op = some ((step bound sg op).getD sg) := by
  cases hs : step bound sg op with
  | none => rw [hs] at h; cases h
  | some v => rfl

theorem reach_step {bound : Unstable.BoundFn} (sg sg' : State × List Block) (op : Op)
    (h : Reachable bound sg.1 sg.2) (hd : Domain sg op) (hs : step bound sg op = some sg') :
    Reachable bound sg'.1 sg'.2 :=
  Reachable.step sg.1 sg.2 op sg'.1 sg'.2 h hd hs

theorem pushDomain_of {s : State} {G : List Block} {b : Block} (p : List Block)
    (hfresh : b.hash ∉ (G ++ s.unstable.tree.blocks.map (·.blk)).map (·.hash))
    (hparent : Tree.contains CBlock.hash b.prev s.unstable.tree = true)
    (hpath : pathBlocks s.unstable.tree b.prev = some p)
    (hvalid : TxValid (G ++ p ++ [b])) (hunique : TxidsUnique (G ++ p ++ [b]))
    (hcons : TxidsConsistent (G ++ s.unstable.tree.blocks.map (·.blk) ++ [b])) :
    PushDomain s G b :=
  { fresh := hfresh
    parent := hparent
    valid := by intro q hq; rw [hpath] at hq; cases hq; exact hvalid
    unique := by intro q hq; rw [hpath] at hq; cases hq; exact hunique
    consistent := hcons }

theorem exNew : State.new 2 .mainnet exG0 = some exS0 := by
  have h : (State.new 2 .mainnet exG0).isSome = true := by decide +kernel
  unfold exS0
  cases hs : State.new 2 .mainnet exG0 with
  | none => rw [hs] at h; cases h
  | some v => rfl

theorem exStep1 : step exBound (exS0, []) (.push exB1) = some exSG1 := by
  unfold exSG1; exact step_some_of_isSome (by decide +kernel)
theorem exStep2 : step exBound exSG1 (.push exB2) = some exSG2 := by
  unfold exSG2; exact step_some_of_isSome (by decide +kernel)
theorem exStep3 : step exBound exSG2 (.ingest 1000) = some exSG3 := by
  unfold exSG3; exact step_some_of_isSome (by decide +kernel)

theorem exDom1 : PushDomain exS0 [] exB1 :=
  pushDomain_of [exG0] (by decide +kernel) (by decide +kernel) (by decide +kernel)
    (by decide +kernel) (by decide +kernel) (by decide +kernel)
theorem exDom2 : PushDomain exSG1.1 exSG1.2 exB2 :=
  pushDomain_of [exG0, exB1] (by decide +kernel) (by decide +kernel) (by decide +kernel)
    (by decide +kernel) (by decide +kernel) (by decide +kernel)

theorem exReach0 : Reachable exBound exS0 [] :=
  Reachable.init 2 .mainnet exG0 exS0 (by decide) exNew

theorem exReach1 : Reachable exBound exSG1.1 exSG1.2 :=
  reach_step (exS0, []) exSG1 (.push exB1) exReach0 exDom1 exStep1

theorem exReach2 : Reachable exBound exSG2.1 exSG2.2 :=
  reach_step exSG1 exSG2 (.push exB2) exReach1 exDom2 exStep2

/-- **the example state is reachable**, so `Inv`, `FeeCacheOk` (hypotheses of all theorems above)
    hold in it -/
theorem exReach3 : Reachable exBound exSG3.1 exSG3.2 :=
  reach_step exSG2 exSG3 (.ingest 1000) exReach2 trivial exStep3

/-- the hypotheses of the theorems of sections 1–3 and 5 hold in the example state -/
theorem exHyps : Inv exSG3.1 exSG3.2 ∧ FeeCacheOk exSG3.1 exSG3.2 :=
  ⟨(Btc.Lemmas.Reach.reachable_inv exReach3).inv, reachable_feeCacheOk exReach3⟩

/-- `exG0` is stable; the best chain's unstable blocks are `exB1` (anchor), `exB2`; both carry the
    fee rates computed when they were inserted -/
theorem exShape : exSG3.2 = [exG0] ∧ bestChain exSG3.1 = [exB1, exB2] ∧
    exSG3.1.utxos.nextHeight = 1 ∧
    exSG3.1.unstable.tree.blocks.map (·.feeRates) = [some [25], some [100, 20]] := by
  decide +kernel

/-- (i) transaction 102 of the unstable block `exB1` spends an output of the **stable** set:
    outpoint `(100, 0)` is in the UTXO set and in no unstable block; fee 5, rate 25 -/
example : (exSG3.1.utxos.getUtxo ⟨100, 0⟩).map (·.1.value) = some 50 ∧
    outAt [exB1, exB2] ⟨100, 0⟩ = none ∧
    (exB1.txs.map (txFee (exSG3.2 ++ bestChain exSG3.1))) = [none, some 5] ∧
    (exB1.txs.map (feeRate (exSG3.2 ++ bestChain exSG3.1))) = [none, some 25] := by
  decide +kernel

/-- (ii) transaction 104 of `exB2` spends an output of the **earlier unstable block** `exB1`
    (outpoint `(102, 0)`, not in the stable UTXO set); 105 spends two such outputs -/
example : exSG3.1.utxos.getUtxo ⟨102, 0⟩ = none ∧
    (outAt [exB1] ⟨102, 0⟩).map (·.value) = some 30 ∧
    (exB2.txs.map (txFee (exSG3.2 ++ bestChain exSG3.1))) = [none, some 10, some 5] ∧
    (exB2.txs.map (feeRate (exSG3.2 ++ bestChain exSG3.1))) = [none, some 100, some 20] := by
  decide +kernel

/-- newest block first, block order inside a block, cut after `n` -/
example : recentFeeRates 10000 [exG0] [exB1, exB2] = [100, 20, 25] ∧
    recentFeeRates 2 [exG0] [exB1, exB2] = [100, 20] ∧
    recentFeeRates 1 [exG0] [exB1, exB2] = [100] := by decide

/-- the headline theorem applied to the example state … -/
theorem exAnswer : (exSG3.1.feePercentiles 10000).map (·.2) = some (percentiles [100, 20, 25]) := by
  rw [feePercentiles_reachable exReach3 10000, exShape.1, exShape.2.1]
  rfl

/-- … agrees with running the model -/
example : (exSG3.1.feePercentiles 10000).map (·.2) = some (percentiles [100, 20, 25]) := by
  decide +kernel

example : percentiles [100, 20, 25] =
    List.replicate 34 20 ++ List.replicate 33 25 ++ List.replicate 34 100 := by decide

/-- after an upgrade no block carries cached rates, every rate is recomputed through the tx-out
    cache, and the answer is the same: by the theorem … -/
example : (exSG3.1.upgrade none).unstable.tree.blocks.map (·.feeRates) = [none, none] ∧
    ((exSG3.1.upgrade none).feePercentiles 10000).map (·.2) = some (percentiles [100, 20, 25]) := by
  refine ⟨by decide +kernel, ?_⟩
  have hI := (Btc.Lemmas.Reach.reachable_inv exReach3).inv
  have h := congrArg (Option.map (·.2))
    (feePercentiles_upgrade hI (reachable_feeCacheOk exReach3) none 10000)
  simp only [Option.map_map] at h
  exact h.trans exAnswer

/-- … and by running the model -/
example : ((exSG3.1.upgrade none).feePercentiles 10000).map (·.2) =
    some (percentiles [100, 20, 25]) := by decide +kernel

/-! ### A cached answer that differs from the fresh one

The same run, but `exB3` is pushed as well, then the fee percentiles are computed (as the heartbeat
does right after inserting blocks: `maybe_process_response(); maybe_compute_fee_percentiles()`), and
only then the stable blocks are ingested (next heartbeat): `exG0` and `exB1` leave the tree, the tip
is still `exB3`.  The next call is a cache hit and returns the percentiles over
`exB3, exB2, exB1` although `exB1` is no longer unstable; a fresh computation would see
`exB3, exB2` only.  `CacheIsSpec` describes exactly this: the cached answer is the fresh answer of
the snapshot `([], [exG0, exB1, exB2, exB3])`. -/

def exSG3' : State × List Block := (step exBound exSG2 (.push exB3)).getD exSG2
/-- the state after `get_current_fee_percentiles` in `exSG3'` -/
def exS4' : State := ((exSG3'.1.feePercentiles 10000).getD (exSG3'.1, [])).1
def exSG5' : State × List Block :=
  (step exBound (exS4', exSG3'.2) (.ingest 1000)).getD (exS4', exSG3'.2)

theorem exStep3' : step exBound exSG2 (.push exB3) = some exSG3' := by
  unfold exSG3'; exact step_some_of_isSome (by decide +kernel)
theorem exStep5' : step exBound (exS4', exSG3'.2) (.ingest 1000) = some exSG5' := by
  unfold exSG5'; exact step_some_of_isSome (by decide +kernel)
theorem exDom3' : PushDomain exSG2.1 exSG2.2 exB3 :=
  pushDomain_of [exG0, exB1, exB2] (by decide +kernel) (by decide +kernel) (by decide +kernel)
    (by decide +kernel) (by decide +kernel) (by decide +kernel)

theorem exQuery' : exSG3'.1.feePercentiles 10000 =
    some (exS4', ((exSG3'.1.feePercentiles 10000).getD (exSG3'.1, [])).2) := by
  have h : (exSG3'.1.feePercentiles 10000).isSome = true :=
    feePercentiles_isSome
      (Btc.Lemmas.Reach.reachable_inv (reach_step exSG2 exSG3' (.push exB3) exReach2 exDom3' exStep3')).inv
      (reachable_feeCacheOk (reach_step exSG2 exSG3' (.push exB3) exReach2 exDom3' exStep3')) 10000
  unfold exS4'
  cases hs : exSG3'.1.feePercentiles 10000 with
  | none => rw [hs] at h; cases h
  | some v => rfl

theorem feeReach_step {bound : Unstable.BoundFn} {n : Nat} {s : State} {G : List Block}
    {past : List Snapshot} (sg' : State × List Block) (op : Op)
    (h : FeeReachable bound n s G past) (hd : Domain (s, G) op)
    (hs : step bound (s, G) op = some sg') : FeeReachable bound n sg'.1 sg'.2 past :=
  FeeReachable.step s G past op sg'.1 sg'.2 h hd hs

/-- the final state is reachable in the system with fee queries; one snapshot was taken -/
theorem exFeeReach : FeeReachable exBound 10000 exSG5'.1 exSG5'.2
    [(exSG3'.2, bestChain exSG3'.1)] :=
  feeReach_step exSG5' (.ingest 1000)
    (FeeReachable.feeQuery _ _ _ _ _
      (reachable_feeReachable 10000
        (reach_step exSG2 exSG3' (.push exB3) exReach2 exDom3' exStep3')) exQuery')
    trivial exStep5'

theorem exShape' : exSG3'.2 = [] ∧ bestChain exSG3'.1 = [exG0, exB1, exB2, exB3] ∧
    exSG5'.2 = [exG0, exB1] ∧ bestChain exSG5'.1 = [exB2, exB3] ∧
    (exSG5'.1.feeCache.map (·.1)) = some 4 ∧ tipOf (bestChain exSG5'.1) = 4 := by
  decide +kernel

/-- cache hit: the answer is the fresh answer of the snapshot, not of the current history -/
example : (exSG5'.1.feePercentiles 10000).map (·.2) =
      some (feePercentilesSpec 10000 [] [exG0, exB1, exB2, exB3]) ∧
    recentFeeRates 10000 [] [exG0, exB1, exB2, exB3] = [50, 100, 20, 25] ∧
    recentFeeRates 10000 [exG0, exB1] [exB2, exB3] = [50, 100, 20] ∧
    (feePercentilesSpec 10000 [] [exG0, exB1, exB2, exB3])[50]? = some 25 ∧
    (feePercentilesSpec 10000 [exG0, exB1] [exB2, exB3])[50]? = some 50 := by
  decide +kernel

/-- `feePercentiles_feeReachable` on this state: the second alternative holds (cache hit with the
    snapshot taken before the ingestion) -/
example : ∃ s' r, exSG5'.1.feePercentiles 10000 = some (s', r) ∧
    (r = feePercentilesSpec 10000 exSG5'.2 (bestChain exSG5'.1) ∨
      ∃ sn ∈ [(exSG3'.2, bestChain exSG3'.1)], r = feePercentilesSpec 10000 sn.1 sn.2 ∧
        (tipOf sn.2 = tipOf (bestChain exSG5'.1) ∨
          recentFeeRates 10000 exSG5'.2 (bestChain exSG5'.1) = [])) ∧
    (r.length = 0 ∨ r.length = 101) := by
  obtain ⟨s', r, h1, _, h3, h4⟩ := feePercentiles_feeReachable exFeeReach
  exact ⟨s', r, h1, h3, h4⟩

end Btc.Props.C15Spec
