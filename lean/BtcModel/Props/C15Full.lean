import BtcModel.Lemmas.Lift1315
import BtcModel.Model.BlockCodec

/-!
# C15 for the REAL message-level system: the gaps of the audit closed

`Props/C15Spec.lean` proves `CacheIsSpec` for the direct-feed system extended by fee queries
(`Spec.FeeReachable`), and the audit noted that *no theorem pins the snapshot to the current
history* ("a never-caching implementation satisfies the headline disjunction").  This file

* **B1** lifts `CacheIsSpec` to the message-level system (`FeeReachableM`: `FullReachable` with the
  ghost list of the fee computations made so far — endpoint calls and eager heartbeats —, paused
  configurations included) and concludes `callFeePercentiles_answer`;
* **B2** pins the snapshot: `snapshot_is_current_chain`, `cached_answer_in_current_history`;
* **B3** eager / lazy heartbeats: `eager_heartbeat_cache`, `lazy_heartbeat_cache`;
* **B4** states the undeclared null-prevout assumption: `NoNullPrevoutInNonCoinbase`.
-/
namespace Btc.Props.C15Full
open Btc Btc.State Btc.Spec Btc.Spec.Full Btc.Lemmas.Reach Btc.Lemmas.Reach2 Btc.Lemmas.Fetch
open Btc.Lemmas.FullSys Btc.Lemmas.FullLive Btc.Lemmas.FullCor Btc.Lemmas.Lift1315 Btc.Props

/-! ## B1. The ghost list of fee computations along a message run -/

/-- a fee computation of the past: the number `n` of transactions asked for, the stable chain `G`
    and the best chain's unstable blocks `best` at that moment -/
structure Snap where
  n : Nat
  G : List Block
  best : List Block

/-- the fresh answer at a snapshot -/
def Snap.answer (sn : Snap) : List Nat := feePercentilesSpec sn.n sn.G sn.best

/-- the snapshot a message records: an answered `get_current_fee_percentiles` call, or a
    heartbeat that runs to its end (`maybe_compute_fee_percentiles`) unless
    `lazily_evaluate_fee_percentiles` is set.  Nothing else computes fee percentiles. -/
def feeSnap (env : Env) (c : Cfg) : Msg → Option Snap
  | .call (.feePercentiles r) =>
    match callFeePercentiles env c.1.st r with
    | .answered _ _ _ => some ⟨env.numTransactions, c.2, bestChain c.1.st⟩
    | .trap _ => none
  | .heartbeat b =>
    match heartbeatStart env c.1.st b with
    | .processed s' => if s'.lazyFees then none else some ⟨env.numTransactions, c.2, bestChain s'⟩
    | _ => none
  | _ => none

/-- the snapshots recorded along a schedule, the most recent first -/
def snapsM (c : Cfg) : List (Env × Msg) → List Snap
  | [] => []
  | (env, m) :: rest => snapsM (stepMsg env c m) rest ++ (feeSnap env c m).toList

/-- **`CacheIsSpec` for the message-level system**: the cached answer, if any, is the fresh answer
    at a recorded snapshot whose best chain ends in the block the cache is keyed by -/
def CacheIsSpecM (s : State) (past : List Snap) : Prop :=
  ∀ h p, s.feeCache = some (h, p) → ∃ sn ∈ past, tipOf sn.best = h ∧ p = sn.answer

/-- what is recorded about a snapshot once and for all: its served chain `G ++ best` is
    hash-linked, has pairwise distinct hashes, begins with the block `first`, and `best` is not
    empty -/
structure SnapOk (first : Option Block) (sn : Snap) : Prop where
  linked : Btc.LinkedChain (sn.G ++ sn.best)
  nodup : ((sn.G ++ sn.best).map (·.hash)).Nodup
  nonempty : sn.best ≠ []
  head : (sn.G ++ sn.best).head? = first

/-- **The message-level system with its ghost list of fee computations**: `FullReachable` with the
    snapshots recorded so far (most recent first). -/
inductive FeeReachableM : Fetch.Sys → List Block → List Snap → Prop where
  | init (thr : Nat) (net : Tree.Net) (genesis : Block) (s0 : State) :
      TxValid [genesis] → State.new thr net genesis = some s0 →
      FeeReachableM { st := s0, pending := none } [] []
  | step (sys : Fetch.Sys) (G : List Block) (past : List Snap) (env : Env) (m : Msg) :
      FeeReachableM sys G past → Trusted env (sys, G) m →
      FeeReachableM (stepMsg env (sys, G) m).1 (stepMsg env (sys, G) m).2
        ((feeSnap env (sys, G) m).toList ++ past)

variable {sys : Fetch.Sys} {G : List Block} {past : List Snap}

theorem FeeReachableM.full (h : FeeReachableM sys G past) : FullReachable sys G := by
  induction h with
  | init thr net genesis s0 hv hn => exact FullReachable.init thr net genesis s0 hv hn
  | step sys G past env m _ ht ih => exact FullReachable.step sys G env m ih ht

/-- every reachable configuration is reachable with some list of snapshots -/
theorem fullReachable_feeReachableM (h : FullReachable sys G) : ∃ past, FeeReachableM sys G past := by
  induction h with
  | init thr net genesis s0 hv hn => exact ⟨[], FeeReachableM.init thr net genesis s0 hv hn⟩
  | step sys G env m _ ht ih =>
    obtain ⟨past, hp⟩ := ih
    exact ⟨_, FeeReachableM.step sys G past env m hp ht⟩

/-- schedules -/
theorem run_feeReachableM : ∀ (msgs : List (Env × Msg)) (c : Cfg) (past : List Snap),
    FeeReachableM c.1 c.2 past → TrustedRun c msgs →
    FeeReachableM (run c msgs).1 (run c msgs).2 (snapsM c msgs ++ past)
  | [], _, _, h, _ => h
  | (env, m) :: rest, c, past, h, ht => by
    have := run_feeReachableM rest (stepMsg env c m) _ (FeeReachableM.step c.1 c.2 past env m h ht.1) ht.2
    simpa [snapsM, run, List.append_assoc] using this

/-! ### What the messages do to the fee cache -/

theorem ingestStable_feeCache (bound : Unstable.BoundFn) (s : State) (b : Nat) :
    match s.ingestStable bound b with
    | .paused s' => s'.feeCache = s.feeCache
    | .done s' _ => s'.feeCache = s.feeCache
    | .trap _ => True := by
  have h := ingestStable_reframe bound s s b
  rw [reframe_eq (Frame.refl s)] at h
  cases hr : s.ingestStable bound b with
  | trap m => trivial
  | paused s' =>
    rw [hr] at h
    simp only [mapRes, IngestResult.paused.injEq] at h
    show s'.feeCache = s.feeCache
    rw [h]; rfl
  | done s' w =>
    rw [hr] at h
    simp only [mapRes, IngestResult.done.injEq] at h
    show s'.feeCache = s.feeCache
    rw [h.1]; rfl

theorem reply_feeCache (env : Env) (sys : Fetch.Sys) (r : Reply) :
    (Fetch.step env sys (.reply r)).st.feeCache = sys.st.feeCache := by
  unfold Fetch.step
  cases hp : sys.pending with
  | none => rfl
  | some req =>
    simp only
    cases hr : heartbeatReply sys.st r with
    | none => rfl
    | some s' =>
      obtain ⟨⟨sy, rfl⟩, _⟩ := C13.heartbeatReply_spec hr
      rfl

/-- an endpoint call other than `get_current_fee_percentiles` leaves the fee cache alone -/
theorem callState_feeCache (env : Env) (s : State) (c : Call) (hc : ∀ r, c ≠ .feePercentiles r) :
    (callState env s c).feeCache = s.feeCache := by
  cases c with
  | getUtxos r =>
    simp only [callState]; unfold callGetUtxos
    try dsimp only
    (repeat' split) <;> rfl
  | getUtxosQuery r =>
    simp only [callState]; unfold callGetUtxosQuery
    try dsimp only
    (repeat' split) <;> rfl
  | getBalance r =>
    simp only [callState]; unfold callGetBalance
    try dsimp only
    (repeat' split) <;> rfl
  | getBalanceQuery r =>
    simp only [callState]; unfold callGetBalanceQuery
    try dsimp only
    (repeat' split) <;> rfl
  | getBlockHeaders r =>
    simp only [callState]; unfold callGetBlockHeaders
    try dsimp only
    (repeat' split) <;> rfl
  | feePercentiles r => exact absurd rfl (hc r)
  | sendTransaction n a l w =>
    simp only [callState]; unfold callSendTransaction
    split
    · rfl
    · split
      · rfl
      · cases w <;> rfl

/-- **The call, spelled out** in a configuration satisfying the invariant: it is refused by a
    guard, or traps for lack of cycles, or answers `Spec.feeAnswerSpec` for the current history
    and leaves its second component in the cache. -/
theorem callFeePercentiles_cases {s : State} {G : List Block} (h2 : Inv2 s G) (hf : FeeCacheOk s G)
    (env : Env) (r : DataReq) :
    (∃ t, callFeePercentiles env s r = .trap t ∧ ((∃ g, t = .refused g) ∨ t = .cycles)) ∨
    ∃ acc, callFeePercentiles env s r =
      .answered (feeAnswerSpec env.numTransactions G (bestChain s) s.feeCache).1 acc
        { s with feeCache := (feeAnswerSpec env.numTransactions G (bestChain s) s.feeCache).2 } := by
  unfold callFeePercentiles
  split
  · exact Or.inl ⟨_, rfl, Or.inl ⟨_, rfl⟩⟩
  · split
    · exact Or.inl ⟨_, rfl, Or.inr rfl⟩
    · rename_i acc _
      rw [feePercentiles_refines2 h2 hf env.numTransactions]
      exact Or.inr ⟨acc, rfl⟩


/-! ### The invariant -/

/-- a recorded snapshot is the history of the configuration the message leaves -/
theorem feeSnap_eq {env : Env} {c : Cfg} {m : Msg} {sn : Snap} (h : feeSnap env c m = some sn) :
    sn = ⟨env.numTransactions, (stepMsg env c m).2, bestChain (stepMsg env c m).1.st⟩ := by
  cases m with
  | heartbeat b =>
    simp only [feeSnap] at h
    simp only [stepMsg, stepSys, stepGhost, Fetch.step]
    cases hh : heartbeatStart env c.1.st b with
    | processed s' =>
      rw [hh] at h
      simp only at h
      split at h
      · cases h
      · cases h; rfl
    | trap => rw [hh] at h; cases h
    | ingested s' p => rw [hh] at h; cases h
    | awaiting s' r => rw [hh] at h; cases h
  | call cl =>
    cases cl with
    | feePercentiles r =>
      simp only [feeSnap] at h
      simp only [stepMsg, stepSys, stepGhost, callState]
      cases hc : callFeePercentiles env c.1.st r with
      | trap t => rw [hc] at h; cases h
      | answered p acc s' =>
        rw [hc] at h
        simp only [Option.some.injEq] at h
        subst h
        simp only [stateAfter]
        have hfr : Frame c.1.st s' := by
          have := callState_frame env c.1.st (.feePercentiles r)
          simp only [callState, hc, stateAfter] at this
          exact this
        unfold bestChain
        rw [hfr.unstable]
    | getUtxos r => cases h
    | getUtxosQuery r => cases h
    | getBalance r => cases h
    | getBalanceQuery r => cases h
    | getBlockHeaders r => cases h
    | sendTransaction n a l w => cases h
  | reply r => cases h
  | upgrade cfg => cases h
  | setConfig cfg => cases h

/-- the served chain of a configuration satisfying the invariant, as a snapshot -/
theorem snapOk_current {s : State} {G : List Block} (h2 : Inv2 s G) (n : Nat) :
    SnapOk (firstBlock s G) ⟨n, G, bestChain s⟩ := by
  obtain ⟨h1, h3, h4, _⟩ := inv2_chain h2
  exact ⟨h1, h3, h4, (firstBlock_eq_head s G).symm⟩

/-- one message and the fee cache: it is untouched, or it is the cache `Spec.feeAnswerSpec`
    leaves for the history of the new configuration — and then the message records a snapshot -/
theorem stepMsg_feeCache (hr : FullReachable sys G) (env : Env) (m : Msg)
    (ht : Trusted env (sys, G) m) :
    (stepMsg env (sys, G) m).1.st.feeCache = sys.st.feeCache ∨
    ((stepMsg env (sys, G) m).1.st.feeCache =
        (feeAnswerSpec env.numTransactions (stepMsg env (sys, G) m).2
          (bestChain (stepMsg env (sys, G) m).1.st) sys.st.feeCache).2 ∧
      (feeSnap env (sys, G) m).isSome = true) := by
  obtain ⟨h2, hf⟩ := fullReachable_fee hr
  cases m with
  | reply r => exact Or.inl (reply_feeCache env sys r)
  | upgrade cfg => exact Or.inl (Lemmas.FeeSpec.upgrade_feeCache sys.st cfg)
  | setConfig cfg => exact Or.inl (Lemmas.FeeSpec.setConfig_feeCache sys.st cfg)
  | heartbeat b =>
    simp only [stepMsg, stepSys, stepGhost, Fetch.step, feeSnap]
    cases hh : heartbeatStart env sys.st b with
    | trap => exact Or.inl rfl
    | awaiting s' req =>
      obtain ⟨hfr, _, _⟩ := FullSys.heartbeat_requests env sys G b s' req hh
      left
      rcases heartbeatStart_cases env sys.st b with h' | ⟨_, _, h', _⟩ | ⟨_, _, _, _, h'⟩ |
          ⟨_, _, _, _, _, h'⟩
      · rw [h'] at hh; cases hh
      · rw [h'] at hh; cases hh
      · rw [h'] at hh; cases hh; rfl
      · rw [h'] at hh; cases hh
    | ingested s' p =>
      left
      have hc := ingestStable_feeCache env.bound sys.st b
      rcases heartbeatStart_cases env sys.st b with h' | ⟨s2, p2, h', hi⟩ | ⟨_, _, _, _, h'⟩ |
          ⟨_, _, _, _, _, h'⟩
      · rw [h'] at hh; cases hh
      · rw [h'] at hh
        cases hh
        rcases hi with ⟨_, hi⟩ | ⟨_, hi⟩ <;> rw [hi] at hc <;> exact hc
      · rw [h'] at hh; cases hh
      · rw [h'] at hh; cases hh
    | processed s' =>
      obtain ⟨_, _, s2, _, hA2, kf, hc1, _, hcase⟩ := processed_anatomy hr env b ht s' hh
      rcases hcase with ⟨_, rfl⟩ | ⟨hl, p, hfp⟩
      · exact Or.inl hc1
      · right
        rw [feePercentiles_refines2 (Or.inl hA2) kf env.numTransactions] at hfp
        simp only [Option.some.injEq, Prod.mk.injEq] at hfp
        obtain ⟨rfl, _⟩ := hfp
        refine ⟨?_, ?_⟩
        · show (feeAnswerSpec _ G (bestChain s2) s2.feeCache).2 = _
          rw [hc1]; rfl
        · show (if s2.lazyFees = true then none else some _ : Option Snap).isSome = true
          rw [hl]; rfl
  | call cl =>
    by_cases hcl : ∀ r, cl ≠ .feePercentiles r
    · exact Or.inl (callState_feeCache env sys.st cl hcl)
    · have : ∃ r, cl = .feePercentiles r := by
        cases cl with
        | feePercentiles r => exact ⟨r, rfl⟩
        | getUtxos r => exact absurd (fun r h => by cases h) hcl
        | getUtxosQuery r => exact absurd (fun r h => by cases h) hcl
        | getBalance r => exact absurd (fun r h => by cases h) hcl
        | getBalanceQuery r => exact absurd (fun r h => by cases h) hcl
        | getBlockHeaders r => exact absurd (fun r h => by cases h) hcl
        | sendTransaction n a l w => exact absurd (fun r h => by cases h) hcl
      obtain ⟨r, rfl⟩ := this
      simp only [stepMsg, stepSys, stepGhost, callState, feeSnap]
      rcases callFeePercentiles_cases h2 hf env r with ⟨t, hc, _⟩ | ⟨acc, hc⟩
      · rw [hc]; exact Or.inl rfl
      · rw [hc]; exact Or.inr ⟨rfl, rfl⟩

/-- **The invariant of the message-level system with fee computations**: `CacheIsSpecM` — the
    cached answer is the fresh answer at a recorded snapshot whose best chain ends in the block the
    cache is keyed by — and every recorded snapshot is a served chain of the past: hash-linked,
    with distinct hashes, beginning with the same first block as the current served chain, its
    stable part a prefix of the current stable chain.  Configurations with a partially ingested
    block and heartbeats (eager fee computation) included. -/
theorem feeReachableM_inv (h : FeeReachableM sys G past) :
    CacheIsSpecM sys.st past ∧
    ∀ sn ∈ past, SnapOk (firstBlock sys.st G) sn ∧ sn.G <+: G := by
  induction h with
  | init thr net genesis s0 hv hn =>
    refine ⟨fun h p hc => ?_, fun sn hsn => by cases hsn⟩
    have : s0.feeCache = none := C15Spec.new_feeCache hn
    rw [this] at hc
    cases hc
  | step sys G past env m hfr ht ih =>
    obtain ⟨i1, i2⟩ := ih
    have hr := hfr.full
    have hr' := FullReachable.step sys G env m hr ht
    have h2' := fullReachable_inv2 hr'
    have hfirst := stepMsg_first env (sys, G) m ht (fullReachable_inv2 hr)
    have hpre : G <+: (stepMsg env (sys, G) m).2 := FullSys.ghost_grows env (sys, G) m ht
    constructor
    · -- the cache
      intro h p hc
      rcases stepMsg_feeCache hr env m ht with e | ⟨e, hsome⟩
      · rw [e] at hc
        obtain ⟨sn, hsn, h1, h2⟩ := i1 h p hc
        exact ⟨sn, List.mem_append_right _ hsn, h1, h2⟩
      · cases hs : feeSnap env (sys, G) m with
        | none => rw [hs] at hsome; cases hsome
        | some sn0 =>
          have hsn0 := feeSnap_eq hs
          rw [e] at hc
          rcases C15Spec.feeAnswerSpec_cases env.numTransactions (stepMsg env (sys, G) m).2
              (bestChain (stepMsg env (sys, G) m).1.st) sys.st.feeCache with e2 | ⟨h0, p0, hc0, _, e2⟩
          · rw [e2] at hc
            simp only [Option.some.injEq, Prod.mk.injEq] at hc
            refine ⟨sn0, List.mem_append_left _ (by simp), ?_, ?_⟩
            · rw [hsn0]; exact hc.1
            · rw [hsn0]; exact hc.2.symm
          · rw [e2] at hc
            obtain ⟨sn, hsn, h1, h2⟩ := i1 h p hc
            exact ⟨sn, List.mem_append_right _ hsn, h1, h2⟩
    · -- the snapshots
      intro sn hsn
      rw [List.mem_append] at hsn
      rcases hsn with hsn | hsn
      · cases hs : feeSnap env (sys, G) m with
        | none => rw [hs] at hsn; cases hsn
        | some sn0 =>
          rw [hs] at hsn
          simp only [Option.toList_some, List.mem_singleton] at hsn
          subst hsn
          rw [feeSnap_eq hs]
          exact ⟨snapOk_current h2' _, List.prefix_refl _⟩
      · obtain ⟨j1, j2⟩ := i2 sn hsn
        refine ⟨⟨j1.linked, j1.nodup, j1.nonempty, ?_⟩, j2.trans hpre⟩
        rw [j1.head]; exact hfirst.symm

/-! ### B1, conclusion: every answer of `get_current_fee_percentiles` -/

/-- there is no fee rate to report: no transaction is asked for, or no block of the best chain
    contains a transaction with a fee rate (only coinbases, or the tree is just the anchor
    without fee-paying transactions) -/
theorem recentFeeRates_eq_nil_iff (n : Nat) (G best : List Block) :
    recentFeeRates n G best = [] ↔ n = 0 ∨ ∀ b ∈ best, Spec.blockFeeRates (G ++ best) b = [] := by
  unfold recentFeeRates
  rw [List.take_eq_nil_iff]
  apply or_congr Iff.rfl
  rw [List.flatMap_eq_nil_iff]
  constructor
  · intro h b hb; exact h b (List.mem_reverse.mpr hb)
  · intro h b hb; exact h b (List.mem_reverse.mp hb)

/-- the fresh answer is non-decreasing and has 0 or 101 entries -/
theorem Snap.answer_shape (sn : Snap) :
    (sn.answer.length = 0 ∨ sn.answer.length = 101) ∧ sn.answer.Pairwise (· ≤ ·) :=
  ⟨C15Spec.feePercentilesSpec_length sn.n sn.G sn.best, C15.percentiles_sorted _⟩

/-- **Every answer of `get_current_fee_percentiles` in a reachable configuration** (a block
    partially ingested or not): the vector has 0 or 101 entries, is non-decreasing, and is the
    fresh answer `feePercentilesSpec n G' best'` at a snapshot `(n, G', best')` — the current
    history, or a recorded fee computation of the past — whose tip hash is the current tip hash,
    or else (fallback) there is no fee rate to report now.  The cache afterwards is keyed by the
    tip of that snapshot and holds that answer, and `CacheIsSpecM` holds again with the snapshot
    recorded. -/
theorem callFeePercentiles_answer (h : FeeReachableM sys G past) (env : Env) (r : DataReq)
    (p : List Nat) (acc : Nat) (s' : State)
    (hc : callFeePercentiles env sys.st r = .answered p acc s') :
    (p.length = 0 ∨ p.length = 101) ∧ p.Pairwise (· ≤ ·) ∧
    (∃ sn ∈ (⟨env.numTransactions, G, bestChain sys.st⟩ : Snap) :: past, p = sn.answer ∧
      s'.feeCache = some (tipOf sn.best, p) ∧
      (tipOf sn.best = tipOf (bestChain sys.st) ∨
        recentFeeRates env.numTransactions G (bestChain sys.st) = [])) ∧
    s' = { sys.st with feeCache := s'.feeCache } ∧
    FeeReachableM { sys with st := s' } G (⟨env.numTransactions, G, bestChain sys.st⟩ :: past) := by
  obtain ⟨i1, _⟩ := feeReachableM_inv h
  obtain ⟨h2, hf⟩ := fullReachable_fee h.full
  have hstep := FeeReachableM.step sys G past env (.call (.feePercentiles r)) h trivial
  rcases callFeePercentiles_cases h2 hf env r with ⟨t, hc', _⟩ | ⟨acc', hc'⟩
  · rw [hc'] at hc; cases hc
  · have hstep' : FeeReachableM { sys with st := s' } G
        (⟨env.numTransactions, G, bestChain sys.st⟩ :: past) := by
      simpa [stepMsg, stepSys, stepGhost, callState, feeSnap, hc, stateAfter] using hstep
    rw [hc'] at hc
    simp only [CallResult.answered.injEq] at hc
    obtain ⟨rfl, _, rfl⟩ := hc
    have key : ∃ sn ∈ (⟨env.numTransactions, G, bestChain sys.st⟩ : Snap) :: past,
        (feeAnswerSpec env.numTransactions G (bestChain sys.st) sys.st.feeCache).1 = sn.answer ∧
        (feeAnswerSpec env.numTransactions G (bestChain sys.st) sys.st.feeCache).2 =
          some (tipOf sn.best, sn.answer) ∧
        (tipOf sn.best = tipOf (bestChain sys.st) ∨
          recentFeeRates env.numTransactions G (bestChain sys.st) = []) := by
      rcases C15Spec.feeAnswerSpec_cases env.numTransactions G (bestChain sys.st) sys.st.feeCache with
        e | ⟨h0, p0, hc0, hk, e⟩
      · exact ⟨_, List.mem_cons_self, by rw [e]; rfl, by rw [e]; rfl, Or.inl rfl⟩
      · obtain ⟨sn, hsn, j1, j2⟩ := i1 h0 p0 hc0
        refine ⟨sn, List.mem_cons_of_mem _ hsn, by rw [e]; exact j2, by rw [e, hc0, j1, j2], ?_⟩
        rcases hk with hk | hk
        · exact Or.inl (j1.trans hk)
        · exact Or.inr hk
    obtain ⟨sn, hsn, k1, k2, k3⟩ := key
    refine ⟨?_, ?_, ⟨sn, hsn, k1, ?_, k3⟩, rfl, hstep'⟩
    · rw [k1]; exact sn.answer_shape.1
    · rw [k1]; exact sn.answer_shape.2
    · show (feeAnswerSpec _ _ _ _).2 = _
      rw [k2, k1]

/-- the call traps only in its guards and its cycles check -/
theorem callFeePercentiles_never_panics (h : FullReachable sys G) (env : Env) (r : DataReq) :
    (∃ t, callFeePercentiles env sys.st r = .trap t ∧ ((∃ g, t = .refused g) ∨ t = .cycles)) ∨
    ∃ p acc s', callFeePercentiles env sys.st r = .answered p acc s' := by
  obtain ⟨h2, hf⟩ := fullReachable_fee h
  rcases callFeePercentiles_cases h2 hf env r with h1 | ⟨acc, h1⟩
  · exact Or.inl h1
  · exact Or.inr ⟨_, _, _, h1⟩

/-! ## B2. The snapshot is pinned to the current history -/

theorem getLast?_append_ne {α : Type} (l1 : List α) {l2 : List α} (h : l2 ≠ []) :
    (l1 ++ l2).getLast? = l2.getLast? := by
  rw [List.getLast?_append]
  cases hl : l2.getLast? with
  | none => exact absurd (List.getLast?_eq_none_iff.mp hl) h
  | some a => rfl

theorem tipOf_eq_of_getLast {l : List Block} {a : Block} (h : l.getLast? = some a) :
    tipOf l = a.hash := by
  unfold tipOf; rw [h]; rfl

/-- **The cached snapshot is the current served chain.**  If a recorded snapshot's best chain ends
    in a block with the hash of the current tip (the situation of a cache hit) and no two
    *different* blocks among the snapshot's chain and the current chain share a hash (`NoCollision`:
    collision-freeness of the block hash between the two moments — in the code the hash is the
    double SHA-256 of the header; in the model hashes are free fields, and the hash of a block of a
    *discarded* fork may be reused, which is why this cannot be dropped), then
    * the full chains agree as lists of blocks: `G' ++ best' = G ++ best`;
    * the snapshot differs from the current `(G, best)` only by anchors that moved from the
      unstable to the stable part: `G = G' ++ moved` and `best' = moved ++ best`;
    * in particular `best'` ends in the current tip block. -/
theorem snapshot_is_current_chain (h : FeeReachableM sys G past) (sn : Snap) (hsn : sn ∈ past)
    (hcoll : NoCollision (sn.G ++ sn.best) (G ++ bestChain sys.st))
    (htip : tipOf sn.best = tipOf (bestChain sys.st)) :
    sn.G ++ sn.best = G ++ bestChain sys.st ∧
    (∃ moved, G = sn.G ++ moved ∧ sn.best = moved ++ bestChain sys.st) ∧
    sn.best.getLast? = (bestChain sys.st).getLast? := by
  obtain ⟨_, i2⟩ := feeReachableM_inv h
  obtain ⟨ok, hpre⟩ := i2 sn hsn
  have h2 := fullReachable_inv2 h.full
  obtain ⟨c1, c2, c3, _⟩ := inv2_chain h2
  have e : sn.G ++ sn.best = G ++ bestChain sys.st := by
    apply linked_same_tip_eq ok.linked c1 hcoll ok.nodup c2
    · intro a b ha hb
      rw [getLast?_append_ne _ ok.nonempty] at ha
      rw [getLast?_append_ne _ c3] at hb
      rw [← tipOf_eq_of_getLast ha, ← tipOf_eq_of_getLast hb]
      exact htip
    · rw [ok.head, firstBlock_eq_head]
    · intro hnil
      exact ok.nonempty (List.append_eq_nil_iff.mp hnil).2
  obtain ⟨moved, hm⟩ := hpre
  have hb : sn.best = moved ++ bestChain sys.st := by
    rw [← hm, List.append_assoc] at e
    exact List.append_cancel_left e
  refine ⟨e, ⟨moved, hm.symm, hb⟩, ?_⟩
  rw [hb, getLast?_append_ne _ c3]

/-- the fee rates entering the percentile computation, in terms of one full chain `full`
    (genesis first) and the number `k` of its last blocks that are looked at -/
def ratesOfLast (n k : Nat) (full : List Block) : List Nat :=
  (((full.reverse.take k).flatMap (Spec.blockFeeRates full))).take n

theorem feePercentilesSpec_eq_ratesOfLast (n : Nat) (G best : List Block) :
    feePercentilesSpec n G best = percentiles (ratesOfLast n best.length (G ++ best)) := by
  unfold feePercentilesSpec recentFeeRates ratesOfLast
  rw [List.reverse_append, List.take_left' (by simp)]

/-- **The cached percentiles in terms of the CURRENT history**: under the hypotheses of
    `snapshot_is_current_chain`, the cached vector is the vector of nearest-rank percentiles of
    the most recent (at most `sn.n`) fee rates of the last `sn.best.length` blocks of the current
    full chain `G ++ best` — the current unstable blocks of the best chain and the
    `sn.best.length - best.length` most recently ingested blocks, which were unstable when the
    answer was computed.  (A fresh computation would look at the last `best.length` blocks only.) -/
theorem cached_answer_in_current_history (h : FeeReachableM sys G past) (sn : Snap) (hsn : sn ∈ past)
    (hcoll : NoCollision (sn.G ++ sn.best) (G ++ bestChain sys.st))
    (htip : tipOf sn.best = tipOf (bestChain sys.st)) :
    sn.answer = percentiles (ratesOfLast sn.n sn.best.length (G ++ bestChain sys.st)) ∧
    (bestChain sys.st).length ≤ sn.best.length ∧
    sn.best.length ≤ (G ++ bestChain sys.st).length := by
  obtain ⟨e, ⟨moved, _, hb⟩, _⟩ := snapshot_is_current_chain h sn hsn hcoll htip
  refine ⟨?_, ?_, ?_⟩
  · unfold Snap.answer
    rw [feePercentilesSpec_eq_ratesOfLast, e]
  · rw [hb, List.length_append]; omega
  · rw [← e, List.length_append]; omega

/-- **Cache hit, headline.**  In a reachable configuration whose cache is keyed by the current tip
    hash, `get_current_fee_percentiles` returns the cached vector `p`, and — if the block hash is
    collision-free between the moment of the computation and now — `p` is the vector of
    percentiles of the most recent fee rates of the last `k ≥ best.length` blocks of the CURRENT
    full chain, for the `k` and `n` of a recorded fee computation. -/
theorem cache_hit_current_history (h : FeeReachableM sys G past) (p : List Nat)
    (hc : sys.st.feeCache = some (tipOf (bestChain sys.st), p))
    (hcoll : ∀ sn ∈ past, NoCollision (sn.G ++ sn.best) (G ++ bestChain sys.st)) :
    (∀ n, (sys.st.feePercentiles n).map (·.2) = some p) ∧
    ∃ n k, p = percentiles (ratesOfLast n k (G ++ bestChain sys.st)) ∧
      (bestChain sys.st).length ≤ k ∧ k ≤ (G ++ bestChain sys.st).length := by
  obtain ⟨i1, _⟩ := feeReachableM_inv h
  obtain ⟨h2, hf⟩ := fullReachable_fee h.full
  obtain ⟨sn, hsn, j1, j2⟩ := i1 _ _ hc
  obtain ⟨k1, k2, k3⟩ := cached_answer_in_current_history h sn hsn (hcoll sn hsn) j1
  refine ⟨fun n => ?_, sn.n, sn.best.length, by rw [j2]; exact k1, k2, k3⟩
  rw [feePercentiles_refines2 h2 hf n, hc]
  simp [feeAnswerSpec]

/-! ## B3. Eager and lazy heartbeats -/

/-- **Eager mode** (`lazily_evaluate_fee_percentiles` off): a heartbeat that runs to its end leaves
    in the cache what `Spec.feeAnswerSpec` leaves for the history after `maybe_process_response`:
    `some (current tip, specified percentiles of the current history)` — or the previous entry,
    when it is keyed by the current tip already or there is no fee rate to report (fallback). -/
theorem eager_heartbeat_cache (hr : FullReachable sys G) (env : Env) (b : Nat)
    (ht : Trusted env (sys, G) (.heartbeat b)) (s' : State)
    (h : heartbeatStart env sys.st b = .processed s') (hl : sys.st.lazyFees = false) :
    s'.feeCache = (feeAnswerSpec env.numTransactions G (bestChain s') sys.st.feeCache).2 ∧
    (s'.feeCache = some (tipOf (bestChain s'), feePercentilesSpec env.numTransactions G (bestChain s')) ∨
     (s'.feeCache = sys.st.feeCache ∧ ∃ k p, sys.st.feeCache = some (k, p) ∧
        (k = tipOf (bestChain s') ∨ recentFeeRates env.numTransactions G (bestChain s') = []))) := by
  obtain ⟨_, _, s2, _, hA2, kf, hc1, hc2, hcase⟩ := processed_anatomy hr env b ht s' h
  rcases hcase with ⟨hl2, _⟩ | ⟨_, p, hfp⟩
  · rw [hc2, hl] at hl2; cases hl2
  · rw [feePercentiles_refines2 (Or.inl hA2) kf env.numTransactions] at hfp
    simp only [Option.some.injEq, Prod.mk.injEq] at hfp
    obtain ⟨rfl, _⟩ := hfp
    have e : ({ s2 with feeCache := (feeAnswerSpec env.numTransactions G (bestChain s2) s2.feeCache).2 } :
        State).feeCache = (feeAnswerSpec env.numTransactions G (bestChain s2) sys.st.feeCache).2 := by
      rw [← hc1]
    have eb : bestChain ({ s2 with feeCache :=
        (feeAnswerSpec env.numTransactions G (bestChain s2) s2.feeCache).2 } : State) = bestChain s2 := rfl
    rw [eb]
    refine ⟨e, ?_⟩
    rw [e]
    rcases C15Spec.feeAnswerSpec_cases env.numTransactions G (bestChain s2) sys.st.feeCache with
      e2 | ⟨k, p0, hc0, hk, e2⟩
    · exact Or.inl (by rw [e2])
    · exact Or.inr ⟨by rw [e2], k, p0, hc0, hk⟩

/-- **Lazy mode**: the heartbeat leaves the cache untouched. -/
theorem lazy_heartbeat_cache (hr : FullReachable sys G) (env : Env) (b : Nat)
    (ht : Trusted env (sys, G) (.heartbeat b)) (s' : State)
    (h : heartbeatStart env sys.st b = .processed s') (hl : sys.st.lazyFees = true) :
    s'.feeCache = sys.st.feeCache ∧ feeSnap env (sys, G) (.heartbeat b) = none := by
  obtain ⟨_, _, s2, _, _, _, hc1, hc2, hcase⟩ := processed_anatomy hr env b ht s' h
  rcases hcase with ⟨hl2, rfl⟩ | ⟨hl2, _⟩
  · refine ⟨hc1, ?_⟩
    simp only [feeSnap, h, hl2, if_true]
  · rw [hc2, hl] at hl2; cases hl2

/-- every other heartbeat (one that ingests, sends a request or traps) leaves the cache alone, in
    either mode -/
theorem other_heartbeat_cache (hr : FullReachable sys G) (env : Env) (b : Nat)
    (ht : Trusted env (sys, G) (.heartbeat b))
    (h : ∀ s', heartbeatStart env sys.st b ≠ .processed s') :
    (stepMsg env (sys, G) (.heartbeat b)).1.st.feeCache = sys.st.feeCache := by
  rcases stepMsg_feeCache hr env (.heartbeat b) ht with e | ⟨_, hs⟩
  · exact e
  · exfalso
    simp only [feeSnap] at hs
    cases hh : heartbeatStart env sys.st b with
    | processed s' => exact h s' hh
    | trap => cases hs
    | ingested s' p => cases hs
    | awaiting s' r => cases hs

/-! ## B4. The undeclared assumption on null prevouts -/

/-- **`NoNullPrevoutInNonCoinbase`**: a transaction that is not a coinbase (`is_coinbase`: exactly
    one input, and that input's previous output is null) has no input with a null previous output
    (all-zero txid, `vout = 0xFFFFFFFF`).

    Rust: `OutPointsCache::insert` (`unstable_blocks/outpoints_cache.rs`) *skips* inputs with
    `previous_output.is_null()` in every transaction, while `get_tx_fee_per_byte`
    (`api/fee_percentiles.rs`) looks every input of a non-coinbase transaction up in the cache and
    panics if it is absent ("tx out of outpoint … must exist").  A non-coinbase transaction with a
    null prevout (e.g. two inputs, one of them null) is therefore accepted at insertion and makes
    the recomputation of the fee rates panic.  The model (`BlockCodec.toModelTx`) filters null
    prevouts out of `ins` in *both* paths, i.e. it silently assumes this predicate of every
    delivered transaction (consensus-valid transactions satisfy it). -/
def NoNullPrevoutInNonCoinbase (t : TxCodec.Tx) : Prop :=
  BlockCodec.isCoinbase t = false → ∀ i ∈ t.inputs, BlockCodec.isNullOutPoint i = false

instance (t : TxCodec.Tx) : Decidable (NoNullPrevoutInNonCoinbase t) := by
  unfold NoNullPrevoutInNonCoinbase; exact inferInstance

/-- the predicate for the transactions of a decoded block -/
def BlockNoNullPrevout (raw : BlockCodec.RawBlock) : Prop := ∀ t ∈ raw.txs, NoNullPrevoutInNonCoinbase t

/-- under the assumption the model transaction keeps every input of a non-coinbase transaction
    (nothing is filtered), so the model's `ins` are exactly the outpoints the Rust code looks up -/
theorem toModelTx_ins_of_noNull (net : Tree.Net) (t : TxCodec.Tx) (h : NoNullPrevoutInNonCoinbase t)
    (hc : BlockCodec.isCoinbase t = false) :
    (BlockCodec.toModelTx net t).ins = t.inputs.map (fun i => ⟨Merkle.ofBeBytes i.prevTxid, i.vout⟩) := by
  unfold BlockCodec.toModelTx
  simp only
  rw [List.filter_eq_self.mpr]
  intro i hi
  rw [h hc i hi]
  rfl

/-- a coinbase has no model input -/
theorem toModelTx_ins_coinbase (net : Tree.Net) (t : TxCodec.Tx) (hc : BlockCodec.isCoinbase t = true) :
    (BlockCodec.toModelTx net t).ins = [] ∧ (BlockCodec.toModelTx net t).coinbase = true := by
  unfold BlockCodec.isCoinbase at hc
  unfold BlockCodec.toModelTx
  refine ⟨?_, by simp only [BlockCodec.isCoinbase]; exact hc⟩
  simp only
  split at hc
  · rename_i i hi
    rw [hi]
    simp [hc]
  · cases hc

/-- without the assumption the model and the code disagree: a non-coinbase transaction with two
    inputs, one of them null, has ONE model input, while `get_tx_fee_per_byte` looks up TWO
    outpoints (and panics on the null one, which `insert` skipped) -/
def nullIn : TxCodec.TxIn := ⟨List.replicate 32 0, 0xFFFFFFFF, [], 0, []⟩
def realIn : TxCodec.TxIn := ⟨List.replicate 32 1, 0, [], 0, []⟩
def badTx : TxCodec.Tx := ⟨1, [realIn, nullIn], [⟨10, []⟩], 0⟩

example : BlockCodec.isCoinbase badTx = false ∧ ¬ NoNullPrevoutInNonCoinbase badTx ∧
    (BlockCodec.toModelTx .regtest badTx).ins.length = 1 ∧ badTx.inputs.length = 2 := by
  decide

example : NoNullPrevoutInNonCoinbase ⟨1, [realIn], [⟨10, []⟩], 0⟩ ∧
    NoNullPrevoutInNonCoinbase ⟨1, [nullIn], [⟨10, []⟩], 0⟩ := by decide

end Btc.Props.C15Full
