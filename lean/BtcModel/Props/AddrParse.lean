import BtcModel.Lemmas.AddrParseSegwit
import BtcModel.Lemmas.AddrParseLegacy
import BtcModel.Props.BlockCodec

/-
  The request's address string (`Model/AddrParse.lean`: `Address::from_str_checked`) against the
  address text the canister derives for an output script (`Model/BlockCodec.lean`: `addressOf`,
  `Address::from_script(..).to_string()`) — the two directions that meet in the ledger key.

  (a) round trip            `roundtrip_witness`, `roundtrip_legacy_branch`, `roundtrip`,
                            `roundtrip_of_not_segwit`
  (b) injectivity           `addressOf_injective` (all kinds), `legacy_witness_disjoint`
  (c) other networks        `witness_cross_network`, `legacy_cross_network_branch`,
                            `legacy_cross_network`, `legacy_testnet_regtest_same_text`,
                            `parseLegacy_testnet_regtest`, `legacy_testnet_regtest_accepted`,
                            `accepted_networks`
  (d) canonical texts only  `parse_ok_canonical`, `parse_upper`, `parse_ok_witness_iff`,
                            `parse_ok_legacy_iff`
  ledger key                `requestKey_some`, `requestKey_derived`, `requestKey_upper`

  One caveat is part of the truth and therefore of the statements: rust-bitcoin tries bech32 FIRST
  and treats a successful segwit decoding with an unknown human-readable part as final. A base58
  text that also is a well-formed segwit string (all letters one case, bech32 characters after its
  last `'1'`, valid checksum, valid padding and program length) would be `MalformedAddress`. Whether
  such a P2PKH / P2SH address exists depends on SHA-256 values and cannot be decided by proof (a
  coincidence of roughly 2^-60 per address); what IS proved: such a text can only become
  `malformed` — never another script, never `wrongNetwork` — because a legacy text starts with
  `1`, `3`, `m`, `n` or `2` and a known human-readable part with `b` or `t`
  (`legacy_text_unknown_hrp`).
-/

namespace Btc.Props.AddrParse
open Btc.TxCodec Btc.BlockCodec Btc.AddrParse

/-- The script is a witness program as far as `addressOf` is concerned (neither P2PKH nor P2SH). -/
def IsWitness (script : List Nat) : Prop := isP2pkh script = false ∧ isP2sh script = false

/-- The script is P2PKH or P2SH. -/
def IsLegacy (script : List Nat) : Prop := isP2pkh script = true ∨ isP2sh script = true

instance (script : List Nat) : Decidable (IsWitness script) := by unfold IsWitness; infer_instance

instance (script : List Nat) : Decidable (IsLegacy script) := by unfold IsLegacy; infer_instance

theorem legacy_or_witness (script : List Nat) : IsLegacy script ∨ IsWitness script := by
  unfold IsLegacy IsWitness
  cases isP2pkh script <;> cases isP2sh script <;> simp

theorem not_legacy_and_witness {script : List Nat} (hl : IsLegacy script) (hw : IsWitness script) :
    False := by
  rcases hl with h | h
  · rw [hw.1] at h; cases h
  · rw [hw.2] at h; cases h

/-! ## (a) Round trip -/

theorem witnessScript_eq {s : List Nat} {v : Nat} (h : witnessVersion s = some v) :
    witnessScript v (s.drop 2) = s := by
  have e := Btc.Props.BlockCodec.witness_script_eq h
  unfold witnessScript
  rw [List.length_drop]
  exact e.symm

/-- The segwit decoder on a derived witness address: the network's human-readable part, the
    script's version and program. -/
theorem segwitDecode_derived (net : Tree.Net) (script a : List Nat) (hb : AllBytes script)
    (h : addressOf net script = some a) (hw : IsWitness script) :
    ∃ v, witnessVersion script = some v ∧
      segwitDecode a = some (hrpOf net, v, script.drop 2) := by
  rcases addressOf_cases net script a h with ⟨c, _⟩ | ⟨_, c, _⟩ | ⟨_, _, v, hv, hok, rfl⟩
  · rw [hw.1] at c; cases c
  · rw [hw.2] at c; cases c
  obtain ⟨hvalid, hupper, hlen, _, _⟩ := hrpOf_facts net
  exact ⟨v, hv, segwitDecode_segwitEncode (hrpOf net) v (script.drop 2) hvalid hupper hlen
    (witnessVersion_le hv) (fun b hb' => hb b (List.mem_of_mem_drop hb')) hok⟩

/-- **Round trip, witness programs.** The address the canister derives for a witness-program output
    (`Address::from_script(..).to_string()`) is accepted by `Address::from_str_checked` on the same
    network and denotes the script it came from. -/
theorem roundtrip_witness (net : Tree.Net) (script a : List Nat) (hb : AllBytes script)
    (h : addressOf net script = some a) (hw : IsWitness script) :
    parseAddress net a = .ok script := by
  obtain ⟨v, hv, hdec⟩ := segwitDecode_derived net script a hb h hw
  unfold parseAddress
  rw [hdec]
  simp only [(hrpOf_facts net).2.2.2.1, if_true, witnessScript_eq hv]


/-- Shape of a derived legacy address: `encode_check` of version byte and 20-byte hash. -/
theorem addressOf_legacy (net : Tree.Net) (script a : List Nat) (hb : AllBytes script)
    (h : addressOf net script = some a) (hl : IsLegacy script) :
    ∃ p hash sh, hash.length = 20 ∧ AllBytes (p :: hash) ∧ a = base58Check (p :: hash) ∧
      legacyPrefix p = some (decide (net = .mainnet), sh) ∧
      script = (if sh then p2shScript hash else p2pkhScript hash) ∧
      (p = 0 ∨ p = 5 ∨ p = 111 ∨ p = 196) := by
  rcases addressOf_cases net script a h with ⟨h1, rfl⟩ | ⟨_, h2, rfl⟩ | ⟨h1, h2, _⟩
  · obtain ⟨hs, hlen⟩ := isP2pkh_eq h1
    refine ⟨p2pkhPrefix net, (script.drop 3).take 20, false, hlen, ?_, rfl, ?_, ?_, ?_⟩
    · refine allBytes_cons.2 ⟨by cases net <;> decide, ?_⟩
      exact fun b hb' => hb b (List.mem_of_mem_drop (List.mem_of_mem_take hb'))
    · cases net <;> rfl
    · simpa using hs
    · cases net <;> simp [p2pkhPrefix]
  · obtain ⟨hs, hlen⟩ := isP2sh_eq h2
    refine ⟨p2shPrefix net, (script.drop 2).take 20, true, hlen, ?_, rfl, ?_, ?_, ?_⟩
    · refine allBytes_cons.2 ⟨by cases net <;> decide, ?_⟩
      exact fun b hb' => hb b (List.mem_of_mem_drop (List.mem_of_mem_take hb'))
    · cases net <;> rfl
    · simpa using hs
    · cases net <;> simp [p2shPrefix]
  · exact absurd ⟨h1, h2⟩ (fun hw => not_legacy_and_witness hl hw)

/-- **Round trip, legacy addresses, base58 branch.** The base58 reading (`base58::decode_check`,
    version byte, `require_network`) of a derived P2PKH / P2SH address is the script it came from. -/
theorem roundtrip_legacy_branch (net : Tree.Net) (script a : List Nat) (hb : AllBytes script)
    (h : addressOf net script = some a) (hl : IsLegacy script) :
    parseLegacy net a = .ok script := by
  obtain ⟨p, hash, sh, hlen, hall, rfl, hpre, rfl, _⟩ := addressOf_legacy net script a hb h hl
  rw [parseLegacy_base58Check net p hash hlen hall, hpre]
  simp

/-- A derived legacy address starts with `'1'`, `'3'`, `'m'`, `'n'` or `'2'`. -/
theorem legacy_text_head (net : Tree.Net) (script a : List Nat) (hb : AllBytes script)
    (h : addressOf net script = some a) (hl : IsLegacy script) :
    ∃ c tl, a = c :: tl ∧ (c = 49 ∨ c = 51 ∨ c = 109 ∨ c = 110 ∨ c = 50) := by
  obtain ⟨p, hash, sh, hlen, hall, rfl, _, _, hp⟩ := addressOf_legacy net script a hb h hl
  obtain ⟨hl32, hb32⟩ := sha256d_spec (p :: hash)
  unfold base58Check
  rw [List.cons_append]
  apply legacy_head p _ _ _ hp
  · rw [List.length_append, List.length_take, hlen]; omega
  · exact allBytes_append.2 ⟨(allBytes_cons.1 hall).2,
      fun b hb' => hb32 b (List.mem_of_mem_take hb')⟩

/-- A string the segwit decoder accepts with a known human-readable part starts with `b`/`B`
    (`bc`, `bcrt`) or `t`/`T` (`tb`). -/
theorem known_hrp_head (s hrp : List Nat) (v : Nat) (prog : List Nat) (k : Tree.Net)
    (h : segwitDecode s = some (hrp, v, prog)) (hk : knownHrp hrp = some k) :
    ∃ c tl, s = c :: tl ∧ (toLower c = 98 ∨ toLower c = 116) := by
  obtain ⟨_, _, _, _, _, ⟨d, rfl⟩, _⟩ := segwitDecode_some s hrp v prog h
  have hl : lowerCase hrp = hrpOf .mainnet ∨ lowerCase hrp = hrpOf .testnet ∨
      lowerCase hrp = hrpOf .regtest := by
    unfold knownHrp at hk
    simp only [] at hk
    split at hk
    · left; assumption
    · split at hk
      · right; left; assumption
      · split at hk
        · right; right; assumption
        · simp at hk
  cases hrp with
  | nil => rcases hl with hl | hl | hl <;> simp [lowerCase, hrpOf] at hl
  | cons c tl =>
    refine ⟨c, tl ++ 49 :: d, rfl, ?_⟩
    rcases hl with hl | hl | hl <;>
      simp only [lowerCase, hrpOf, List.map_cons, List.cons.injEq] at hl
    · left; exact hl.1
    · right; exact hl.1
    · left; exact hl.1

/-- If the segwit decoder accepts a derived LEGACY address at all, its human-readable part is not
    one of `bc`, `tb`, `bcrt`. -/
theorem legacy_text_unknown_hrp (net : Tree.Net) (script a : List Nat) (hb : AllBytes script)
    (h : addressOf net script = some a) (hl : IsLegacy script) (hrp : List Nat) (v : Nat)
    (prog : List Nat) (hd : segwitDecode a = some (hrp, v, prog)) : knownHrp hrp = none := by
  cases hk : knownHrp hrp with
  | none => rfl
  | some k =>
    exfalso
    obtain ⟨c, tl, rfl, hc⟩ := legacy_text_head net script a hb h hl
    obtain ⟨c', tl', he, hc'⟩ := known_hrp_head _ hrp v prog k hd hk
    obtain ⟨rfl, _⟩ := List.cons.inj he
    rcases hc with rfl | rfl | rfl | rfl | rfl <;> rcases hc' with hc' | hc' <;>
      exact absurd hc' (by decide)


/-- On a derived legacy address the parser either takes the base58 branch, or the segwit decoder
    accepts the text with an unknown human-readable part and the answer is `MalformedAddress`. -/
theorem parseAddress_legacy_text (net net' : Tree.Net) (script a : List Nat) (hb : AllBytes script)
    (h : addressOf net script = some a) (hl : IsLegacy script) :
    (segwitDecode a = none ∧ parseAddress net' a = parseLegacy net' a) ∨
      ((segwitDecode a).isSome = true ∧ parseAddress net' a = .malformed) := by
  unfold parseAddress
  cases hd : segwitDecode a with
  | none => left; exact ⟨rfl, rfl⟩
  | some r =>
    obtain ⟨hrp, v, prog⟩ := r
    right
    simp only [legacy_text_unknown_hrp net script a hb h hl hrp v prog hd, Option.isSome_some,
      and_self]

/-- **(a) Round trip.** Every address the canister derives from an output script
    (`Address::from_script(script, net).to_string()`, model `addressOf`) is read back by
    `Address::from_str_checked(_, net)` (model `parseAddress`) as that script — with one exception
    that cannot be excluded by proof: the parser tries bech32 FIRST, so a base58 text that happened to
    be a well-formed segwit string too (lower-case bech32 characters behind its last `'1'`, valid
    Bech32(m) checksum, ...) would be answered `MalformedAddress` (its human-readable part is never
    `bc`/`tb`/`bcrt`), never with another script and never with `WrongNetwork`. -/
theorem roundtrip (net : Tree.Net) (script a : List Nat) (hb : AllBytes script)
    (h : addressOf net script = some a) :
    parseAddress net a = .ok script ∨
      (IsLegacy script ∧ (segwitDecode a).isSome = true ∧ parseAddress net a = .malformed) := by
  rcases legacy_or_witness script with hl | hw
  · rcases parseAddress_legacy_text net net script a hb h hl with ⟨_, he⟩ | ⟨hs, hm⟩
    · left; rw [he]; exact roundtrip_legacy_branch net script a hb h hl
    · right; exact ⟨hl, hs, hm⟩
  · left; exact roundtrip_witness net script a hb h hw

/-- (a) in the form used for a concrete address: if the text is no segwit string (decidable, and
    true of every legacy address ever seen), the round trip is exact. -/
theorem roundtrip_of_not_segwit (net : Tree.Net) (script a : List Nat) (hb : AllBytes script)
    (h : addressOf net script = some a) (hns : IsLegacy script → segwitDecode a = none) :
    parseAddress net a = .ok script := by
  rcases roundtrip net script a hb h with hr | ⟨hl, hs, _⟩
  · exact hr
  · rw [hns hl] at hs; cases hs

/-! ## (b) Injectivity -/

/-- **(b) The address text determines the script**, for all address kinds (P2PKH, P2SH, witness
    programs of every version) and across kinds: two output scripts with the same address text on
    one network are the same script. So keying the ledger by address text does not merge outputs of
    different scripts. -/
theorem addressOf_injective (net : Tree.Net) (s1 s2 a : List Nat) (hb1 : AllBytes s1)
    (hb2 : AllBytes s2) (h1 : addressOf net s1 = some a) (h2 : addressOf net s2 = some a) :
    s1 = s2 := by
  rcases legacy_or_witness s1 with hl1 | hw1 <;> rcases legacy_or_witness s2 with hl2 | hw2
  · have e1 := roundtrip_legacy_branch net s1 a hb1 h1 hl1
    have e2 := roundtrip_legacy_branch net s2 a hb2 h2 hl2
    rw [e1] at e2
    exact ParseResult.ok.inj e2
  · have e2 := roundtrip_witness net s2 a hb2 h2 hw2
    rcases roundtrip net s1 a hb1 h1 with e1 | ⟨_, _, e1⟩
    · rw [e1] at e2; exact ParseResult.ok.inj e2
    · rw [e1] at e2; cases e2
  · have e1 := roundtrip_witness net s1 a hb1 h1 hw1
    rcases roundtrip net s2 a hb2 h2 with e2 | ⟨_, _, e2⟩
    · rw [e1] at e2; exact ParseResult.ok.inj e2
    · rw [e1] at e2; cases e2
  · have e1 := roundtrip_witness net s1 a hb1 h1 hw1
    have e2 := roundtrip_witness net s2 a hb2 h2 hw2
    rw [e1] at e2
    exact ParseResult.ok.inj e2

/-- A derived witness address starts with `b` (`bc`, `bcrt`) or `t` (`tb`). -/
theorem witness_text_head (net : Tree.Net) (script a : List Nat)
    (h : addressOf net script = some a) (hw : IsWitness script) :
    ∃ c tl, a = c :: tl ∧ (c = 98 ∨ c = 116) := by
  rcases addressOf_cases net script a h with ⟨c, _⟩ | ⟨_, c, _⟩ | ⟨_, _, v, _, _, rfl⟩
  · rw [hw.1] at c; cases c
  · rw [hw.2] at c; cases c
  cases net
  · exact ⟨98, _, rfl, Or.inl rfl⟩
  · exact ⟨116, _, rfl, Or.inr rfl⟩
  · exact ⟨98, _, rfl, Or.inl rfl⟩

/-- **Legacy and witness texts are disjoint**, also across networks: a base58 address text is never
    a bech32 address text. -/
theorem legacy_witness_disjoint (net1 net2 : Tree.Net) (s1 s2 a : List Nat) (hb1 : AllBytes s1)
    (h1 : addressOf net1 s1 = some a) (h2 : addressOf net2 s2 = some a) (hl : IsLegacy s1)
    (hw : IsWitness s2) : False := by
  obtain ⟨c, tl, rfl, hc⟩ := legacy_text_head net1 s1 a hb1 h1 hl
  obtain ⟨c', tl', he, hc'⟩ := witness_text_head net2 s2 _ h2 hw
  obtain ⟨rfl, _⟩ := List.cons.inj he
  omega

/-! ## (c) Other networks -/

/-- **(c) A witness address belongs to exactly one canister network**: read on a network other than
    the one it was derived for, the answer is `WrongNetwork` (`bc` / `tb` / `bcrt` are pairwise
    different `KnownHrp`s). -/
theorem witness_cross_network (net net' : Tree.Net) (script a : List Nat) (hb : AllBytes script)
    (h : addressOf net script = some a) (hw : IsWitness script) (hne : net ≠ net') :
    parseAddress net' a = .wrongNetwork := by
  obtain ⟨v, hv, hdec⟩ := segwitDecode_derived net script a hb h hw
  unfold parseAddress
  rw [hdec]
  simp only [(hrpOf_facts net).2.2.2.1, if_neg hne]

/-- **(c) Legacy addresses carry only main / test**: the base58 reading of a derived P2PKH / P2SH
    address on another network is the same script if both networks are test networks or both are
    mainnet, `WrongNetwork` otherwise. -/
theorem legacy_cross_network_branch (net net' : Tree.Net) (script a : List Nat)
    (hb : AllBytes script) (h : addressOf net script = some a) (hl : IsLegacy script) :
    parseLegacy net' a =
      if decide (net = .mainnet) = decide (net' = .mainnet) then .ok script else .wrongNetwork := by
  obtain ⟨p, hash, sh, hlen, hall, rfl, hpre, rfl, _⟩ := addressOf_legacy net script a hb h hl
  rw [parseLegacy_base58Check net' p hash hlen hall, hpre]

/-- (c) for the whole parser: a derived legacy address read on a network of the other kind (mainnet
    vs. test networks) is never accepted. -/
theorem legacy_cross_network (net net' : Tree.Net) (script a : List Nat) (hb : AllBytes script)
    (h : addressOf net script = some a) (hl : IsLegacy script)
    (hne : decide (net = .mainnet) ≠ decide (net' = .mainnet)) :
    parseAddress net' a = .wrongNetwork ∨ parseAddress net' a = .malformed := by
  rcases parseAddress_legacy_text net net' script a hb h hl with ⟨_, he⟩ | ⟨_, hm⟩
  · left; rw [he, legacy_cross_network_branch net net' script a hb h hl, if_neg hne]
  · right; exact hm

/-- **Testnet and regtest share their legacy texts**: the same P2PKH / P2SH text is derived on both
    (rust-bitcoin's `PUBKEY_ADDRESS_PREFIX_TEST` / `SCRIPT_ADDRESS_PREFIX_TEST`) ... -/
theorem legacy_testnet_regtest_same_text (script : List Nat) (hl : IsLegacy script) :
    addressOf .testnet script = addressOf .regtest script := by
  unfold addressOf
  rcases hl with h | h
  · simp [h, p2pkhPrefix]
  · cases h1 : isP2pkh script <;> simp [h, p2pkhPrefix, p2shPrefix]

/-- ... and the parser does not tell the two networks apart on any string that is not a segwit
    string (`NetworkKind::Test` for both). -/
theorem parseLegacy_testnet_regtest (s : List Nat) :
    parseLegacy .testnet s = parseLegacy .regtest s := rfl

/-- A regtest P2PKH / P2SH address is accepted by a testnet canister as the same script, and
    vice versa (base58 branch). -/
theorem legacy_testnet_regtest_accepted (script a : List Nat) (hb : AllBytes script)
    (hl : IsLegacy script) :
    (addressOf .regtest script = some a → parseLegacy .testnet a = .ok script) ∧
      (addressOf .testnet script = some a → parseLegacy .regtest a = .ok script) := by
  constructor
  · intro h
    rw [legacy_cross_network_branch .regtest .testnet script a hb h hl]; rfl
  · intro h
    rw [legacy_cross_network_branch .testnet .regtest script a hb h hl]; rfl

/-- Which networks accept a derived address (with its script): only the network itself for a
    witness address; exactly the networks of the same kind (mainnet / test) for a legacy one. -/
theorem accepted_networks (net net' : Tree.Net) (script script' a : List Nat) (hb : AllBytes script)
    (h : addressOf net script = some a) (hp : parseAddress net' a = .ok script') :
    script' = script ∧ (IsWitness script → net' = net) ∧
      (IsLegacy script → (net' = .mainnet ↔ net = .mainnet)) := by
  rcases legacy_or_witness script with hl | hw
  · rcases parseAddress_legacy_text net net' script a hb h hl with ⟨_, he⟩ | ⟨_, hm⟩
    · rw [he, legacy_cross_network_branch net net' script a hb h hl] at hp
      split at hp
      · rename_i hk
        refine ⟨(ParseResult.ok.inj hp).symm, fun hw => absurd hw (not_legacy_and_witness hl),
          fun _ => ?_⟩
        have := decide_eq_decide.1 hk
        exact this.symm
      · cases hp
    · rw [hm] at hp; cases hp
  · by_cases hn : net = net'
    · subst hn
      rw [roundtrip_witness net script a hb h hw] at hp
      exact ⟨(ParseResult.ok.inj hp).symm, fun _ => rfl,
        fun hl => absurd hw (not_legacy_and_witness hl)⟩
    · rw [witness_cross_network net net' script a hb h hw hn] at hp; cases hp


/-! ## (d) Only canonical texts are accepted -/

theorem knownHrp_some {hrp : List Nat} {k : Tree.Net} (h : knownHrp hrp = some k) :
    lowerCase hrp = hrpOf k := by
  unfold knownHrp at h
  simp only [] at h
  split at h
  · rename_i e; cases h; exact e
  · split at h
    · rename_i e; cases h; exact e
    · split at h
      · rename_i e; cases h; exact e
      · cases h

/-- The address the canister derives for the script of a witness program. -/
theorem addressOf_witnessScript (net : Tree.Net) (v : Nat) (prog : List Nat) (hv : v ≤ 16)
    (hok : witnessProgramOk v prog = true) :
    addressOf net (witnessScript v prog) = some (segwitEncode (hrpOf net) v prog) ∧
      IsWitness (witnessScript v prog) := by
  have hlen : 2 ≤ prog.length ∧ prog.length ≤ 40 := by
    simp only [witnessProgramOk, Bool.and_eq_true, decide_eq_true_eq] at hok
    exact ⟨hok.1.1, hok.1.2⟩
  have h1 : isP2pkh (witnessScript v prog) = false := by
    simp only [isP2pkh, witnessScript, List.getD_cons_zero, Bool.and_eq_false_iff]
    left; left; left; left; right
    split <;> simp <;> omega
  have h2 : isP2sh (witnessScript v prog) = false := by
    simp only [isP2sh, witnessScript, List.getD_cons_zero, Bool.and_eq_false_iff]
    left; left; right
    split <;> simp <;> omega
  have h3 : witnessVersion (witnessScript v prog) = some v := by
    simp only [witnessVersion, witnessScript, List.length_cons, List.getD_cons_zero,
      List.getD_cons_succ]
    rw [if_neg (by omega), if_neg (by omega), if_neg (by omega)]
    unfold witnessVersionOfOpcode
    by_cases h0 : v = 0
    · subst h0; rfl
    · rw [if_neg h0, if_neg (by omega), if_pos (by omega)]
      congr 1
  refine ⟨?_, h1, h2⟩
  unfold addressOf
  rw [h1, h2, h3]
  simp only [Bool.false_eq_true, if_false]
  have : (witnessScript v prog).drop 2 = prog := rfl
  rw [this, hok]
  simp

theorem witnessScript_allBytes (v : Nat) (prog : List Nat) (hv : v ≤ 16) (hl : prog.length ≤ 40)
    (hp : AllBytes prog) : AllBytes (witnessScript v prog) := by
  unfold witnessScript
  refine allBytes_cons.2 ⟨by split <;> omega, allBytes_cons.2 ⟨by omega, hp⟩⟩

theorem legacyPrefix_some {p : Nat} {net : Tree.Net} {sh : Bool}
    (h : legacyPrefix p = some (decide (net = .mainnet), sh)) :
    p = if sh then p2shPrefix net else p2pkhPrefix net := by
  unfold legacyPrefix at h
  split at h
  · rename_i e; subst e
    simp only [Option.some.injEq, Prod.mk.injEq] at h
    obtain ⟨h1, rfl⟩ := h
    cases net <;> simp_all [p2pkhPrefix]
  · split at h
    · rename_i e; subst e
      simp only [Option.some.injEq, Prod.mk.injEq] at h
      obtain ⟨h1, rfl⟩ := h
      cases net <;> simp_all [p2pkhPrefix]
    · split at h
      · rename_i e; subst e
        simp only [Option.some.injEq, Prod.mk.injEq] at h
        obtain ⟨h1, rfl⟩ := h
        cases net <;> simp_all [p2shPrefix]
      · split at h
        · rename_i e; subst e
          simp only [Option.some.injEq, Prod.mk.injEq] at h
          obtain ⟨h1, rfl⟩ := h
          cases net <;> simp_all [p2shPrefix]
        · cases h

/-- **(d) The parser accepts canonical texts only.** If `Address::from_str_checked(s, net)`
    succeeds with script `script`, then `script` is a byte string that has an address on `net`,
    and `s` is that address text — the text itself, or, for a witness program only, the text with
    all letters upper-case (bech32 is case-insensitive but rejects mixed case; base58 is
    case-sensitive). In both cases the canonical text is the lower-cased... for a witness address and
    `s` itself for a legacy one. -/
theorem parse_ok_canonical (net : Tree.Net) (s script : List Nat)
    (h : parseAddress net s = .ok script) :
    AllBytes script ∧ ∃ a, addressOf net script = some a ∧
      ((s = a ∧ (IsLegacy script → segwitDecode s = none)) ∨
        (s = upperCase a ∧ a = lowerCase s ∧ IsWitness script)) := by
  unfold parseAddress at h
  split at h
  · rename_i hrp v prog hdec
    split at h
    · cases h
    · rename_i k hk
      split at h
      · rename_i hkn
        subst hkn
        simp only [ParseResult.ok.injEq] at h
        subst h
        obtain ⟨hmixed, _, hv, hok, hbytes, _, hlow⟩ := segwitDecode_some s hrp v prog hdec
        rw [knownHrp_some hk] at hlow
        obtain ⟨haddr, hw⟩ := addressOf_witnessScript k v prog hv hok
        have hlen : prog.length ≤ 40 := by
          simp only [witnessProgramOk, Bool.and_eq_true, decide_eq_true_eq] at hok
          exact hok.1.2
        refine ⟨witnessScript_allBytes v prog hv hlen hbytes, _, haddr, ?_⟩
        unfold mixedCase at hmixed
        rw [Bool.and_eq_false_iff] at hmixed
        rcases hmixed with hu | hl
        · left
          refine ⟨?_, fun hl => absurd hw (not_legacy_and_witness hl)⟩
          rw [← hlow, lowerCase_of_no_upper s hu]
        · right
          refine ⟨?_, hlow.symm, hw⟩
          rw [← hlow, upperCase_lowerCase_of_no_lower s hl]
      · cases h
  · rename_i hnone
    obtain ⟨p, hash, sh, hlen, hall, rfl, hpre, rfl⟩ := parseLegacy_ok net s script h
    have hp := legacyPrefix_some hpre
    have hhash : AllBytes hash := (allBytes_cons.1 hall).2
    cases sh with
    | false =>
      simp only [Bool.false_eq_true, if_false] at hp ⊢
      obtain ⟨h1, h2⟩ := p2pkhScript_spec hash hlen
      refine ⟨?_, _, ?_, Or.inl ⟨rfl, fun _ => hnone⟩⟩
      · unfold p2pkhScript
        exact allBytes_append.2 ⟨allBytes_append.2 ⟨by decide, hhash⟩, by decide⟩
      · unfold addressOf
        rw [h1, if_pos rfl, h2, hp]
    | true =>
      simp only [if_true] at hp ⊢
      obtain ⟨h0, h1, h2⟩ := p2shScript_spec hash hlen
      refine ⟨?_, _, ?_, Or.inl ⟨rfl, fun _ => hnone⟩⟩
      · unfold p2shScript
        exact allBytes_append.2 ⟨allBytes_append.2 ⟨by decide, hhash⟩, by decide⟩
      · unfold addressOf
        rw [h0, h1, h2, hp]
        simp


/-- **Bech32 is case-insensitive**: the all-upper-case form of a derived witness address (the QR-code
    form) is accepted on the same network as the same script. -/
theorem parse_upper (net : Tree.Net) (script a : List Nat) (hb : AllBytes script)
    (h : addressOf net script = some a) (hw : IsWitness script) :
    parseAddress net (upperCase a) = .ok script := by
  rcases addressOf_cases net script a h with ⟨c, _⟩ | ⟨_, c, _⟩ | ⟨_, _, v, hv, hok, rfl⟩
  · rw [hw.1] at c; cases c
  · rw [hw.2] at c; cases c
  unfold parseAddress
  rw [segwitDecode_upperCase net v (script.drop 2) (witnessVersion_le hv)
    (fun b hb' => hb b (List.mem_of_mem_drop hb')) hok]
  have hk : knownHrp (upperCase (hrpOf net)) = some net := by cases net <;> decide
  simp only [hk, if_true, witnessScript_eq hv]

/-- **(d) as an equivalence, witness programs**: the strings `from_str_checked(_, net)` reads as the
    witness-program script `script` are exactly its address text on `net` and that text in upper
    case. -/
theorem parse_ok_witness_iff (net : Tree.Net) (s script : List Nat) (hw : IsWitness script) :
    parseAddress net s = .ok script ↔
      AllBytes script ∧ ∃ a, addressOf net script = some a ∧ (s = a ∨ s = upperCase a) := by
  constructor
  · intro h
    obtain ⟨hb, a, ha, hs⟩ := parse_ok_canonical net s script h
    refine ⟨hb, a, ha, ?_⟩
    rcases hs with ⟨hs, _⟩ | ⟨hs, _, _⟩
    · exact Or.inl hs
    · exact Or.inr hs
  · rintro ⟨hb, a, ha, rfl | rfl⟩
    · exact roundtrip_witness net script _ hb ha hw
    · exact parse_upper net script a hb ha hw

/-- **(d) as an equivalence, legacy scripts**: the strings read as the P2PKH / P2SH script `script`
    are exactly its (case-sensitive) address text, provided that text is no segwit string. -/
theorem parse_ok_legacy_iff (net : Tree.Net) (s script : List Nat) (hl : IsLegacy script) :
    parseAddress net s = .ok script ↔
      AllBytes script ∧ addressOf net script = some s ∧ segwitDecode s = none := by
  constructor
  · intro h
    obtain ⟨hb, a, ha, hs⟩ := parse_ok_canonical net s script h
    rcases hs with ⟨rfl, hn⟩ | ⟨_, _, hw⟩
    · exact ⟨hb, ha, hn hl⟩
    · exact absurd hw (not_legacy_and_witness hl)
  · rintro ⟨hb, ha, hn⟩
    exact roundtrip_of_not_segwit net script s hb ha (fun _ => hn)

/-! ## The ledger key of a request -/

/-- The key the endpoints look up (`address.to_string()` of the parsed address) is the canonical
    text of the request string: the string itself, or its lower-case form if it was upper-case
    bech32. -/
theorem requestKey_some (net : Tree.Net) (s a : List Nat) (h : requestKey net s = some a) :
    ∃ script, AllBytes script ∧ parseAddress net s = .ok script ∧ addressOf net script = some a ∧
      (a = s ∨ (a = lowerCase s ∧ s = upperCase a ∧ IsWitness script)) := by
  unfold requestKey at h
  split at h
  · rename_i script hp
    obtain ⟨hb, a', ha', hs⟩ := parse_ok_canonical net s script hp
    rw [ha'] at h
    cases h
    refine ⟨script, hb, hp, ha', ?_⟩
    rcases hs with ⟨hs, _⟩ | ⟨hs, hl, hw⟩
    · exact Or.inl hs.symm
    · exact Or.inr ⟨hl, hs, hw⟩
  · cases h

/-- A request with a derived address (that is no segwit string if legacy) looks up the key the
    ledger files the script's outputs under. -/
theorem requestKey_derived (net : Tree.Net) (script a : List Nat) (hb : AllBytes script)
    (h : addressOf net script = some a) (hns : IsLegacy script → segwitDecode a = none) :
    requestKey net a = some a := by
  unfold requestKey
  rw [roundtrip_of_not_segwit net script a hb h hns]
  exact h

/-- The upper-case form of a witness address looks up the same key. -/
theorem requestKey_upper (net : Tree.Net) (script a : List Nat) (hb : AllBytes script)
    (h : addressOf net script = some a) (hw : IsWitness script) :
    requestKey net (upperCase a) = some a := by
  unfold requestKey
  rw [parse_upper net script a hb h hw]
  exact h

/-! ## Cheap sufficient conditions for "no segwit string" -/

theorem segwitDecode_none_of_mixedCase (s : List Nat) (h : mixedCase s = true) :
    segwitDecode s = none := by
  unfold segwitDecode
  split
  · rfl
  · split
    · rfl
    · split
      · rfl
      · first | rfl | rw [if_pos h]

theorem segwitDecode_none_of_no_sep (s : List Nat) (h : 49 ∉ s) : segwitDecode s = none := by
  unfold segwitDecode
  split
  · rfl
  · rw [splitLastSep_none s h]

/-- A string longer than 90 bytes is no address; one longer than 50 is no legacy address. -/
theorem parseAddress_too_long (net : Tree.Net) (s : List Nat) (h : 90 < s.length) :
    parseAddress net s = .malformed := by
  unfold parseAddress segwitDecode
  rw [if_pos h]
  unfold parseLegacy
  rw [if_pos (by omega)]

/-- The empty string is no address. -/
theorem parseAddress_empty (net : Tree.Net) : parseAddress net [] = .malformed := by
  cases net <;> rfl


/-! ## Concrete instances (the hypotheses above are satisfiable; the model reduces in the kernel) -/

/-- P2WPKH -/
def p2wpkhEx : List Nat := [0x00, 0x14] ++ List.replicate 20 9
/-- P2TR -/
def p2trEx : List Nat := [0x51, 0x20] ++ List.replicate 32 7
/-- P2PKH -/
def p2pkhEx : List Nat := [0x76, 0xa9, 0x14] ++ List.replicate 20 9 ++ [0x88, 0xac]
/-- P2SH -/
def p2shEx : List Nat := [0xa9, 0x14] ++ List.replicate 20 9 ++ [0x87]

example : IsWitness p2wpkhEx ∧ AllBytes p2wpkhEx ∧ IsWitness p2trEx ∧ AllBytes p2trEx := by decide
example : IsLegacy p2pkhEx ∧ AllBytes p2pkhEx ∧ IsLegacy p2shEx ∧ AllBytes p2shEx := by decide
example : ∃ a, addressOf .regtest p2wpkhEx = some a := ⟨_, rfl⟩
example : ∃ a, addressOf .mainnet p2pkhEx = some a := ⟨_, rfl⟩
example : ∃ a, addressOf .testnet p2shEx = some a := ⟨_, rfl⟩

set_option maxRecDepth 4000 in
example : (addressOf .regtest p2wpkhEx).map (parseAddress .regtest) = some (.ok p2wpkhEx) := by
  decide
set_option maxRecDepth 4000 in
example : (addressOf .regtest p2wpkhEx).map (parseAddress .mainnet) = some .wrongNetwork := by
  decide
set_option maxRecDepth 4000 in
example : (addressOf .mainnet p2trEx).map (fun a => parseAddress .mainnet (upperCase a)) =
    some (.ok p2trEx) := by decide
set_option maxRecDepth 4000 in
example : (addressOf .testnet p2trEx).map (fun a => requestKey .testnet (upperCase a)) =
    some (addressOf .testnet p2trEx) := by decide

-- strings that are no addresses
example : parseAddress .mainnet [110, 111, 116, 45, 97, 110, 45, 97, 100, 100, 114, 101, 115, 115] =
    .malformed := by decide
-- "bc1" / "1"
example : parseAddress .mainnet [98, 99, 49] = .malformed ∧ parseAddress .regtest [49] = .malformed := by
  decide

end Btc.Props.AddrParse
