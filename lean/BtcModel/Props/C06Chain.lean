import BtcModel.Lemmas.C06Chain
import BtcModel.Props.FullCor

/-!
# C06 across state changes, without assuming that the chain of the tip is the same

`C06.old_token_in_new_state`, its lifts `ReachAll.old_token_in_new_state` and
`FullCor.c06_old_token_in_new_state` assume `hsame : G ++ chain = G' ++ chain'` (the chain from
genesis to the tip `T` named by a page token is the same in the old and the new state).  This
file proves it.

1. **The chain from genesis of a tip is determined by its hash, as long as the tip stays in the
   tree** (`chain_from_genesis_stable` for message histories, `reachable2_chain_same` for
   `Spec.step2`): if `T` is in the tree of `c`, of `run c msgs` and of every configuration in
   between, then `c.2 ++ chain = (run c msgs).2 ++ chain'`.

   *Which hypothesis?*  "`T` is in the tree at both ends" is NOT sufficient in the model: `hash`
   is a free field of `Block`, `PushDomain.fresh` only requires the hash of a pushed block to be
   absent from `G ++ tree`, so the hash of a block that was *discarded* (its fork lost) may be
   pushed again, on another parent — `both_ends_not_sufficient` in `Props/C06ChainExample.lean` is such a
   run of `Spec.Reachable2`.  (In the code a hash is the double SHA-256 of the header, which
   contains the parent hash, so this would be a collision.)  Equivalent forms of the hypothesis,
   given that `T` is in the tree at the end: `T` is in `G ++ tree` of every intermediate
   configuration (a stabilised block never returns to the tree: hashes of `G ++ tree` are
   `Nodup`); no block with hash `T` is pushed in between (`reachable2_chain_back`, which does not
   even need `T` in the tree at the start: it follows).  When the ghost does not change, "in the
   tree at the start" alone suffices (`chain_kept_ghost_fixed`: the tree loses blocks only when
   the ghost grows).
2. `c06_old_token_in_new_state'`, `old_token_in_new_state2`: the cross-state theorems without
   `hsame`.
3. **Same ghost ⇒ same ORDER** (`same_answer_ghost_fixed`): across messages that do not extend the
   ghost (blocks accepted, forks growing, `set_config`, upgrades, paused ingestion rounds, calls,
   replies) the complete ordered answer for tip `T` and address `a` is the same *list*, and a
   multi-page walk interleaved with such messages returns exactly that list, page by page
   (`walk_concat`, `c06_all_pages_across`).  Across a stabilisation (ghost extended) the order
   of the stable part can change — finding F11 (`C06.f11_*`) — which is why the hypothesis
   "ghost unchanged" is there; the permutation statement of 2. is what remains true then.

Range hypotheses as in `Props/C06.lean`: `TxRange G` and `G.length + chain.length ≤ 2 ^ 32`.
-/
namespace Btc.Props.C06Chain
open Btc Btc.State Btc.Spec Btc.Spec.Full Btc.Lemmas.Reach Btc.Lemmas.Reach2 Btc.Lemmas.FullSys
open Btc.Lemmas.FullCor Btc.Lemmas.C06Chain Btc.Props.ReachAll Btc.Props.FullSys Btc.Props.C06

/-! ## 1. The chain from genesis of a tip that stays in the tree -/

/-- the block with hash `T` is in the tree of unstable blocks -/
def InTree (T : Nat) (s : State) : Prop :=
  (Tree.chainWithTip CBlock.hash T s.unstable.tree).isSome = true

instance (T : Nat) (s : State) : Decidable (InTree T s) := by unfold InTree; infer_instance

/-- `T` is in the tree of every configuration of the schedule: the initial one (`k = 0`), the one
    after each message, the final one (`k = msgs.length`) -/
def TipStays (T : Nat) (c : Cfg) (msgs : List (Env × Msg)) : Prop :=
  ∀ k, k ≤ msgs.length → InTree T (run c (msgs.take k)).1.st

theorem tipStays_cons {T : Nat} {c : Cfg} {env : Env} {m : Msg} {rest : List (Env × Msg)} :
    TipStays T c ((env, m) :: rest) ↔ InTree T c.1.st ∧ TipStays T (stepMsg env c m) rest := by
  constructor
  · intro h
    refine ⟨h 0 (Nat.zero_le _), fun k hk => ?_⟩
    have := h (k + 1) (by simp only [List.length_cons]; omega)
    simpa [run] using this
  · intro ⟨h0, h1⟩ k hk
    cases k with
    | zero => exact h0
    | succ k =>
      have := h1 k (by simp only [List.length_cons] at hk; omega)
      simpa [run] using this

theorem fullChain_some_iff (s : State) (G : List Block) (T : Nat) (c : List Block) :
    fullChain s G T = some c ↔ ∃ chain sib,
      Tree.chainWithTip CBlock.hash T s.unstable.tree = some (chain, sib) ∧
      c = G ++ chain.map (·.blk) := by
  unfold fullChain pathBlocks
  cases h : Tree.chainWithTip CBlock.hash T s.unstable.tree with
  | none => simp
  | some p =>
    obtain ⟨chain, sib⟩ := p
    constructor
    · intro e
      simp only [Option.map_some, Option.some.injEq] at e
      exact ⟨chain, sib, rfl, e.symm⟩
    · rintro ⟨ch, sb, e1, rfl⟩
      simp only [Option.some.injEq, Prod.mk.injEq] at e1
      obtain ⟨rfl, rfl⟩ := e1
      rfl

theorem inTree_iff_fullChain (s : State) (G : List Block) (T : Nat) :
    InTree T s ↔ ∃ c, fullChain s G T = some c := by
  unfold InTree
  rw [← fullChain_isSome_iff s G T]
  exact Option.isSome_iff_exists

/-- schedules: `T` in the tree of every configuration ⇒ the chain from genesis of `T` at the
    end is the chain at the start -/
theorem run_fullChain_same : ∀ (msgs : List (Env × Msg)) (c : Cfg), FullReachable c.1 c.2 →
    TrustedRun c msgs → ∀ T, TipStays T c msgs → ∀ ch ch',
      fullChain c.1.st c.2 T = some ch →
      fullChain (run c msgs).1.st (run c msgs).2 T = some ch' → ch = ch'
  | [], c, _, _, T, _, ch, ch', h, h' => by
    simp only [run] at h'
    rw [h] at h'
    exact Option.some.inj h'
  | (env, m) :: rest, c, hr, ht, T, hs, ch, ch', h, h' => by
    obtain ⟨_, hs1⟩ := tipStays_cons.mp hs
    obtain ⟨ch1, hch1⟩ := (inTree_iff_fullChain _ (stepMsg env c m).2 T).mp (hs1 0 (Nat.zero_le _))
    have e1 : ch = ch1 := stepMsg_chain env c m ht.1 (fullReachable_inv2 hr) T ch ch1 h hch1
    have e2 : ch1 = ch' := run_fullChain_same rest (stepMsg env c m)
      (FullReachable.step c.1 c.2 env m hr ht.1) ht.2 T hs1 ch1 ch' hch1 h'
    exact e1.trans e2

/-- **The chain from genesis of a tip is determined by its hash while the tip stays in the
    tree.**  Let `c` be a reachable configuration and `msgs` any messages (heartbeats with any
    budget — accepting blocks, ingesting, pausing —, replies, calls, `set_config`s, upgrades) under
    the environment assumption.  If the block with hash `T` is in the tree of unstable blocks of
    `c`, of `run c msgs` and of every configuration in between, then the chain from genesis to
    `T` (ghost followed by the root path of `T`) is the same at both ends.

    This is the hypothesis `hsame` of `C06.old_token_in_new_state` and its lifts.  "In the tree
    at both ends" alone would not do: see `both_ends_not_sufficient` in `Props/C06ChainExample.lean`. -/
theorem chain_from_genesis_stable {c : Cfg} (hr : FullReachable c.1 c.2) (msgs : List (Env × Msg))
    (ht : TrustedRun c msgs) (T : Nat) (hstay : TipStays T c msgs)
    (chain sib chain' sib' : List CBlock)
    (hroot : Tree.chainWithTip CBlock.hash T c.1.st.unstable.tree = some (chain, sib))
    (hroot' : Tree.chainWithTip CBlock.hash T (run c msgs).1.st.unstable.tree = some (chain', sib')) :
    c.2 ++ chain.map (·.blk) = (run c msgs).2 ++ chain'.map (·.blk) :=
  run_fullChain_same msgs c hr ht T hstay _ _ (fullChain_of_root hroot) (fullChain_of_root hroot')

/-- the hashes of the ghost and of the tree are pairwise distinct, paused or not -/
theorem inv2_hashes_nodup {s : State} {G : List Block} (h2 : Inv2 s G) :
    ((G ++ s.unstable.tree.blocks.map (·.blk)).map (·.hash)).Nodup := by
  rcases h2 with hA | ⟨s0, A, B, hA, hP⟩
  · exact hA.invU.inv.hashesNodup
  · rw [hP.unstable]; exact hA.invU.inv.hashesNodup

/-- **An equivalent, seemingly weaker form of the hypothesis**: it is enough that `T` is in the
    tree at the end and *in the ghost or in the tree* of every configuration before — a block
    that became stable never returns to the tree (the hashes of `G ++ tree` are pairwise distinct
    and the ghost only grows), so "in the ghost" is impossible. -/
theorem tipStays_of_weak {c : Cfg} (hr : FullReachable c.1 c.2) (msgs : List (Env × Msg))
    (ht : TrustedRun c msgs) (T : Nat)
    (hweak : ∀ k, k ≤ msgs.length → InTree T (run c (msgs.take k)).1.st ∨
      T ∈ (run c (msgs.take k)).2.map (·.hash))
    (hend : InTree T (run c msgs).1.st) : TipStays T c msgs := by
  intro k hk
  rcases hweak k hk with h | h
  · exact h
  · exfalso
    have hsplit : run c msgs = run (run c (msgs.take k)) (msgs.drop k) := by
      rw [← run_append, List.take_append_drop]
    have htr := (trustedRun_append c (msgs.take k) (msgs.drop k)).mp
      (by rw [List.take_append_drop]; exact ht)
    have hpre := run_ghost_prefix (msgs.drop k) (run c (msgs.take k)) htr.2
    rw [← hsplit] at hpre
    have hG : T ∈ (run c msgs).2.map (·.hash) := by
      obtain ⟨g, hg, rfl⟩ := List.mem_map.mp h
      exact List.mem_map.mpr ⟨g, hpre.subset hg, rfl⟩
    obtain ⟨ch, hch⟩ := (inTree_iff_fullChain _ (run c msgs).2 T).mp hend
    have hT := mem_of_fullChain hch
    have hnd := inv2_hashes_nodup (fullReachable_inv2 (run_reachable msgs c hr ht))
    rw [List.map_append, List.nodup_append] at hnd
    exact hnd.2.2 T hG T (by rw [List.map_map]; exact hT) rfl

/-- schedules that do not extend the ghost keep every block of the tree, with its chain -/
theorem run_fullChain_ghost_fixed : ∀ (msgs : List (Env × Msg)) (c : Cfg), FullReachable c.1 c.2 →
    TrustedRun c msgs → (run c msgs).2 = c.2 → ∀ T ch, fullChain c.1.st c.2 T = some ch →
      fullChain (run c msgs).1.st (run c msgs).2 T = some ch
  | [], _, _, _, _, _, _, h => h
  | (env, m) :: rest, c, hr, ht, hg, T, ch, h => by
    obtain ⟨g1, g2⟩ := run_ghost_fixed ht hg
    have h1 := stepMsg_chain_ghost_fixed env c m ht.1 (fullReachable_inv2 hr) g1 T ch h
    exact run_fullChain_ghost_fixed rest (stepMsg env c m)
      (FullReachable.step c.1 c.2 env m hr ht.1) ht.2 g2 T ch h1

/-- **While the ghost does not grow, nothing leaves the tree and no chain changes**: if the
    messages `msgs` do not extend the ghost (no block became stable), a tip `T` of the tree of `c`
    is still in the tree of `run c msgs`, and its root path there carries the same blocks. -/
theorem chain_kept_ghost_fixed {c : Cfg} (hr : FullReachable c.1 c.2) (msgs : List (Env × Msg))
    (ht : TrustedRun c msgs) (hg : (run c msgs).2 = c.2) (T : Nat) (chain sib : List CBlock)
    (hroot : Tree.chainWithTip CBlock.hash T c.1.st.unstable.tree = some (chain, sib)) :
    ∃ chain' sib',
      Tree.chainWithTip CBlock.hash T (run c msgs).1.st.unstable.tree = some (chain', sib') ∧
      chain'.map (·.blk) = chain.map (·.blk) := by
  have h := run_fullChain_ghost_fixed msgs c hr ht hg T _ (fullChain_of_root hroot)
  obtain ⟨chain', sib', h1, h2⟩ := (fullChain_some_iff _ _ _ _).mp h
  rw [hg] at h2
  exact ⟨chain', sib', h1, (List.append_cancel_left h2).symm⟩

/-! ### The same for `Spec.step2` / `Spec.Reachable2` -/

/-- `T` is in the tree of every configuration of the run of `ops` from `sg` -/
def TipStays2 (bound : Unstable.BoundFn) (T : Nat) (sg : State × List Block) (ops : List Op) : Prop :=
  ∀ k, k ≤ ops.length → ∀ sg', runOps2 bound sg (ops.take k) = some sg' → InTree T sg'.1

theorem runOps2_fullChain_same (bound : Unstable.BoundFn) (T : Nat) :
    ∀ (ops : List Op) (sg sg' : State × List Block), Inv2 sg.1 sg.2 → DomainAll2 bound sg ops →
      runOps2 bound sg ops = some sg' → TipStays2 bound T sg ops → ∀ ch ch',
        fullChain sg.1 sg.2 T = some ch → fullChain sg'.1 sg'.2 T = some ch' → ch = ch'
  | [], sg, sg', _, _, hrun, _, ch, ch', h, h' => by
    simp only [runOps2, Option.some.injEq] at hrun
    subst hrun
    rw [h] at h'
    exact Option.some.inj h'
  | o :: ops, sg, sg', h2, hd, hrun, hs, ch, ch', h, h' => by
    simp only [runOps2] at hrun
    cases hstep : step2 bound sg o with
    | none => rw [hstep] at hrun; cases hrun
    | some sg1 =>
      rw [hstep] at hrun
      simp only [Option.bind_some] at hrun
      have hin : InTree T sg1.1 := hs 1 (by simp) sg1 (by simp [runOps2, hstep])
      obtain ⟨ch1, hch1⟩ := (inTree_iff_fullChain _ sg1.2 T).mp hin
      have h21 : Inv2 sg1.1 sg1.2 := step2_preserves_inv2 bound sg.1 sg.2 o sg1.1 sg1.2 h2 hd.1 hstep
      have e1 : ch = ch1 := step2_chain_same bound h2 hd.1 hstep T ch ch1 h hch1
      have hs1 : TipStays2 bound T sg1 ops := by
        intro k hk sg'' hk'
        exact hs (k + 1) (by simp only [List.length_cons]; omega) sg''
          (by simp [runOps2, hstep, hk'])
      exact e1.trans (runOps2_fullChain_same bound T ops sg1 sg' h21 (hd.2 sg1 hstep) hrun hs1
        ch1 ch' hch1 h')

/-- **`Spec.Reachable2`: the chain from genesis of a tip that stays in the tree.**  From a
    reachable state, along any operations of the extended direct-feed system in their domains
    (pushes, ingestions that complete or pause, `set_config`, upgrades, announced headers): if
    `T` is in the tree in every configuration of the run, its chain from genesis is the same at
    both ends. -/
theorem reachable2_chain_same {bound : Unstable.BoundFn} {s s' : State} {G G' : List Block}
    (hr : Reachable2 bound s G) (ops : List Op) (hd : DomainAll2 bound (s, G) ops)
    (hrun : runOps2 bound (s, G) ops = some (s', G')) (T : Nat)
    (hstay : TipStays2 bound T (s, G) ops) (chain sib chain' sib' : List CBlock)
    (hroot : Tree.chainWithTip CBlock.hash T s.unstable.tree = some (chain, sib))
    (hroot' : Tree.chainWithTip CBlock.hash T s'.unstable.tree = some (chain', sib')) :
    G ++ chain.map (·.blk) = G' ++ chain'.map (·.blk) :=
  runOps2_fullChain_same bound T ops (s, G) (s', G') (reachable2_inv2 hr) hd hrun hstay _ _
    (fullChain_of_root hroot) (fullChain_of_root hroot')

/-- **`Spec.Reachable2`, the syntactic form**: if no block with hash `T` is pushed by `ops` and
    `T` is in the tree at the end, then `T` was in the tree at the start (and all along), with the
    same chain from genesis. -/
theorem reachable2_chain_back {bound : Unstable.BoundFn} {s s' : State} {G G' : List Block}
    (hr : Reachable2 bound s G) (ops : List Op) (hd : DomainAll2 bound (s, G) ops)
    (hrun : runOps2 bound (s, G) ops = some (s', G')) (T : Nat)
    (hno : ∀ b, Op.push b ∈ ops → b.hash ≠ T) (chain' sib' : List CBlock)
    (hroot' : Tree.chainWithTip CBlock.hash T s'.unstable.tree = some (chain', sib')) :
    ∃ chain sib, Tree.chainWithTip CBlock.hash T s.unstable.tree = some (chain, sib) ∧
      G ++ chain.map (·.blk) = G' ++ chain'.map (·.blk) := by
  have hfr := frameRun_of_runOps2 bound ops (s, G) (s', G') hd hrun
  have hnp : NoPushOf T ops := by
    intro o ho hp
    cases o with
    | push b => exact hno b ho hp
    | _ => exact hp
  have := frameRun_chain_back hfr T (reachable2_inv2 hr) hnp _ (fullChain_of_root hroot')
  obtain ⟨chain, sib, h1, h2⟩ := (fullChain_some_iff _ _ _ _).mp this
  exact ⟨chain, sib, h1, h2.symm⟩

/-! ## 2. The cross-state theorems without `hsame` -/

/-- **C06 across messages, `hsame` proved** (`FullCor.c06_old_token_in_new_state` with the
    hypothesis "the chain is the same" replaced by "the tip stays in the tree"): let `c` be
    reachable and `c' = run c msgs`.  If the tip `T` named by a token is in the tree of every
    configuration from `c` to `c'`, the complete answers `all`, `all'` for `T` in `c` and `c'` are
    permutations of the same reference ledger list, and a token issued in `c` for an element `x`
    of `all` designates an element of `all'` in `c'`: the page returned there starts at `x`.  The
    element ORDER may differ if the ghost grew in between (finding F11); if it did not, see
    `same_answer_ghost_fixed`. -/
theorem c06_old_token_in_new_state' {c : Cfg} (hr : FullReachable c.1 c.2)
    (msgs : List (Env × Msg)) (ht : TrustedRun c msgs) (T : Nat) (hstay : TipStays T c msgs)
    (chain sib chain' sib' : List CBlock)
    (hroot : Tree.chainWithTip CBlock.hash T c.1.st.unstable.tree = some (chain, sib))
    (hroot' : Tree.chainWithTip CBlock.hash T (run c msgs).1.st.unstable.tree = some (chain', sib'))
    (hH' : (run c msgs).2.length + chain'.length ≤ 2 ^ 32) (hR' : TxRange (run c msgs).2)
    (a : Addr) (limit : Nat) :
    ∃ all all' : List Utxo, all.Perm (ledgerFor a (c.2 ++ chain.map (·.blk))) ∧
      all'.Perm (ledgerFor a (c.2 ++ chain.map (·.blk))) ∧
      ∀ x ∈ all, ∃ k' r, all'[k']? = some x ∧
        (run c msgs).1.st.getUtxos (.ok a) (.page (some (C06.tokenOf T x))) limit = .ok r ∧
        r.utxos = (all'.drop k').take limit ∧ r.tipHash = T ∧
        r.nextPage = (all'[k' + limit]?).map (C06.tokenOf T) :=
  FullCor.c06_old_token_in_new_state hr msgs ht T chain sib chain' sib' hroot hroot'
    (chain_from_genesis_stable hr msgs ht T hstay chain sib chain' sib' hroot hroot') hH' hR' a limit

/-- **C06 across operations of `Spec.Reachable2`, `hsame` proved**
    (`ReachAll.old_token_in_new_state` for two states of one history). -/
theorem old_token_in_new_state2 {bound : Unstable.BoundFn} {s s' : State} {G G' : List Block}
    (hr : Reachable2 bound s G) (ops : List Op) (hd : DomainAll2 bound (s, G) ops)
    (hrun : runOps2 bound (s, G) ops = some (s', G')) (T : Nat)
    (hstay : TipStays2 bound T (s, G) ops) (chain sib chain' sib' : List CBlock)
    (hroot : Tree.chainWithTip CBlock.hash T s.unstable.tree = some (chain, sib))
    (hroot' : Tree.chainWithTip CBlock.hash T s'.unstable.tree = some (chain', sib'))
    (hH' : G'.length + chain'.length ≤ 2 ^ 32) (hR' : TxRange G') (a : Addr) (limit : Nat) :
    ∃ all all' : List Utxo, all.Perm (ledgerFor a (G ++ chain.map (·.blk))) ∧
      all'.Perm (ledgerFor a (G ++ chain.map (·.blk))) ∧
      ∀ x ∈ all, ∃ k' r, all'[k']? = some x ∧
        s'.getUtxos (.ok a) (.page (some (C06.tokenOf T x))) limit = .ok r ∧
        r.utxos = (all'.drop k').take limit ∧ r.tipHash = T ∧
        r.nextPage = (all'[k' + limit]?).map (C06.tokenOf T) :=
  ReachAll.old_token_in_new_state hr
    (runOps2_reachable2 ops (s, G) (s', G') hr hd hrun) T chain sib chain' sib' hroot hroot'
    (reachable2_chain_same hr ops hd hrun T hstay chain sib chain' sib' hroot hroot') hH' hR' a limit

/-! ## 3. Same ghost ⇒ same order; multi-page walks across state changes -/

/-- **What a client observes of a complete ordered answer `all`** for address `a` and tip `T` in
    state `st`: for every `limit`, the request carrying the token of `all[k]` returns
    `(all.drop k).take limit`, names `T` at height `height`, and carries the token of
    `all[k + limit]` (none at the end). -/
def ServesPages (st : State) (a : Addr) (T height : Nat) (all : List Utxo) : Prop :=
  ∀ limit k x, all[k]? = some x →
    ∃ r, st.getUtxos (.ok a) (.page (some (C06.tokenOf T x))) limit = .ok r ∧
      r.utxos = (all.drop k).take limit ∧
      r.nextPage = (all[k + limit]?).map (C06.tokenOf T) ∧
      r.tipHash = T ∧ r.tipHeight = height

/-- `ServesPages` determines the list within its permutation class: there is only one order in
    which a state serves the elements of the answer. -/
theorem servesPages_unique {st : State} {a : Addr} {T h1 h2 : Nat} {all1 all2 : List Utxo}
    (hp : all1.Perm all2) (hs1 : ServesPages st a T h1 all1) (hs2 : ServesPages st a T h2 all2) :
    all1 = all2 := by
  cases h : all1 with
  | nil => rw [h] at hp; exact hp.nil_eq
  | cons x rest =>
    have hx1 : all1[0]? = some x := by rw [h]; rfl
    have hx2 : x ∈ all2 := hp.subset (by rw [h]; exact List.mem_cons_self)
    obtain ⟨k, hk⟩ := List.getElem?_of_mem hx2
    obtain ⟨r1, hr1, hu1, _⟩ := hs1 all1.length 0 x hx1
    obtain ⟨r2, hr2, hu2, _⟩ := hs2 all1.length k x hk
    rw [hr1] at hr2
    cases hr2
    rw [hu1] at hu2
    simp only [List.drop_zero, List.take_length] at hu2
    have hlen := hp.length_eq
    have hlt : k < all2.length := (List.getElem?_eq_some_iff.mp hk).1
    have hl2 := congrArg List.length hu2
    simp only [List.length_take, List.length_drop] at hl2
    have hk0 : k = 0 := by omega
    subst hk0
    rw [← h, hu2, List.drop_zero, hlen, List.take_length]

/-- `all` is the complete ordered answer of configuration `c` for address `a` and the tip `T`
    whose root path carries the blocks `p`: the list `AddressUtxoSet::into_iter` yields in the
    state whose answers `c` gives (`c` itself, or — while a block is partially ingested — the
    state before that ingestion began) -/
def AnswerAt (c : Cfg) (a : Addr) (T : Nat) (p : List Block) (all : List Utxo) : Prop :=
  ∃ s0 chain sib, InvAll s0 c.2 ∧ SameView c.1.st s0 ∧
    Tree.chainWithTip CBlock.hash T s0.unstable.tree = some (chain, sib) ∧
    chain.map (·.blk) = p ∧ all = resultList s0 c.2 a chain

theorem answerAt_exists {c : Cfg} (hr : FullReachable c.1 c.2) (a : Addr) (T : Nat)
    (chain sib : List CBlock)
    (hroot : Tree.chainWithTip CBlock.hash T c.1.st.unstable.tree = some (chain, sib)) :
    ∃ all, AnswerAt c a T (chain.map (·.blk)) all := by
  obtain ⟨s0, hA, hV, _⟩ := fullReachable_view hr
  rw [hV.unstable] at hroot
  exact ⟨_, s0, chain, sib, hA, hV, hroot, rfl, rfl⟩

theorem answerAt_pathCtx {s0 : State} {G : List Block} (hA : InvAll s0 G) {T : Nat}
    {chain sib : List CBlock}
    (hroot : Tree.chainWithTip CBlock.hash T s0.unstable.tree = some (chain, sib)) :
    PathCtx s0 G chain :=
  PathCtx.of_rootPath hA.invU.inv T chain sib hroot
    (hA.invU.unique T (chain.map (·.blk)) (by simp [pathBlocks, hroot])) chain [] (by simp)

/-- the answer is a permutation of the reference ledger of the address at the chain from genesis
    to the tip -/
theorem answerAt_perm {c : Cfg} {a : Addr} {T : Nat} {p : List Block} {all : List Utxo}
    (h : AnswerAt c a T p all) : all.Perm (ledgerFor a (c.2 ++ p)) := by
  obtain ⟨s0, chain, sib, hA, _, hroot, rfl, rfl⟩ := h
  exact (addressUtxos_path hA.invU.inv (answerAt_pathCtx hA hroot) a).2.2.1

/-- the answer is served page by page -/
theorem answerAt_serves {c : Cfg} {a : Addr} {T : Nat} {p : List Block} {all : List Utxo}
    (h : AnswerAt c a T p all) (hH : c.2.length + p.length ≤ 2 ^ 32) (hR : TxRange c.2) :
    ServesPages c.1.st a T (c.2.length + p.length - 1) all := by
  obtain ⟨s0, chain, sib, hA, hV, hroot, rfl, rfl⟩ := h
  intro limit k x hk
  rw [hV.getUtxos]
  rw [List.length_map] at hH ⊢
  exact C06.next_page hA.invU.inv a T chain sib hroot (answerAt_pathCtx hA hroot) hH hR limit k x hk

/-- **The complete ordered answer does not change while the ghost does not grow.** -/
theorem answerAt_run {c : Cfg} (hr : FullReachable c.1 c.2) (msgs : List (Env × Msg))
    (ht : TrustedRun c msgs) (hg : (run c msgs).2 = c.2) (hH : c.2.length ≤ 2 ^ 32)
    (hR : TxRange c.2) {a : Addr} {T : Nat} {p : List Block} {all : List Utxo}
    (h : AnswerAt c a T p all) : AnswerAt (run c msgs) a T p all := by
  obtain ⟨s0, chain, sib, hA, hV, hroot, rfl, rfl⟩ := h
  have hr' := run_reachable msgs c hr ht
  obtain ⟨s0', hA', hV', _⟩ := fullReachable_view hr'
  have hroot0 : Tree.chainWithTip CBlock.hash T c.1.st.unstable.tree = some (chain, sib) := by
    rw [hV.unstable]; exact hroot
  obtain ⟨chain', sib', hroot', hmap⟩ := chain_kept_ghost_fixed hr msgs ht hg T chain sib hroot0
  rw [hV'.unstable] at hroot'
  refine ⟨s0', chain', sib', hA', hV', hroot', hmap, ?_⟩
  rw [hg] at hA' ⊢
  exact (resultList_eq hA.invU.inv hA'.invU.inv (answerAt_pathCtx hA hroot)
    (answerAt_pathCtx hA' hroot') hmap hH hR a).symm

/-- **Same ghost ⇒ same answer, in the same ORDER.**  Let `c` be reachable, `T` a tip of its tree
    with root path `chain`, and `msgs` any messages under the environment assumption that do not
    extend the ghost (`(run c msgs).2 = c.2`: no block finished stabilising — blocks may be
    accepted, forks may grow, the controller may reconfigure, the canister may be upgraded, an
    ingestion may run and pause).  Then `T` is still in the tree, and there is ONE list `all` — a
    permutation of the reference ledger of `a` at `c.2 ++ chain` — that both configurations serve
    page by page (`ServesPages`, which pins the order down: `servesPages_unique`).

    Across a stabilisation the order of the answer can change (finding F11, `C06.f11_*`: stable
    entries of one transaction come in little-endian `vout` byte order, unstable ones
    numerically); that case is excluded by `hg`. -/
theorem same_answer_ghost_fixed {c : Cfg} (hr : FullReachable c.1 c.2) (msgs : List (Env × Msg))
    (ht : TrustedRun c msgs) (hg : (run c msgs).2 = c.2) (T : Nat) (chain sib : List CBlock)
    (hroot : Tree.chainWithTip CBlock.hash T c.1.st.unstable.tree = some (chain, sib))
    (hH : c.2.length + chain.length ≤ 2 ^ 32) (hR : TxRange c.2) (a : Addr) :
    ∃ (all : List Utxo) (chain' sib' : List CBlock),
      Tree.chainWithTip CBlock.hash T (run c msgs).1.st.unstable.tree = some (chain', sib') ∧
      chain'.map (·.blk) = chain.map (·.blk) ∧
      all.Perm (ledgerFor a (c.2 ++ chain.map (·.blk))) ∧
      ServesPages c.1.st a T (c.2.length + chain.length - 1) all ∧
      ServesPages (run c msgs).1.st a T (c.2.length + chain.length - 1) all := by
  obtain ⟨all, hall⟩ := answerAt_exists hr a T chain sib hroot
  obtain ⟨chain', sib', hroot', hmap⟩ := chain_kept_ghost_fixed hr msgs ht hg T chain sib hroot
  have hall' := answerAt_run hr msgs ht hg (by omega) hR hall
  have hlen : (chain.map (·.blk)).length = chain.length := List.length_map _
  have s1 := answerAt_serves hall (by rw [hlen]; exact hH) hR
  have s2 := answerAt_serves hall' (by rw [hg, hlen]; exact hH) (by rw [hg]; exact hR)
  rw [hlen] at s1
  rw [hg, hlen] at s2
  exact ⟨all, chain', sib', hroot', hmap, answerAt_perm hall, s1, s2⟩

/-! ### Walks -/

/-- **A client's multi-page walk across state changes**: follow the `next_page` tokens; before
    each request the canister processes the messages of the next gap (`gaps` also bounds the
    number of requests). -/
def walk (a : Addr) (limit : Nat) :
    Cfg → List (List (Env × Msg)) → Option (Nat × Nat × OutPoint) → Option (List UtxosResponse)
  | _, _, none => some []
  | _, [], some _ => none
  | c, msgs :: gaps, some p =>
    match (run c msgs).1.st.getUtxos (.ok a) (.page (some p)) limit with
    | .ok r => (walk a limit (run c msgs) gaps r.nextPage).map (r :: ·)
    | _ => none

/-- every gap satisfies the environment assumption where it runs and leaves the ghost unchanged
    (no block finishes stabilising during the walk) -/
def QuietGaps : Cfg → List (List (Env × Msg)) → Prop
  | _, [] => True
  | c, msgs :: gaps => TrustedRun c msgs ∧ (run c msgs).2 = c.2 ∧ QuietGaps (run c msgs) gaps

/-- the walk from the token of `all[k]` returns `all.drop k` -/
theorem walk_from (a : Addr) (T : Nat) (p : List Block) (all : List Utxo) (limit : Nat)
    (hl : 1 ≤ limit) :
    ∀ (gaps : List (List (Env × Msg))) (c : Cfg) (k : Nat), FullReachable c.1 c.2 →
      QuietGaps c gaps → AnswerAt c a T p all → c.2.length + p.length ≤ 2 ^ 32 → TxRange c.2 →
      all.length - k ≤ gaps.length →
      ∃ rs, walk a limit c gaps ((all[k]?).map (C06.tokenOf T)) = some rs ∧
        rs.flatMap (·.utxos) = all.drop k ∧
        ∀ r ∈ rs, r.utxos.length ≤ limit ∧ r.utxos ≠ [] ∧ r.tipHash = T ∧
          r.tipHeight = c.2.length + p.length - 1
  | [], c, k, _, _, _, _, _, hk => by
    have hge : all.length ≤ k := by simp only [List.length_nil] at hk; omega
    rw [List.getElem?_eq_none hge]
    refine ⟨[], rfl, ?_, by simp⟩
    rw [List.drop_eq_nil_of_le hge]; rfl
  | msgs :: gaps, c, k, hr, hq, hA, hH, hR, hk => by
    cases hx : all[k]? with
    | none =>
      have hge : all.length ≤ k := List.getElem?_eq_none_iff.mp hx
      refine ⟨[], rfl, ?_, by simp⟩
      rw [List.drop_eq_nil_of_le hge]; rfl
    | some x =>
      obtain ⟨ht, hg, hq'⟩ := hq
      have hlt : k < all.length := (List.getElem?_eq_some_iff.mp hx).1
      have hr' := run_reachable msgs c hr ht
      have hA' := answerAt_run hr msgs ht hg (by omega) hR hA
      have hH' : (run c msgs).2.length + p.length ≤ 2 ^ 32 := by rw [hg]; exact hH
      have hR' : TxRange (run c msgs).2 := by rw [hg]; exact hR
      obtain ⟨r, hreq, hu, hn, htip, hh⟩ := answerAt_serves hA' hH' hR' limit k x hx
      obtain ⟨rs, hrs, hcat, hall⟩ := walk_from a T p all limit hl gaps (run c msgs) (k + limit)
        hr' hq' hA' hH' hR' (by simp only [List.length_cons] at hk; omega)
      refine ⟨r :: rs, ?_, ?_, ?_⟩
      · simp only [Option.map_some, walk, hreq, hn, hrs]
      · simp only [List.flatMap_cons, hcat, hu]
        rw [← List.drop_drop, List.take_append_drop]
      · intro r' hr''
        rcases List.mem_cons.mp hr'' with rfl | hm
        · refine ⟨by rw [hu]; simp only [List.length_take]; omega, ?_, htip, by rw [hh, hg]⟩
          rw [hu]
          intro hnil
          have := congrArg List.length hnil
          simp only [List.length_take, List.length_drop, List.length_nil] at this
          omega
        · obtain ⟨h1, h2, h3, h4⟩ := hall r' hm
          exact ⟨h1, h2, h3, by rw [h4, hg]⟩

/-- **Concatenation across state changes.**  Let `c` be reachable, `T` a tip of its tree with
    root path `chain`, `all` the complete ordered answer of `c` for `a` and `T` (`ServesPages`).
    A client that follows the `next_page` tokens from the token of `all[k]`, while between any two
    requests arbitrary messages run that leave the ghost unchanged (`QuietGaps`; they keep `T` in
    the tree automatically, `chain_kept_ghost_fixed`), receives non-empty pages of at most
    `limit` elements, all naming the tip `T` at the same height, which concatenate to exactly
    `all.drop k` — the answer of the FIRST configuration, in its order. -/
theorem walk_concat {c : Cfg} (hr : FullReachable c.1 c.2) (T : Nat) (chain sib : List CBlock)
    (hroot : Tree.chainWithTip CBlock.hash T c.1.st.unstable.tree = some (chain, sib))
    (hH : c.2.length + chain.length ≤ 2 ^ 32) (hR : TxRange c.2) (a : Addr) (limit : Nat)
    (hl : 1 ≤ limit) :
    ∃ all : List Utxo, all.Perm (ledgerFor a (c.2 ++ chain.map (·.blk))) ∧
      ServesPages c.1.st a T (c.2.length + chain.length - 1) all ∧
      ∀ (gaps : List (List (Env × Msg))) (k : Nat), QuietGaps c gaps →
        all.length - k ≤ gaps.length →
        ∃ rs, walk a limit c gaps ((all[k]?).map (C06.tokenOf T)) = some rs ∧
          rs.flatMap (·.utxos) = all.drop k ∧
          ∀ r ∈ rs, r.utxos.length ≤ limit ∧ r.utxos ≠ [] ∧ r.tipHash = T ∧
            r.tipHeight = c.2.length + chain.length - 1 := by
  obtain ⟨all, hall⟩ := answerAt_exists hr a T chain sib hroot
  have hlen : (chain.map (·.blk)).length = chain.length := List.length_map _
  have s1 := answerAt_serves hall (by rw [hlen]; exact hH) hR
  rw [hlen] at s1
  refine ⟨all, answerAt_perm hall, s1, ?_⟩
  intro gaps k hq hk
  have := walk_from a T (chain.map (·.blk)) all limit hl gaps c k hr hq hall
    (by rw [hlen]; exact hH) hR hk
  rw [hlen] at this
  exact this

/-- **C06, all pages, across state changes** (`FullCor.c06_all_pages` with messages between the
    requests): the first page (filter `min_confirmations = c0`; `c0 = 0` is the unfiltered
    request) is taken in configuration `c`; before each further request the next gap of messages
    runs, none of which extends the ghost.  The pages concatenate to one list `all`, a permutation
    of the reference ledger of the address at `c.2 ++ applied prefix` of the FIRST configuration;
    every page has at most `limit` elements and names the same tip at the same height. -/
theorem c06_all_pages_across {c : Cfg} (hr : FullReachable c.1 c.2) (hR : TxRange c.2) (a : Addr)
    (c0 limit : Nat) (hl : 1 ≤ limit) (hc : c0 ≤ c.1.st.unstable.mainChain.length)
    (hH : c.2.length + c.1.st.unstable.mainChain.length ≤ 2 ^ 32) :
    let applied := stablePrefix (Tree.levels CBlock.hash c.1.st.unstable.tree) c0
      c.1.st.unstable.mainChain 0
    ∃ all : List Utxo, all.Perm (ledgerFor a (c.2 ++ applied.map (·.blk))) ∧
      ∀ gaps : List (List (Env × Msg)), QuietGaps c gaps → all.length ≤ gaps.length + limit →
        ∃ r0 rs tip, applied.getLast? = some tip ∧
          c.1.st.getUtxos (.ok a) (.minConf c0) limit = .ok r0 ∧
          walk a limit c gaps r0.nextPage = some rs ∧
          (r0 :: rs).flatMap (·.utxos) = all ∧
          ∀ r ∈ r0 :: rs, r.utxos.length ≤ limit ∧ r.tipHash = tip.hash ∧
            r.tipHeight = c.2.length + applied.length - 1 := by
  obtain ⟨s0, hA, hV, _⟩ := fullReachable_view hr
  rw [hV.unstable] at hc hH ⊢
  intro applied
  obtain ⟨r0, tip, sib, htip, hroot, hp, hr0, hu0, ht0, hh0, hn0⟩ :=
    C06.first_page hA.invU.inv (InvAll.mainChain_unique hA) a c0 limit hc
  have hlen : applied.length ≤ s0.unstable.mainChain.length := by
    obtain ⟨rest, hrest⟩ := C01.stablePrefix_isPrefix (Tree.levels CBlock.hash s0.unstable.tree) c0
      s0.unstable.mainChain 0
    have := congrArg List.length hrest
    simp only [List.length_append] at this
    show (stablePrefix (Tree.levels CBlock.hash s0.unstable.tree) c0 s0.unstable.mainChain 0).length ≤ _
    omega
  have hall : AnswerAt c a tip.hash (applied.map (·.blk)) (resultList s0 c.2 a applied) :=
    ⟨s0, applied, sib, hA, hV, hroot, rfl, rfl⟩
  refine ⟨resultList s0 c.2 a applied, answerAt_perm hall, ?_⟩
  intro gaps hq hfuel
  have hlm : (applied.map (·.blk)).length = applied.length := List.length_map _
  obtain ⟨rs, hrs, hcat, hpages⟩ := walk_from a tip.hash (applied.map (·.blk))
    (resultList s0 c.2 a applied) limit hl gaps c limit hr hq hall (by rw [hlm]; omega) hR
    (by omega)
  refine ⟨r0, rs, tip, htip, by rw [hV.getUtxos]; exact hr0, by rw [hn0]; exact hrs, ?_, ?_⟩
  · simp only [List.flatMap_cons, hcat, hu0]
    exact List.take_append_drop limit _
  · intro r hr'
    rcases List.mem_cons.mp hr' with rfl | hm
    · exact ⟨by rw [hu0]; simp only [List.length_take]; omega, ht0, hh0⟩
    · obtain ⟨h1, _, h3, h4⟩ := hpages r hm
      exact ⟨h1, h3, by rw [h4, hlm]⟩

end Btc.Props.C06Chain
