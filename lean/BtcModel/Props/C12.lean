import BtcModel.Lemmas.Merkle

/-
  C12 — block structure validation: merkle root, coinbase first, no duplicate transactions.

  "A block is accepted only if it has at least one transaction, its first transaction is a
   coinbase, the merkle root of its transaction ids equals the header's, and no two of its
   transactions share an id; in particular every mutation of a valid block that repeats
   transactions while preserving the merkle root (CVE-2012-2459) is rejected, and every valid
   block is accepted."

  A transaction is a triple `(txid, ntxid, isCoinbase)`; all statements hold for an ARBITRARY
  two-to-one hash `H` (no collision-freeness or any other assumption).
-/
namespace Btc.Props.C12

open Btc.Merkle Btc.State

/-- a transaction as seen by `validate_block` -/
abbrev TxV := Nat × Nat × Bool
abbrev TxV.txid (t : TxV) : Nat := t.1
abbrev TxV.ntxid (t : TxV) : Nat := t.2.1
abbrev TxV.isCoinbase (t : TxV) : Bool := t.2.2

/-- The acceptance rules of the property text. -/
structure Valid (H : Nat → Nat → Nat) (root : Nat) (txs : List TxV) : Prop where
  nonempty : txs ≠ []
  coinbaseFirst : ∀ t, txs.head? = some t → t.isCoinbase = true
  merkle : merkleRoot H (txs.map TxV.txid) = some root
  unique : (txs.map TxV.ntxid).Nodup

variable (H : Nat → Nat → Nat) (root : Nat)

/-! ### 1. accept ⇔ rules, and the precedence of the errors -/

theorem validateBlockBody_cons (t : TxV) (rest : List TxV) :
    validateBlockBody H root (t :: rest) =
      if t.isCoinbase = false then some .invalidCoinbase
      else if merkleRoot H ((t :: rest).map TxV.txid) ≠ some root then some .invalidMerkleRoot
      else if ¬ ((t :: rest).map TxV.ntxid).Nodup then some .duplicateTransactions
      else none := by
  obtain ⟨a, b, c⟩ := t
  simp only [validateBlockBody, ← nodupNat_iff]
  cases c <;> simp

/-- **C12 (accept ⇔ rules).** -/
theorem accept_iff (txs : List TxV) :
    validateBlockBody H root txs = none ↔
      txs ≠ [] ∧ (∀ t, txs.head? = some t → t.isCoinbase = true) ∧
        merkleRoot H (txs.map TxV.txid) = some root ∧ (txs.map TxV.ntxid).Nodup := by
  cases txs with
  | nil => simp [validateBlockBody]
  | cons t rest =>
    rw [validateBlockBody_cons]
    simp only [List.head?_cons, Option.some.injEq, forall_eq', ne_eq, reduceCtorEq,
      not_false_eq_true, true_and]
    split
    · simp_all
    · split
      · simp_all
      · split <;> simp_all

theorem accept_iff_valid (txs : List TxV) :
    validateBlockBody H root txs = none ↔ Valid H root txs := by
  rw [accept_iff]
  exact ⟨fun ⟨a, b, c, d⟩ => ⟨a, b, c, d⟩, fun ⟨a, b, c, d⟩ => ⟨a, b, c, d⟩⟩

/-- `NoTransactions` exactly for the empty transaction list. -/
theorem noTransactions_iff (txs : List TxV) :
    validateBlockBody H root txs = some .noTransactions ↔ txs = [] := by
  cases txs with
  | nil => simp [validateBlockBody]
  | cons t rest =>
    rw [validateBlockBody_cons]
    split
    · simp
    · split
      · simp
      · split <;> simp

/-- `InvalidCoinbase` exactly when there is a first transaction and it is not a coinbase
    (whatever the merkle root and the duplicates are). -/
theorem invalidCoinbase_iff (txs : List TxV) :
    validateBlockBody H root txs = some .invalidCoinbase ↔
      ∃ t rest, txs = t :: rest ∧ t.isCoinbase = false := by
  cases txs with
  | nil => simp [validateBlockBody]
  | cons t rest =>
    rw [validateBlockBody_cons]
    split
    · simp_all
    · split
      · simp_all
      · split <;> simp_all

/-- `InvalidMerkleRoot` exactly when the first transaction is a coinbase and the computed root
    differs from the header's (whatever the duplicates are). -/
theorem invalidMerkleRoot_iff (txs : List TxV) :
    validateBlockBody H root txs = some .invalidMerkleRoot ↔
      (∃ t rest, txs = t :: rest ∧ t.isCoinbase = true) ∧
        merkleRoot H (txs.map TxV.txid) ≠ some root := by
  cases txs with
  | nil => simp [validateBlockBody]
  | cons t rest =>
    rw [validateBlockBody_cons]
    split
    · simp_all
    · split
      · simp_all
      · split <;> simp_all

/-- `DuplicateTransactions` exactly when the first three checks pass and two transactions share
    an ntxid. -/
theorem duplicateTransactions_iff (txs : List TxV) :
    validateBlockBody H root txs = some .duplicateTransactions ↔
      (∃ t rest, txs = t :: rest ∧ t.isCoinbase = true) ∧
        merkleRoot H (txs.map TxV.txid) = some root ∧ ¬ (txs.map TxV.ntxid).Nodup := by
  cases txs with
  | nil => simp [validateBlockBody]
  | cons t rest =>
    rw [validateBlockBody_cons]
    split
    · simp_all
    · split
      · simp_all
      · split <;> simp_all

/-- The header's root can only be matched by a non-empty transaction list, and every non-empty
    list has a root: `InvalidMerkleRoot` never comes from an undefined root of a block that
    passed the first two checks. -/
theorem merkleRoot_defined (txs : List TxV) (h : txs ≠ []) :
    ∃ r, merkleRoot H (txs.map TxV.txid) = some r := by
  have := merkleRoot_isSome H (txs.map TxV.txid) (by simpa using h)
  exact Option.isSome_iff_exists.mp this

/-- The model of `validate_block` in `Model/Canister.lean` (which takes `check_merkle_root()` as
    a given flag) is this function when the flag is computed by `merkleRoot`. -/
theorem validateBody_eq (b : Block) (h : b.merkleOk = checkMerkleRoot H root b.txs) :
    validateBody b = validateBlockBody H root (b.txs.map txView) := by
  unfold validateBody validateBlockBody
  cases hb : b.txs with
  | nil => rfl
  | cons t rest =>
    simp only [List.map_cons, h, checkMerkleRoot, hb, List.map_map, txView]
    rfl

/-! ### 2. The CVE-2012-2459 family exists for every hash function -/

/-- **First level.** For every `H` and every list of an odd number `≥ 3` of leaves, repeating
    the last leaf preserves the merkle root. (For a single leaf it does not:
    `merkleRoot H [a] = some a` but `merkleRoot H [a, a] = some (H a a)`.) -/
theorem cve_first_level (l : List Nat) (hodd : l.length % 2 = 1) (h3 : 3 ≤ l.length) :
    merkleRoot H (l ++ l.drop (l.length - 1)) = merkleRoot H l :=
  merkleRoot_dup_last H l hodd h3

/-- the same, with the last leaf named -/
theorem cve_first_level' (l : List Nat) (x : Nat) (heven : l.length % 2 = 0) (h2 : 2 ≤ l.length) :
    merkleRoot H (l ++ [x, x]) = merkleRoot H (l ++ [x]) := by
  have := cve_first_level H (l ++ [x]) (by simp; omega) (by simp; omega)
  simpa using this

/-- **All levels.** If the number of leaves is `2^j * m` with `m` odd and `m ≥ 3`, then appending
    a copy of the last `2^j` leaves preserves the merkle root. -/
theorem cve_all_levels (j m : Nat) (l : List Nat) (hlen : l.length = 2 ^ j * m)
    (hodd : m % 2 = 1) (h3 : 3 ≤ m) :
    merkleRoot H (dupTail (2 ^ j) l) = merkleRoot H l :=
  merkleRoot_dupTail H j m l hlen hodd h3

/-- The mutated list is a different, longer list: the merkle root (over any `H`) is not
    injective on lists of leaves. -/
theorem cve_mutation_differs (j m : Nat) (l : List Nat) (hlen : l.length = 2 ^ j * m)
    (h3 : 3 ≤ m) : (dupTail (2 ^ j) l).length = l.length + 2 ^ j ∧ dupTail (2 ^ j) l ≠ l := by
  have hpos : 1 ≤ 2 ^ j := Nat.one_le_two_pow
  have hle : 2 ^ j ≤ l.length := by
    rw [hlen]; exact Nat.le_mul_of_pos_right _ (by omega)
  have hl := dupTail_length (2 ^ j) l hle
  refine ⟨hl, fun e => ?_⟩
  rw [e] at hl
  omega

/-! ### 3. Every such mutation is rejected -/

/-- Any block in which two transactions share an ntxid is rejected. -/
theorem reject_of_dup_ntxid (txs : List TxV) (h : ¬ (txs.map TxV.ntxid).Nodup) :
    validateBlockBody H root txs ≠ none := by
  intro hacc
  exact h ((accept_iff H root txs).mp hacc).2.2.2

/-- positional form: two different positions carrying the same ntxid -/
theorem reject_of_same_ntxid_at (txs : List TxV) (i j : Nat) (hij : i < j) (hj : j < txs.length)
    (heq : (txs[i]'(by omega)).ntxid = (txs[j]'hj).ntxid) :
    validateBlockBody H root txs ≠ none := by
  apply reject_of_dup_ntxid
  intro hnd
  have := (List.pairwise_iff_getElem.mp hnd) i j (by simp; omega) (by simpa using hj) hij
  simp only [List.getElem_map] at this
  exact this heq

/-- a block that contains the same transaction twice is rejected -/
theorem reject_of_repeated_tx (txs : List TxV) (h : ¬ txs.Nodup) :
    validateBlockBody H root txs ≠ none := by
  apply reject_of_dup_ntxid
  intro hnd
  exact h (List.Pairwise.of_map TxV.ntxid (fun a b hne hab => hne (congrArg TxV.ntxid hab)) hnd)

/-- more precisely: if the first transaction is a coinbase and the merkle root matches (the
    mutation preserved it), the error is `DuplicateTransactions`. -/
theorem duplicate_error (txs : List TxV) (t : TxV) (rest : List TxV) (hcons : txs = t :: rest)
    (hcb : t.isCoinbase = true) (hroot : merkleRoot H (txs.map TxV.txid) = some root)
    (hdup : ¬ (txs.map TxV.ntxid).Nodup) :
    validateBlockBody H root txs = some .duplicateTransactions :=
  (duplicateTransactions_iff H root txs).mpr ⟨⟨t, rest, hcons, hcb⟩, hroot, hdup⟩

/-- Appending to an accepted block any non-empty list of transactions whose ntxids already occur
    in the block (in particular: copies of transactions of the block) gives a rejected block; the
    error is `InvalidMerkleRoot` or `DuplicateTransactions`. -/
theorem reject_append_copies (txs ext : List TxV) (hacc : validateBlockBody H root txs = none)
    (hne : ext ≠ []) (hext : ∀ x ∈ ext, ∃ y ∈ txs, y.ntxid = x.ntxid) :
    validateBlockBody H root (txs ++ ext) = some .invalidMerkleRoot ∨
      validateBlockBody H root (txs ++ ext) = some .duplicateTransactions := by
  obtain ⟨hne', hcb, _, _⟩ := (accept_iff H root txs).mp hacc
  cases txs with
  | nil => exact absurd rfl hne'
  | cons t rest =>
    have hcb' : t.isCoinbase = true := hcb t rfl
    have hdup : ¬ (((t :: rest) ++ ext).map TxV.ntxid).Nodup := by
      cases ext with
      | nil => exact absurd rfl hne
      | cons x ext' =>
        obtain ⟨y, hy, hyx⟩ := hext x (by simp)
        rw [List.map_append, List.nodup_append]
        rintro ⟨_, _, hdisj⟩
        exact hdisj y.ntxid (List.mem_map.mpr ⟨y, hy, rfl⟩) x.ntxid
          (List.mem_map.mpr ⟨x, by simp, rfl⟩) hyx
    by_cases hroot : merkleRoot H (((t :: rest) ++ ext).map TxV.txid) = some root
    · exact Or.inr (duplicate_error H root _ t (rest ++ ext) rfl hcb' hroot hdup)
    · exact Or.inl ((invalidMerkleRoot_iff H root _).mpr ⟨⟨t, rest ++ ext, rfl, hcb'⟩, hroot⟩)

theorem reject_append_copies' (txs ext : List TxV) (hacc : validateBlockBody H root txs = none)
    (hne : ext ≠ []) (hext : ∀ x ∈ ext, x ∈ txs) :
    validateBlockBody H root (txs ++ ext) ≠ none := by
  rcases reject_append_copies H root txs ext hacc hne (fun x hx => ⟨x, hext x hx, rfl⟩) with h | h <;>
    rw [h] <;> simp

/-- **CVE-2012-2459 is rejected.** Take an accepted block whose transaction count is `2^j * m`,
    `m` odd, `m ≥ 3`, and append a copy of its last `2^j` transactions. The mutated block has the
    same merkle root (so the first three checks pass, for every `H`), and it is rejected with
    `DuplicateTransactions`. -/
theorem cve_2012_2459_rejected (j m : Nat) (txs : List TxV)
    (hacc : validateBlockBody H root txs = none) (hlen : txs.length = 2 ^ j * m)
    (hodd : m % 2 = 1) (h3 : 3 ≤ m) :
    merkleRoot H ((dupTail (2 ^ j) txs).map TxV.txid) = some root ∧
      validateBlockBody H root (dupTail (2 ^ j) txs) = some .duplicateTransactions := by
  obtain ⟨hne', hcb, hroot, _⟩ := (accept_iff H root txs).mp hacc
  have hroot' : merkleRoot H ((dupTail (2 ^ j) txs).map TxV.txid) = some root := by
    rw [dupTail_map, merkleRoot_dupTail H j m _ (by simpa using hlen) hodd h3, hroot]
  refine ⟨hroot', ?_⟩
  have hpos : 1 ≤ 2 ^ j := Nat.one_le_two_pow
  have hle : 2 ^ j ≤ txs.length := by
    rw [hlen]; exact Nat.le_mul_of_pos_right _ (by omega)
  have hextne : txs.drop (txs.length - 2 ^ j) ≠ [] := by
    intro e
    have := congrArg List.length e
    simp only [List.length_drop, List.length_nil] at this
    omega
  rcases reject_append_copies H root txs (txs.drop (txs.length - 2 ^ j)) hacc hextne
      (fun x hx => ⟨x, List.mem_of_mem_drop hx, rfl⟩) with h | h
  · have := ((invalidMerkleRoot_iff H root _).mp h).2
    exact absurd hroot' this
  · exact h

/-- first-level instance: odd count `≥ 3`, the last transaction repeated -/
theorem cve_2012_2459_rejected_first_level (txs : List TxV)
    (hacc : validateBlockBody H root txs = none) (hodd : txs.length % 2 = 1)
    (h3 : 3 ≤ txs.length) :
    merkleRoot H ((dupTail 1 txs).map TxV.txid) = some root ∧
      validateBlockBody H root (dupTail 1 txs) = some .duplicateTransactions := by
  have := cve_2012_2459_rejected H root 0 txs.length txs hacc (by simp) hodd h3
  simpa using this

/-- **No two transactions of an accepted block share a txid**, given that the ntxid is determined
    by the txid within the block (both are hashes of the transaction's non-witness data). -/
theorem accepted_txids_nodup (txs : List TxV) (hacc : validateBlockBody H root txs = none)
    (hfun : ∀ a ∈ txs, ∀ b ∈ txs, a.txid = b.txid → a.ntxid = b.ntxid) :
    (txs.map TxV.txid).Nodup := by
  have hnd := ((accept_iff H root txs).mp hacc).2.2.2
  rw [List.Nodup, List.pairwise_map] at hnd ⊢
  exact hnd.imp_of_mem (fun ha hb hne heq => hne (hfun _ ha _ hb heq))

/-! ### 4. Every valid block is accepted -/

theorem valid_accepted (txs : List TxV) (hv : Valid H root txs) :
    validateBlockBody H root txs = none :=
  (accept_iff_valid H root txs).mpr hv

theorem accepted_valid (txs : List TxV) (hacc : validateBlockBody H root txs = none) :
    Valid H root txs :=
  (accept_iff_valid H root txs).mp hacc

/-! ### 5. Concrete instances (non-vacuity), with a small arithmetic "hash" -/

def H0 : Nat → Nat → Nat := fun a b => 31 * a + b + 7

/-- a valid 3-transaction block for `H0` -/
def blk3 : List TxV := [(10, 110, true), (20, 120, false), (30, 130, false)]
/-- its CVE-2012-2459 mutation: the last transaction repeated -/
def blk4 : List TxV := [(10, 110, true), (20, 120, false), (30, 130, false), (30, 130, false)]
/-- a valid 6-transaction block (`6 = 2^1 * 3`) and its second-level mutation -/
def blk6 : List TxV :=
  [(10, 110, true), (20, 120, false), (30, 130, false), (40, 140, false), (50, 150, false),
    (60, 160, false)]
def blk8 : List TxV := blk6 ++ [(50, 150, false), (60, 160, false)]

example : merkleRoot H0 [10, 20, 30] = some 11421 := by decide
example : merkleRoot H0 [10, 20, 30, 30] = some 11421 := by decide
example : dupTail 1 blk3 = blk4 := by decide
example : validateBlockBody H0 11421 blk3 = none := by decide
example : validateBlockBody H0 11421 blk4 = some .duplicateTransactions := by decide
example : Valid H0 11421 blk3 := accepted_valid H0 11421 blk3 (by decide)
/-- the hypotheses of `cve_2012_2459_rejected` are satisfiable (`j = 0`, `m = 3`) … -/
example : validateBlockBody H0 11421 blk3 = none ∧ blk3.length = 2 ^ 0 * 3 ∧ 3 % 2 = 1 ∧ 3 ≤ 3 := by
  decide
/-- … and at the second level (`j = 1`, `m = 3`): 6 leaves, the last two repeated -/
example : merkleRoot H0 (blk6.map TxV.txid) = merkleRoot H0 (blk8.map TxV.txid) := by decide
example : dupTail (2 ^ 1) blk6 = blk8 := by decide
example : ∃ r, validateBlockBody H0 r blk6 = none ∧ blk6.length = 2 ^ 1 * 3 ∧
    validateBlockBody H0 r blk8 = some .duplicateTransactions :=
  ⟨406119, by decide⟩
/-- the side condition `m ≥ 3` is needed: a single leaf and its duplication differ -/
example : merkleRoot H0 [10] = some 10 ∧ merkleRoot H0 [10, 10] = some 327 := by decide
/-- error precedence on concrete blocks -/
example : validateBlockBody H0 11421 [] = some .noTransactions := by decide
example : validateBlockBody H0 0 [(10, 110, false), (10, 110, false)] = some .invalidCoinbase := by
  decide
example : validateBlockBody H0 0 [(10, 110, true), (10, 110, false)] = some .invalidMerkleRoot := by
  decide
/-- the `hfun` hypothesis of `accepted_txids_nodup` holds for `blk3` -/
example : ∀ a ∈ blk3, ∀ b ∈ blk3, a.txid = b.txid → a.ntxid = b.ntxid := by decide

end Btc.Props.C12
