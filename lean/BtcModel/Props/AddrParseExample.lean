import BtcModel.Props.AddrParse

/-
  The one concrete instance of `Props/AddrParse.lean` that runs SHA-256 inside the kernel (about
  20 s; kept apart so that the property module stays fast): a derived P2PKH address is no segwit
  string (hypothesis `hns` of `roundtrip_of_not_segwit` / `requestKey_derived`), is read back as its
  script on its network, and is `WrongNetwork` on a test network.
-/
namespace Btc.Props.AddrParse
open Btc.TxCodec Btc.BlockCodec Btc.AddrParse

example : (addressOf .mainnet p2pkhEx).map (fun a => (segwitDecode a, parseAddress .mainnet a)) =
    some (none, .ok p2pkhEx) := by decide +kernel

end Btc.Props.AddrParse
