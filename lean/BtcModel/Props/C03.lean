import BtcModel.Lemmas.StableChild
import BtcModel.Model.Unstable

/-!
# C03 — finality: the stable-child decision equals the difficulty rule

`Tree.stableChild` is the model of `unstable_blocks::get_stable_child`: it pairs every child of the
anchor with its difficulty-based depth, stable-sorts the pairs and inspects the last two entries.
This file states the decision *declaratively* (no sorting) and proves that the code's answer is
exactly the declarative rule, in both directions.
-/
namespace Btc.Props.C03
open Btc Btc.Tree Btc.Spec

variable {α : Type}

/-! ### The declarative rules -/

/-- Spelled-out form of `Btc.PrefTo`: child `c` at index `i` is preferred to child `c'` at index
    `j` (or is the same child). -/
theorem prefTo_iff (d : α → Nat) (c : Tree α) (i : Nat) (c' : Tree α) (j : Nat) :
    PrefTo d c i c' j ↔
      (diffDepth d c' < diffDepth d c ∨
        (diffDepth d c' = diffDepth d c ∧
          (mainChainLen d c' < mainChainLen d c ∨
            (mainChainLen d c' = mainChainLen d c ∧ i ≤ j)))) := Iff.rfl

/-- Spelled-out form of `Btc.Preferred`: child `i` has the greatest
    `(difficulty-based depth, length of its own main chain)` and is the first among the children
    that tie on both – the tie-break of `main_chain_by_difficulty`. -/
theorem preferred_iff (d : α → Nat) (cs : List (Tree α)) (i : Nat) :
    Preferred d cs i ↔
      ∃ c, cs[i]? = some c ∧
        ∀ (j : Nat) (c' : Tree α), cs[j]? = some c' → PrefTo d c i c' j := Iff.rfl

/-- `i2` is the runner-up with respect to `i`: the preferred child among the children other
    than `i`. (Spelled-out form of `Btc.RunnerUp`.) -/
theorem runnerUp_iff (d : α → Nat) (cs : List (Tree α)) (i i2 : Nat) :
    RunnerUp d cs i i2 ↔
      i2 ≠ i ∧ ∃ c2, cs[i2]? = some c2 ∧
        ∀ (j : Nat) (c' : Tree α), j ≠ i → cs[j]? = some c' → PrefTo d c2 i2 c' j := Iff.rfl

/-- **Difficulty rule** for child `i` of the anchor `node r cs`: child `i` is the preferred child
    (heaviest descendant chain; ties broken like the served chain), its heaviest chain carries at
    least `d r * thr` accumulated difficulty, and leads every sibling by at least as much. -/
def DifficultyRule (d : α → Nat) (thr : Nat) (r : α) (cs : List (Tree α)) (i : Nat) : Prop :=
  Preferred d cs i ∧
  ∃ c, cs[i]? = some c ∧
    diffDepth d c ≥ d r * thr ∧
    (∀ (j : Nat) (c' : Tree α), j ≠ i → cs[j]? = some c' →
      diffDepth d c - diffDepth d c' ≥ d r * thr)

/-- **Depth rule** (testnet/regtest escape hatch) for child `i`: the preferred child has a longest
    chain of at least `bound` blocks, and that exceeds the longest chain of the runner-up (the
    preferred child among the others; depth `0` if there is no other child) by at least `bound`.
    The subtraction is truncated, exactly like the code's `saturating_sub`. -/
def DepthRule (d : α → Nat) (bound : Nat) (cs : List (Tree α)) (i : Nat) : Prop :=
  Preferred d cs i ∧
  ∃ c, cs[i]? = some c ∧
    depth c ≥ bound ∧
    (∀ (i2 : Nat) (c2 : Tree α), RunnerUp d cs i i2 → cs[i2]? = some c2 →
      depth c - depth c2 ≥ bound)

theorem DifficultyRule.preferred {d : α → Nat} {thr : Nat} {r : α} {cs : List (Tree α)} {i : Nat}
    (h : DifficultyRule d thr r cs i) : Preferred d cs i := h.1

theorem DepthRule.preferred {d : α → Nat} {bound : Nat} {cs : List (Tree α)} {i : Nat}
    (h : DepthRule d bound cs i) : Preferred d cs i := h.1

/-- the selected child is in particular the heaviest one -/
theorem DifficultyRule.heaviest {d : α → Nat} {thr : Nat} {r : α} {cs : List (Tree α)} {i : Nat}
    {c : Tree α} (h : DifficultyRule d thr r cs i) (hc : cs[i]? = some c) :
    ∀ (j : Nat) (c' : Tree α), cs[j]? = some c' → diffDepth d c' ≤ diffDepth d c :=
  h.1.heaviest hc

/-! ### Linking the sorted list to the rules -/

theorem difficultyRule_of_desc (d : α → Nat) (thr : Nat) (r : α) (cs : List (Tree α))
    (K L i : Nat) (rest : List Entry) (h : descKeys d cs = ((K, L), i) :: rest) :
    (K ≥ d r * thr ∧ ∀ K2 L2 i2 r', rest = ((K2, L2), i2) :: r' → K - K2 ≥ d r * thr) ↔
      DifficultyRule d thr r cs i := by
  obtain ⟨hH, ⟨c, hc, hK⟩, hnil, hcons⟩ := descKeys_cons d cs K L i rest h
  unfold DifficultyRule
  generalize d r * thr = T
  constructor
  · rintro ⟨hK1, hlead⟩
    refine ⟨hH, c, hc, by omega, ?_⟩
    intro j cj hj hcj
    cases rest with
    | nil => rw [hnil rfl j hj] at hcj; cases hcj
    | cons x r' =>
      obtain ⟨⟨K2, L2⟩, i2⟩ := x
      obtain ⟨⟨_, c2, hc2, hp2⟩, hle, c2', hc2', hK2⟩ := hcons K2 L2 i2 r' rfl
      rw [hc2] at hc2'; cases hc2'
      have := hp2 j cj hj hcj
      have := hlead K2 L2 i2 r' rfl
      unfold PrefTo at *
      omega
  · rintro ⟨_, c', hc', hthr, hlead⟩
    rw [hc] at hc'; cases hc'
    refine ⟨by omega, ?_⟩
    intro K2 L2 i2 r' hr
    obtain ⟨⟨hne, _⟩, hle, c2, hc2, hK2⟩ := hcons K2 L2 i2 r' hr
    have := hlead i2 c2 hne hc2
    omega

theorem depthRule_of_desc (d : α → Nat) (bound : Nat) (cs : List (Tree α))
    (K L i : Nat) (rest : List Entry) (h : descKeys d cs = ((K, L), i) :: rest) :
    (nthDepth cs i ≥ bound ∧ nthDepth cs i - secondDepth cs rest ≥ bound) ↔
      DepthRule d bound cs i := by
  obtain ⟨hH, ⟨c, hc, hK⟩, hnil, hcons⟩ := descKeys_cons d cs K L i rest h
  have hnd : nthDepth cs i = depth c := by simp only [nthDepth, hc]
  rw [hnd]
  constructor
  · rintro ⟨h1, h2⟩
    refine ⟨hH, c, hc, h1, ?_⟩
    intro i2' c2' hru hc2'
    cases rest with
    | nil => rw [hnil rfl i2' hru.1] at hc2'; cases hc2'
    | cons x r' =>
      obtain ⟨⟨K2, L2⟩, i2⟩ := x
      obtain ⟨hru2, _, _⟩ := hcons K2 L2 i2 r' rfl
      have := RunnerUp.unique hru hru2
      subst this
      have : secondDepth cs (((K2, L2), i2') :: r') = depth c2' := by
        simp only [secondDepth, nthDepth, hc2']
      rw [this] at h2
      exact h2
  · rintro ⟨_, c', hc', hb, hsec⟩
    rw [hc] at hc'; cases hc'
    refine ⟨hb, ?_⟩
    cases rest with
    | nil => simp only [secondDepth]; omega
    | cons x r' =>
      obtain ⟨⟨K2, L2⟩, i2⟩ := x
      obtain ⟨hru2, _, c2, hc2, _⟩ := hcons K2 L2 i2 r' rfl
      have : secondDepth cs (((K2, L2), i2) :: r') = depth c2 := by
        simp only [secondDepth, nthDepth, hc2]
      rw [this]
      exact hsec i2 c2 hru2 hc2

/-! ### The decision of `get_stable_child` is the declarative rule -/

/-- **Main equivalence (all networks).** `get_stable_child` returns child `i` exactly when child
    `i` satisfies the difficulty rule, or – on testnet/regtest only – the depth rule. -/
theorem stableChild_eq_some_iff (d : α → Nat) (net : Net) (thr bound : Nat) (r : α)
    (cs : List (Tree α)) (i : Nat) :
    stableChild d net thr bound (.node r cs) = some i ↔
      DifficultyRule d thr r cs i ∨ (net.depthRule = true ∧ DepthRule d bound cs i) := by
  cases hdk : descKeys d cs with
  | nil =>
    rw [stableChild_of_nil d net thr bound r cs hdk]
    have hcs := descKeys_nil d cs hdk
    subst hcs
    constructor
    · intro h; cases h
    · rintro (⟨_, c, hc, _⟩ | ⟨_, _, c, hc, _⟩) <;> simp at hc
  | cons x rest =>
    obtain ⟨⟨K, L⟩, i0⟩ := x
    rw [stableChild_of_cons d net thr bound r cs K L i0 rest hdk i,
      difficultyRule_of_desc d thr r cs K L i0 rest hdk]
    have hD := depthRule_of_desc d bound cs K L i0 rest hdk
    have hH := (descKeys_cons d cs K L i0 rest hdk).1
    constructor
    · rintro ⟨rfl, ⟨hn, h⟩ | h⟩
      · exact Or.inr ⟨hn, hD.1 h⟩
      · exact Or.inl h
    · rintro (h | h)
      · have := Preferred.unique h.preferred hH
        subst this
        exact ⟨rfl, Or.inr h⟩
      · have := Preferred.unique h.2.preferred hH
        subst this
        exact ⟨rfl, Or.inl ⟨h.1, hD.2 h.2⟩⟩

/-- **Mainnet**: the anchor advances to child `i` iff child `i` satisfies the difficulty rule. -/
theorem stableChild_mainnet_iff (d : α → Nat) (thr bound : Nat) (r : α)
    (cs : List (Tree α)) (i : Nat) :
    stableChild d .mainnet thr bound (.node r cs) = some i ↔ DifficultyRule d thr r cs i := by
  rw [stableChild_eq_some_iff]
  simp [Net.depthRule]

/-- The exclusive form: the depth rule is tried first, the difficulty rule only if it fails. -/
theorem stableChild_eq_some_iff' (d : α → Nat) (net : Net) (thr bound : Nat) (r : α)
    (cs : List (Tree α)) (i : Nat) :
    stableChild d net thr bound (.node r cs) = some i ↔
      (net.depthRule = true ∧ DepthRule d bound cs i) ∨
      (¬ (net.depthRule = true ∧ DepthRule d bound cs i) ∧ DifficultyRule d thr r cs i) := by
  rw [stableChild_eq_some_iff]
  by_cases h : net.depthRule = true ∧ DepthRule d bound cs i
  · simp [h]
  · simp [h]

/-- No advance iff no child satisfies the applicable rule. -/
theorem stableChild_eq_none_iff (d : α → Nat) (net : Net) (thr bound : Nat) (r : α)
    (cs : List (Tree α)) :
    stableChild d net thr bound (.node r cs) = none ↔
      ∀ i, ¬ DifficultyRule d thr r cs i ∧ ¬ (net.depthRule = true ∧ DepthRule d bound cs i) := by
  constructor
  · intro h i
    have := not_congr (stableChild_eq_some_iff d net thr bound r cs i)
    rw [h] at this
    simpa [not_or] using this
  · intro h
    cases hs : stableChild d net thr bound (.node r cs) with
    | none => rfl
    | some i =>
      have := (stableChild_eq_some_iff d net thr bound r cs i).1 hs
      rcases this with h1 | h1
      · exact absurd h1 (h i).1
      · exact absurd h1 (h i).2

/-- Whenever some child satisfies the applicable rule, the advance happens (and to that child). -/
theorem stableChild_complete (d : α → Nat) (net : Net) (thr bound : Nat) (r : α)
    (cs : List (Tree α)) (i : Nat)
    (h : DifficultyRule d thr r cs i ∨ (net.depthRule = true ∧ DepthRule d bound cs i)) :
    stableChild d net thr bound (.node r cs) = some i :=
  (stableChild_eq_some_iff d net thr bound r cs i).2 h

/-- At most one child can satisfy the rules (whichever of the two rules each of them uses). -/
theorem rule_unique (d : α → Nat) (thr bound : Nat) (r : α) (cs : List (Tree α)) (i j : Nat)
    (hi : DifficultyRule d thr r cs i ∨ DepthRule d bound cs i)
    (hj : DifficultyRule d thr r cs j ∨ DepthRule d bound cs j) : i = j := by
  have h1 : Preferred d cs i := hi.elim (·.preferred) (·.preferred)
  have h2 : Preferred d cs j := hj.elim (·.preferred) (·.preferred)
  exact Preferred.unique h1 h2

/-- With a positive normalised threshold, the lead condition makes the selected child *strictly*
    heaviest: the tie-break never matters for the difficulty rule. -/
theorem difficultyRule_strict (d : α → Nat) (thr : Nat) (r : α) (cs : List (Tree α)) (i : Nat)
    (hpos : 0 < d r * thr) (h : DifficultyRule d thr r cs i) :
    ∃ c, cs[i]? = some c ∧
      ∀ (j : Nat) (c' : Tree α), j ≠ i → cs[j]? = some c' → diffDepth d c' < diffDepth d c := by
  obtain ⟨_, c, hc, _, hlead⟩ := h
  refine ⟨c, hc, ?_⟩
  intro j c' hj hc'
  have := hlead j c' hj hc'
  omega

/-- The stable child always names an existing child (the `index out of range` arm of the model's
    `pop` is dead code). -/
theorem stableChild_index_valid (d : α → Nat) (net : Net) (thr bound : Nat) (r : α)
    (cs : List (Tree α)) (i : Nat) (h : stableChild d net thr bound (.node r cs) = some i) :
    ∃ c, cs[i]? = some c := by
  rcases (stableChild_eq_some_iff d net thr bound r cs i).1 h with ⟨_, c, hc, _⟩ | ⟨_, _, c, hc, _⟩
  · exact ⟨c, hc⟩
  · exact ⟨c, hc⟩

/-- A preferred child exists as soon as there is a child. -/
theorem preferred_exists (d : α → Nat) (cs : List (Tree α)) (hne : cs ≠ []) :
    ∃ i, Preferred d cs i := by
  cases hdk : descKeys d cs with
  | nil => exact absurd (descKeys_nil d cs hdk) hne
  | cons x rest =>
    obtain ⟨⟨K, L⟩, i0⟩ := x
    exact ⟨i0, (descKeys_cons d cs K L i0 rest hdk).1⟩

/-- A runner-up exists as soon as the preferred child has a sibling, so the last clause of
    `DepthRule` is not vacuous. -/
theorem runnerUp_exists (d : α → Nat) (cs : List (Tree α)) (i : Nat) (hH : Preferred d cs i)
    (hlen : 2 ≤ cs.length) : ∃ i2, RunnerUp d cs i i2 := by
  cases hdk : descKeys d cs with
  | nil =>
    have := descKeys_nil d cs hdk
    subst this; simp at hlen
  | cons x rest =>
    obtain ⟨⟨K, L⟩, i0⟩ := x
    obtain ⟨hH0, _, hnil, hcons⟩ := descKeys_cons d cs K L i0 rest hdk
    have := Preferred.unique hH hH0
    subst this
    cases rest with
    | nil =>
      have hl := descKeys_length d cs
      rw [hdk] at hl
      simp at hl
      omega
    | cons y r' =>
      obtain ⟨⟨K2, L2⟩, i2⟩ := y
      exact ⟨i2, (hcons K2 L2 i2 r' rfl).1⟩

/-! ### The new anchor lies on the served chain (both rules, all networks) -/

/-- The accumulated difficulty of the served chain is the difficulty-based depth of the tree
    (the maximum root-to-leaf accumulated difficulty). -/
theorem mainChainInner_difficulty (d : α → Nat) (t : Tree α) :
    (mainChainInner d t).1 = diffDepth d t := mainChainInner_fst d t

/-- Same statement on the chain itself. -/
theorem mainChain_sum_eq_diffDepth (d : α → Nat) (t : Tree α) :
    sumD d (mainChain d t) = diffDepth d t := by
  have h := mainChainInner_fst d t
  rw [mainChainInner_eq] at h
  unfold mainChain
  rw [mainChainInner_eq]
  exact h

/-- The sort key of a child is the `(difficulty, length)` of the chain served below it. -/
theorem childKey_is_main_chain_key (d : α → Nat) (c : Tree α) :
    childKey d c = (sumD d (mainChain d c), (mainChain d c).length) := by
  rw [← childKey_eq, mainChainInner_eq]
  unfold mainChain
  rw [mainChainInner_eq]
  rfl

/-- **The preferred child is the second block of the served chain** (`main_chain_by_difficulty`
    follows exactly the child that `get_stable_child` ranks last after sorting). -/
theorem preferred_on_main_chain (d : α → Nat) (r : α) (cs : List (Tree α)) (i : Nat) (c : Tree α)
    (h : Preferred d cs i) (hc : cs[i]? = some c) :
    (mainChain d (.node r cs))[1]? = some c.root := by
  obtain ⟨c0, hc0, hp⟩ := h
  rw [hc] at hc0; cases hc0
  exact mainChain_second_of_preferred d r cs i c hc hp

/-- **The new anchor always lies on the chain being served** – every network, both rules, no tie
    hypothesis. -/
theorem stableChild_on_main_chain (d : α → Nat) (net : Net) (thr bound : Nat) (r : α)
    (cs : List (Tree α)) (i : Nat) (c : Tree α)
    (h : stableChild d net thr bound (.node r cs) = some i) (hc : cs[i]? = some c) :
    (mainChain d (.node r cs))[1]? = some c.root := by
  have hr := (stableChild_eq_some_iff d net thr bound r cs i).1 h
  have hH : Preferred d cs i := hr.elim (·.preferred) (·.2.preferred)
  exact preferred_on_main_chain d r cs i c hH hc

/-- A strictly heaviest child is the second block of the served chain. -/
theorem strictly_heaviest_child_on_main_chain (d : α → Nat) (r : α) (cs : List (Tree α))
    (i : Nat) (c : Tree α) (hc : cs[i]? = some c)
    (hlt : ∀ (j : Nat) (c' : Tree α), j ≠ i → cs[j]? = some c' → diffDepth d c' < diffDepth d c) :
    (mainChain d (.node r cs))[1]? = some c.root :=
  mainChain_second_of_strict d r cs i c hc hlt

/-- Difficulty rule ⇒ the new anchor is on the chain being served (no positivity hypothesis
    is needed any more). -/
theorem difficultyRule_on_main_chain (d : α → Nat) (thr : Nat) (r : α) (cs : List (Tree α))
    (i : Nat) (c : Tree α) (h : DifficultyRule d thr r cs i) (hc : cs[i]? = some c) :
    (mainChain d (.node r cs))[1]? = some c.root :=
  preferred_on_main_chain d r cs i c h.preferred hc

/-- Depth rule ⇒ the new anchor is on the chain being served. -/
theorem depthRule_on_main_chain (d : α → Nat) (bound : Nat) (r : α) (cs : List (Tree α))
    (i : Nat) (c : Tree α) (h : DepthRule d bound cs i) (hc : cs[i]? = some c) :
    (mainChain d (.node r cs))[1]? = some c.root :=
  preferred_on_main_chain d r cs i c h.preferred hc

/-! ### State level: `peek` / `pop` -/

open Unstable in
/-- `pop` succeeds only by moving the anchor to a child that satisfies the applicable rule; the
    block handed to the stable set is the old anchor, and the new tree is that child's subtree.
    On every other outcome (`none_`, `trap`) the state is not changed (no state is returned). -/
theorem pop_ok_spec (bound : BoundFn) (u u' : Unstable) (sh : Nat) (b : Block)
    (h : u.pop bound sh = .ok u' b) :
    ∃ r cs i, u.tree = .node r cs ∧ cs[i]? = some u'.tree ∧ b = r.blk ∧
      (DifficultyRule CBlock.diff u.thr r cs i ∨
        (u.net.depthRule = true ∧
          DepthRule CBlock.diff (bound u.tree.blocksCount u.thr) cs i)) := by
  unfold Unstable.pop at h
  cases hs : stableChildIdx bound u with
  | none => simp [hs] at h
  | some idx =>
    cases ht : u.tree with
    | node r cs =>
      simp only [hs, ht] at h
      have hrule := hs
      unfold stableChildIdx at hrule
      rw [ht] at hrule
      rw [stableChild_eq_some_iff] at hrule
      cases hc : cs[idx]? with
      | none => simp [hc] at h
      | some child =>
        simp only [hc] at h
        split at h
        · cases h
        · split at h
          · cases h
          · simp only [PopResult.ok.injEq] at h
            obtain ⟨hu, hb⟩ := h
            refine ⟨r, cs, idx, rfl, ?_, hb.symm, ?_⟩
            · rw [← hu]; exact hc
            · exact hrule

open Unstable in
/-- `pop` declines (`None`) exactly when no child of the anchor satisfies the applicable rule;
    whenever such a child exists, the very next call advances (or traps – it never declines). -/
theorem pop_none_iff (bound : BoundFn) (u : Unstable) (sh : Nat) (r : CBlock)
    (cs : List (Tree CBlock)) (ht : u.tree = .node r cs) :
    u.pop bound sh = .none_ ↔
      ∀ i, ¬ DifficultyRule CBlock.diff u.thr r cs i ∧
        ¬ (u.net.depthRule = true ∧
            DepthRule CBlock.diff (bound u.tree.blocksCount u.thr) cs i) := by
  rw [← stableChild_eq_none_iff, ← ht]
  show _ ↔ stableChildIdx bound u = none
  unfold Unstable.pop
  cases hs : stableChildIdx bound u with
  | none => simp
  | some idx =>
    simp only [ht, reduceCtorEq, iff_false]
    repeat' split
    all_goals simp

open Unstable in
/-- `peek` announces the anchor exactly when `pop` would advance it. -/
theorem peek_eq_some_iff (bound : BoundFn) (u : Unstable) (r : CBlock)
    (cs : List (Tree CBlock)) (ht : u.tree = .node r cs) (b : CBlock) :
    u.peek bound = some b ↔
      b = r ∧ ∃ i, DifficultyRule CBlock.diff u.thr r cs i ∨
        (u.net.depthRule = true ∧
          DepthRule CBlock.diff (bound u.tree.blocksCount u.thr) cs i) := by
  unfold Unstable.peek
  cases hs : stableChildIdx bound u with
  | none =>
    have hn := hs
    unfold stableChildIdx at hn
    rw [ht, stableChild_eq_none_iff] at hn
    rw [ht]
    simp only [Option.map_none, reduceCtorEq, false_iff, not_and, not_exists]
    intro _ i hi
    rcases hi with hi | hi
    · exact (hn i).1 hi
    · exact (hn i).2 hi
  | some i =>
    have hn := hs
    unfold stableChildIdx at hn
    rw [ht, stableChild_eq_some_iff] at hn
    rw [ht]
    simp only [Option.map_some, Option.some.injEq, Tree.root]
    constructor
    · intro hb; exact ⟨hb.symm, i, hn⟩
    · intro hb; exact hb.1.symm

open Unstable in
/-- **State level: the new anchor is on the served chain.** When `pop` advances, the root of the
    new tree is the second block of the chain `get_main_chain` was serving (all networks). -/
theorem pop_new_anchor_on_main_chain (bound : BoundFn) (u u' : Unstable) (sh : Nat) (b : Block)
    (h : u.pop bound sh = .ok u' b) :
    (u.mainChain)[1]? = some u'.tree.root := by
  obtain ⟨r, cs, i, ht, hc, _, hrule⟩ := pop_ok_spec bound u u' sh b h
  have hH : Preferred CBlock.diff cs i := hrule.elim (·.preferred) (·.2.preferred)
  unfold Unstable.mainChain
  rw [ht]
  exact preferred_on_main_chain CBlock.diff r cs i u'.tree hH hc

open Unstable in
/-- Ingesting a block never discards anything and never moves the anchor: every block of the old
    tree is still in the new tree, in the same relative order. Together with `pop_ok_spec`
    (the only transition that shrinks the tree) this is "blocks of losing forks are discarded only
    at the moment the anchor advances". -/
theorem push_keeps_blocks (u u' : Unstable) (utxos : UtxoSet) (b : Block)
    (h : u.push utxos b = .ok u') :
    u.tree.blocks.Sublist u'.tree.blocks ∧ u'.tree.root = u.tree.root := by
  cases hf : Tree.findDepth CBlock.hash b.prev u.tree with
  | none => simp [Unstable.push, hf] at h
  | some depth =>
    simp only [Unstable.push, hf] at h
    cases hi : insertOutpoints u.cache utxos b (utxos.nextHeight + depth + 1) with
    | none => simp [hi] at h
    | some cm =>
      obtain ⟨cache, m⟩ := cm
      simp only [hi] at h
      cases he : Tree.extend CBlock.hash b.prev (CBlock.mk b (some m.feeRates) m.utxoDelta) u.tree with
      | none => simp [he] at h
      | some tree =>
        simp only [he, PushResult.ok.injEq] at h
        rw [← h]
        exact extend_blocks_sublist _ _ _ _ _ he

/-! ### Regression examples: the former counterexamples

Before the fix of `get_stable_child` (sort key = difficulty-based depth only, stable sort, last
entry wins) the depth rule selected child 2 of `tieTree` / child 1 of `tieTree2` while the served
chain went through child 0. With the composite key the preferred child is the one on the served
chain. -/

/-- (hash, difficulty). Children of the anchor in arrival order: `A` = 4 blocks of difficulty 1,
    `B` = 1 block of difficulty 4, `C` = 3 blocks of difficulties 1,1,2. All three have
    difficulty-based depth 4; `A` has the longest main chain and is served. -/
def tieTree : Tree (Nat × Nat) :=
  .node (0, 100)
    [ .node (1, 1) [.node (2, 1) [.node (3, 1) [.node (4, 1) []]]],
      .node (5, 4) [],
      .node (6, 1) [.node (7, 1) [.node (8, 2) []]] ]

/-- sorted keys of `tieTree`: `B`, then `C`, then `A` on top -/
example : sortStable (childKeys (·.2) tieTree.children) = [((4, 1), 1), ((4, 3), 2), ((4, 4), 0)] := by
  decide

/-- With `bound = 2` the preferred child `A` (depth 4) leads the runner-up `C` (depth 3) by only
    1 block: no advance (the old code answered `some 2`, a child off the served chain). -/
theorem tieTree_regression_bound2 :
    stableChild (·.2) .regtest 1 2 tieTree = none ∧
    ((mainChain (·.2) tieTree)[1]?).map (·.1) = some 1 := by decide

/-- With `bound = 1` the depth rule fires – for the child that is on the served chain. -/
theorem tieTree_regression_bound1 :
    stableChild (·.2) .regtest 1 1 tieTree = some 0 ∧
    ((mainChain (·.2) tieTree)[1]?).map (·.1) = some 1 := by decide

/-- Two children: `A` = (1, 4), `B` = 1 followed by a heavy leaf 4 and a light 3-block tail.
    Both weigh 5 and both have a main chain of 2 blocks; `A` came first and is served. -/
def tieTree2 : Tree (Nat × Nat) :=
  .node (0, 100)
    [ .node (1, 1) [.node (2, 4) []],
      .node (3, 1) [.node (4, 4) [], .node (5, 1) [.node (6, 1) [.node (7, 1) []]]] ]

/-- The old code answered `some 1` (child `B`, off the served chain); now `A` is preferred and,
    being shallower than `B`, does not satisfy the depth rule. -/
theorem tieTree2_regression :
    stableChild (·.2) .regtest 1 2 tieTree2 = none ∧
    ((mainChain (·.2) tieTree2)[1]?).map (·.1) = some 1 := by decide

/-- Zero threshold, two exactly tied children: the old code selected the last one (child 1) while
    the served chain goes through child 0; now the first one is selected. -/
theorem zero_threshold_regression :
    stableChild (·.2) .mainnet 0 2 (.node (0, 1) [.node (1, 1) [], .node (2, 1) []]) = some 0 ∧
    ((mainChain (·.2) (.node (0, 1) [.node (1, 1) [], .node (2, 1) []]))[1]?).map (·.1) = some 1 := by
  decide

/-- On mainnet `tieTree` is not stable. -/
example : stableChild (·.2) .mainnet 1 2 tieTree = none := by decide

/-! ### Non-vacuity -/

/-- anchor difficulty 2, threshold 3 → needs 6; child 0 carries 7, child 1 carries 1: lead 6. -/
def exStable : Tree (Nat × Nat) :=
  .node (0, 2) [.node (1, 3) [.node (2, 4) []], .node (3, 1) []]

/-- same but the sibling carries 2: lead 5 < 6. -/
def exUnstable : Tree (Nat × Nat) :=
  .node (0, 2) [.node (1, 3) [.node (2, 4) []], .node (3, 2) []]

example : stableChild (·.2) .mainnet 3 100 exStable = some 0 := by decide
example : stableChild (·.2) .mainnet 3 100 exUnstable = none := by decide
example : (mainChain (·.2) exStable).map (·.1) = [0, 1, 2] := by decide

example : DifficultyRule (·.2) 3 (0, 2) exStable.children 0 :=
  (stableChild_mainnet_iff (·.2) 3 100 (0, 2) exStable.children 0).1 (by decide)

example : ∀ i, ¬ DifficultyRule (·.2) 3 (0, 2) exUnstable.children i := fun i =>
  ((stableChild_eq_none_iff (·.2) .mainnet 3 100 (0, 2) exUnstable.children).1 (by decide) i).1

/-- the depth rule holds for child 0 of `tieTree` (bound 1) although the difficulty rule does not -/
example : DepthRule (·.2) 1 tieTree.children 0 ∧ ¬ DifficultyRule (·.2) 1 (0, 100) tieTree.children 0 := by
  have h1 := (stableChild_eq_some_iff (·.2) .regtest 1 1 (0, 100) tieTree.children 0).1 (by decide)
  have h2 := ((stableChild_eq_none_iff (·.2) .mainnet 1 1 (0, 100) tieTree.children).1 (by decide) 0).1
  rcases h1 with h1 | h1
  · exact absurd h1 h2
  · exact ⟨h1.2, h2⟩

/-- `Preferred` with a genuine tie: child 0 of `tieTree` (tie on difficulty, longest main chain) -/
example : Preferred (·.2) tieTree.children 0 :=
  ((stableChild_eq_some_iff (·.2) .regtest 1 1 (0, 100) tieTree.children 0).1 (by decide)).elim
    (·.preferred) (·.2.preferred)

/-- sorting example: ascending by (dbd, len), and by *descending* index among exact ties, so the
    first of the tied maxima ends up last -/
example : sortStable [((4, 2), 0), ((4, 2), 1), ((2, 9), 2), ((4, 1), 3), ((4, 2), 4)] =
    [((2, 9), 2), ((4, 1), 3), ((4, 2), 4), ((4, 2), 1), ((4, 2), 0)] := by
  decide

end Btc.Props.C03
