import BtcModel.Lemmas.Percentiles

/-!
# C15 — fee percentiles are nearest-rank percentiles

Rust: `canister/src/api/fee_percentiles.rs` (`percentiles`, `get_fees_per_byte`,
`get_current_fee_percentiles_with_number_of_transactions`).
Model: `BtcModel/Model/Fees.lean`.

All theorems hold for input lists of arbitrary length.
-/
namespace Btc.Props.C15

open List

/-! ## 1. shape of the output -/

/-- no input values: no buckets -/
theorem percentiles_nil : percentiles [] = [] := rfl

/-- the output is empty *only* for the empty input -/
theorem percentiles_eq_nil_iff (values : List Nat) : percentiles values = [] ↔ values = [] := by
  constructor
  · intro h
    false_or_by_contra
    rename_i hne
    have := percentiles_length hne
    rw [h] at this
    simp at this
  · rintro rfl; rfl

/-- non-empty input: exactly 101 buckets (percentiles 0..100) -/
theorem percentiles_length {values : List Nat} (h : values ≠ []) :
    (percentiles values).length = 101 :=
  Btc.percentiles_length h

/-! ## 4. nearest-rank specification against an independent notion of "sorted input" -/

/-- `sortNat` returns a permutation of its input -/
theorem sortNat_perm (l : List Nat) : (sortNat l).Perm l := Btc.sortNat_perm l

/-- `sortNat` returns an ascending list -/
theorem sortNat_sorted (l : List Nat) : (sortNat l).Pairwise (· ≤ ·) := Btc.sortNat_sorted l

/-- any ascending permutation of `l` is `sortNat l`: the model's insertion sort and Rust's
    `sort_unstable` (or any other correct sort) produce the same list -/
theorem sortNat_unique {l s : List Nat} (hp : s.Perm l) (hs : s.Pairwise (· ≤ ·)) :
    s = sortNat l := Btc.sortNat_unique hp hs

/-- The Rust closure `ceil_div(a, 100) = a / 100 + if a % 100 == 0 { 0 } else { 1 }` used by the
    model is `⌈a / 100⌉`: it is the least `r` with `a ≤ 100 * r`. -/
theorem ceil_div_spec (a r : Nat) :
    a / 100 + (if a % 100 = 0 then 0 else 1) ≤ r ↔ a ≤ 100 * r := by
  rw [ceilDiv100]; exact ceilDiv100_spec a r

/-- **Nearest-rank.** For every ascending permutation `s` of the input (length `n ≥ 1`) and every
    `p ≤ 100`, bucket `p` holds the element of `s` at 0-based index `max 0 (⌈p·n/100⌉ − 1)`
    (`⌈p·n/100⌉ = (p·n + 99) / 100`; truncated subtraction gives the `max 0`). -/
theorem percentiles_nearest_rank {values s : List Nat} (hne : values ≠ [])
    (hperm : s.Perm values) (hsorted : s.Pairwise (· ≤ ·)) {p : Nat} (hp : p ≤ 100) :
    (percentiles values)[p]? = s[(p * values.length + 99) / 100 - 1]? := by
  rw [sortNat_unique hperm hsorted]
  exact percentiles_getElem?_sortNat hne hp

/-- the selected index is always inside the sorted list, so bucket `p` is a genuine element
    (never the `getD` default of the model / never an out-of-bounds panic in Rust) -/
theorem nearest_rank_index_in_range {values : List Nat} (hne : values ≠ []) {p : Nat}
    (hp : p ≤ 100) : (p * values.length + 99) / 100 - 1 < values.length :=
  nearestRankIdx_lt hp (length_pos_iff.mpr hne)

/-- `getElem` form of `percentiles_nearest_rank` -/
theorem percentiles_nearest_rank_getElem {values s : List Nat} (hne : values ≠ [])
    (hperm : s.Perm values) (hsorted : s.Pairwise (· ≤ ·)) {p : Nat} (hp : p ≤ 100) :
    (percentiles values)[p]'(by rw [percentiles_length hne]; omega) =
      s[(p * values.length + 99) / 100 - 1]'(by
        rw [hperm.length_eq]; exact nearest_rank_index_in_range hne hp) := by
  have h := percentiles_nearest_rank hne hperm hsorted hp
  rw [getElem?_eq_getElem (by rw [percentiles_length hne]; omega),
    getElem?_eq_getElem (by rw [hperm.length_eq]; exact nearest_rank_index_in_range hne hp)] at h
  exact Option.some.inj h

/-! ## 2. monotone output -/

/-- the buckets are non-decreasing -/
theorem percentiles_sorted (values : List Nat) : (percentiles values).Pairwise (· ≤ ·) := by
  by_cases hne : values = []
  · subst hne; simp [percentiles_nil]
  · rw [pairwise_iff_getElem]
    intro i j hi hj hij
    rw [percentiles_length hne] at hi hj
    rw [percentiles_nearest_rank_getElem hne (sortNat_perm values) (sortNat_sorted values)
          (p := i) (by omega),
        percentiles_nearest_rank_getElem hne (sortNat_perm values) (sortNat_sorted values)
          (p := j) (by omega)]
    apply sorted_getElem_mono (sortNat_sorted values)
    exact nearestRankIdx_mono values.length (Nat.le_of_lt hij)

/-! ## 3. membership, minimum, maximum -/

/-- every bucket holds one of the input values -/
theorem percentiles_mem {values : List Nat} {x : Nat} (hx : x ∈ percentiles values) :
    x ∈ values := by
  by_cases hne : values = []
  · subst hne; simp [percentiles_nil] at hx
  · obtain ⟨p, hp, rfl⟩ := getElem_of_mem hx
    rw [percentiles_length hne] at hp
    rw [percentiles_nearest_rank_getElem hne (sortNat_perm values) (sortNat_sorted values)
          (p := p) (by omega)]
    exact mem_sortNat.mp (getElem_mem _)

/-- bucket 0 is the minimum of the input (both sides are `none` for the empty input) -/
theorem percentiles_zero_eq_min (values : List Nat) : (percentiles values)[0]? = values.min? := by
  by_cases hne : values = []
  · subst hne; simp [percentiles_nil]
  · have hn : 0 < values.length := length_pos_iff.mpr hne
    have hl : 0 < (sortNat values).length := by rw [sortNat_length]; exact hn
    rw [percentiles_nearest_rank hne (sortNat_perm values) (sortNat_sorted values) (p := 0)
      (by omega)]
    simp only [Nat.zero_mul, Nat.zero_add, Nat.reduceDiv]
    rw [getElem?_eq_getElem hl]
    symm
    rw [min?_eq_some_iff]
    refine ⟨mem_sortNat.mp (getElem_mem _), ?_⟩
    intro b hb
    obtain ⟨j, hj, rfl⟩ := getElem_of_mem (mem_sortNat.mpr hb)
    exact sorted_getElem_mono (sortNat_sorted values) (Nat.zero_le j) hj

/-- bucket 100 is the maximum of the input (both sides are `none` for the empty input) -/
theorem percentiles_hundred_eq_max (values : List Nat) :
    (percentiles values)[100]? = values.max? := by
  by_cases hne : values = []
  · subst hne; simp [percentiles_nil]
  · have hn : 0 < values.length := length_pos_iff.mpr hne
    have hl : values.length - 1 < (sortNat values).length := by rw [sortNat_length]; omega
    rw [percentiles_nearest_rank hne (sortNat_perm values) (sortNat_sorted values) (p := 100)
      (by omega)]
    have e : (100 * values.length + 99) / 100 - 1 = values.length - 1 := by omega
    rw [e, getElem?_eq_getElem hl]
    symm
    rw [max?_eq_some_iff]
    refine ⟨mem_sortNat.mp (getElem_mem _), ?_⟩
    intro b hb
    obtain ⟨j, hj, rfl⟩ := getElem_of_mem (mem_sortNat.mpr hb)
    exact sorted_getElem_mono (sortNat_sorted values)
      (by rw [sortNat_length] at hj; omega) hl

/-- bucket 0 is a lower bound of all input values and is one of them -/
theorem percentiles_zero_is_min {values : List Nat} (hne : values ≠ []) :
    (percentiles values)[0]! ∈ values ∧ ∀ v ∈ values, (percentiles values)[0]! ≤ v := by
  have hl : 0 < (percentiles values).length := by rw [percentiles_length hne]; omega
  have h := percentiles_zero_eq_min values
  rw [getElem?_eq_getElem hl] at h
  rw [getElem!_eq_getElem?_getD, getElem?_eq_getElem hl, Option.getD_some]
  exact min?_eq_some_iff.mp h.symm

/-- bucket 100 is an upper bound of all input values and is one of them -/
theorem percentiles_hundred_is_max {values : List Nat} (hne : values ≠ []) :
    (percentiles values)[100]! ∈ values ∧ ∀ v ∈ values, v ≤ (percentiles values)[100]! := by
  have hl : 100 < (percentiles values).length := by rw [percentiles_length hne]; omega
  have h := percentiles_hundred_eq_max values
  rw [getElem?_eq_getElem hl] at h
  rw [getElem!_eq_getElem?_getD, getElem?_eq_getElem hl, Option.getD_some]
  exact max?_eq_some_iff.mp h.symm

/-! ## 5. order independence -/

/-- the result depends only on the multiset of input values -/
theorem percentiles_perm {values values' : List Nat} (h : values.Perm values') :
    percentiles values = percentiles values' := by
  by_cases hne : values = []
  · subst hne; rw [h.symm.eq_nil]
  · have hne' : values' ≠ [] := fun e => hne (by subst e; exact h.eq_nil)
    rw [percentiles_eq_map hne, percentiles_eq_map hne', sortNat_congr h, h.length_eq]

/-! ## 4'. counting form of nearest-rank (independent of any sorting)

For `1 ≤ p ≤ 100`, bucket `p` is the smallest input value `v` such that at least `p` percent of
the input values are `≤ v`. -/

/-- number of input values `≤ v` -/
def countLe (values : List Nat) (v : Nat) : Nat := values.countP (· ≤ v)

private theorem countLe_ge_of_sorted {s : List Nat} (hs : s.Pairwise (· ≤ ·)) {i : Nat}
    (hi : i < s.length) : i + 1 ≤ countLe s s[i] := by
  unfold countLe
  have hsplit : s = s.take (i + 1) ++ s.drop (i + 1) := (take_append_drop _ _).symm
  have hall : (s.take (i + 1)).countP (· ≤ s[i]) = (s.take (i + 1)).length := by
    rw [countP_eq_length]
    intro a ha
    obtain ⟨j, hj, rfl⟩ := getElem_of_mem ha
    rw [length_take] at hj
    rw [getElem_take]
    simpa using sorted_getElem_mono hs (i := j) (j := i) (by omega) hi
  calc i + 1 = (s.take (i + 1)).length := by rw [length_take]; omega
    _ = (s.take (i + 1)).countP (· ≤ s[i]) := hall.symm
    _ ≤ (s.take (i + 1)).countP (· ≤ s[i]) + (s.drop (i + 1)).countP (· ≤ s[i]) :=
        Nat.le_add_right _ _
    _ = s.countP (· ≤ s[i]) := by rw [← countP_append, take_append_drop]

private theorem countLe_le_of_sorted {s : List Nat} (hs : s.Pairwise (· ≤ ·)) {i : Nat}
    (hi : i < s.length) {u : Nat} (hu : u < s[i]) : countLe s u ≤ i := by
  unfold countLe
  have hnone : (s.drop i).countP (· ≤ u) = 0 := by
    rw [countP_eq_zero]
    intro a ha
    obtain ⟨j, hj, rfl⟩ := getElem_of_mem ha
    rw [length_drop] at hj
    rw [getElem_drop]
    have := sorted_getElem_mono hs (i := i) (j := i + j) (by omega) (by omega)
    simp only [decide_eq_true_eq]
    omega
  calc s.countP (· ≤ u) = (s.take i).countP (· ≤ u) + (s.drop i).countP (· ≤ u) := by
        rw [← countP_append, take_append_drop]
    _ = (s.take i).countP (· ≤ u) := by rw [hnone, Nat.add_zero]
    _ ≤ (s.take i).length := countP_le_length
    _ ≤ i := by rw [length_take]; omega

/-- **Nearest-rank, counting form.** For `1 ≤ p ≤ 100` and non-empty input, bucket `p` is an
    input value `v` with at least `p`% of the inputs `≤ v`, and every strictly smaller number
    `u` has fewer than `p`% of the inputs `≤ u`. -/
theorem percentiles_counting {values : List Nat} (hne : values ≠ []) {p : Nat}
    (hp1 : 1 ≤ p) (hp : p ≤ 100) :
    ∃ v, (percentiles values)[p]? = some v ∧ v ∈ values ∧
      p * values.length ≤ 100 * countLe values v ∧
      ∀ u, u < v → 100 * countLe values u < p * values.length := by
  have hn : 0 < values.length := length_pos_iff.mpr hne
  have hs := sortNat_sorted values
  have hperm := sortNat_perm values
  have hi : nearestRankIdx p values.length < (sortNat values).length := by
    rw [sortNat_length]; exact nearestRankIdx_lt hp hn
  refine ⟨(sortNat values)[nearestRankIdx p values.length], ?_, ?_, ?_, ?_⟩
  · rw [percentiles_getElem?_sortNat hne hp, getElem?_eq_getElem hi]
  · exact mem_sortNat.mp (getElem_mem _)
  · have h1 := countLe_ge_of_sorted hs hi
    have : countLe values (sortNat values)[nearestRankIdx p values.length]
        = countLe (sortNat values) (sortNat values)[nearestRankIdx p values.length] := by
      unfold countLe; exact (hperm.countP_eq _).symm
    rw [this]
    unfold nearestRankIdx at h1 ⊢
    have : 1 * values.length ≤ p * values.length := Nat.mul_le_mul_right _ hp1
    generalize countLe _ _ = c at h1 ⊢
    generalize p * values.length = a at *
    omega
  · intro u hu
    have h1 := countLe_le_of_sorted hs hi hu
    have : countLe values u = countLe (sortNat values) u := by
      unfold countLe; exact (hperm.countP_eq _).symm
    rw [this]
    unfold nearestRankIdx at h1
    have : 1 * values.length ≤ p * values.length := Nat.mul_le_mul_right _ hp1
    generalize countLe _ _ = c at h1 ⊢
    generalize p * values.length = a at *
    omega

/-- the counting characterisation determines the value uniquely -/
theorem counting_spec_unique {values : List Nat} {p v w : Nat}
    (hv1 : p * values.length ≤ 100 * countLe values v)
    (hv2 : ∀ u, u < v → 100 * countLe values u < p * values.length)
    (hw1 : p * values.length ≤ 100 * countLe values w)
    (hw2 : ∀ u, u < w → 100 * countLe values u < p * values.length) : v = w := by
  rcases Nat.lt_trichotomy v w with h | h | h
  · have := hw2 v h; omega
  · exact h
  · have := hv2 w h; omega

/-! ## 6. which fee rates are fed into `percentiles` (`get_fees_per_byte`) -/

/-- at most `n` (`NUM_TRANSACTIONS`) fee rates are collected -/
theorem feesPerByte_length_le (s : State) (n : Nat) (blocks : List CBlock) (r : List Nat)
    (h : s.feesPerByte n blocks [] = some r) : r.length ≤ n :=
  (Btc.feesPerByte_length_le s n blocks [] r (Nat.zero_le _) h).1

/-- If every visited block yields fee rates `f b` (from the cache or by recomputation), the result
    is the first `n` entries of the concatenation, in the given block order (the caller passes the
    main chain reversed: newest block first). -/
theorem feesPerByte_eq_take (s : State) (n : Nat) (f : CBlock → List Nat) (blocks : List CBlock)
    (h : ∀ b ∈ blocks, s.blockFeeRates b = some (f b)) :
    s.feesPerByte n blocks [] = some ((blocks.flatMap f).take n) := by
  simpa using feesPerByte_acc s n f blocks [] h (Nat.zero_le _)

/-- a block with cached fee rates contributes exactly its cache (no recomputation) -/
theorem blockFeeRates_cached (s : State) (b : CBlock) (r : List Nat) (h : b.feeRates = some r) :
    s.blockFeeRates b = some r := by
  simp [State.blockFeeRates, h]

/-- all blocks cached: the first `n` cached fee rates, newest block first -/
theorem feesPerByte_cached (s : State) (n : Nat) (blocks : List CBlock)
    (h : ∀ b ∈ blocks, ∃ r, b.feeRates = some r) :
    s.feesPerByte n blocks [] = some ((blocks.flatMap (fun b => b.feeRates.getD [])).take n) := by
  apply feesPerByte_eq_take
  intro b hb
  obtain ⟨r, hr⟩ := h b hb
  rw [blockFeeRates_cached s b r hr, hr]; rfl

/-- Laziness: once the cap is reached the remaining (older) blocks are not inspected at all — in
    particular a missing input in an old uncached block cannot make the call panic. -/
theorem feesPerByte_ignores_older_blocks (s : State) (n : Nat) (f : CBlock → List Nat)
    (newer older : List CBlock) (h : ∀ b ∈ newer, s.blockFeeRates b = some (f b))
    (hfull : n ≤ (newer.flatMap f).length) :
    s.feesPerByte n (newer ++ older) [] = some ((newer.flatMap f).take n) := by
  suffices H : ∀ (newer : List CBlock) (acc : List Nat),
      (∀ b ∈ newer, s.blockFeeRates b = some (f b)) → acc.length ≤ n →
      n ≤ (acc ++ newer.flatMap f).length →
      s.feesPerByte n (newer ++ older) acc = some ((acc ++ newer.flatMap f).take n) by
    simpa using H newer [] h (Nat.zero_le _) (by simpa using hfull)
  intro newer
  induction newer with
  | nil =>
    intro acc _ hacc hfull
    have hlen : acc.length = n := by simp at hfull; omega
    cases older with
    | nil => simp [State.feesPerByte, take_of_length_le hacc]
    | cons b bs =>
      simp only [nil_append, flatMap_nil, append_nil]
      unfold State.feesPerByte
      rw [if_pos (by omega), take_of_length_le hacc]
  | cons b bs ih =>
    intro acc hb hacc hfull
    simp only [cons_append]
    unfold State.feesPerByte
    split
    · have hlen : acc.length = n := by omega
      rw [take_append, ← hlen]; simp
    · rw [hb b (by simp)]
      simp only
      have e : acc ++ (f b).take (n - acc.length) = (acc ++ f b).take n := by
        rw [take_append, take_of_length_le hacc]
      rw [e, ih _ (fun b' hb' => hb b' (by simp [hb'])) (by simp; omega)
        (by simp only [flatMap_cons, length_append, length_take] at hfull ⊢; omega)]
      rw [take_take_append, flatMap_cons, append_assoc]

/-! ## 7. cache semantics of `get_current_fee_percentiles_with_number_of_transactions` -/

/-- hash of the tip of the current main chain (`main_chain.tip().block_hash()`) -/
def tipHash (s : State) : Nat :=
  (s.unstable.mainChain.getLast?.getD s.unstable.tree.root).hash

/-- the fee rates the recomputation would use: main chain walked from the tip backwards -/
def currentFees (s : State) (n : Nat) : Option (List Nat) :=
  s.feesPerByte n s.unstable.mainChain.reverse []

/-- (a) cache hit: the cached answer is returned, nothing changes.
    (`Props/C02.lean: fee_percentiles_keyed_by_best_tip` states the same with the tip expressed
    through `bestPath`.) -/
theorem feePercentiles_cache_hit (s : State) (n : Nat) (p : List Nat)
    (hc : s.feeCache = some (tipHash s, p)) : s.feePercentiles n = some (s, p) := by
  simp [State.feePercentiles, hc, tipHash]

/-- (b) tip changed, but no fee rate is available and an old answer exists: the old answer is
    returned and the cache (whole state) is left untouched — still keyed by the *old* tip. -/
theorem feePercentiles_empty_keeps_cache (s : State) (n : Nat) (h : Nat) (p : List Nat)
    (hc : s.feeCache = some (h, p)) (hne : h ≠ tipHash s) (hf : currentFees s n = some []) :
    s.feePercentiles n = some (s, p) := by
  unfold tipHash at hne
  unfold currentFees at hf
  simp [State.feePercentiles, State.feePercentiles.recompute, hc, hne, hf]

/-- (c1) tip changed and fee rates are available: recompute and store under the new tip -/
theorem feePercentiles_recompute (s : State) (n : Nat) (h : Nat) (p fees : List Nat)
    (hc : s.feeCache = some (h, p)) (hne : h ≠ tipHash s)
    (hf : currentFees s n = some fees) (hfe : fees ≠ []) :
    s.feePercentiles n =
      some ({ s with feeCache := some (tipHash s, percentiles fees) }, percentiles fees) := by
  unfold tipHash at hne ⊢
  unfold currentFees at hf
  cases fees with
  | nil => exact absurd rfl hfe
  | cons x xs =>
    simp [State.feePercentiles, State.feePercentiles.recompute, hc, hne, hf]

/-- (c2) no cache at all: compute (possibly from the empty list, giving `[]`) and store under the
    current tip -/
theorem feePercentiles_no_cache (s : State) (n : Nat) (fees : List Nat)
    (hc : s.feeCache = none) (hf : currentFees s n = some fees) :
    s.feePercentiles n =
      some ({ s with feeCache := some (tipHash s, percentiles fees) }, percentiles fees) := by
  unfold tipHash
  unfold currentFees at hf
  cases fees <;> simp [State.feePercentiles, State.feePercentiles.recompute, hc, hf]

/-- (d) the call panics exactly when there is no cache hit and collecting the fee rates panics -/
theorem feePercentiles_none_iff (s : State) (n : Nat) :
    s.feePercentiles n = none ↔
      (∀ p, s.feeCache ≠ some (tipHash s, p)) ∧ currentFees s n = none := by
  unfold tipHash currentFees
  cases hc : s.feeCache with
  | none =>
    cases hf : s.feesPerByte n s.unstable.mainChain.reverse [] with
    | none => simp [State.feePercentiles, State.feePercentiles.recompute, hc, hf]
    | some fees =>
      cases fees <;> simp [State.feePercentiles, State.feePercentiles.recompute, hc, hf]
  | some c =>
    obtain ⟨h, p⟩ := c
    by_cases he : h = (s.unstable.mainChain.getLast?.getD s.unstable.tree.root).hash
    · simp [State.feePercentiles, hc, he]
    · cases hf : s.feesPerByte n s.unstable.mainChain.reverse [] with
      | none => simp [State.feePercentiles, State.feePercentiles.recompute, hc, hf, he]
      | some fees =>
        cases fees <;>
          simp [State.feePercentiles, State.feePercentiles.recompute, hc, hf, he]

/-- After any successful call the cache is populated, and the returned vector is the cached one;
    moreover only the `feeCache` field of the state can change. -/
theorem feePercentiles_result_cached (s s' : State) (n : Nat) (r : List Nat)
    (h : s.feePercentiles n = some (s', r)) :
    (∃ k, s'.feeCache = some (k, r)) ∧ s' = { s with feeCache := s'.feeCache } := by
  cases hc : s.feeCache with
  | none =>
    cases hf : s.feesPerByte n s.unstable.mainChain.reverse [] with
    | none => simp [State.feePercentiles, State.feePercentiles.recompute, hc, hf] at h
    | some fees =>
      cases fees <;>
        (simp [State.feePercentiles, State.feePercentiles.recompute, hc, hf] at h
         obtain ⟨rfl, rfl⟩ := h
         simp)
  | some c =>
    obtain ⟨k, p⟩ := c
    by_cases he : k = (s.unstable.mainChain.getLast?.getD s.unstable.tree.root).hash
    · simp [State.feePercentiles, hc, he] at h
      obtain ⟨rfl, rfl⟩ := h
      exact ⟨⟨_, hc⟩, by cases s; cases hc; rfl⟩
    · cases hf : s.feesPerByte n s.unstable.mainChain.reverse [] with
      | none => simp [State.feePercentiles, State.feePercentiles.recompute, hc, hf, he] at h
      | some fees =>
        cases fees with
        | nil =>
          simp [State.feePercentiles, State.feePercentiles.recompute, hc, hf, he] at h
          obtain ⟨rfl, rfl⟩ := h
          exact ⟨⟨_, hc⟩, by cases s; cases hc; rfl⟩
        | cons x xs =>
          simp [State.feePercentiles, State.feePercentiles.recompute, hc, hf, he] at h
          obtain ⟨rfl, rfl⟩ := h
          simp

/-! ## Examples / non-vacuity -/

example : percentiles [5, 1, 3] =
    List.replicate 34 1 ++ List.replicate 33 3 ++ List.replicate 34 5 := by decide
example : (percentiles [5, 1, 3])[50]? = some 3 := by decide
example : sortNat [5, 1, 3] = [1, 3, 5] := by decide

-- Rust test `percentiles_nearest_rank_method_simple_example`
example : (percentiles [15, 20, 35, 40, 50]).length = 101 := by decide
example : (percentiles [15, 20, 35, 40, 50]).take 21 = List.replicate 21 15 := by decide
example : ((percentiles [15, 20, 35, 40, 50]).drop 21).take 20 = List.replicate 20 20 := by decide
example : ((percentiles [15, 20, 35, 40, 50]).drop 41).take 20 = List.replicate 20 35 := by decide
example : ((percentiles [15, 20, 35, 40, 50]).drop 61).take 20 = List.replicate 20 40 := by decide
example : (percentiles [15, 20, 35, 40, 50]).drop 81 = List.replicate 20 50 := by decide

-- Rust test `percentiles_small_input`
example : percentiles [5, 4, 3, 2, 1] =
    List.replicate 21 1 ++ List.replicate 20 2 ++ List.replicate 20 3 ++ List.replicate 20 4 ++
      List.replicate 20 5 := by decide

-- the hypotheses of `percentiles_nearest_rank` are satisfiable by a sort other than `sortNat`
example : ([15, 20, 35, 40, 50] : List Nat).Perm [40, 15, 50, 35, 20] ∧
    ([15, 20, 35, 40, 50] : List Nat).Pairwise (· ≤ ·) := by decide

-- the hypotheses of `percentiles_perm`
example : percentiles [40, 15, 50, 35, 20] = percentiles [15, 20, 35, 40, 50] :=
  percentiles_perm (by decide)

-- counting form on the example: p = 30 → 20 (2 of 5 = 40% ≥ 30%, while 15 has only 20%)
example : (percentiles [15, 20, 35, 40, 50])[30]? = some 20 ∧
    30 * 5 ≤ 100 * countLe [15, 20, 35, 40, 50] 20 ∧
    100 * countLe [15, 20, 35, 40, 50] 15 < 30 * 5 := by decide

/-! ### `feesPerByte` / cache examples -/

private def mkBlock (h : Nat) (rates : Option (List Nat)) : CBlock :=
  { blk := { hash := h, prev := h - 1, diff := 1, time := 0, bits := 0, header := "", txs := [] },
    feeRates := rates, utxoDelta := 0 }

-- newest block first, capped at 3 values; holds in every state because all blocks are cached
example (s : State) :
    s.feesPerByte 3 [mkBlock 2 (some [7, 8]), mkBlock 1 (some [9, 10]), mkBlock 0 (some [11])] []
      = some [7, 8, 9] := by
  rw [feesPerByte_cached s 3 _ (by simp [mkBlock])]
  rfl

-- the cap is reached inside the two newest blocks; the third (uncached) block is never inspected
example (s : State) :
    s.feesPerByte 3 ([mkBlock 2 (some [7, 8]), mkBlock 1 (some [9, 10])] ++ [mkBlock 0 none]) []
      = some [7, 8, 9] := by
  rw [feesPerByte_ignores_older_blocks s 3 (fun b => b.feeRates.getD []) _ _
    (by simp [mkBlock, State.blockFeeRates]) (by simp [mkBlock])]
  rfl

/-- chain 0 ← 1 ← 2, stale cache keyed by block 1 -/
private def exState (r2 : List Nat) : State :=
  { utxos := {},
    unstable := { thr := 6, net := .regtest,
                  tree := .node (mkBlock 0 (some [])) [.node (mkBlock 1 (some []))
                            [.node (mkBlock 2 (some r2)) []]] },
    feeCache := some (1, [42]) }

example : tipHash (exState [5, 1, 3]) = 2 := by decide
example : currentFees (exState [5, 1, 3]) 10 = some [5, 1, 3] := by decide
example : currentFees (exState []) 10 = some [] := by decide

-- (c1) is applicable: new answer stored under the new tip 2
example : ((exState [5, 1, 3]).feePercentiles 10).map (fun r => (r.1.feeCache, r.2)) =
    some (some (2, percentiles [5, 1, 3]), percentiles [5, 1, 3]) := by
  rw [feePercentiles_recompute (exState [5, 1, 3]) 10 1 [42] [5, 1, 3] rfl (by decide)
    (by decide) (by decide)]
  rfl

-- (b) is applicable: no fee rates at the new tip, stale answer returned, cache still keyed by 1
example : ((exState []).feePercentiles 10).map (fun r => (r.1.feeCache, r.2)) =
    some (some (1, [42]), [42]) := by
  rw [feePercentiles_empty_keeps_cache (exState []) 10 1 [42] rfl (by decide) (by decide)]
  rfl

end Btc.Props.C15
