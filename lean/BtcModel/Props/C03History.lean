import BtcModel.Lemmas.Reach
import BtcModel.Props.C03

/-!
# C03 (history part) — what is stable stays stable

Along every run of the transition system of `Spec/Reach.lean` (operations in their domain, no
ingestion pauses):

* the stable chain (ghost `G`) only grows at its end, so a block that is stable at height `i`
  is the stable block of height `i` in every later state; the stable height never decreases;
* the header store is append-only: a height, once written, keeps its hash;
* the tree of unstable blocks changes only by `push` (one more block) and by ingestion (the new
  blocks are a sublist of the old ones: the popped anchors and the losing forks are dropped);
  `set_config` — in particular a change of the stability threshold — changes none of this;
* an ingestion that completes leaves no stable block behind (`peek = none`), and the blocks it
  moves to the stable set are exactly the first blocks of the main chain served before it:
  `G ++ main chain` is the same list before and after.
-/
namespace Btc.Props.C03History
open Btc Btc.Spec Btc.Tree Btc.Lemmas.Reach Btc.Props.InvIngest

variable {bound : Unstable.BoundFn}

/-! ### `pop` follows the main chain -/

/-- When `pop` advances, the served main chain was the old anchor followed by the main chain of
    the new tree (strengthens `C03.pop_new_anchor_on_main_chain`). -/
theorem pop_mainChain (u u' : Unstable) (sh : Nat) (b : Block)
    (h : u.pop bound sh = .ok u' b) : u.mainChain = u.tree.root :: u'.mainChain := by
  obtain ⟨r, cs, i, ht, hc, _, hrule⟩ := C03.pop_ok_spec bound u u' sh b h
  have hH : Preferred CBlock.diff cs i := hrule.elim (·.preferred) (·.2.preferred)
  obtain ⟨c, hc', hp⟩ := hH
  rw [hc] at hc'
  cases hc'
  have hbest : bestChild CBlock.diff cs (0, 0, []) = mainChainInner CBlock.diff u'.tree := by
    apply bestChild_preferred CBlock.diff cs (0, 0, []) i u'.tree hc hp
    rw [keyGt_iff]
    have := mainChainLen_pos CBlock.diff u'.tree
    simp only [childKey]
    omega
  unfold Unstable.mainChain Tree.mainChain
  rw [ht]
  simp only [mainChainInner, Tree.root]
  rw [hbest]

/-- a sequence of `pop`s moves a prefix of the main chain to the stable set -/
theorem popSteps_mainChain {u u' : Unstable} {n : Nat} {popped : List Block}
    (h : PopSteps bound u n popped u') :
    u.mainChain.map (·.blk) = popped ++ u'.mainChain.map (·.blk) := by
  induction h with
  | nil u n => simp
  | cons u n b u1 bs u2 hpop _ ih =>
    obtain ⟨r, cs, i, ht, _, hb, _⟩ := C03.pop_ok_spec bound u u1 (n + 1) b hpop
    rw [pop_mainChain u u1 (n + 1) b hpop, List.map_cons, ih, ht, hb]
    rfl

/-- every popped anchor is followed, on the chain that was being served, by the new anchor
    (`C03.pop_new_anchor_on_main_chain` for each `pop` of the sequence) -/
theorem popSteps_each_on_main_chain {u u' : Unstable} {n : Nat} {popped : List Block}
    (h : PopSteps bound u n popped u') (hne : popped ≠ []) :
    ∃ u1, (u.mainChain)[1]? = some u1.tree.root ∧
      PopSteps bound u1 (n + 1) popped.tail u' := by
  cases h with
  | nil => exact absurd rfl hne
  | cons _ _ b u1 bs _ hpop hrest =>
    exact ⟨u1, C03.pop_new_anchor_on_main_chain bound u u1 (n + 1) b hpop, hrest⟩

/-! ### One step -/

/-- what an ingestion that completes does, in a reachable state -/
theorem ingest_step {s s' : State} {G G' : List Block} {budget : Nat}
    (hr : Reachable bound s G) (hs : step bound (s, G) (.ingest budget) = some (s', G')) :
    ∃ popped, G' = G ++ popped ∧ PopSteps bound s.unstable G.length popped s'.unstable ∧
      s'.utxos.nextHeight = s.utxos.nextHeight + popped.length ∧
      s'.headers = insertHeaders s.headers popped G.length ∧ Frame s s' ∧
      Unstable.peek bound s'.unstable = none := by
  have hU := reachable_inv hr
  have := ingest_stable_preserves_invU bound s G budget hU
  simp only [step] at hs
  cases hres : s.ingestStable bound budget with
  | trap m => rw [hres] at hs; cases hs
  | paused sp => rw [hres] at hs; cases hs
  | done s1 w =>
    rw [hres] at hs this
    simp only [Option.some.injEq, Prod.mk.injEq] at hs
    obtain ⟨rfl, rfl⟩ := hs
    obtain ⟨popped, _, i2, i3, i4, _, i6, i7, i8⟩ := this
    exact ⟨popped, by rw [i8], i7, by rw [i2, hU.inv.heightEq], i3, i4, i6⟩

/-- **No advance is withheld**: after an ingestion that completes, no block is stable any more. -/
theorem ingest_complete {s s' : State} {G G' : List Block} {budget : Nat}
    (hr : Reachable bound s G) (hs : step bound (s, G) (.ingest budget) = some (s', G')) :
    Unstable.peek bound s'.unstable = none := by
  obtain ⟨_, _, _, _, _, _, h⟩ := ingest_step hr hs
  exact h

/-- **Ingestion moves a prefix of the served chain**: the blocks that become stable are the first
    blocks of the main chain, and the rest of the main chain is the new main chain. The tree only
    loses blocks. -/
theorem ingest_follows_main_chain {s s' : State} {G G' : List Block} {budget : Nat}
    (hr : Reachable bound s G) (hs : step bound (s, G) (.ingest budget) = some (s', G')) :
    G' ++ s'.unstable.mainChain.map (·.blk) = G ++ s.unstable.mainChain.map (·.blk) ∧
    s'.unstable.tree.blocks.Sublist s.unstable.tree.blocks := by
  obtain ⟨popped, rfl, hp, _⟩ := ingest_step hr hs
  exact ⟨by rw [popSteps_mainChain hp, List.append_assoc], popSteps_sublist bound hp⟩

/-- **`push` adds exactly one block** and moves neither the anchor nor the stable chain. -/
theorem push_step {s s' : State} {G G' : List Block} {b : Block}
    (hr : Reachable bound s G) (hd : Domain (s, G) (.push b))
    (hs : step bound (s, G) (.push b) = some (s', G')) :
    G' = G ∧ s'.utxos = s.utxos ∧ s'.headers = s.headers ∧
    (∃ cb : CBlock, cb.blk = b ∧ s'.unstable.tree.blocks.Perm (cb :: s.unstable.tree.blocks)) ∧
    s.unstable.tree.blocks.Sublist s'.unstable.tree.blocks ∧
    s'.unstable.tree.root = s.unstable.tree.root := by
  obtain ⟨u', hp, _, cb, hcb, hperm, _⟩ := push_preserves_invU s G b (reachable_inv hr) hd
  simp only [step, hp, Option.some.injEq, Prod.mk.injEq] at hs
  obtain ⟨rfl, rfl⟩ := hs
  obtain ⟨h1, h2⟩ := C03.push_keeps_blocks s.unstable u' s.utxos b hp
  exact ⟨rfl, rfl, rfl, ⟨cb, hcb, hperm⟩, h1, h2⟩

/-- **`set_config` (e.g. a new stability threshold) changes neither the stable set, nor the header
    store, nor the tree, nor the ghost** — only the *next* `peek`/`pop` reads the new threshold. -/
theorem setConfig_step {s s' : State} {G G' : List Block} {c : State.SetConfig}
    (hs : step bound (s, G) (.setConfig c) = some (s', G')) :
    G' = G ∧ s'.utxos = s.utxos ∧ s'.headers = s.headers ∧ s'.unstable.tree = s.unstable.tree := by
  simp only [step, Option.some.injEq, Prod.mk.injEq] at hs
  obtain ⟨rfl, rfl⟩ := hs
  obtain ⟨h1, h2, h3, _⟩ := setConfig_frame s c
  exact ⟨rfl, h1, h2, h3⟩

/-- an upgrade keeps the stable set, the header store and the blocks of the tree -/
theorem upgrade_step {s s' : State} {G G' : List Block} {c : Option State.SetConfig}
    (hs : step bound (s, G) (.upgrade c) = some (s', G')) :
    G' = G ∧ s'.utxos = s.utxos ∧ s'.headers = s.headers ∧
      s'.unstable.tree.blocks.map (·.blk) = s.unstable.tree.blocks.map (·.blk) := by
  simp only [step, Option.some.injEq, Prod.mk.injEq] at hs
  obtain ⟨rfl, rfl⟩ := hs
  have hb : (upgraded s).unstable.tree.blocks.map (·.blk) = s.unstable.tree.blocks.map (·.blk) := by
    rw [upgraded_tree, blocks_mapT, List.map_map]
    apply List.map_congr_left
    intro c _; rfl
  rw [upgrade_eq]
  cases c with
  | none => exact ⟨rfl, rfl, rfl, hb⟩
  | some c =>
    obtain ⟨h1, h2, h3, _⟩ := setConfig_frame (upgraded s) c
    show G = G ∧ ((upgraded s).setConfig c).utxos = s.utxos ∧
      ((upgraded s).setConfig c).headers = s.headers ∧
      ((upgraded s).setConfig c).unstable.tree.blocks.map (·.blk) = _
    exact ⟨rfl, by rw [h1]; rfl, by rw [h2]; rfl, by rw [h3, hb]⟩

/-- queries and announced headers change neither the stable set, the header store nor the tree -/
theorem other_step {s s' : State} {G G' : List Block} {op : Op}
    (hop : op = .query ∨ ∃ h, op = .insertNext h)
    (hs : step bound (s, G) op = some (s', G')) :
    G' = G ∧ s'.utxos = s.utxos ∧ s'.headers = s.headers ∧ s'.unstable.tree = s.unstable.tree := by
  rcases hop with rfl | ⟨h, rfl⟩
  · simp only [step, Option.some.injEq, Prod.mk.injEq] at hs
    obtain ⟨rfl, rfl⟩ := hs
    exact ⟨rfl, rfl, rfl, rfl⟩
  · simp only [step] at hs
    split at hs
    · simp only [Option.some.injEq, Prod.mk.injEq] at hs
      obtain ⟨rfl, rfl⟩ := hs
      exact ⟨rfl, rfl, rfl, rfl⟩
    · cases hi : s.unstable.insertNextHeader h s.stableHeight with
      | none =>
        rw [hi] at hs
        simp only [Option.some.injEq, Prod.mk.injEq] at hs
        obtain ⟨rfl, rfl⟩ := hs
        exact ⟨rfl, rfl, rfl, rfl⟩
      | some u =>
        rw [hi] at hs
        simp only [Option.some.injEq, Prod.mk.injEq] at hs
        obtain ⟨rfl, rfl⟩ := hs
        unfold Unstable.insertNextHeader at hi
        simp only at hi
        split at hi
        · cases hi
        · simp only [Option.some.injEq] at hi
          subst hi
          exact ⟨rfl, rfl, rfl, rfl⟩

/-- **Only ingestion extends the stable chain, and only at its end.** -/
theorem step_ghost_prefix {s s' : State} {G G' : List Block} {op : Op}
    (hr : Reachable bound s G) (hd : Domain (s, G) op)
    (hs : step bound (s, G) op = some (s', G')) : ∃ popped, G' = G ++ popped := by
  cases op with
  | push b => exact ⟨[], by simp [(push_step hr hd hs).1]⟩
  | ingest budget =>
    obtain ⟨popped, h, _⟩ := ingest_step hr hs
    exact ⟨popped, h⟩
  | setConfig c => exact ⟨[], by simp [(setConfig_step hs).1]⟩
  | upgrade c => exact ⟨[], by simp [(upgrade_step hs).1]⟩
  | query => exact ⟨[], by simp [(other_step (Or.inl rfl) hs).1]⟩
  | insertNext h => exact ⟨[], by simp [(other_step (Or.inr ⟨h, rfl⟩) hs).1]⟩

/-- **Only `push` adds a block to the tree**: after any other operation the blocks of the tree
    are a sublist of the blocks before. -/
theorem step_tree_shrinks {s s' : State} {G G' : List Block} {op : Op}
    (hr : Reachable bound s G) (hs : step bound (s, G) op = some (s', G'))
    (hop : ∀ b, op ≠ .push b) :
    (s'.unstable.tree.blocks.map (·.blk)).Sublist (s.unstable.tree.blocks.map (·.blk)) := by
  cases op with
  | push b => exact absurd rfl (hop b)
  | ingest budget => exact ((ingest_follows_main_chain hr hs).2).map _
  | setConfig c => rw [(setConfig_step hs).2.2.2]; exact List.Sublist.refl _
  | upgrade c => rw [(upgrade_step hs).2.2.2]; exact List.Sublist.refl _
  | query => rw [(other_step (Or.inl rfl) hs).2.2.2]; exact List.Sublist.refl _
  | insertNext h => rw [(other_step (Or.inr ⟨h, rfl⟩) hs).2.2.2]; exact List.Sublist.refl _

/-! ### Runs -/

theorem run_iff (sg sg' : State × List Block) (ops : List Op) :
    Run bound sg ops sg' ↔ DomainAll bound sg ops ∧ runOps bound sg ops = some sg' := by
  induction ops generalizing sg with
  | nil =>
    constructor
    · intro h; cases h; exact ⟨trivial, rfl⟩
    · rintro ⟨_, h⟩
      simp only [runOps, Option.some.injEq] at h
      subst h
      exact Run.nil _
  | cons op ops ih =>
    constructor
    · intro h
      cases h with
      | cons _ _ sg1 _ _ hd hs hrest =>
        obtain ⟨h1, h2⟩ := (ih sg1).mp hrest
        refine ⟨⟨hd, ?_⟩, by simp [runOps, hs, h2]⟩
        intro sg2 hs2
        rw [hs] at hs2
        cases hs2
        exact h1
    · rintro ⟨⟨hd, hall⟩, h⟩
      simp only [runOps] at h
      cases hs : step bound sg op with
      | none => rw [hs] at h; cases h
      | some sg1 =>
        rw [hs] at h
        exact Run.cons sg op sg1 ops sg' hd hs ((ih sg1).mpr ⟨hall sg1 hs, h⟩)

/-- **The stable chain only grows at its end** along every run. -/
theorem run_ghost_prefix {sg sg' : State × List Block} {ops : List Op}
    (hrun : Run bound sg ops sg') :
    Reachable bound sg.1 sg.2 → ∃ popped, sg'.2 = sg.2 ++ popped := by
  induction hrun with
  | nil sg => intro _; exact ⟨[], by simp⟩
  | cons sg op sg1 ops sg2 hd hs _ ih =>
    intro hr
    obtain ⟨p1, h1⟩ := step_ghost_prefix (s' := sg1.1) (G' := sg1.2) hr hd hs
    obtain ⟨p2, h2⟩ := ih (Reachable.step sg.1 sg.2 op sg1.1 sg1.2 hr hd hs)
    exact ⟨p1 ++ p2, by rw [h2, h1, List.append_assoc]⟩

/-- **Finality**: a block that is stable at height `i` is the stable block of height `i` in every
    later state of every run. -/
theorem stable_block_final {s s' : State} {G G' : List Block} {ops : List Op}
    (hr : Reachable bound s G) (hrun : Run bound (s, G) ops (s', G')) (i : Nat) (b : Block)
    (hb : G[i]? = some b) : G'[i]? = some b := by
  obtain ⟨popped, h⟩ := run_ghost_prefix hrun hr
  simp only at h
  rw [h, List.getElem?_append_left (List.getElem?_eq_some_iff.mp hb).1]
  exact hb

/-- **The stable height never decreases** along a run. -/
theorem stable_height_mono {s s' : State} {G G' : List Block} {ops : List Op}
    (hr : Reachable bound s G) (hrun : Run bound (s, G) ops (s', G')) :
    s.utxos.nextHeight ≤ s'.utxos.nextHeight := by
  obtain ⟨popped, h⟩ := run_ghost_prefix hrun hr
  simp only at h
  have h1 := (reachable_inv hr).inv.heightEq
  have h2 := (reachable_inv (run_reachable hrun hr)).inv.heightEq
  simp only at h2
  rw [h1, h2, h]
  simp

/-- **The header store is append-only** (by height): once height `i` maps to hash `h`, it does so
    in every later state of every run. Heights are written exactly once, at the stable height, by
    the ingestion loop (`ingest_step`: `s'.headers = insertHeaders s.headers popped G.length`). -/
theorem headers_append_only {s s' : State} {G G' : List Block} {ops : List Op}
    (hr : Reachable bound s G) (hrun : Run bound (s, G) ops (s', G')) (i h : Nat)
    (hh : AList.find? s.headers.byHeight i = some h) :
    AList.find? s'.headers.byHeight i = some h := by
  have hI := (reachable_inv hr).inv
  have hI' := (reachable_inv (run_reachable hrun hr)).inv
  simp only at hI'
  obtain ⟨popped, hG⟩ := run_ghost_prefix hrun hr
  simp only at hG
  by_cases hi : i < G.length
  · have h1 := hI.headers i hi
    rw [hh] at h1
    have hi' : i < G'.length := by rw [hG]; simp; omega
    rw [hI'.headers i hi', h1]
    congr 2
    simp only [hG]
    rw [List.getElem_append_left hi]
  · have := hI.headersOnly i (by omega)
    rw [hh] at this
    cases this

/-- ... and so are the stored headers of the stable blocks (by hash) -/
theorem headers_byHash_stay {s s' : State} {G G' : List Block} {ops : List Op}
    (hr : Reachable bound s G) (hrun : Run bound (s, G) ops (s', G')) (g : Block) (hg : g ∈ G) :
    AList.find? s'.headers.byHash g.hash = some ⟨g.hash, g.prev, g.time, g.bits, g.header⟩ := by
  have hI' := (reachable_inv (run_reachable hrun hr)).inv
  simp only at hI'
  obtain ⟨popped, hG⟩ := run_ghost_prefix hrun hr
  simp only at hG
  exact hI'.headersByHash g (by rw [hG]; exact List.mem_append_left _ hg)

/-- the stable height is the number of stored heights: exactly the heights below it are written -/
theorem headers_heights {s : State} {G : List Block} (hr : Reachable bound s G) (i : Nat) :
    (AList.find? s.headers.byHeight i).isSome = true ↔ i < s.utxos.nextHeight := by
  have hI := (reachable_inv hr).inv
  rw [hI.heightEq]
  by_cases hi : i < G.length
  · simp [hI.headers i hi, hi]
  · simp [hI.headersOnly i (by omega), hi]

/-! ### The served chain changes only by `push` -/

section MainChainMap
variable {α β : Type}

mutual
theorem mainChainInner_mapT (f : α → β) (d : β → Nat) (d' : α → Nat) (hd : ∀ a, d (f a) = d' a) :
    ∀ t : Tree α, mainChainInner d (mapT f t) =
      ((mainChainInner d' t).1, (mainChainInner d' t).2.1, (mainChainInner d' t).2.2.map f)
  | .node r cs => by
    have := bestChild_mapT f d d' hd cs (0, 0, [])
    simp only [List.map_nil] at this
    simp only [mapT, mainChainInner, hd, this, List.map_cons]
theorem bestChild_mapT (f : α → β) (d : β → Nat) (d' : α → Nat) (hd : ∀ a, d (f a) = d' a) :
    ∀ (cs : List (Tree α)) (acc : Nat × Nat × List α),
      bestChild d (mapTList f cs) (acc.1, acc.2.1, acc.2.2.map f) =
        ((bestChild d' cs acc).1, (bestChild d' cs acc).2.1, (bestChild d' cs acc).2.2.map f)
  | [], _ => rfl
  | c :: cs, acc => by
    simp only [mapTList, bestChild]
    rw [mainChainInner_mapT f d d' hd c]
    by_cases hk : keyGt ((mainChainInner d' c).1, (mainChainInner d' c).2.1) (acc.1, acc.2.1) = true
    · simp only [hk, if_true]
      exact bestChild_mapT f d d' hd cs (mainChainInner d' c)
    · simp only [hk, Bool.false_eq_true, if_false]
      exact bestChild_mapT f d d' hd cs acc
end

theorem mainChain_mapT (f : α → β) (d : β → Nat) (d' : α → Nat) (hd : ∀ a, d (f a) = d' a)
    (t : Tree α) : mainChain d (mapT f t) = (mainChain d' t).map f := by
  unfold mainChain
  rw [mainChainInner_mapT f d d' hd t]

end MainChainMap

/-- the chain served to the queries: the stable chain followed by the main chain of the tree -/
def servedChain (s : State) (G : List Block) : List Block := G ++ s.unstable.mainChain.map (·.blk)

/-- **The served chain changes only by `push`**: ingestion moves its first unstable blocks to the
    stable part, `set_config`, upgrades, queries and announced headers leave it alone. -/
theorem served_chain_unchanged {s s' : State} {G G' : List Block} {op : Op}
    (hr : Reachable bound s G) (hs : step bound (s, G) op = some (s', G'))
    (hop : ∀ b, op ≠ .push b) : servedChain s' G' = servedChain s G := by
  unfold servedChain
  cases op with
  | push b => exact absurd rfl (hop b)
  | ingest budget => exact (ingest_follows_main_chain hr hs).1
  | setConfig c =>
    obtain ⟨h1, _, _, h4⟩ := setConfig_step hs
    rw [h1, Unstable.mainChain, h4]; rfl
  | upgrade c =>
    simp only [step, Option.some.injEq, Prod.mk.injEq] at hs
    obtain ⟨rfl, rfl⟩ := hs
    have hu : (upgraded s).unstable.mainChain.map (·.blk) = s.unstable.mainChain.map (·.blk) := by
      unfold Unstable.mainChain
      rw [upgraded_tree, mainChain_mapT clearF CBlock.diff CBlock.diff (fun _ => rfl), List.map_map]
      apply List.map_congr_left
      intro c _; rfl
    rw [upgrade_eq]
    cases c with
    | none => rw [← hu]
    | some c =>
      obtain ⟨_, _, h3, _⟩ := setConfig_frame (upgraded s) c
      show G ++ ((upgraded s).setConfig c).unstable.mainChain.map (·.blk) = _
      rw [← hu, Unstable.mainChain, h3]; rfl
  | query =>
    obtain ⟨h1, _, _, h4⟩ := other_step (Or.inl rfl) hs
    rw [h1, Unstable.mainChain, h4]; rfl
  | insertNext h =>
    obtain ⟨h1, _, _, h4⟩ := other_step (Or.inr ⟨h, rfl⟩) hs
    rw [h1, Unstable.mainChain, h4]; rfl

/-- the stable chain is always a prefix of the served chain -/
theorem stable_prefix_of_served (s : State) (G : List Block) : G <+: servedChain s G :=
  List.prefix_append _ _

/-! ### Non-vacuity: a run with a push and an ingestion that advances the anchor -/

open Btc.Props.InvPush in
/-- From `State::new` (threshold 1, mainnet rule) on `g0`, pushing `b1` and ingesting with enough
    budget is a run of the system; it makes `g0` stable and leaves `b1` as the anchor. -/
theorem ex_run : ∃ s0 s', State.new 1 .mainnet g0 = some s0 ∧
    Run (fun _ _ => 0) (s0, []) [.push b1, .ingest 100] (s', [g0]) ∧
    s'.utxos.nextHeight = 1 ∧ s'.unstable.tree.blocks.map (·.blk) = [b1] := by
  obtain ⟨s0, h0, hinv⟩ := init_establishes_inv 1 .mainnet g0 (by decide)
  obtain ⟨_, _, _, _, fr, d, ht⟩ := new_shape' h0
  have hblocks : s0.unstable.tree.blocks.map (·.blk) = [g0] := by rw [ht]; rfl
  have hpath : ∀ p, pathBlocks s0.unstable.tree b1.prev = some p → p = [g0] := by
    intro p hp
    rw [ht] at hp
    simp only [pathBlocks, Tree.leaf, Tree.chainWithTip] at hp
    split at hp
    · simp only [Option.map_some, List.map_cons, List.map_nil, Option.some.injEq] at hp
      exact hp.symm
    · rename_i hn; exact absurd rfl hn
  have hd : PushDomain s0 [] b1 :=
    { fresh := by rw [hblocks]; decide
      parent := by rw [ht]; simp [Tree.contains, Tree.leaf, Tree.chainWithTip, CBlock.hash, g0, b1]
      valid := by intro p hp; rw [hpath p hp]; decide
      unique := by intro p hp; rw [hpath p hp]; decide
      consistent := by rw [hblocks]; decide }
  -- the run, by evaluation of the model
  have heval : ((State.new 1 .mainnet g0).bind (fun s0 =>
      runOps (fun _ _ => 0) (s0, []) [.push b1, .ingest 100])).map
        (fun sg => (sg.2, sg.1.utxos.nextHeight, sg.1.unstable.tree.blocks.map (·.blk))) =
      some ([g0], 1, [b1]) := by decide +kernel
  rw [h0] at heval
  simp only [Option.bind_some] at heval
  cases hrun : runOps (fun _ _ => 0) (s0, []) [.push b1, .ingest 100] with
  | none => rw [hrun] at heval; cases heval
  | some sg' =>
    rw [hrun] at heval
    simp only [Option.map_some, Option.some.injEq, Prod.mk.injEq] at heval
    obtain ⟨e1, e2, e3⟩ := heval
    refine ⟨s0, sg'.1, h0, ?_, e2, e3⟩
    have : (sg'.1, [g0]) = sg' := by rw [← e1]
    rw [this, run_iff]
    refine ⟨⟨hd, ?_⟩, hrun⟩
    intro sg1 _
    exact ⟨trivial, fun _ _ => trivial⟩


/-- the theorems of this file apply to that run: `g0` is final, and the served chain was not changed
    by the ingestion -/
example : ∃ s0 s', State.new 1 .mainnet Btc.Props.InvPush.g0 = some s0 ∧
    Run (fun _ _ => 0) (s0, []) [.push Btc.Props.InvPush.b1, .ingest 100] (s', [Btc.Props.InvPush.g0]) ∧
    s0.utxos.nextHeight ≤ s'.utxos.nextHeight := by
  obtain ⟨s0, s', h0, hrun, _, _⟩ := ex_run
  exact ⟨s0, s', h0, hrun,
    stable_height_mono (Reachable.init 1 .mainnet _ s0 (by decide) h0) hrun⟩

end Btc.Props.C03History
