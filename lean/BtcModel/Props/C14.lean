import BtcModel.Model.Endpoints
import BtcModel.Gen.Constants

/-!
# C14 — data endpoints are gated by access flag, network and sync status

`State.guard` models `verify_api_access; verify_network; verify_synced` (`canister/src/lib.rs`),
the `call*` functions model each endpoint as a whole message.
-/
namespace Btc.Props.C14
open Btc Btc.State

/-- The canister is synced iff the highest announced header is at most `SYNCED_THRESHOLD` above the
    best-chain height. -/
theorem isSynced_iff (s : State) (thr : Nat) :
    s.isSynced thr = true ↔ (s.unstable.next.maxHeight).getD 0 ≤ s.mainChainHeight + thr := by
  unfold isSynced
  simp only [ge_iff_le, decide_eq_true_eq]
  omega

/-- The threshold in the current source is 2 ("more than 2 above"). -/
theorem synced_threshold_is_two : Btc.Gen.syncedThreshold = 2 := by decide

/-- **The guard is exactly the documented rule**: a request passes iff API access is enabled, it
    names the canister's network and — for endpoints subject to the sync rule, when the flag is on —
    the canister is synced. -/
theorem guard_passes_iff (env : Env) (s : State) (reqNet : Tree.Net) (syncRule : Bool) :
    s.guard env reqNet syncRule = none ↔
      s.apiAccess = true ∧ reqNet = s.network ∧
        (syncRule = true → s.disableApiIfNotSynced = true → s.isSynced env.syncedThreshold = true) := by
  unfold State.guard
  cases ha : s.apiAccess <;> simp
  by_cases hn : reqNet = s.network
  · simp [hn]
  · simp [hn]

/-- Precedence of the refusals. -/
theorem guard_refusal (env : Env) (s : State) (reqNet : Tree.Net) (syncRule : Bool) :
    s.guard env reqNet syncRule =
      if s.apiAccess = false then some .apiDisabled
      else if reqNet ≠ s.network then some .wrongNetwork
      else if syncRule = true ∧ s.disableApiIfNotSynced = true ∧ s.isSynced env.syncedThreshold = false
        then some .notSynced else none := by
  unfold State.guard
  cases s.apiAccess <;> simp
  by_cases hn : reqNet = s.network <;> simp [hn]
  cases syncRule <;> cases s.disableApiIfNotSynced <;> cases s.isSynced env.syncedThreshold <;> simp

/-- Every data endpoint refuses (traps: no new state, nothing charged) whenever the guard refuses,
    whatever the rest of the request is. -/
theorem refused_calls_have_no_effect (env : Env) (s : State) (r : DataReq) (g : Refusal)
    (h : s.guard env r.reqNet true = some g) :
    s.callGetUtxos env r = .trap (.refused g) ∧
    s.callGetUtxosQuery env r = .trap (.refused g) ∧
    s.callGetBalance env r = .trap (.refused g) ∧
    s.callGetBalanceQuery env r = .trap (.refused g) ∧
    s.callGetBlockHeaders env r = .trap (.refused g) ∧
    s.callFeePercentiles env r = .trap (.refused g) := by
  simp [callGetUtxos, callGetUtxosQuery, callGetBalance, callGetBalanceQuery, callGetBlockHeaders,
    callFeePercentiles, h]

/-- Conversely a call that passes the guard is never refused for gating reasons. -/
theorem passed_guard_never_refused (env : Env) (s : State) (r : DataReq) (g : Refusal)
    (h : s.guard env r.reqNet true = none) :
    s.callGetUtxosQuery env r ≠ .trap (.refused g) ∧ s.callGetBalanceQuery env r ≠ .trap (.refused g) := by
  constructor
  · unfold callGetUtxosQuery; rw [h]; simp only; split <;> simp
  · unfold callGetBalanceQuery; rw [h]; simp only; split <;> simp

/-- `send_transaction` is exempt from the sync rule: it is refused only for a disabled API or a
    wrong network. -/
theorem send_transaction_exempt_from_sync_rule (env : Env) (s : State) (reqNet : Tree.Net)
    (available len : Nat) (wf : Bool) (g : Refusal)
    (h : s.callSendTransaction env reqNet available len wf = .trap (.refused g)) :
    g = .apiDisabled ∨ g = .wrongNetwork := by
  unfold callSendTransaction at h
  split at h
  · rename_i g' hg
    simp at h; subst h
    rw [guard_refusal] at hg
    split at hg
    · simp at hg; exact Or.inl hg.symm
    · split at hg
      · simp at hg; exact Or.inr hg.symm
      · simp at hg
  · split at h <;> simp at h

/-! Non-vacuity: all three refusals occur. -/
example (env : Env) (s : State) (h : s.apiAccess = false) : s.guard env s.network true = some .apiDisabled := by
  simp [State.guard, h]

end Btc.Props.C14
