import BtcModel.Lemmas.ReachNext

/-!
# C20 — the bookkeeping of the unstable blocks is exact

For every state reachable in the transition system of `Spec/Reach.lean` (pushes of blocks in the
domain, ingestions that do not pause, `set_config`, upgrades, queries, announced headers):

* (a) the stable-memory block cache holds exactly the hashes of the tree blocks, each once;
* (b) the per-block added/removed maps are keyed by exactly the tree hashes;
* (c) the tx-out cache has an entry for an outpoint iff some tree block references it, the count
  is the number of references and the content is the true output; so every lookup/removal a later
  step performs for a tree block finds its entry;
* (d) the cached tip depths are the recomputed ones (also right after an upgrade);
* (e) the two maps of the announced headers agree, an announced header is never a tree block
  (`push` removes it), every stored height is above the stable height (`pop` removes the others),
  and `get_max_height` is the maximum stored height.

The statements are plain equalities about the model state; the proofs are corollaries of
`Lemmas.Reach.reachable_inv` (`Spec.InvU`) and `Lemmas.ReachNext.reachable_next` (`Spec.NextInv`).
-/
namespace Btc.Props.C20
open Btc Btc.Spec Btc.Lemmas.Reach Btc.Lemmas.ReachNext Btc.Lemmas.NextHeaders

variable {bound : Unstable.BoundFn} {s : State} {G : List Block}

/-- the hashes of the blocks of the unstable tree (pre-order) -/
def treeHashes (s : State) : List Nat := s.unstable.tree.blocks.map CBlock.hash

/-- all outpoint references of the tree blocks: one per input and one per output of every
    transaction of every block -/
def treeRefs (s : State) : List OutPoint := s.unstable.tree.blocks.flatMap (fun b => blockRefs b.blk)

/-! ### (a) the block cache -/

theorem tree_hashes_nodup (hr : Reachable bound s G) : (treeHashes s).Nodup :=
  Lemmas.Reach.tree_hashes_nodup (reachable_inv hr).inv

/-- **(a)** a hash is in the stable-memory block cache iff it is the hash of a tree block -/
theorem blockCache_contains (hr : Reachable bound s G) (h : Nat) :
    s.unstable.blockCache.contains h = (treeHashes s).contains h :=
  (reachable_inv hr).inv.caches.blockCache h

theorem blockCache_nodup (hr : Reachable bound s G) : s.unstable.blockCache.Nodup :=
  (reachable_inv hr).blockCacheNodup

/-- **(a)** the block cache is a permutation of the tree hashes: same entries, each once -/
theorem blockCache_perm (hr : Reachable bound s G) : s.unstable.blockCache.Perm (treeHashes s) := by
  rw [List.perm_ext_iff_of_nodup (blockCache_nodup hr) (tree_hashes_nodup hr)]
  intro h
  have := blockCache_contains hr h
  rw [Bool.eq_iff_iff, List.contains_iff_mem, List.contains_iff_mem] at this
  exact this

theorem blockCache_length (hr : Reachable bound s G) :
    s.unstable.blockCache.length = s.unstable.tree.blocks.length := by
  rw [(blockCache_perm hr).length_eq, treeHashes, List.length_map]

/-! ### (b) the per-block address maps -/

/-- **(b)** the added-outpoints map has an entry for `h` iff `h` is a tree hash -/
theorem added_keys (hr : Reachable bound s G) (h : Nat) :
    AList.contains s.unstable.cache.added h = (treeHashes s).contains h :=
  (reachable_inv hr).inv.caches.addedKeys h

/-- **(b)** the removed-outpoints map has an entry for `h` iff `h` is a tree hash -/
theorem removed_keys (hr : Reachable bound s G) (h : Nat) :
    AList.contains s.unstable.cache.removed h = (treeHashes s).contains h :=
  (reachable_inv hr).inv.caches.removedKeys h

/-- **(b)** their contents are the specified per-address lists -/
theorem added_content (hr : Reachable bound s G) (b : CBlock) (hb : b ∈ s.unstable.tree.blocks)
    (a : Addr) : s.unstable.cache.getAdded b.hash a = addedSpec b.blk a :=
  (reachable_inv hr).inv.caches.added b hb a

theorem removed_content (hr : Reachable bound s G) (b : CBlock) (hb : b ∈ s.unstable.tree.blocks)
    (a : Addr) : s.unstable.cache.getRemoved b.hash a =
      removedSpec (G ++ s.unstable.tree.blocks.map (·.blk)) b.blk a :=
  (reachable_inv hr).inv.caches.removed b hb a

/-! ### (c) the tx-out cache -/

theorem txOuts_keys_nodup (hr : Reachable bound s G) : (s.unstable.cache.txOuts.map (·.1)).Nodup :=
  (reachable_inv hr).inv.caches.txOutsNodup

/-- **(c)** an outpoint has a tx-out entry iff some tree block references it -/
theorem txOut_entry_iff (hr : Reachable bound s G) (o : OutPoint) :
    (s.unstable.cache.getTxOut o).isSome = true ↔ ∃ b ∈ s.unstable.tree.blocks, o ∈ blockRefs b.blk := by
  have h := (reachable_inv hr).inv.caches.txOuts o
  have hm : (∃ b ∈ s.unstable.tree.blocks, o ∈ blockRefs b.blk) ↔ 0 < refCount s.unstable.tree o := by
    unfold refCount
    rw [List.count_pos_iff, List.mem_flatMap]
  rw [hm]
  unfold OutPointsCache.getTxOut
  cases hf : AList.find? s.unstable.cache.txOuts o with
  | none => rw [hf] at h; simp only at h; simp [h]
  | some i => rw [hf] at h; simp only at h; simp; omega

/-- **(c)** the stored count is the number of references from tree blocks (positive), and the
    stored output is the output the outpoint designates in the history -/
theorem txOut_entry (hr : Reachable bound s G) (o : OutPoint) (i : TxOutInfo)
    (hf : AList.find? s.unstable.cache.txOuts o = some i) :
    i.count = (treeRefs s).count o ∧ 0 < i.count ∧
      outAt (G ++ s.unstable.tree.blocks.map (·.blk)) o = some i.txout := by
  have h := (reachable_inv hr).inv.caches.txOuts o
  rw [hf] at h
  exact ⟨h.1.symm, h.2.1, h.2.2⟩

/-- **(c)** no entry for an outpoint that no tree block references -/
theorem txOut_absent (hr : Reachable bound s G) (o : OutPoint)
    (hf : AList.find? s.unstable.cache.txOuts o = none) : (treeRefs s).count o = 0 := by
  have h := (reachable_inv hr).inv.caches.txOuts o
  rw [hf] at h
  exact h

/-- **(c)** every outpoint that `apply_block`, `get_balance`, `tx_fee_per_byte` or
    `OutPointsCache::remove` looks up for a tree block is present (no later step fails on a
    missing entry), and it holds the true output -/
theorem refs_present (hr : Reachable bound s G) (b : CBlock) (hb : b ∈ s.unstable.tree.blocks)
    (o : OutPoint) (ho : o ∈ blockRefs b.blk) :
    (s.unstable.cache.getTxOut o).isSome = true ∧
    ∃ i, AList.find? s.unstable.cache.txOuts o = some i ∧
      outAt (G ++ s.unstable.tree.blocks.map (·.blk)) o = some i.txout := by
  obtain ⟨i, hi, ho'⟩ := Btc.Props.InvPush.cache_entry_of_ref (reachable_inv hr).inv.caches hb ho
  exact ⟨by simp [OutPointsCache.getTxOut, hi], i, hi, ho'⟩

/-- **(c)** `OutPointsCache::remove` succeeds for every tree block (it never panics with
    "outpoint must be present") -/
theorem remove_succeeds (hr : Reachable bound s G) (b : CBlock) (hb : b ∈ s.unstable.tree.blocks) :
    (s.unstable.cache.remove b.blk).isSome = true := by
  have hC := (reachable_inv hr).inv.caches
  have hpos : PositiveCounts s.unstable.cache.txOuts := by
    intro o i hf
    have := hC.txOuts o
    rw [hf] at this
    exact this.2.1
  have hle : ∀ o, (blockRefs b.blk).count o ≤ cntOf s.unstable.cache.txOuts o := by
    intro o
    have h1 := hC.txOuts o
    have h2 : (blockRefs b.blk).count o ≤ refCount s.unstable.tree o := by
      obtain ⟨l1, l2, e⟩ := List.append_of_mem hb
      unfold refCount
      rw [e]
      simp only [List.flatMap_append, List.flatMap_cons, List.count_append]
      omega
    unfold cntOf
    cases hf : AList.find? s.unstable.cache.txOuts o with
    | none => rw [hf] at h1; simp only at h1 ⊢; omega
    | some i => rw [hf] at h1; simp only at h1 ⊢; omega
  obtain ⟨m', hm', _⟩ := decRefs_spec (blockRefs b.blk) s.unstable.cache.txOuts hpos hC.txOutsNodup hle
  simp [OutPointsCache.remove, hm']

/-! ### (d) tip depths -/

/-- **(d)** the cached tip depths are the recomputed tip depths -/
theorem tipDepths_exact (hr : Reachable bound s G) :
    s.unstable.tipDepthsCache = s.unstable.tree.tipDepths :=
  (reachable_inv hr).inv.caches.tipDepths

/-- **(d)** right after `post_upgrade` the cache is exact, for *every* pre-state (it is recomputed) -/
theorem tipDepths_after_upgrade (s : State) (c : Option State.SetConfig) :
    (s.upgrade c).unstable.tipDepthsCache = (s.upgrade c).unstable.tree.tipDepths :=
  upgrade_tipDepths s c

/-- the upgrade clears the per-block metrics but keeps the blocks (hence all of (a)–(c)) -/
theorem upgrade_keeps_blocks (s : State) (c : Option State.SetConfig) :
    (s.upgrade c).unstable.tree.blocks.map (·.blk) = s.unstable.tree.blocks.map (·.blk) := by
  rw [upgrade_eq]
  have h : (upgraded s).unstable.tree.blocks.map (·.blk) = s.unstable.tree.blocks.map (·.blk) := by
    rw [upgraded_tree, blocks_mapT, List.map_map]
    apply List.map_congr_left
    intro c _; rfl
  cases c with
  | none => exact h
  | some c =>
    obtain ⟨_, _, h3, _⟩ := setConfig_frame (upgraded s) c
    simp only
    rw [h3, h]

/-! ### (e) announced headers -/

/-- **(e)** the two maps agree: `hash_to_height_and_header[h] = (ht, _)` iff
    `h ∈ height_to_hash[ht]` -/
theorem next_maps_agree (hr : Reachable bound s G) (h ht : Nat) :
    s.unstable.next.getHeight h = some ht ↔
      ∃ v, AList.find? s.unstable.next.byHeight ht = some v ∧ h ∈ v :=
  (reachable_next hr).ok.agree h ht

/-- **(e)** both maps have pairwise distinct keys, every stored vector is non-empty and lists each
    hash once, and a header is stored under its own hash -/
theorem next_wellformed (hr : Reachable bound s G) : NextOk s.unstable.next :=
  (reachable_next hr).ok

/-- **(e)** no announced header is (the header of) a tree block -/
theorem next_not_in_tree (hr : Reachable bound s G) (c : CBlock) (hc : c ∈ s.unstable.tree.blocks) :
    s.unstable.next.getHeader c.hash = none :=
  (reachable_next hr).notInTree c hc

/-- **(e)** `push` removes the pushed block from the announced headers (for every state) -/
theorem push_removes_next (u u' : Unstable) (utxos : UtxoSet) (b : Block)
    (h : u.push utxos b = .ok u') : u'.next.getHeader b.hash = none := by
  cases hf : Tree.findDepth CBlock.hash b.prev u.tree with
  | none => simp [Unstable.push, hf] at h
  | some depth =>
    simp only [Unstable.push, hf] at h
    cases hi : insertOutpoints u.cache utxos b (utxos.nextHeight + depth + 1) with
    | none => simp [hi] at h
    | some cm =>
      obtain ⟨cache, m⟩ := cm
      simp only [hi] at h
      cases he : Tree.extend CBlock.hash b.prev (CBlock.mk b (some m.feeRates) m.utxoDelta) u.tree with
      | none => simp [he] at h
      | some tree =>
        simp only [he, Unstable.PushResult.ok.injEq] at h
        rw [← h]
        simp [getHeader_remove]

/-- **(e)** every stored height is above the stable height -/
theorem next_heights_above (hr : Reachable bound s G) (h ht : Nat)
    (hg : s.unstable.next.getHeight h = some ht) : s.utxos.nextHeight < ht :=
  (reachable_next hr).above h ht hg

/-- **(e)** after `pop` with stable height `sh` every stored height is `> sh`
    (`remove_until_height`), for every pre-state whose maps agree -/
theorem pop_removes_until (bnd : Unstable.BoundFn) (u u' : Unstable) (sh : Nat) (b : Block)
    (hok : NextOk u.next) (hp : u.pop bnd sh = .ok u' b) (h ht : Nat)
    (hg : u'.next.getHeight h = some ht) : sh < ht ∧ u.next.getHeight h = some ht := by
  obtain ⟨_, _, _, _, _, _, hnext, _⟩ := pop_ok_shape bnd u u' sh b hp
  rw [hnext, getHeight_removeUntil _ hok] at hg
  exact ⟨hg.2, hg.1⟩

/-- **(e)** `get_max_height` is the maximum stored height -/
theorem maxHeight_is_max (hr : Reachable bound s G) (m : Nat) :
    s.unstable.next.maxHeight = some m ↔
      (∃ h, s.unstable.next.getHeight h = some m) ∧
        ∀ h ht, s.unstable.next.getHeight h = some ht → ht ≤ m :=
  maxHeight_eq_some_iff _ (reachable_next hr).ok m

theorem maxHeight_none_iff (hr : Reachable bound s G) :
    s.unstable.next.maxHeight = none ↔ ∀ h, s.unstable.next.getHeight h = none :=
  maxHeight_eq_none_iff _ (reachable_next hr).ok

/-! ### Non-vacuity and the model by evaluation

Reachable states exist (`C01Reach.ex_reachable`, `C03History.ex_run`).  The announced-header
operations by evaluation: the header of `b1` is announced at height 1 (above the stable height 0),
the two maps agree, and pushing `b1` removes it again. -/

open Btc.Props.InvPush in
example : ((State.new 2 .regtest g0).bind (fun s0 =>
    runOps (fun _ _ => 0) (s0, []) [.insertNext ⟨2, 1, 1, 0, "b1"⟩])).map
      (fun sg => (sg.1.unstable.next.getHeight 2, sg.1.unstable.next.byHeight,
        sg.1.unstable.next.maxHeight)) = some (some 1, [(1, [2])], some 1) := by decide +kernel

open Btc.Props.InvPush in
example : ((State.new 2 .regtest g0).bind (fun s0 =>
    runOps (fun _ _ => 0) (s0, []) [.insertNext ⟨2, 1, 1, 0, "b1"⟩, .push b1])).map
      (fun sg => (sg.1.unstable.next.getHeight 2, sg.1.unstable.next.byHeight,
        sg.1.unstable.next.maxHeight, sg.1.unstable.blockCache,
        sg.1.unstable.tree.blocks.map CBlock.hash)) =
      some (none, [], none, [1, 2], [1, 2]) := by decide +kernel

end Btc.Props.C20
