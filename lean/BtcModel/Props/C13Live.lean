import BtcModel.Lemmas.FetchLive

/-!
# C13, liveness half — fetching is never permanently disabled

Transition system: `Btc.Spec.Fetch` (`Spec/FetchProtocol.lean`), exactly as for the safety half
(`Props/C13.lean`). `Sys` contains the whole canister state, so the ingestion stage of the
heartbeat (`ingest_stable_blocks_into_utxoset`, paused/time-sliced ingestion included) IS part
of the system: a heartbeat returns early, without fetching, while ingestion has work to do.

1. `no_deadlock` (+ one corollary per phase): from every reachable state an explicit
   continuation `recovery …` of length `≤ n + m + 3` sends a new request.
2. `Fair`, `fair_issues`, `fair_unbounded`: under every fair schedule a request is sent within
   `3 * k` messages, from any reachable state; hence `m` requests within `m * (3 * k)` messages.
3. `mu`: progress measure of the exchange in flight; `mu_step` (no message other than a
   heartbeat starting a new exchange increases it, every useful message decreases it).
4. `reject_next_heartbeat`, `rejects_never_block`: after a reject at any phase the next effective
   heartbeat sends an initial request; any number of consecutive rejects only moves the counter.
5. `Example`: the hypotheses are satisfiable (`decide` on the concrete system of `Props/C13.lean`).

What the hypotheses exclude (cases in which the code legitimately stops fetching):
* `syncing = false` (`set_config`, or `post_upgrade` with a config): hypothesis `syncing = true` /
  `syncOn`;
* heartbeats that never get past the ingestion stage or trap (`effective`/`settles`): ingestion
  traps (F13: stability threshold changed while an ingestion is paused — `pop_block` no longer
  returns the block being ingested, every heartbeat traps), a stored complete response whose
  processing traps, fee-percentile computation trapping.
-/
namespace Btc.Props.C13Live
open Btc Btc.State Btc.Spec.Fetch Btc.Lemmas.Fetch Btc.Lemmas.FetchLive Btc.Props.C13

/-- reachable: the state after any schedule (any messages, any environments) from an initial one -/
def Reachable (sys : Sys) : Prop := ∃ sys0 acts, sys0.Initial ∧ sys = run sys0 acts

theorem Reachable.inv {sys : Sys} (h : Reachable sys) : Inv sys := by
  obtain ⟨sys0, acts, h0, rfl⟩ := h
  exact inv_reachable h0 acts

theorem Reachable.run {sys : Sys} (h : Reachable sys) (acts : List (Env × Action)) :
    Reachable (run sys acts) := by
  obtain ⟨sys0, acts0, h0, rfl⟩ := h
  exact ⟨sys0, acts0 ++ acts, h0, (run_append _ _ _).symm⟩

/-! ## 1. No deadlock: an explicit recovering continuation from every reachable state -/

/-- What the continuation needs from the ingestion / block-processing side of the heartbeat, for
    heartbeats in environment `env` with budget `b`: ingestion settles after `n` heartbeats; if a
    complete response is stored, the heartbeat processing it does not trap and ingestion of what
    it made stable settles after `m` further heartbeats. -/
def healthy (env : Env) (b n m : Nat) (s : State) : Bool :=
  settles env b n s &&
  match s.syncing.response with
  | some (.complete _) =>
    effective env (settled env b n s) b &&
    settles env b m (afterProcess env b (settled env b n s))
  | _ => true

/-- the continuation from an idle system: `n` ingestion heartbeats and one that fetches — unless a
    complete response is stored: then that heartbeat processes it, and `m` ingestion heartbeats
    and one that fetches follow -/
def resume (env : Env) (b n m : Nat) (sys : Sys) : List (Env × Action) :=
  match sys.st.syncing.response with
  | some (.complete _) => hbs env b (n + 1) ++ hbs env b (m + 1)
  | _ => hbs env b (n + 1)

/-- the system after the outstanding reply (if any) has been delivered -/
def afterDelivery (env : Env) (r : Reply) (sys : Sys) : Sys :=
  match sys.pending with
  | some _ => step env sys (.reply r)
  | none => sys

/-- **The recovering continuation**, as a function of the state: deliver the reply `r` (any reply:
    a reject, the expected page, even an ill-typed one) if a request is outstanding, then `resume`. -/
def recovery (env : Env) (b : Nat) (r : Reply) (n m : Nat) (sys : Sys) : List (Env × Action) :=
  (match sys.pending with
    | some _ => [(env, .reply r)]
    | none => []) ++ resume env b n m (afterDelivery env r sys)

theorem resume_length (env : Env) (b n m : Nat) (sys : Sys) : (resume env b n m sys).length ≤ n + m + 2 := by
  unfold resume
  split <;> simp [hbs_length] <;> omega

theorem recovery_length (env : Env) (b : Nat) (r : Reply) (n m : Nat) (sys : Sys) :
    (recovery env b r n m sys).length ≤ n + m + 3 := by
  have := resume_length env b n m (afterDelivery env r sys)
  unfold recovery
  split <;> simp <;> omega

/-- the request `resume` ends with -/
def ResumeRequest (env : Env) (b n m : Nat) (s : State) (req : Request) : Prop :=
  match s.syncing.response with
  | none => ∃ anchor rest, req = .initial anchor rest ∧
      anchor :: rest = (settled env b n s).unstable.tree.blocks.map CBlock.hash
  | some (.partial_ _ k) => req = .followUp k
  | some (.complete _) => ∃ anchor rest, req = .initial anchor rest ∧
      anchor :: rest =
        (settled env b m (afterProcess env b (settled env b n s))).unstable.tree.blocks.map CBlock.hash

/-- **Idle phases** (nothing stored / `k` of `n` pages stored / complete response stored, ingestion
    paused or not): from an idle system satisfying the invariant, with syncing enabled, `resume`
    sends exactly one request — its last message does — and that request is then outstanding. -/
theorem resume_issues {env : Env} {b n m : Nat} {sys : Sys} (inv : Inv sys) (hp : sys.pending = none)
    (hs : sys.st.syncing.syncing = true) (hh : healthy env b n m sys.st = true) :
    ∃ req, trace sys (resume env b n m sys) = [req] ∧
      (run sys (resume env b n m sys)).pending = some req ∧
      ResumeRequest env b n m sys.st req := by
  unfold healthy at hh
  rw [Bool.and_eq_true] at hh
  obtain ⟨hn, hh⟩ := hh
  unfold resume ResumeRequest
  cases hr : sys.st.syncing.response with
  | none =>
    have hc : ∀ r, sys.st.syncing.response ≠ some (.complete r) := by rw [hr]; intro r h; cases h
    obtain ⟨req, h1, h2, h3⟩ := settle_ready inv hp hs hn hc
    rw [hr] at h3
    exact ⟨req, h1, by rw [h2], h3⟩
  | some resp =>
    cases resp with
    | partial_ p k =>
      have hc : ∀ r, sys.st.syncing.response ≠ some (.complete r) := by rw [hr]; intro r h; cases h
      obtain ⟨req, h1, h2, h3⟩ := settle_ready inv hp hs hn hc
      rw [hr] at h3
      exact ⟨req, h1, by rw [h2], h3⟩
    | complete c =>
      rw [hr] at hh
      simp only [Bool.and_eq_true] at hh
      obtain ⟨he, hm⟩ := hh
      obtain ⟨t1, r1, hresp, hsync, _⟩ := settle_process hp hn hr he
      -- the system after the processing heartbeat
      have inv2 : Inv (⟨afterProcess env b (settled env b n sys.st), none⟩ : Sys) := by
        rw [← r1]; exact inv_run _ inv
      have hc2 : ∀ r, (afterProcess env b (settled env b n sys.st)).syncing.response ≠ some (.complete r) := by
        rw [hresp]; intro r h; cases h
      obtain ⟨req, h1, h2, h3⟩ := settle_ready (env := env) (b := b) (n := m) inv2 rfl
        (by dsimp only; rw [hsync]; exact hs) hm hc2
      dsimp only at h3
      rw [hresp] at h3
      refine ⟨req, ?_, ?_, h3⟩
      · dsimp only
        rw [trace_append, t1, r1, h1]; rfl
      · dsimp only
        rw [run_append, r1, h2]

/-- a reply never touches the syncing flag -/
theorem reply_syncing_flag (env : Env) (sys : Sys) (r : Reply) :
    (step env sys (.reply r)).st.syncing.syncing = sys.st.syncing.syncing := by
  simp only [step]
  cases sys.pending with
  | none => rfl
  | some req =>
    dsimp only
    cases hr : heartbeatReply sys.st r with
    | none => rfl
    | some s' => exact (heartbeatReply_spec hr).2.2.1

theorem afterDelivery_pending (env : Env) (r : Reply) (sys : Sys) : (afterDelivery env r sys).pending = none := by
  unfold afterDelivery
  cases hp : sys.pending with
  | none => exact hp
  | some req =>
    simp only [step, hp]
    split <;> rfl

theorem afterDelivery_eq (env : Env) (r : Reply) (sys : Sys) :
    afterDelivery env r sys =
      run sys (match sys.pending with | some _ => [(env, .reply r)] | none => []) := by
  unfold afterDelivery
  cases sys.pending <;> rfl

/-- **No deadlock.** From EVERY reachable state (any phase: idle, request outstanding, `k` of `n`
    pages stored, complete response stored, ingestion paused) with syncing enabled, the explicit
    continuation `recovery env b r n m sys` — of length at most `n + m + 3` — sends exactly one
    request, with its last message, and that request is then outstanding. `r` is arbitrary;
    `n`, `m` are the numbers of heartbeats ingestion needs (see `healthy`). -/
theorem no_deadlock {sys : Sys} (hreach : Reachable sys) (env : Env) (b : Nat) (r : Reply) (n m : Nat)
    (hs : sys.st.syncing.syncing = true)
    (hh : healthy env b n m (afterDelivery env r sys).st = true) :
    (recovery env b r n m sys).length ≤ n + m + 3 ∧
    ∃ req, trace sys (recovery env b r n m sys) = [req] ∧
      (run sys (recovery env b r n m sys)).pending = some req ∧
      ResumeRequest env b n m (afterDelivery env r sys).st req := by
  refine ⟨recovery_length env b r n m sys, ?_⟩
  have inv := hreach.inv
  have inv1 : Inv (afterDelivery env r sys) := by rw [afterDelivery_eq]; exact inv_run _ inv
  have hs1 : (afterDelivery env r sys).st.syncing.syncing = true := by
    unfold afterDelivery
    cases sys.pending with
    | none => exact hs
    | some req => dsimp only; rw [reply_syncing_flag]; exact hs
  obtain ⟨req, h1, h2, h3⟩ := resume_issues inv1 (afterDelivery_pending env r sys) hs1 hh
  refine ⟨req, ?_, ?_, h3⟩
  · unfold recovery
    rw [trace_append, ← afterDelivery_eq, h1]
    cases sys.pending <;> rfl
  · unfold recovery
    rw [run_append, ← afterDelivery_eq, h2]


/-! ### The phases one by one -/

/-- **Phase "idle, nothing stored"** (ingestion possibly paused: `n` rounds): the `(n+1)`-th
    heartbeat sends an initial request naming the anchor and the other unstable blocks. -/
theorem phase_idle {sys : Sys} (hreach : Reachable sys) (env : Env) (b n : Nat)
    (hp : sys.pending = none) (hr : sys.st.syncing.response = none)
    (hs : sys.st.syncing.syncing = true) (hn : settles env b n sys.st = true) :
    ∃ anchor rest, trace sys (hbs env b (n + 1)) = [.initial anchor rest] ∧
      (run sys (hbs env b (n + 1))).pending = some (.initial anchor rest) ∧
      anchor :: rest = (settled env b n sys.st).unstable.tree.blocks.map CBlock.hash := by
  have hc : ∀ r, sys.st.syncing.response ≠ some (.complete r) := by rw [hr]; intro r h; cases h
  obtain ⟨req, h1, h2, h3⟩ := settle_ready hreach.inv hp hs hn hc
  rw [hr] at h3
  obtain ⟨anchor, rest, rfl, hl⟩ := h3
  exact ⟨anchor, rest, h1, by rw [h2], hl⟩

/-- **Phase "`k` of `n` pages stored"**: the next effective heartbeat asks for page `k`. -/
theorem phase_partial {sys : Sys} (hreach : Reachable sys) (env : Env) (b n : Nat)
    (p : PartialResp) (k : Nat)
    (hp : sys.pending = none) (hr : sys.st.syncing.response = some (.partial_ p k))
    (hs : sys.st.syncing.syncing = true) (hn : settles env b n sys.st = true) :
    trace sys (hbs env b (n + 1)) = [.followUp k] ∧
    (run sys (hbs env b (n + 1))).pending = some (.followUp k) ∧
    (run sys (hbs env b (n + 1))).st.syncing.response = some (.partial_ p k) := by
  have hc : ∀ r, sys.st.syncing.response ≠ some (.complete r) := by rw [hr]; intro r h; cases h
  obtain ⟨req, h1, h2, h3⟩ := settle_ready hreach.inv hp hs hn hc
  rw [hr] at h3
  dsimp only at h3
  subst h3
  exact ⟨h1, by rw [h2], by rw [h2]; exact hr⟩

/-- **Phase "complete response stored"**: after the `n` ingestion rounds the response is
    processed (consumed exactly once), after `m` more rounds an initial request is sent. -/
theorem phase_complete {sys : Sys} (hreach : Reachable sys) (env : Env) (b n m : Nat) (c : CompleteResp)
    (hp : sys.pending = none) (hr : sys.st.syncing.response = some (.complete c))
    (hs : sys.st.syncing.syncing = true) (hn : settles env b n sys.st = true)
    (he : effective env (settled env b n sys.st) b = true)
    (hm : settles env b m (afterProcess env b (settled env b n sys.st)) = true) :
    (run sys (hbs env b (n + 1))).st.syncing.response = none ∧
    trace sys (hbs env b (n + 1)) = [] ∧
    ∃ anchor rest, trace sys (hbs env b (n + 1) ++ hbs env b (m + 1)) = [.initial anchor rest] ∧
      (run sys (hbs env b (n + 1) ++ hbs env b (m + 1))).pending = some (.initial anchor rest) := by
  obtain ⟨t1, r1, hresp, _, _⟩ := settle_process hp hn hr he
  have hh : healthy env b n m sys.st = true := by
    simp only [healthy, hr, hn, he, hm, Bool.and_self]
  obtain ⟨req, h1, h2, h3⟩ := resume_issues hreach.inv hp hs hh
  simp only [resume, hr] at h1 h2
  simp only [ResumeRequest, hr] at h3
  obtain ⟨anchor, rest, rfl, _⟩ := h3
  exact ⟨by rw [r1]; exact hresp, t1, anchor, rest, h1, h2⟩

/-- the canister state after a reject: only the fetch state changes -/
theorem reject_state (env : Env) (sys : Sys) (req : Request) (hp : sys.pending = some req) :
    step env sys (.reply .reject) =
      ⟨withSy { sys.st.syncing with rejects := sys.st.syncing.rejects + 1, response := none,
                                    isFetching := false } sys.st, none⟩ :=
  reject_step env sys req hp

/-- **Phase "request outstanding"** (initial or follow-up — i.e. also between the pages of a
    block): deliver a reject; after the `n` ingestion rounds the next heartbeat sends an INITIAL
    request. -/
theorem phase_pending_reject {sys : Sys} (hreach : Reachable sys) (env env' : Env) (b n : Nat)
    (req : Request) (hp : sys.pending = some req)
    (hs : sys.st.syncing.syncing = true) (hn : settles env b n sys.st = true) :
    ∃ anchor rest, trace sys ((env', .reply .reject) :: hbs env b (n + 1)) = [.initial anchor rest] ∧
      (run sys ((env', .reply .reject) :: hbs env b (n + 1))).pending = some (.initial anchor rest) ∧
      anchor :: rest = (settled env b n sys.st).unstable.tree.blocks.map CBlock.hash := by
  have hst := reject_state env' sys req hp
  have hreach1 : Reachable (step env' sys (.reply .reject)) := hreach.run [(env', .reply .reject)]
  obtain ⟨anchor, rest, h1, h2, h3⟩ := phase_idle hreach1 env b n (by rw [hst]) (by rw [hst]; rfl)
    (by rw [hst]; exact hs) (by rw [hst]; dsimp only; rw [settles_withSy]; exact hn)
  refine ⟨anchor, rest, ?_, h2, ?_⟩
  · simp only [trace, issued, h1]; rfl
  · rw [h3, hst]; dsimp only; rw [settled_withSy]; rfl

/-- **Phase "request for page `k` outstanding"**, the page arrives and is not the last one: the
    next effective heartbeat asks for page `k + 1`. -/
theorem phase_pending_page {sys : Sys} (hreach : Reachable sys) (env env' : Env) (b n : Nat)
    (acc : String) (next : List String) (total k : Nat) (page : String)
    (hp : sys.pending = some (.followUp k))
    (hr : sys.st.syncing.response = some (.partial_ ⟨acc, next, total⟩ k))
    (hk : k + 1 < total) (h255 : total ≤ 255)
    (hs : sys.st.syncing.syncing = true) (hn : settles env b n sys.st = true) :
    trace sys ((env', .reply (.followUp page)) :: hbs env b (n + 1)) = [.followUp (k + 1)] ∧
    (run sys ((env', .reply (.followUp page)) :: hbs env b (n + 1))).st.syncing.response =
      some (.partial_ ⟨acc ++ page, next, total⟩ (k + 1)) := by
  have hrep := reply_followUp sys.st acc next total k page hr (by omega)
  have hne : ¬ (k + 1 = total) := by omega
  simp only [hne, if_false] at hrep
  have hst : step env' sys (.reply (.followUp page)) =
      ⟨withSy { sys.st.syncing with response := some (.partial_ ⟨acc ++ page, next, total⟩ (k + 1)),
                                    isFetching := false } sys.st, none⟩ := by
    simp only [step, hp, hrep]; rfl
  have hreach1 : Reachable (step env' sys (.reply (.followUp page))) :=
    hreach.run [(env', .reply (.followUp page))]
  obtain ⟨h1, _, h3⟩ := phase_partial hreach1 env b n ⟨acc ++ page, next, total⟩ (k + 1)
    (by rw [hst]) (by rw [hst]; rfl) (by rw [hst]; exact hs)
    (by rw [hst]; dsimp only; rw [settles_withSy]; exact hn)
  refine ⟨?_, h3⟩
  simp only [trace, issued, h1]; rfl


/-! ### The happy path: the remaining pages arrive, the block is applied, fetching goes on -/

theorem issued_reply (env : Env) (sys : Sys) (r : Reply) : issued env sys (.reply r) = none := rfl

/-- for every page: a heartbeat (which asks for it), then the page -/
def pagesSchedule (env : Env) (b : Nat) : List String → List (Env × Action)
  | [] => []
  | pg :: rest => (env, .heartbeat b) :: (env, .reply (.followUp pg)) :: pagesSchedule env b rest

theorem pagesSchedule_length (env : Env) (b : Nat) (pages : List String) :
    (pagesSchedule env b pages).length = 2 * pages.length := by
  induction pages with
  | nil => rfl
  | cons pg rest ih => simp only [pagesSchedule, List.length_cons, ih]; omega

theorem withSy_self (s : State) (r : Option ResponseToProcess) (hr : s.syncing.response = r)
    (hf : s.syncing.isFetching = false) :
    withSy { s.syncing with response := r, isFetching := false } s = s := by
  cases s with
  | mk u un sy fc hd fe aa da lf sc =>
    cases sy
    simp_all [withSy]

/-- the fetch state after the pages `pages` have been appended to `k` stored pages -/
def pagesStored (sy : SyncingState) (acc : String) (next : List String) (total k : Nat)
    (pages : List String) : SyncingState :=
  { sy with
    response := some (if k + pages.length = total then .complete ⟨[joinPages acc pages], next⟩
                      else .partial_ ⟨joinPages acc pages, next, total⟩ (k + pages.length)),
    isFetching := false }

/-- **`k` of `total` pages stored, the next `pages.length` pages arrive.** Idle, syncing on,
    ingestion quiet: every heartbeat of `pagesSchedule` asks for exactly the next page
    (`followUp k, followUp (k+1), …`), every page is appended, ONLY the stored response changes,
    and the response is complete exactly when `k + pages.length = total`. -/
theorem deliver_pages (env : Env) (b : Nat) (next : List String) (total : Nat) (h255 : total ≤ 255) :
    ∀ (pages : List String) {sys : Sys} (acc : String) (k : Nat), Inv sys → sys.pending = none →
    sys.st.syncing.response = some (.partial_ ⟨acc, next, total⟩ k) → k + pages.length ≤ total →
    sys.st.syncing.syncing = true → quiet env b sys.st = true →
    trace sys (pagesSchedule env b pages) = (List.range pages.length).map (fun i => Request.followUp (k + i)) ∧
    run sys (pagesSchedule env b pages) =
      ⟨withSy (pagesStored sys.st.syncing acc next total k pages) sys.st, none⟩
  | [], sys, acc, k, inv, hp, hr, _, hs, _ => by
    have hk : k < total := by have := inv.wf; rw [hr] at this; exact this
    have hne : ¬ (k = total) := by omega
    have hf : sys.st.syncing.isFetching = false := by
      cases hfe : sys.st.syncing.isFetching with
      | false => rfl
      | true => have := inv.singleFlight.mpr hfe; rw [hp] at this; cases this
    refine ⟨rfl, ?_⟩
    obtain ⟨st, pending⟩ := sys
    dsimp only at hp hr hf ⊢
    subst hp
    simp only [pagesSchedule, run, pagesStored, List.length_nil, Nat.add_zero, hne, if_false, joinPages]
    rw [withSy_self st _ hr hf]
  | pg :: rest, sys, acc, k, inv, hp, hr, hlen, hs, hq => by
    have hk : k < total := by have := inv.wf; rw [hr] at this; exact this
    simp only [List.length_cons] at hlen
    have hc : ∀ c, sys.st.syncing.response ≠ some (.complete c) := by rw [hr]; intro c h; cases h
    obtain ⟨req, hi, hstep, hsel⟩ := hb_ready inv hp hs ((quiet_iff env b _).mp hq) hc
    rw [hr] at hsel
    dsimp only at hsel
    subst hsel
    have hrep := reply_followUp { sys.st with syncing := { sys.st.syncing with isFetching := true } }
      acc next total k pg hr (by omega)
    have hstep2 : step env (step env sys (.heartbeat b)) (.reply (.followUp pg)) =
        ⟨withSy (pagesStored sys.st.syncing acc next total k [pg]) sys.st, none⟩ := by
      rw [hstep]
      simp only [step, hrep]
      rfl
    have inv2 : Inv (step env (step env sys (.heartbeat b)) (.reply (.followUp pg))) :=
      inv_step env _ (inv_step env _ inv)
    by_cases hlast : k + 1 = total
    · have : rest = [] := by
        cases rest with
        | nil => rfl
        | cons a l => simp only [List.length_cons] at hlen; omega
      subst this
      refine ⟨?_, ?_⟩
      · simp only [pagesSchedule, trace, hi, issued_reply]; rfl
      · simp only [pagesSchedule, run, hstep2]
    · rw [hstep2] at inv2
      obtain ⟨ht, hrun⟩ := deliver_pages env b next total h255 rest (acc ++ pg) (k + 1) inv2 rfl
        (by simp [withSy, pagesStored, hlast, joinPages]) (by omega) hs
        (by dsimp only; rw [quiet_withSy]; exact hq)
      refine ⟨?_, ?_⟩
      · simp only [pagesSchedule, trace, hi, issued_reply, hstep2, ht]
        simp only [Option.toList, List.length_cons, List.range_succ_eq_map, List.map_cons, List.map_map,
          Nat.add_zero, List.nil_append, List.singleton_append, List.cons.injEq, true_and]
        apply List.map_congr_left
        intro i _
        simp only [Function.comp, Nat.succ_eq_add_one]
        congr 1; omega
      · simp only [pagesSchedule, run, hstep2, hrun]
        have e : k + 1 + rest.length = k + (rest.length + 1) := by omega
        simp only [withSy, pagesStored, List.length_cons, joinPages, e]

/-- **The block in flight is fetched to the end, applied, and fetching goes on.** Reachable state,
    idle with `k` of `total` pages stored, syncing on, ingestion quiet. If the source delivers the
    remaining `total - k` pages (each after the heartbeat that asks for it), the heartbeat after
    the last page does not trap while processing the reassembled block, and ingestion of what
    became stable settles within `m` heartbeats, then the explicit continuation of length
    `2 * (total - k) + m + 2` sends `followUp k, …, followUp (total - 1)` and then an INITIAL
    request: nothing is lost, nothing is requested twice, fetching is not disabled. -/
theorem fetch_completes {sys : Sys} (hreach : Reachable sys) (env : Env) (b m : Nat)
    (acc : String) (next : List String) (total k : Nat) (pages : List String)
    (hp : sys.pending = none) (hr : sys.st.syncing.response = some (.partial_ ⟨acc, next, total⟩ k))
    (h255 : total ≤ 255) (hlen : k + pages.length = total)
    (hs : sys.st.syncing.syncing = true) (hq : quiet env b sys.st = true)
    (he : effective env (withSy (pagesStored sys.st.syncing acc next total k pages) sys.st) b = true)
    (hm : settles env b m
      (afterProcess env b (withSy (pagesStored sys.st.syncing acc next total k pages) sys.st)) = true) :
    let cont := pagesSchedule env b pages ++ (hbs env b 1 ++ hbs env b (m + 1))
    cont.length = 2 * (total - k) + m + 2 ∧
    ∃ anchor rest, trace sys cont =
      (List.range pages.length).map (fun i => Request.followUp (k + i)) ++ [.initial anchor rest] ∧
      (run sys cont).pending = some (.initial anchor rest) ∧
      (run sys (pagesSchedule env b pages)).st.syncing.response =
        some (.complete ⟨[joinPages acc pages], next⟩) ∧
      (run sys (pagesSchedule env b pages ++ hbs env b 1)).st.syncing.response = none := by
  intro cont
  obtain ⟨ht, hrun⟩ := deliver_pages env b next total h255 pages acc k hreach.inv hp hr
    (by omega) hs hq
  have h3 : (pagesStored sys.st.syncing acc next total k pages).response =
      some (.complete ⟨[joinPages acc pages], next⟩) := by simp [pagesStored, hlen]
  have hreach2 : Reachable (⟨withSy (pagesStored sys.st.syncing acc next total k pages) sys.st, none⟩ : Sys) := by
    rw [← hrun]; exact hreach.run _
  have hq2 : settles env b 0 (withSy (pagesStored sys.st.syncing acc next total k pages) sys.st) = true := by
    show quiet env b (withSy _ sys.st) = true
    rw [quiet_withSy]; exact hq
  obtain ⟨hnone, _, anchor, rest, htr, hpend⟩ := phase_complete hreach2 env b 0 m
    ⟨[joinPages acc pages], next⟩ rfl h3 hs hq2 he hm
  refine ⟨?_, anchor, rest, ?_, ?_, ?_, ?_⟩
  · simp only [cont, List.length_append, pagesSchedule_length, hbs_length]; omega
  · simp only [cont]
    rw [trace_append, ht, hrun, htr]
  · simp only [cont]
    rw [run_append, hrun, hpend]
  · rw [hrun]; exact h3
  · rw [run_append, hrun]; exact hnone

/-! ### When does ingestion settle? (the phase "ingestion paused")

`Sys` models ingestion, so "heartbeats with sufficient budget" has to be proved, not assumed: on a
state satisfying the ledger invariant `Spec.Inv` (the invariant of C01–C09/C20) — or paused in the
middle of an ingestion that started from such a state — heartbeats with ANY budget `≥ 1` bring
ingestion to rest within `treeWork` (+1) rounds; none of them traps. -/

/-- **Ingestion settles** (state satisfying the invariant) -/
theorem ingestion_settles (env : Env) (b : Nat) (hb : 1 ≤ b) (s : State) (G : List Block)
    (hI : Spec.Inv s G) : ∃ n, n ≤ treeWork s + 1 ∧ settles env b n s = true :=
  settles_inv env b hb s G hI

/-- **Ingestion settles** (state `sp` paused inside a block: the ingestion started at `s0`, which
    satisfies the invariant, and has used budget `B` so far) -/
theorem ingestion_settles_paused (env : Env) (b : Nat) (hb : 1 ≤ b) (s0 sp : State) (G : List Block)
    (B : Nat) (hI : Spec.Inv s0 G) (hp : s0.ingestStable env.bound B = .paused sp) :
    ∃ n, n ≤ treeWork s0 ∧ settles env b n sp = true :=
  settles_paused env b hb s0 G hI (treeWork s0) B sp (by omega) hp

theorem healthy_of_not_complete {env : Env} {b n m : Nat} {s : State}
    (hn : settles env b n s = true) (hc : ∀ c, s.syncing.response ≠ some (.complete c)) :
    healthy env b n m s = true := by
  unfold healthy
  rw [hn, Bool.true_and]
  split
  · rename_i c hr; exact absurd hr (hc c)
  · rfl

/-- **No deadlock, ledger form.** Reachable state whose canister state satisfies the ledger
    invariant, syncing enabled, no complete response waiting to be processed: for heartbeats with
    any budget `b ≥ 1` there is `n ≤ treeWork + 1` such that the continuation "reject the
    outstanding request (if any), then `n + 1` heartbeats" — at most `treeWork sys.st + 3`
    messages — sends a request. -/
theorem no_deadlock_ledger {sys : Sys} (hreach : Reachable sys) (G : List Block)
    (hI : Spec.Inv sys.st G) (env : Env) (b : Nat) (hb : 1 ≤ b)
    (hs : sys.st.syncing.syncing = true)
    (hc : sys.pending = none → ∀ c, sys.st.syncing.response ≠ some (.complete c)) :
    ∃ n, n ≤ treeWork sys.st + 1 ∧
      (recovery env b .reject n 0 sys).length ≤ treeWork sys.st + 4 ∧
      ∃ req, trace sys (recovery env b .reject n 0 sys) = [req] ∧
        (run sys (recovery env b .reject n 0 sys)).pending = some req := by
  obtain ⟨n, hn, hsettle⟩ := settles_inv env b hb sys.st G hI
  have hh : healthy env b n 0 (afterDelivery env .reject sys).st = true := by
    unfold afterDelivery
    cases hp : sys.pending with
    | none => exact healthy_of_not_complete hsettle (hc hp)
    | some req =>
      dsimp only
      rw [reject_state env sys req hp]
      exact healthy_of_not_complete (by dsimp only; rw [settles_withSy]; exact hsettle)
        (by intro c h; cases h)
  obtain ⟨hlen, req, h1, h2, _⟩ := no_deadlock hreach env b .reject n 0 hs hh
  exact ⟨n, hn, by omega, req, h1, h2⟩

/-! ## 2. Fair schedules -/

def isReply : Action → Bool
  | .reply _ => true
  | _ => false

/-- one of the first `k` messages is a reply of the block source (accept or reject) -/
def replyWithin : Nat → List (Env × Action) → Bool
  | 0, _ => false
  | _, [] => false
  | k + 1, (_, a) :: rest => isReply a || replyWithin k rest

/-- one of the first `k` messages is an effective heartbeat (one that gets past the ingestion
    stage and does not trap), at the state in which it is executed -/
def effectiveWithin : Nat → Sys → List (Env × Action) → Bool
  | 0, _, _ => false
  | _, _, [] => false
  | k + 1, sys, (env, a) :: rest =>
    (match a with
      | .heartbeat b => effective env sys.st b
      | _ => false) || effectiveWithin k (step env sys a) rest

/-- the syncing flag is on whenever a message of the schedule is executed -/
def syncOn : Sys → List (Env × Action) → Bool
  | _, [] => true
  | sys, (env, a) :: rest => sys.st.syncing.syncing && syncOn (step env sys a) rest

/-- every window of `k` consecutive messages of the schedule (i) contains a reply if a request is
    outstanding when the window starts and (ii) contains an effective heartbeat -/
def windows (k : Nat) : Sys → List (Env × Action) → Bool
  | _, [] => true
  | sys, (env, a) :: rest =>
    (decide (rest.length + 1 < k) ||
      ((!sys.pending.isSome || replyWithin k ((env, a) :: rest)) &&
        effectiveWithin k sys ((env, a) :: rest))) &&
    windows k (step env sys a) rest

/-- **Fair schedules** (finite form, window size `k`): syncing stays enabled; every outstanding
    request receives some reply (accept or reject) within `k` messages; effective heartbeats occur
    again and again (one in every `k` consecutive messages). Upgrades, configuration changes that
    leave syncing on, queries, ineffective heartbeats (ingesting, trapping) and stray replies may
    be interleaved arbitrarily. -/
structure Fair (k : Nat) (sys : Sys) (acts : List (Env × Action)) : Prop where
  on : syncOn sys acts = true
  win : windows k sys acts = true

theorem run_take_drop (sys : Sys) (acts : List (Env × Action)) (n : Nat) :
    run (run sys (acts.take n)) (acts.drop n) = run sys acts := by
  rw [← run_append, List.take_append_drop]

theorem syncOn_drop : ∀ (n : Nat) (sys : Sys) (acts : List (Env × Action)), syncOn sys acts = true →
    syncOn (run sys (acts.take n)) (acts.drop n) = true
  | 0, _, _, h => h
  | _ + 1, _, [], _ => rfl
  | n + 1, sys, (env, a) :: rest, h => by
    simp only [syncOn, Bool.and_eq_true] at h
    exact syncOn_drop n _ rest h.2

theorem windows_drop (k : Nat) : ∀ (n : Nat) (sys : Sys) (acts : List (Env × Action)),
    windows k sys acts = true → windows k (run sys (acts.take n)) (acts.drop n) = true
  | 0, _, _, h => h
  | _ + 1, _, [], _ => rfl
  | n + 1, sys, (env, a) :: rest, h => by
    simp only [windows, Bool.and_eq_true] at h
    exact windows_drop k n _ rest h.2

/-- a suffix of a fair schedule is fair (from the state reached) -/
theorem Fair.drop {k : Nat} {sys : Sys} {acts : List (Env × Action)} (h : Fair k sys acts) (n : Nat) :
    Fair k (run sys (acts.take n)) (acts.drop n) :=
  ⟨syncOn_drop n sys acts h.on, windows_drop k n sys acts h.win⟩

/-- the window at the head of the schedule -/
theorem Fair.head {k : Nat} {sys : Sys} {acts : List (Env × Action)} (h : Fair k sys acts)
    (hk : 0 < k) (hlen : k ≤ acts.length) :
    (sys.pending.isSome = true → replyWithin k acts = true) ∧ effectiveWithin k sys acts = true := by
  cases acts with
  | nil => simp only [List.length_nil] at hlen; omega
  | cons ea rest =>
    obtain ⟨env, a⟩ := ea
    have hw := h.win
    simp only [windows, Bool.and_eq_true, Bool.or_eq_true, decide_eq_true_eq, Bool.not_eq_true'] at hw
    simp only [List.length_cons] at hlen
    rcases hw.1 with hlt | ⟨h1, h2⟩
    · omega
    · refine ⟨fun hp => ?_, h2⟩
      rcases h1 with h1 | h1
      · rw [hp] at h1; cases h1
      · exact h1

/-- (i): a reply among the first `k` messages ends the wait — unless a request is sent before -/
theorem reply_window : ∀ (k : Nat) (sys : Sys) (acts : List (Env × Action)),
    replyWithin k acts = true →
    trace sys (acts.take k) ≠ [] ∨ stage (run sys (acts.take k)) ≤ 1
  | 0, _, _, h => by simp [replyWithin] at h
  | _ + 1, _, [], h => by simp [replyWithin] at h
  | k + 1, sys, (env, a) :: rest, h => by
    simp only [replyWithin, Bool.or_eq_true] at h
    simp only [List.take_succ_cons, trace, run]
    cases hi : issued env sys a with
    | some req => left; simp
    | none =>
      simp only [Option.toList, List.nil_append]
      rcases h with h | h
      · -- this message is the reply
        cases a with
        | reply r =>
          rcases stage_run_or (rest.take k) (step env sys (.reply r)) with h1 | h1
          · exact .inl h1
          · exact .inr (Nat.le_trans h1 (stage_reply env sys r))
        | _ => simp [isReply] at h
      · exact reply_window k _ rest h

/-- (ii): an effective heartbeat among the first `k` messages, executed while nothing is
    outstanding and syncing is on, sends a request or consumes the stored complete response -/
theorem effective_window : ∀ (k : Nat) (sys : Sys) (acts : List (Env × Action)), Inv sys →
    syncOn sys acts = true → stage sys ≤ 1 → effectiveWithin k sys acts = true →
    trace sys (acts.take k) ≠ [] ∨ stage (run sys (acts.take k)) < stage sys
  | 0, _, _, _, _, _, h => by simp [effectiveWithin] at h
  | _ + 1, _, [], _, _, _, h => by simp [effectiveWithin] at h
  | k + 1, sys, (env, a) :: rest, inv, hon, hst, h => by
    simp only [effectiveWithin, Bool.or_eq_true] at h
    simp only [syncOn, Bool.and_eq_true] at hon
    simp only [List.take_succ_cons, trace, run]
    cases hi : issued env sys a with
    | some req => left; simp
    | none =>
      simp only [Option.toList, List.nil_append]
      have hle := stage_step_le env a hi
      have hp := pending_of_stage hst
      rcases h with h | h
      · -- this message is the effective heartbeat
        cases a with
        | heartbeat b =>
          dsimp only at h
          cases hresp : sys.st.syncing.response with
          | some resp =>
            cases resp with
            | complete c =>
              obtain ⟨_, _, hpend, hnone, _⟩ := hb_process h hresp
              have h0 : stage (step env sys (.heartbeat b)) = 0 :=
                stage_of_idle_none (by rw [hpend, hp]) hnone
              have h1 : stage sys = 1 := by simp [stage, hp, hresp]
              rcases stage_run_or (rest.take k) (step env sys (.heartbeat b)) with h2 | h2
              · exact .inl h2
              · right; omega
            | partial_ p j =>
              have hc : ∀ r, sys.st.syncing.response ≠ some (.complete r) := by
                rw [hresp]; intro r hr; cases hr
              obtain ⟨req, hreq, _⟩ := hb_ready inv hp hon.1 (effective_quiet h) hc
              rw [hreq] at hi; cases hi
          | none =>
            have hc : ∀ r, sys.st.syncing.response ≠ some (.complete r) := by
              rw [hresp]; intro r hr; cases hr
            obtain ⟨req, hreq, _⟩ := hb_ready inv hp hon.1 (effective_quiet h) hc
            rw [hreq] at hi; cases hi
        | _ => simp at h
      · rcases effective_window k _ rest (inv_step env a inv) hon.2 (Nat.le_trans hle hst) h with h1 | h1
        · exact .inl h1
        · right; omega

theorem take_add_three (acts : List (Env × Action)) (k : Nat) :
    acts.take (3 * k) = acts.take k ++ ((acts.drop k).take k ++ ((acts.drop k).drop k).take k) := by
  have : 3 * k = k + (k + k) := by omega
  rw [this, List.take_add, List.take_add]

/-- **A request is sent again under every fair schedule.** From every reachable state (any
    phase), if the schedule is fair with window `k ≥ 1` and at least `3 * k` messages long, one of
    its first `3 * k` messages sends a request to the block source. -/
theorem fair_issues {sys : Sys} (hreach : Reachable sys) {k : Nat} (hk : 0 < k)
    {acts : List (Env × Action)} (hfair : Fair k sys acts) (hlen : 3 * k ≤ acts.length) :
    trace sys (acts.take (3 * k)) ≠ [] := by
  have inv := hreach.inv
  rw [take_add_three, trace_append, trace_append]
  -- abbreviations
  have f1 := hfair.drop k
  have f2 := f1.drop k
  have inv1 : Inv (run sys (acts.take k)) := inv_run _ inv
  have inv2 : Inv (run (run sys (acts.take k)) ((acts.drop k).take k)) := inv_run _ inv1
  have l1 : k ≤ (acts.drop k).length := by rw [List.length_drop]; omega
  have l2 : k ≤ ((acts.drop k).drop k).length := by rw [List.length_drop, List.length_drop]; omega
  -- first window: the outstanding request (if any) is answered
  have s1 : trace sys (acts.take k) ≠ [] ∨ stage (run sys (acts.take k)) ≤ 1 := by
    cases hp : sys.pending with
    | some req =>
      exact reply_window k sys acts ((hfair.head hk (by omega)).1 (by simp [hp]))
    | none =>
      rcases stage_run_or (acts.take k) sys with h | h
      · exact .inl h
      · exact .inr (Nat.le_trans h (stage_idle hp))
  rcases s1 with s1 | s1
  · intro h; simp only [List.append_eq_nil_iff] at h; exact s1 h.1
  -- second window: a stored complete response is consumed
  rcases effective_window k _ (acts.drop k) inv1 f1.on s1 (f1.head hk l1).2 with s2 | s2
  · intro h; simp only [List.append_eq_nil_iff] at h; exact s2 h.2.1
  -- third window: the request is sent
  rcases effective_window k _ ((acts.drop k).drop k) inv2 f2.on (by omega) (f2.head hk l2).2 with s3 | s3
  · intro h; simp only [List.append_eq_nil_iff] at h; exact s3 h.2.2
  · omega

/-- **Unboundedly many requests.** Along a fair schedule of length at least `m * (3 * k)` at
    least `m` requests are sent — from every reachable state: fetching is never permanently
    disabled. -/
theorem fair_unbounded {k : Nat} (hk : 0 < k) : ∀ (m : Nat) {sys : Sys}, Reachable sys →
    ∀ {acts : List (Env × Action)}, Fair k sys acts → m * (3 * k) ≤ acts.length →
    m ≤ (trace sys acts).length
  | 0, _, _, _, _, _ => Nat.zero_le _
  | m + 1, sys, hreach, acts, hfair, hlen => by
    have hsplit : (m + 1) * (3 * k) = m * (3 * k) + 3 * k := Nat.succ_mul _ _
    have h1 := fair_issues hreach hk hfair (by omega)
    have h2 := fair_unbounded hk m (hreach.run (acts.take (3 * k))) (hfair.drop (3 * k))
      (by rw [List.length_drop]; omega)
    have : trace sys acts = trace sys (acts.take (3 * k)) ++
        trace (run sys (acts.take (3 * k))) (acts.drop (3 * k)) := by
      rw [← trace_append, List.take_append_drop]
    rw [this, List.length_append]
    have : 1 ≤ (trace sys (acts.take (3 * k))).length := by
      cases ht : trace sys (acts.take (3 * k)) with
      | nil => exact absurd ht h1
      | cons x xs => simp
    omega


/-! ## 3. Progress measure of the exchange in flight -/

/-- Number of useful messages still needed until the exchange in flight is over (its response
    applied, or dropped by a reject) and a fresh initial request can be sent:
    `2 * (pages still to fetch)` (one request + one reply each) `+ 1` (processing), and `512` while
    the answer to an initial request — hence the number of pages, a `u8` — is not yet known. -/
def mu (sys : Sys) : Nat :=
  match sys.pending, sys.st.syncing.response with
  | some (.initial _ _), _ => 512
  | some (.followUp _), some (.partial_ p k) => 2 * (p.remaining - k)
  | some (.followUp _), _ => 0
  | none, some (.partial_ p k) => 2 * (p.remaining - k) + 1
  | none, some (.complete _) => 1
  | none, none => 0

/-- `mu = 0` exactly when the canister is ready for a fresh initial request -/
theorem mu_eq_zero_iff {sys : Sys} (inv : Inv sys) :
    mu sys = 0 ↔ sys.pending = none ∧ sys.st.syncing.response = none := by
  have hag := inv.agree
  have hwf := inv.wf
  unfold mu
  constructor
  · intro h
    split at h
    · omega
    · rename_i p k hp hr
      rw [hr] at hwf; simp only [WFResp] at hwf; omega
    · rename_i k hp hne
      rw [hp] at hag
      obtain ⟨p, hpk⟩ := hag
      exact absurd hpk (hne p k)
    · omega
    · omega
    · rename_i hp hr; exact ⟨hp, hr⟩
  · rintro ⟨hp, hr⟩
    rw [hp, hr]

theorem mu_le {sys : Sys} {last : Option Request} (g : Ghost sys last) : mu sys ≤ 512 := by
  unfold mu
  split
  · omega
  · rename_i p k _ hr; have := g.u8 p k hr; omega
  · omega
  · rename_i p k _ hr; have := g.u8 p k hr; omega
  · omega
  · omega

/-- the messages that advance the exchange in flight: a reply delivered to the waiting heartbeat,
    an effective heartbeat while something is stored and nothing is outstanding -/
def useful (env : Env) (sys : Sys) : Action → Bool
  | .reply _ => sys.pending.isSome
  | .heartbeat b =>
    !sys.pending.isSome && sys.st.syncing.response.isSome && sys.st.syncing.syncing &&
      effective env sys.st b
  | _ => false

/-- a well-typed reply delivered to the waiting heartbeat strictly decreases the measure -/
theorem mu_reply_lt (env : Env) {sys : Sys} {last : Option Request} (inv : Inv sys) (g : Ghost sys last)
    {req : Request} (hp : sys.pending = some req) {r : Reply} (ha : answers req r) :
    mu (step env sys (.reply r)) < mu sys := by
  have hag := inv.agree
  rw [hp] at hag
  have hwf := inv.wf
  cases req with
  | initial a l =>
    simp only [Matches] at hag
    have h512 : mu sys = 512 := by simp [mu, hp]
    rw [h512]
    cases r with
    | followUp bytes => cases ha
    | reject => simp only [step, hp, reject_effect, mu]; omega
    | complete c => simp only [step, hp, reply_complete _ _ hag, mu]; omega
    | partial_ p =>
      by_cases h0 : p.remaining = 0
      · simp only [step, hp, reply_partial_zero _ _ hag h0, mu]; omega
      · have : p.remaining ≤ 255 := ha
        simp only [step, hp, reply_partial _ _ hag h0, mu]; omega
  | followUp k =>
    obtain ⟨p, hpk⟩ := hag
    rw [hpk] at hwf
    simp only [WFResp] at hwf
    have h255 := g.u8 p k hpk
    have hmu : mu sys = 2 * (p.remaining - k) := by simp [mu, hp, hpk]
    rw [hmu]
    cases r with
    | complete c => cases ha
    | partial_ q => cases ha
    | reject => simp only [step, hp, reject_effect, mu]; omega
    | followUp bytes =>
      obtain ⟨acc, next, n⟩ := p
      dsimp only at hwf h255 ⊢
      simp only [step, hp, reply_followUp _ acc next n k bytes hpk (by omega)]
      by_cases hl : k + 1 = n
      · simp only [hl, if_true, mu]; omega
      · simp only [hl, if_false, mu]; omega

/-- **The measure.** On a reachable state (`Inv`, `Ghost`), for a message whose reply (if it is
    one) has the right type: unless the message is a heartbeat that starts a NEW exchange (sends an
    initial request), it does not increase `mu`; and every useful message decreases it by at
    least one. Noise (heartbeats while a request is outstanding, ingesting or trapping
    heartbeats, queries, configuration changes, stray replies) leaves it unchanged or lower. -/
theorem mu_step (env : Env) {sys : Sys} {last : Option Request} (inv : Inv sys) (g : Ghost sys last)
    (a : Action)
    (hw : match a, sys.pending with
      | .reply r, some req => answers req r
      | _, _ => True)
    (hni : ∀ anchor rest, issued env sys a ≠ some (.initial anchor rest)) :
    mu (step env sys a) + (if useful env sys a then 1 else 0) ≤ mu sys := by
  cases a with
  | query => simp [useful, step]
  | setConfig c =>
    have := setConfig_isFetching sys.st c
    simp only [useful, step, mu, this.2]
    simp
  | upgrade c =>
    have := upgrade_fetch sys.st c
    simp only [useful, step, mu, this.2]
    simp
  | reply r =>
    cases hp : sys.pending with
    | none =>
      have : step env sys (.reply r) = sys := by simp [step, hp]
      simp [useful, this, hp]
    | some req =>
      rw [hp] at hw
      have := mu_reply_lt env inv g hp hw
      simp only [useful, hp, Option.isSome_some, if_true]
      omega
  | heartbeat b =>
    cases hi : issued env sys (.heartbeat b) with
    | some req =>
      -- a follow-up request is sent
      obtain ⟨_, _, _, hd, hstep⟩ := issued_some hi
      have hidle := (request_only_when_idle inv hi).1
      obtain ⟨_, _, hreq⟩ := fetchDecision_some_some hd
      rcases successorsRequest_some hreq with ⟨_, an, l, rfl, _⟩ | ⟨p, k, hpk, rfl⟩
      · exact absurd hi (hni an l)
      · have hwf := inv.wf
        rw [hpk] at hwf
        simp only [WFResp] at hwf
        have h1 : mu sys = 2 * (p.remaining - k) + 1 := by simp [mu, hidle, hpk]
        have h2 : mu (step env sys (.heartbeat b)) = 2 * (p.remaining - k) := by
          rw [hstep]; simp [mu, hpk]
        rw [h1, h2]
        split <;> omega
    | none =>
      have hpend := hb_pending hi
      cases hp : sys.pending with
      | some req =>
        have hu : useful env sys (.heartbeat b) = false := by simp [useful, hp]
        rw [hu]
        rw [hp] at hpend
        have hag := inv.agree
        rw [hp] at hag
        cases req with
        | initial an l => simp [mu, hpend, hp]
        | followUp k =>
          obtain ⟨p, hpk⟩ := hag
          rcases heartbeat_response env sys b with he | he
          · simp [mu, hpend, hp, he]
          · simp [mu, hpend, hp, he]
      | none =>
        rw [hp] at hpend
        by_cases hu : useful env sys (.heartbeat b) = true
        · -- effective, something stored, nothing sent: a complete response is consumed
          simp only [useful, hp, Bool.and_eq_true] at hu
          obtain ⟨⟨⟨_, hsome⟩, hon⟩, heff⟩ := hu
          cases hresp : sys.st.syncing.response with
          | none => rw [hresp] at hsome; cases hsome
          | some resp =>
            cases resp with
            | partial_ p k =>
              have hc : ∀ r, sys.st.syncing.response ≠ some (.complete r) := by
                rw [hresp]; intro r hr; cases hr
              obtain ⟨req, hreq, _⟩ := hb_ready inv hp hon (effective_quiet heff) hc
              rw [hreq] at hi; cases hi
            | complete c =>
              obtain ⟨_, _, _, hnone, _⟩ := hb_process heff hresp
              have huu : useful env sys (.heartbeat b) = true := by
                simp [useful, hp, hresp, hon, heff]
              rw [huu]
              simp [mu, hpend, hp, hnone, hresp]
        · have hu' : useful env sys (.heartbeat b) = false := by
            cases h : useful env sys (.heartbeat b) with
            | true => exact absurd h hu
            | false => rfl
          rw [hu']
          rcases heartbeat_response env sys b with he | he
          · simp [mu, hpend, hp, he]
          · simp [mu, hpend, hp, he]

/-- number of useful messages of a schedule -/
def usefulCount : Sys → List (Env × Action) → Nat
  | _, [] => 0
  | sys, (env, a) :: rest => (if useful env sys a then 1 else 0) + usefulCount (step env sys a) rest

def isInitial : Request → Bool
  | .initial _ _ => true
  | .followUp _ => false

/-- **The measure along schedules.** On any well-typed schedule from a reachable state during
    which no NEW exchange is started, `mu` at the end plus the number of useful messages is at most
    `mu` at the beginning — so at most `mu sys ≤ 512` useful messages (replies delivered, effective
    heartbeats) are needed to finish the exchange in flight. -/
theorem mu_run {sys : Sys} {last : Option Request} (inv : Inv sys) (g : Ghost sys last) :
    ∀ (acts : List (Env × Action)), WellTyped sys acts →
    (∀ req ∈ trace sys acts, isInitial req = false) →
    mu (run sys acts) + usefulCount sys acts ≤ mu sys := by
  intro acts
  induction acts generalizing sys last with
  | nil => intro _ _; simp [run, usefulCount]
  | cons ea rest ih =>
    obtain ⟨env, a⟩ := ea
    intro hw hnoinit
    obtain ⟨hw1, hw2⟩ := hw
    obtain ⟨_, g'⟩ := ghost_step env inv g a hw1
    have inv' := inv_step env a inv
    have hni : ∀ anchor rest', issued env sys a ≠ some (.initial anchor rest') := by
      intro anchor rest' h
      have := hnoinit (.initial anchor rest') (by simp [trace, h])
      cases this
    have h1 := mu_step env inv g a hw1 hni
    have h2 := ih inv' g' hw2 (fun req hr => hnoinit req (by simp only [trace, List.mem_append]; exact .inr hr))
    simp only [run, usefulCount]
    omega


/-! ## 4. A rejected or failed request never blocks later ones -/

/-- **After a reject at ANY phase** (the outstanding request may be the initial one or any
    follow-up, i.e. the reject may come between two pages of a block): the partial data is dropped
    and the very next heartbeat that gets past ingestion, with syncing enabled, sends an INITIAL
    request naming the current anchor and the other unstable blocks. Compared with the state
    before the reject, only the fetch state differs: `rejects + 1`, nothing stored, guard held by
    the new request. (`quiet` is evaluated on the state BEFORE the reject: ingestion does not read
    the fetch state.) -/
theorem reject_next_heartbeat {sys : Sys} (inv : Inv sys) (envR env : Env) (b : Nat) (req : Request)
    (hp : sys.pending = some req) (hs : sys.st.syncing.syncing = true)
    (hq : quiet env b sys.st = true) :
    ∃ anchor rest, anchor :: rest = sys.st.unstable.tree.blocks.map CBlock.hash ∧
      issued envR sys (.reply .reject) = none ∧
      issued env (step envR sys (.reply .reject)) (.heartbeat b) = some (.initial anchor rest) ∧
      step env (step envR sys (.reply .reject)) (.heartbeat b) =
        ⟨{ sys.st with syncing := { sys.st.syncing with rejects := sys.st.syncing.rejects + 1,
                                                        response := none, isFetching := true } },
          some (.initial anchor rest)⟩ := by
  have hst := reject_state envR sys req hp
  have inv1 : Inv (step envR sys (.reply .reject)) := inv_step envR _ inv
  have hq1 : (step envR sys (.reply .reject)).st.ingestStable env.bound b =
      .done (step envR sys (.reply .reject)).st false := by
    rw [← quiet_iff, hst]; dsimp only; rw [quiet_withSy]; exact hq
  have hc : ∀ r, (step envR sys (.reply .reject)).st.syncing.response ≠ some (.complete r) := by
    rw [hst]; intro r h; cases h
  obtain ⟨req', hi, hstep, hsel⟩ := hb_ready inv1 (by rw [hst]) (by rw [hst]; exact hs) hq1 hc
  rw [hst] at hsel
  dsimp only [withSy] at hsel
  obtain ⟨anchor, rest, rfl, hl⟩ := hsel
  exact ⟨anchor, rest, hl, rfl, hi, by rw [hstep, hst]; rfl⟩

theorem syncingState_only_counter (sy : SyncingState) (hr : sy.response = none) (hf : sy.isFetching = true) :
    ({ sy with rejects := sy.rejects + 1, response := none, isFetching := true } : SyncingState) =
      { sy with rejects := sy.rejects + 1 } := by
  cases sy
  simp_all

/-- if the rejected request was an initial one, the reject counter is the ONLY thing that differs
    between the state in which that request was outstanding and the state in which its successor
    is outstanding -/
theorem reject_initial_only_counter {sys : Sys} (inv : Inv sys) (envR env : Env) (b : Nat)
    (a : Nat) (l : List Nat)
    (hp : sys.pending = some (.initial a l)) (hs : sys.st.syncing.syncing = true)
    (hq : quiet env b sys.st = true) :
    ∃ anchor rest,
      step env (step envR sys (.reply .reject)) (.heartbeat b) =
        ⟨{ sys.st with syncing := { sys.st.syncing with rejects := sys.st.syncing.rejects + 1 } },
          some (.initial anchor rest)⟩ := by
  obtain ⟨anchor, rest, _, _, _, hstep⟩ := reject_next_heartbeat inv envR env b _ hp hs hq
  have hr : sys.st.syncing.response = none := by
    have := inv.agree; rw [hp] at this; exact this
  have hf : sys.st.syncing.isFetching = true := inv.singleFlight.mp (by simp [hp])
  refine ⟨anchor, rest, ?_⟩
  rw [hstep, syncingState_only_counter _ hr hf]

/-- `n` rounds "the outstanding request is rejected, a heartbeat follows" -/
def rejectRounds (envR env : Env) (b : Nat) : Nat → List (Env × Action)
  | 0 => []
  | n + 1 => (envR, .reply .reject) :: (env, .heartbeat b) :: rejectRounds envR env b n

/-- **Any number of consecutive rejects.** A request is outstanding, syncing is on, ingestion is
    quiet. Reject the request, let a heartbeat run, reject its request, … `n + 1` times: every one
    of the heartbeats sends an initial request (the same one: the unstable blocks do not change),
    and at the end the canister state differs from the original one only in the fetch state:
    `rejects` has advanced by exactly `n + 1`, nothing is stored, the last request is outstanding. -/
theorem rejects_never_block (envR env : Env) (b : Nat) : ∀ (n : Nat) {sys : Sys} (req : Request),
    Inv sys → sys.pending = some req → sys.st.syncing.syncing = true → quiet env b sys.st = true →
    ∃ anchor rest, anchor :: rest = sys.st.unstable.tree.blocks.map CBlock.hash ∧
      trace sys (rejectRounds envR env b (n + 1)) = List.replicate (n + 1) (.initial anchor rest) ∧
      run sys (rejectRounds envR env b (n + 1)) =
        ⟨{ sys.st with syncing := { sys.st.syncing with
              rejects := sys.st.syncing.rejects + (n + 1), response := none, isFetching := true } },
          some (.initial anchor rest)⟩
  | 0, sys, req, inv, hp, hs, hq => by
    obtain ⟨anchor, rest, hl, h0, hi, hstep⟩ := reject_next_heartbeat inv envR env b req hp hs hq
    refine ⟨anchor, rest, hl, ?_, ?_⟩
    · simp only [rejectRounds, trace, h0, hi]; rfl
    · simp only [rejectRounds, run, hstep]
  | n + 1, sys, req, inv, hp, hs, hq => by
    obtain ⟨anchor, rest, hl, h0, hi, hstep⟩ := reject_next_heartbeat inv envR env b req hp hs hq
    have inv2 : Inv (step env (step envR sys (.reply .reject)) (.heartbeat b)) :=
      inv_step env _ (inv_step envR _ inv)
    obtain ⟨anchor', rest', hl', ht, hr⟩ := rejects_never_block envR env b n (.initial anchor rest) inv2
      (by rw [hstep]) (by rw [hstep]; exact hs)
      (by rw [hstep]; exact (quiet_withSy env b _ sys.st).trans hq)
    rw [hstep] at hl'
    dsimp only at hl'
    have heq : anchor' :: rest' = anchor :: rest := by rw [hl', hl]
    simp only [List.cons.injEq] at heq
    obtain ⟨rfl, rfl⟩ := heq
    refine ⟨anchor', rest', hl, ?_, ?_⟩
    · rw [rejectRounds]
      simp only [trace, h0, hi, ht]
      rfl
    · rw [rejectRounds]
      simp only [run]
      rw [hr, hstep]
      simp only [Nat.add_assoc, Nat.add_comm 1]


/-! ## 5. Non-vacuity: concrete systems -/

namespace Example
open Btc.Props.C13.Example

/-- `sys0` of `Props/C13.lean` after its first heartbeat: the initial request is outstanding -/
def sysP : Sys := run sys0 [(env, .heartbeat 10)]

theorem sysP_reachable : Reachable sysP := ⟨sys0, _, sys0_initial, rfl⟩

example : sysP.pending = some (.initial 1 []) := by decide

/-- `no_deadlock`, phase "request outstanding", reply = reject -/
example :
    (recovery env 10 .reject 0 0 sysP).length ≤ 3 ∧
    ∃ req, trace sysP (recovery env 10 .reject 0 0 sysP) = [req] ∧
      (run sysP (recovery env 10 .reject 0 0 sysP)).pending = some req ∧
      ResumeRequest env 10 0 0 (afterDelivery env .reject sysP).st req :=
  no_deadlock sysP_reachable env 10 .reject 0 0 (by decide) (by decide)

example : trace sysP (recovery env 10 .reject 0 0 sysP) = [.initial 1 []] := by decide

/-- … and with the reply the source would really send (a partial response announcing 1 page): the
    next request is follow-up 0 -/
example : trace sysP (recovery env 10 (.partial_ ⟨"B", [], 1⟩) 0 0 sysP) = [.followUp 0] := by decide
example : healthy env 10 0 0 (afterDelivery env (.partial_ ⟨"B", [], 1⟩) sysP).st = true := by decide

/-- `fetch_completes` on the two-page exchange of `Props/C13.lean`: after the partial response
    (1 follow-up announced) the page `"2"` arrives, the block `"B2"` is applied, the next initial
    request names it -/
def sysQ : Sys := run sys0 (sched.take 4)
example : sysQ.st.syncing.response = some (.partial_ ⟨"B", [], 1⟩ 0) := by decide
example := fetch_completes (sys := sysQ) ⟨sys0, _, sys0_initial, rfl⟩ env 10 0 "B" [] 1 0 ["2"]
  (by decide) (by decide) (by decide) (by decide) (by decide) (by decide) (by decide) (by decide)
example : trace sysQ (pagesSchedule env 10 ["2"] ++ (hbs env 10 1 ++ hbs env 10 1)) =
    [.followUp 0, .initial 1 [2]] := by decide

/-! a system in which ingestion really happens: a consistent genesis state (`State.new`), the
    anchor has three outputs; three blocks arrive in one response and make the anchor and its
    successor stable -/

def cb3 (id : Nat) : Tx :=
  { txid := id, ntxid := id, coinbase := true, vsize := 100, ins := [],
    outs := [⟨25, none, false⟩, ⟨25, none, false⟩, ⟨1, none, false⟩] }
def genA : Block :=
  { hash := 1, prev := 0, diff := 1, time := 100, bits := 0x207fffff, header := "g", txs := [cb3 100] }
def b3 : Block :=
  { hash := 3, prev := 2, diff := 1, time := 102, bits := 0x207fffff, header := "h3", txs := [coinbase 300] }
def b4 : Block :=
  { hash := 4, prev := 3, diff := 1, time := 103, bits := 0x207fffff, header := "h4", txs := [coinbase 400] }
def sA : State := (State.new 2 .regtest genA).getD s0
def decA : Decoders :=
  { block := fun blob =>
      if blob = "B2" then some b2 else if blob = "B3" then some b3 else if blob = "B4" then some b4 else none
    header := fun _ => none }
def envA : Env := { env with dec := decA }
def sysA : Sys := ⟨sA, none⟩
theorem sysA_initial : sysA.Initial := ⟨rfl, rfl, rfl⟩

/-- phase "complete response stored" -/
def sysC : Sys := run sysA [(envA, .heartbeat 1), (envA, .reply (.complete ⟨["B2", "B3", "B4"], []⟩))]
theorem sysC_reachable : Reachable sysC := ⟨sysA, _, sysA_initial, rfl⟩

example : sysC.st.syncing.response = some (.complete ⟨["B2", "B3", "B4"], []⟩) := by decide +kernel
/-- processing is immediate (`n = 0`); afterwards ingestion with budget 1 per heartbeat needs
    `m = 4` heartbeats (three pauses inside the anchor, one round finishing two blocks) -/
example : healthy envA 1 0 4 sysC.st = true := by decide +kernel
example : healthy envA 1 0 3 sysC.st = false := by decide +kernel
example : trace sysC (recovery envA 1 .reject 0 4 sysC) = [.initial 3 [4]] := by decide +kernel
example : (recovery envA 1 .reject 0 4 sysC).length = 6 := by decide +kernel
example := no_deadlock sysC_reachable envA 1 .reject 0 4 (by decide +kernel) (by decide +kernel)

/-- phase "ingestion paused": the anchor is partially ingested -/
def sysI : Sys := run sysC [(envA, .heartbeat 1), (envA, .heartbeat 1)]
theorem sysI_reachable : Reachable sysI := sysC_reachable.run _

example : sysI.st.utxos.ingesting.isSome = true := by decide +kernel
example : settles envA 1 3 sysI.st = true := by decide +kernel
example : trace sysI (hbs envA 1 3) = [] := by decide +kernel
example := phase_idle sysI_reachable envA 1 3 (by decide +kernel) (by decide +kernel) (by decide +kernel)
  (by decide +kernel)
example : trace sysI (hbs envA 1 4) = [.initial 3 [4]] := by decide +kernel

/-- a fair schedule with window `k = 4` (12 messages): ineffective heartbeats while a request is
    outstanding, a query, a reject, a complete response, a stray reply -/
def schedF : List (Env × Action) :=
  [(env, .heartbeat 10), (env, .query), (env, .heartbeat 10), (env, .reply .reject),
   (env, .heartbeat 10), (env, .heartbeat 3), (env, .reply (.complete ⟨["B2"], []⟩)), (env, .reply .reject),
   (env, .heartbeat 10), (env, .heartbeat 10), (env, .query), (env, .reply .reject)]

theorem schedF_fair : Fair 4 sys0 schedF := ⟨by decide, by decide⟩

example : trace sys0 (schedF.take (3 * 4)) ≠ [] :=
  fair_issues ⟨sys0, [], sys0_initial, rfl⟩ (by decide) schedF_fair (by decide)
example : 1 ≤ (trace sys0 schedF).length :=
  fair_unbounded (by decide) 1 ⟨sys0, [], sys0_initial, rfl⟩ schedF_fair (by decide)
example : trace sys0 schedF = [.initial 1 [], .initial 1 [], .initial 1 [2]] := by decide
/-- arbitrarily long fair schedules exist: "heartbeat, reject" repeated (window 2) -/
def schedPeriodic (n : Nat) : List (Env × Action) :=
  (List.replicate n [(env, Action.heartbeat 10), (env, Action.reply .reject)]).flatten
theorem schedPeriodic_fair : Fair 2 sys0 (schedPeriodic 9) := ⟨by decide, by decide⟩
example : 3 ≤ (trace sys0 (schedPeriodic 9)).length :=
  fair_unbounded (by decide) 3 ⟨sys0, [], sys0_initial, rfl⟩ schedPeriodic_fair (by decide)
/-- a schedule in which replies stop coming is not fair -/
example : windows 4 sys0 [(env, .heartbeat 10), (env, .heartbeat 10), (env, .heartbeat 10),
    (env, .heartbeat 10), (env, .heartbeat 10)] = false := by decide

/-- the measure along the two-page exchange of `Props/C13.lean` (`sched`): 512 while the answer to
    the initial request is unknown, then 3, 2, 2, 1 (complete), 0 (applied), 512 (next exchange) -/
example : (List.range 10).map (fun i => mu (run sys0 (sched.take i))) =
    [0, 512, 512, 512, 3, 2, 2, 1, 0, 512] := by decide
/-- useful messages of the exchange: partial reply, follow-up request, page, processing -/
example : usefulCount (run sys0 (sched.take 3)) ((sched.drop 3).take 5) = 4 := by decide

/-- three consecutive rejects -/
example : trace sysP (rejectRounds env env 10 3) = List.replicate 3 (.initial 1 []) := by decide
example : (run sysP (rejectRounds env env 10 3)).st.syncing.rejects = 3 := by decide
example :=
  rejects_never_block env env 10 2 (.initial 1 []) sysP_reachable.inv (by decide) (by decide) (by decide)

/-- a reject between two pages of a block (`schedReject` of `Props/C13.lean`, first 5 messages:
    follow-up 1 is outstanding) -/
def sysM : Sys := run sys0 (schedReject.take 5)
example : sysM.pending = some (.followUp 1) := by decide
example :=
  reject_next_heartbeat (sys := sysM) (inv_reachable sys0_initial _) env env 10 (.followUp 1) (by decide) (by decide) (by decide)

/-- the ledger invariant is satisfiable (`InvIngest.Example.st`: anchor `A` with child `B`,
    threshold 1): ingestion settles after one round -/
def envL : Env := { env with bound := InvIngest.Example.bound0 }
example : ∃ n, n ≤ treeWork InvIngest.Example.st + 1 ∧ settles envL 1 n InvIngest.Example.st = true :=
  ingestion_settles envL 1 (by decide) _ [] InvIngest.Example.st_inv
example : settles envL 1 1 InvIngest.Example.st = true := by decide
example : treeWork InvIngest.Example.st = 2 := by decide

end Example

end Btc.Props.C13Live
