import BtcModel.Lemmas.EndpointsFull
import BtcModel.Props.FullSysExample

/-!
# The endpoint-level clauses of C05 / C07 / C14 / C16 / C19

The helper formulas (`chargeMetered`, `chargeFlat`, `guard`, `decodeExact`, `getBlockHeaders`, …) are
characterised in `Props/C14.lean`, `C16.lean`, `C19.lean`, `C07.lean`.  This file states what the
*endpoints* (`callGetUtxos`, …, `callSendTransaction` of `Model/Endpoints.lean`, i.e. the whole
message: guards, cycles, answer) do.

1. **C16 per endpoint** — the exact amount accepted, as a function of the request and the fee
   table, for each of the seven endpoints; when the amount is at most the maximum (and when it is
   not); refusal before anything is charged; what happens for `maximum < base`.
2. **C14 "in all other cases they answer"** — in a reachable configuration a call traps *iff* it
   is refused by the guard, or under-funded, or hits the `maximum < base` domain violation; in all
   other cases it is answered (`ok` or a request-level error).
3. **C19 at step level, on the payload bytes** — accepted iff guard ∧ cycles ∧ the payload is the
   consensus encoding of one transaction; the effect on the state in each of the three outcomes.
4. **C07 trap-freedom** — `get_block_headers_internal` with its two panics made explicit never
   traps in a reachable configuration and equals the total model function; the returned strings
   are 80-byte headers whose double SHA-256 is the block hash and whose `prev_blockhash` field is
   the hash of the previous returned header, when the blocks come from bytes.
5. **C05 query = update** — the query variants return the answers of the update variants.
-/
namespace Btc.Props.EndpointsFull
open Btc Btc.State Btc.Spec Btc.Spec.Full Btc.Lemmas.EndpointsFull Btc.Props.FullCor

variable {sys : Fetch.Sys} {G : List Block}

/-! ## 1. C16: the exact amount every endpoint accepts -/

/-- **`get_utxos`, answered**: the guard passed, the call carried the maximum and the base fee,
    the state is unchanged, the typed answer is the answer of the query, and
    * for an `ok` answer the fee table has `base ≤ maximum` and exactly
      `base + min(instructions/10 · rate, maximum − base)` was accepted;
    * for a request-level error exactly `base` was accepted. -/
theorem c16_getUtxos_answered (env : Env) (s : State) (r : DataReq) (a : QResult UtxosResponse)
    (acc : Nat) (s' : State) (h : callGetUtxos env s r = .answered a acc s') :
    s.guard env r.reqNet true = none ∧
    s.fees.getUtxosMaximum ≤ r.available ∧ s.fees.getUtxosBase ≤ r.available ∧ s' = s ∧
    s.getUtxos r.addr (.minConf r.minConf) r.limit = a ∧
    ((∃ v, a = .ok v ∧ s.fees.getUtxosBase ≤ s.fees.getUtxosMaximum ∧
        acc = s.fees.getUtxosBase + min (r.instructions / 10 * s.fees.getUtxosCyclesPerTenInstructions)
          (s.fees.getUtxosMaximum - s.fees.getUtxosBase)) ∨
     (∃ e, a = .err e ∧ acc = s.fees.getUtxosBase)) := by
  cases hg : s.guard env r.reqNet true with
  | some g => rw [(call_refused env s r g hg).1] at h; cases h
  | none =>
    rw [callGetUtxos_passed env s r hg] at h
    by_cases hu : r.available < s.fees.getUtxosMaximum ∨ r.available < s.fees.getUtxosBase
    · rw [if_pos hu] at h; cases h
    · rw [if_neg hu] at h
      cases hq : s.getUtxos r.addr (.minConf r.minConf) r.limit with
      | trap m => rw [hq] at h; simp at h
      | err e =>
        rw [hq] at h
        simp only [CallResult.answered.injEq] at h
        obtain ⟨rfl, rfl, rfl⟩ := h
        exact ⟨rfl, by omega, by omega, rfl, rfl, Or.inr ⟨e, rfl, rfl⟩⟩
      | ok v =>
        rw [hq] at h
        simp only at h
        by_cases hb : s.fees.getUtxosMaximum < s.fees.getUtxosBase
        · rw [if_pos hb] at h; cases h
        · rw [if_neg hb] at h
          unfold meteredFee at h
          simp only [CallResult.answered.injEq] at h
          obtain ⟨rfl, rfl, rfl⟩ := h
          exact ⟨rfl, by omega, by omega, rfl, rfl, Or.inl ⟨v, rfl, by omega, rfl⟩⟩

/-- **C16, `get_utxos`, success**: exactly `base + min(instructions/10 · rate, maximum − base)`,
    which is at most the maximum. -/
theorem c16_getUtxos_ok (env : Env) (s : State) (r : DataReq) (v : UtxosResponse) (acc : Nat)
    (s' : State) (h : callGetUtxos env s r = .answered (.ok v) acc s') :
    s.fees.getUtxosBase ≤ s.fees.getUtxosMaximum ∧
    acc = s.fees.getUtxosBase + min (r.instructions / 10 * s.fees.getUtxosCyclesPerTenInstructions)
      (s.fees.getUtxosMaximum - s.fees.getUtxosBase) ∧
    acc ≤ s.fees.getUtxosMaximum ∧ s.fees.getUtxosMaximum ≤ r.available ∧ s' = s := by
  obtain ⟨_, h2, _, h4, _, h6⟩ := c16_getUtxos_answered env s r _ acc s' h
  rcases h6 with ⟨v', _, hb, hacc⟩ | ⟨e, he, _⟩
  · have := Nat.min_le_right (r.instructions / 10 * s.fees.getUtxosCyclesPerTenInstructions)
      (s.fees.getUtxosMaximum - s.fees.getUtxosBase)
    exact ⟨hb, hacc, by omega, h2, h4⟩
  · cases he

/-- **C16, `get_utxos`, request-level error**: exactly the base fee — which exceeds the maximum
    iff the fee table has `maximum < base`. -/
theorem c16_getUtxos_err (env : Env) (s : State) (r : DataReq) (e : UtxosError) (acc : Nat)
    (s' : State) (h : callGetUtxos env s r = .answered (.err e) acc s') :
    acc = s.fees.getUtxosBase ∧ s' = s ∧ s.fees.getUtxosMaximum ≤ r.available ∧ acc ≤ r.available ∧
    (acc ≤ s.fees.getUtxosMaximum ↔ s.fees.getUtxosBase ≤ s.fees.getUtxosMaximum) := by
  obtain ⟨_, h2, h3, h4, _, h6⟩ := c16_getUtxos_answered env s r _ acc s' h
  rcases h6 with ⟨v', hv, _⟩ | ⟨e', _, hacc⟩
  · cases hv
  · subst hacc
    exact ⟨rfl, h4, h2, h3, Iff.rfl⟩

/-- **`get_block_headers`, answered** (as `c16_getUtxos_answered`) -/
theorem c16_getBlockHeaders_answered (env : Env) (s : State) (r : DataReq)
    (a : Except HeadersError (Nat × List String)) (acc : Nat) (s' : State)
    (h : callGetBlockHeaders env s r = .answered a acc s') :
    s.guard env r.reqNet true = none ∧
    s.fees.getBlockHeadersMaximum ≤ r.available ∧ s.fees.getBlockHeadersBase ≤ r.available ∧ s' = s ∧
    s.getBlockHeaders env.maxHeaders r.start none = a ∧
    ((∃ v, a = .ok v ∧ s.fees.getBlockHeadersBase ≤ s.fees.getBlockHeadersMaximum ∧
        acc = s.fees.getBlockHeadersBase +
          min (r.instructions / 10 * s.fees.getBlockHeadersCyclesPerTenInstructions)
            (s.fees.getBlockHeadersMaximum - s.fees.getBlockHeadersBase)) ∨
     (∃ e, a = .error e ∧ acc = s.fees.getBlockHeadersBase)) := by
  cases hg : s.guard env r.reqNet true with
  | some g => rw [(call_refused env s r g hg).2.2.2.2.1] at h; cases h
  | none =>
    rw [callGetBlockHeaders_passed env s r hg] at h
    by_cases hu : r.available < s.fees.getBlockHeadersMaximum ∨
        r.available < s.fees.getBlockHeadersBase
    · rw [if_pos hu] at h; cases h
    · rw [if_neg hu] at h
      cases hq : s.getBlockHeaders env.maxHeaders r.start none with
      | error e =>
        rw [hq] at h
        simp only [CallResult.answered.injEq] at h
        obtain ⟨rfl, rfl, rfl⟩ := h
        exact ⟨rfl, by omega, by omega, rfl, rfl, Or.inr ⟨e, rfl, rfl⟩⟩
      | ok v =>
        rw [hq] at h
        simp only at h
        by_cases hb : s.fees.getBlockHeadersMaximum < s.fees.getBlockHeadersBase
        · rw [if_pos hb] at h; cases h
        · rw [if_neg hb] at h
          unfold meteredFee at h
          simp only [CallResult.answered.injEq] at h
          obtain ⟨rfl, rfl, rfl⟩ := h
          exact ⟨rfl, by omega, by omega, rfl, rfl, Or.inl ⟨v, rfl, by omega, rfl⟩⟩

/-- **C16, `get_block_headers`, success** -/
theorem c16_getBlockHeaders_ok (env : Env) (s : State) (r : DataReq) (v : Nat × List String)
    (acc : Nat) (s' : State) (h : callGetBlockHeaders env s r = .answered (.ok v) acc s') :
    s.fees.getBlockHeadersBase ≤ s.fees.getBlockHeadersMaximum ∧
    acc = s.fees.getBlockHeadersBase +
      min (r.instructions / 10 * s.fees.getBlockHeadersCyclesPerTenInstructions)
        (s.fees.getBlockHeadersMaximum - s.fees.getBlockHeadersBase) ∧
    acc ≤ s.fees.getBlockHeadersMaximum ∧ s.fees.getBlockHeadersMaximum ≤ r.available ∧ s' = s := by
  obtain ⟨_, h2, _, h4, _, h6⟩ := c16_getBlockHeaders_answered env s r _ acc s' h
  rcases h6 with ⟨v', _, hb, hacc⟩ | ⟨e, he, _⟩
  · have := Nat.min_le_right (r.instructions / 10 * s.fees.getBlockHeadersCyclesPerTenInstructions)
      (s.fees.getBlockHeadersMaximum - s.fees.getBlockHeadersBase)
    exact ⟨hb, hacc, by omega, h2, h4⟩
  · cases he

/-- **C16, `get_block_headers`, request-level error**: exactly the base fee -/
theorem c16_getBlockHeaders_err (env : Env) (s : State) (r : DataReq) (e : HeadersError) (acc : Nat)
    (s' : State) (h : callGetBlockHeaders env s r = .answered (.error e) acc s') :
    acc = s.fees.getBlockHeadersBase ∧ s' = s ∧ s.fees.getBlockHeadersMaximum ≤ r.available ∧
    acc ≤ r.available ∧
    (acc ≤ s.fees.getBlockHeadersMaximum ↔
      s.fees.getBlockHeadersBase ≤ s.fees.getBlockHeadersMaximum) := by
  obtain ⟨_, h2, h3, h4, _, h6⟩ := c16_getBlockHeaders_answered env s r _ acc s' h
  rcases h6 with ⟨v', hv, _⟩ | ⟨e', _, hacc⟩
  · cases hv
  · subst hacc
    exact ⟨rfl, h4, h2, h3, Iff.rfl⟩

/-- **C16, `get_balance`** (success and request-level error alike): exactly the flat fee; the call
    carried the maximum; the state is unchanged; the answer is the answer of the query.  The amount
    is at most the maximum **iff the fee table has `get_balance ≤ get_balance_maximum`** — the
    code does not compare the two (`chargeFlat 100 30 20 = some 30`). -/
theorem c16_getBalance (env : Env) (s : State) (r : DataReq) (a : QResult Nat) (acc : Nat)
    (s' : State) (h : callGetBalance env s r = .answered a acc s') :
    s.guard env r.reqNet true = none ∧ acc = s.fees.getBalance ∧
    s.fees.getBalanceMaximum ≤ r.available ∧ acc ≤ r.available ∧ s' = s ∧
    s.getBalance r.addr r.minConf = a ∧ ((∃ v, a = .ok v) ∨ (∃ e, a = .err e)) ∧
    (acc ≤ s.fees.getBalanceMaximum ↔ s.fees.getBalance ≤ s.fees.getBalanceMaximum) := by
  cases hg : s.guard env r.reqNet true with
  | some g => rw [(call_refused env s r g hg).2.2.1] at h; cases h
  | none =>
    rw [callGetBalance_passed env s r hg] at h
    by_cases hu : r.available < s.fees.getBalanceMaximum ∨ r.available < s.fees.getBalance
    · rw [if_pos hu] at h; cases h
    · rw [if_neg hu] at h
      cases hq : s.getBalance r.addr r.minConf with
      | trap m => rw [hq] at h; simp at h
      | err e =>
        rw [hq] at h
        simp only [CallResult.answered.injEq] at h
        obtain ⟨rfl, rfl, rfl⟩ := h
        exact ⟨rfl, rfl, by omega, by omega, rfl, rfl, Or.inr ⟨e, rfl⟩, Iff.rfl⟩
      | ok v =>
        rw [hq] at h
        simp only [CallResult.answered.injEq] at h
        obtain ⟨rfl, rfl, rfl⟩ := h
        exact ⟨rfl, rfl, by omega, by omega, rfl, rfl, Or.inl ⟨v, rfl⟩, Iff.rfl⟩

/-- **C16, `get_current_fee_percentiles`**: exactly the flat fee; at most the maximum iff the fee
    table has `flat ≤ maximum`; the new state is the one the computation returns (cache update) -/
theorem c16_feePercentiles (env : Env) (s : State) (r : DataReq) (p : List Nat) (acc : Nat)
    (s' : State) (h : callFeePercentiles env s r = .answered p acc s') :
    s.guard env r.reqNet true = none ∧ acc = s.fees.getCurrentFeePercentiles ∧
    s.fees.getCurrentFeePercentilesMaximum ≤ r.available ∧ acc ≤ r.available ∧
    s.feePercentiles env.numTransactions = some (s', p) ∧
    (acc ≤ s.fees.getCurrentFeePercentilesMaximum ↔
      s.fees.getCurrentFeePercentiles ≤ s.fees.getCurrentFeePercentilesMaximum) := by
  cases hg : s.guard env r.reqNet true with
  | some g => rw [(call_refused env s r g hg).2.2.2.2.2] at h; cases h
  | none =>
    rw [callFeePercentiles_passed env s r hg] at h
    by_cases hu : r.available < s.fees.getCurrentFeePercentilesMaximum ∨
        r.available < s.fees.getCurrentFeePercentiles
    · rw [if_pos hu] at h; cases h
    · rw [if_neg hu] at h
      cases hq : s.feePercentiles env.numTransactions with
      | none => rw [hq] at h; simp at h
      | some x =>
        obtain ⟨s1, p1⟩ := x
        rw [hq] at h
        simp only [CallResult.answered.injEq] at h
        obtain ⟨rfl, rfl, rfl⟩ := h
        exact ⟨rfl, rfl, by omega, by omega, rfl, Iff.rfl⟩

/-- **C16, `send_transaction`** (accepted or `MalformedTransaction`): exactly
    `base + per_byte · length`, charged before the payload is decoded -/
theorem c16_sendTransaction (env : Env) (s : State) (net : Tree.Net) (available len : Nat)
    (wf fwd : Bool) (acc : Nat) (s' : State)
    (h : callSendTransaction env s net available len wf = .answered fwd acc s') :
    s.guard env net false = none ∧
    acc = s.fees.sendTransactionBase + s.fees.sendTransactionPerByte * len ∧ acc ≤ available ∧
    fwd = wf := by
  cases hg : s.guard env net false with
  | some g => simp [callSendTransaction, hg] at h
  | none =>
    rw [callSendTransaction_passed env s net available len wf hg] at h
    by_cases hu : available < s.fees.sendTransactionBase + s.fees.sendTransactionPerByte * len
    · rw [if_pos hu] at h; cases h
    · rw [if_neg hu] at h
      cases wf with
      | true =>
        simp only [if_true, CallResult.answered.injEq] at h
        obtain ⟨rfl, rfl, _⟩ := h
        exact ⟨rfl, rfl, by omega, rfl⟩
      | false =>
        simp only [Bool.false_eq_true, if_false, CallResult.answered.injEq] at h
        obtain ⟨rfl, rfl, _⟩ := h
        exact ⟨rfl, rfl, by omega, rfl⟩

/-- **C16, the query variants**: nothing is accepted, the state is unchanged, the answer is the
    answer of the query function -/
theorem c16_queries (env : Env) (s : State) (r : DataReq) :
    (∀ a acc s', callGetUtxosQuery env s r = .answered a acc s' →
      acc = 0 ∧ s' = s ∧ s.getUtxos r.addr (.minConf r.minConf) r.limit = a) ∧
    (∀ a acc s', callGetBalanceQuery env s r = .answered a acc s' →
      acc = 0 ∧ s' = s ∧ s.getBalance r.addr r.minConf = a) := by
  constructor
  · intro a acc s' h
    cases hg : s.guard env r.reqNet true with
    | some g => rw [(call_refused env s r g hg).2.1] at h; cases h
    | none =>
      rw [callGetUtxosQuery_passed env s r hg] at h
      cases hq : s.getUtxos r.addr (.minConf r.minConf) r.limit with
      | trap m => rw [hq] at h; simp at h
      | err e =>
        rw [hq] at h
        simp only [CallResult.answered.injEq] at h
        obtain ⟨rfl, rfl, rfl⟩ := h
        exact ⟨rfl, rfl, rfl⟩
      | ok v =>
        rw [hq] at h
        simp only [CallResult.answered.injEq] at h
        obtain ⟨rfl, rfl, rfl⟩ := h
        exact ⟨rfl, rfl, rfl⟩
  · intro a acc s' h
    cases hg : s.guard env r.reqNet true with
    | some g => rw [(call_refused env s r g hg).2.2.2.1] at h; cases h
    | none =>
      rw [callGetBalanceQuery_passed env s r hg] at h
      cases hq : s.getBalance r.addr r.minConf with
      | trap m => rw [hq] at h; simp at h
      | err e =>
        rw [hq] at h
        simp only [CallResult.answered.injEq] at h
        obtain ⟨rfl, rfl, rfl⟩ := h
        exact ⟨rfl, rfl, rfl⟩
      | ok v =>
        rw [hq] at h
        simp only [CallResult.answered.injEq] at h
        obtain ⟨rfl, rfl, rfl⟩ := h
        exact ⟨rfl, rfl, rfl⟩

/-! ### "never more than the maximum": the exact condition -/

/-- the maximum of the endpoint of a call (the query variants and `send_transaction` have none) -/
def maximumOf (s : State) : Call → Option Nat
  | .getUtxos _ => some s.fees.getUtxosMaximum
  | .getBalance _ => some s.fees.getBalanceMaximum
  | .getBlockHeaders _ => some s.fees.getBlockHeadersMaximum
  | .feePercentiles _ => some s.fees.getCurrentFeePercentilesMaximum
  | _ => none

/-- the cycles attached to a call -/
def availableOf : Call → Nat
  | .getUtxos r => r.available
  | .getUtxosQuery r => r.available
  | .getBalance r => r.available
  | .getBalanceQuery r => r.available
  | .getBlockHeaders r => r.available
  | .feePercentiles r => r.available
  | .sendTransaction _ a _ _ => a

/-- the side condition on the fee table under which "never more than the maximum" holds: the
    base / flat fee of the endpoint is at most its maximum.  It holds for the shipped tables
    (`C16.default_tables_base_le_maximum`); `set_config` does not check it. -/
def FeeTableOk (s : State) : Call → Prop
  | .getUtxos _ => s.fees.getUtxosBase ≤ s.fees.getUtxosMaximum
  | .getBalance _ => s.fees.getBalance ≤ s.fees.getBalanceMaximum
  | .getBlockHeaders _ => s.fees.getBlockHeadersBase ≤ s.fees.getBlockHeadersMaximum
  | .feePercentiles _ => s.fees.getCurrentFeePercentiles ≤ s.fees.getCurrentFeePercentilesMaximum
  | _ => True

/-- **C16, never more than the maximum — under `FeeTableOk`**: whatever an endpoint with a maximum
    accepts is at most that maximum, provided the fee table has base / flat fee ≤ maximum.
    (Without the proviso the statement is false: `Example.fee_can_exceed_maximum`.) -/
theorem c16_accepted_le_maximum (env : Env) (s : State) (c : Call) (m : Nat)
    (hm : maximumOf s c = some m) (hok : FeeTableOk s c) : callAccepted env s c ≤ m := by
  cases c with
  | getUtxos r =>
    simp only [maximumOf, Option.some.injEq] at hm
    subst hm
    simp only [FeeTableOk] at hok
    simp only [callAccepted]
    cases hres : callGetUtxos env s r with
    | trap t => simp [acceptedOf]
    | answered a acc s' =>
      simp only [acceptedOf]
      obtain ⟨_, _, _, _, _, h6⟩ := c16_getUtxos_answered env s r a acc s' hres
      rcases h6 with ⟨v, _, _, hacc⟩ | ⟨e, _, hacc⟩
      · have := Nat.min_le_right (r.instructions / 10 * s.fees.getUtxosCyclesPerTenInstructions)
          (s.fees.getUtxosMaximum - s.fees.getUtxosBase)
        omega
      · omega
  | getBalance r =>
    simp only [maximumOf, Option.some.injEq] at hm
    subst hm
    simp only [FeeTableOk] at hok
    simp only [callAccepted]
    cases hres : callGetBalance env s r with
    | trap t => simp [acceptedOf]
    | answered a acc s' =>
      simp only [acceptedOf]
      have := (c16_getBalance env s r a acc s' hres).2.1
      omega
  | getBlockHeaders r =>
    simp only [maximumOf, Option.some.injEq] at hm
    subst hm
    simp only [FeeTableOk] at hok
    simp only [callAccepted]
    cases hres : callGetBlockHeaders env s r with
    | trap t => simp [acceptedOf]
    | answered a acc s' =>
      simp only [acceptedOf]
      obtain ⟨_, _, _, _, _, h6⟩ := c16_getBlockHeaders_answered env s r a acc s' hres
      rcases h6 with ⟨v, _, _, hacc⟩ | ⟨e, _, hacc⟩
      · have := Nat.min_le_right
          (r.instructions / 10 * s.fees.getBlockHeadersCyclesPerTenInstructions)
          (s.fees.getBlockHeadersMaximum - s.fees.getBlockHeadersBase)
        omega
      · omega
  | feePercentiles r =>
    simp only [maximumOf, Option.some.injEq] at hm
    subst hm
    simp only [FeeTableOk] at hok
    simp only [callAccepted]
    cases hres : callFeePercentiles env s r with
    | trap t => simp [acceptedOf]
    | answered a acc s' =>
      simp only [acceptedOf]
      have := (c16_feePercentiles env s r a acc s' hres).2.1
      omega
  | getUtxosQuery r => simp [maximumOf] at hm
  | getBalanceQuery r => simp [maximumOf] at hm
  | sendTransaction n a l w => simp [maximumOf] at hm

/-- **C16, what is true without any proviso**: an endpoint never accepts more than the call
    carried; the query variants accept nothing. -/
theorem c16_accepted_le_available (env : Env) (s : State) (c : Call) :
    callAccepted env s c ≤ availableOf c := by
  cases c with
  | getUtxos r =>
    simp only [callAccepted, availableOf]
    cases hres : callGetUtxos env s r with
    | trap t => simp [acceptedOf]
    | answered a acc s' =>
      simp only [acceptedOf]
      obtain ⟨_, h2, h3, _, _, h6⟩ := c16_getUtxos_answered env s r a acc s' hres
      rcases h6 with ⟨v, _, _, hacc⟩ | ⟨e, _, hacc⟩
      · have := Nat.min_le_right (r.instructions / 10 * s.fees.getUtxosCyclesPerTenInstructions)
          (s.fees.getUtxosMaximum - s.fees.getUtxosBase)
        omega
      · omega
  | getUtxosQuery r =>
    simp only [callAccepted, availableOf]
    cases hres : callGetUtxosQuery env s r with
    | trap t => simp [acceptedOf]
    | answered a acc s' =>
      simp only [acceptedOf]
      have := ((c16_queries env s r).1 a acc s' hres).1
      omega
  | getBalance r =>
    simp only [callAccepted, availableOf]
    cases hres : callGetBalance env s r with
    | trap t => simp [acceptedOf]
    | answered a acc s' =>
      simp only [acceptedOf]
      exact (c16_getBalance env s r a acc s' hres).2.2.2.1
  | getBalanceQuery r =>
    simp only [callAccepted, availableOf]
    cases hres : callGetBalanceQuery env s r with
    | trap t => simp [acceptedOf]
    | answered a acc s' =>
      simp only [acceptedOf]
      have := ((c16_queries env s r).2 a acc s' hres).1
      omega
  | getBlockHeaders r =>
    simp only [callAccepted, availableOf]
    cases hres : callGetBlockHeaders env s r with
    | trap t => simp [acceptedOf]
    | answered a acc s' =>
      simp only [acceptedOf]
      obtain ⟨_, h2, h3, _, _, h6⟩ := c16_getBlockHeaders_answered env s r a acc s' hres
      rcases h6 with ⟨v, _, _, hacc⟩ | ⟨e, _, hacc⟩
      · have := Nat.min_le_right
          (r.instructions / 10 * s.fees.getBlockHeadersCyclesPerTenInstructions)
          (s.fees.getBlockHeadersMaximum - s.fees.getBlockHeadersBase)
        omega
      · omega
  | feePercentiles r =>
    simp only [callAccepted, availableOf]
    cases hres : callFeePercentiles env s r with
    | trap t => simp [acceptedOf]
    | answered a acc s' =>
      simp only [acceptedOf]
      exact (c16_feePercentiles env s r a acc s' hres).2.2.2.1
  | sendTransaction n a l w =>
    simp only [callAccepted, availableOf]
    cases hres : callSendTransaction env s n a l w with
    | trap t => simp [acceptedOf]
    | answered fwd acc s' =>
      simp only [acceptedOf]
      exact (c16_sendTransaction env s n a l w fwd acc s' hres).2.2.1

/-- **C16, refused before anything is charged**: a call of an endpoint with a maximum that passes
    the guard but carries less than that maximum traps for cycles; the whole configuration is
    unchanged and nothing is accepted. -/
theorem c16_below_maximum_refused (env : Env) (sys : Fetch.Sys) (G : List Block) (c : Call) (m : Nat)
    (hg : guardOf env sys.st c = none) (hm : maximumOf sys.st c = some m)
    (h : availableOf c < m) :
    callTrap env sys.st c = some .cycles ∧
    stepMsg env (sys, G) (.call c) = (sys, G) ∧ callAccepted env sys.st c = 0 := by
  apply c16_underfunded_call_no_effect env sys G c hg
  cases c with
  | getUtxos r =>
    simp only [maximumOf, Option.some.injEq] at hm
    subst hm
    exact Or.inl h
  | getBalance r =>
    simp only [maximumOf, Option.some.injEq] at hm
    subst hm
    exact Or.inl h
  | getBlockHeaders r =>
    simp only [maximumOf, Option.some.injEq] at hm
    subst hm
    exact Or.inl h
  | feePercentiles r =>
    simp only [maximumOf, Option.some.injEq] at hm
    subst hm
    exact Or.inl h
  | getUtxosQuery r => simp [maximumOf] at hm
  | getBalanceQuery r => simp [maximumOf] at hm
  | sendTransaction n a l w => simp [maximumOf] at hm

/-- … per update endpoint, as equalities (`send_transaction` has no maximum: it is refused when
    less than `base + per_byte · length` is attached) -/
theorem c16_refused_below_maximum_each (env : Env) (s : State) (r : DataReq)
    (hg : s.guard env r.reqNet true = none) :
    (r.available < s.fees.getUtxosMaximum → callGetUtxos env s r = .trap .cycles) ∧
    (r.available < s.fees.getBalanceMaximum → callGetBalance env s r = .trap .cycles) ∧
    (r.available < s.fees.getBlockHeadersMaximum → callGetBlockHeaders env s r = .trap .cycles) ∧
    (r.available < s.fees.getCurrentFeePercentilesMaximum →
      callFeePercentiles env s r = .trap .cycles) := by
  refine ⟨fun h => ?_, fun h => ?_, fun h => ?_, fun h => ?_⟩
  · rw [callGetUtxos_passed env s r hg, if_pos (Or.inl h)]
  · rw [callGetBalance_passed env s r hg, if_pos (Or.inl h)]
  · rw [callGetBlockHeaders_passed env s r hg, if_pos (Or.inl h)]
  · rw [callFeePercentiles_passed env s r hg, if_pos (Or.inl h)]

theorem c16_send_refused_below_amount (env : Env) (s : State) (net : Tree.Net) (available len : Nat)
    (wf : Bool) (hg : s.guard env net false = none)
    (h : available < s.fees.sendTransactionBase + s.fees.sendTransactionPerByte * len) :
    callSendTransaction env s net available len wf = .trap .cycles := by
  rw [callSendTransaction_passed env s net available len wf hg, if_pos h]

/-- **C16, the domain restriction `base ≤ maximum`.**  With a fee table that has
    `maximum < base` (which `set_config` accepts), a funded `get_utxos` / `get_block_headers` call
    whose request is fine *traps* in the model (`.other`) — in the Rust code
    `maximum - base` (`u128`) panics in a debug build and wraps in a release build (no
    `overflow-checks` in the workspace profile), where `base + instructions/10 · rate` would then
    be charged, unbounded by the maximum — while a request-level error is still answered and
    charged `base > maximum`. -/
theorem c16_maximum_lt_base (env : Env) (s : State) (r : DataReq)
    (hg : s.guard env r.reqNet true = none) :
    (s.fees.getUtxosMaximum < s.fees.getUtxosBase → s.fees.getUtxosBase ≤ r.available →
      callGetUtxos env s r =
        match s.getUtxos r.addr (.minConf r.minConf) r.limit with
        | .ok _ => .trap .other
        | .err e => .answered (.err e) s.fees.getUtxosBase s
        | .trap _ => .trap .other) ∧
    (s.fees.getBlockHeadersMaximum < s.fees.getBlockHeadersBase →
      s.fees.getBlockHeadersBase ≤ r.available →
      callGetBlockHeaders env s r =
        match s.getBlockHeaders env.maxHeaders r.start none with
        | .ok _ => .trap .other
        | .error e => .answered (.error e) s.fees.getBlockHeadersBase s) := by
  constructor
  · intro hlt hb
    rw [callGetUtxos_passed env s r hg, if_neg (by omega)]
    cases s.getUtxos r.addr (.minConf r.minConf) r.limit with
    | trap m => rfl
    | err e => rfl
    | ok v => simp only [if_pos hlt]
  · intro hlt hb
    rw [callGetBlockHeaders_passed env s r hg, if_neg (by omega)]
    cases s.getBlockHeaders env.maxHeaders r.start none with
    | error e => rfl
    | ok v => simp only [if_pos hlt]

/-! ## 2. C14: "in all other cases they answer" -/

/-- the one trap of the model that is neither a refusal nor a lack of cycles: a metered endpoint,
    a fee table with `maximum < base`, and a request that would succeed (see `c16_maximum_lt_base`) -/
def domainViolation (env : Env) (s : State) : Call → Prop
  | .getUtxos r => s.fees.getUtxosMaximum < s.fees.getUtxosBase ∧
      ∃ v, s.getUtxos r.addr (.minConf r.minConf) r.limit = .ok v
  | .getBlockHeaders r => s.fees.getBlockHeadersMaximum < s.fees.getBlockHeadersBase ∧
      ∃ v, s.getBlockHeaders env.maxHeaders r.start none = .ok v
  | _ => False

theorem domainViolation_not_ok {env : Env} {s : State} {c : Call} (h : domainViolation env s c) :
    ¬ FeeTableOk s c := by
  cases c with
  | getUtxos r => simp only [domainViolation] at h; simp only [FeeTableOk]; omega
  | getBlockHeaders r => simp only [domainViolation] at h; simp only [FeeTableOk]; omega
  | getUtxosQuery r => exact h.elim
  | getBalance r => exact h.elim
  | getBalanceQuery r => exact h.elim
  | feePercentiles r => exact h.elim
  | sendTransaction n a l w => exact h.elim

/-- the three ways a call can trap -/
def TrapReason (env : Env) (s : State) (c : Call) (t : CallTrap) : Prop :=
  (∃ g, guardOf env s c = some g ∧ t = .refused g) ∨
  (guardOf env s c = none ∧ underFunded s c ∧ t = .cycles) ∨
  (guardOf env s c = none ∧ ¬ underFunded s c ∧ domainViolation env s c ∧ t = .other)

theorem trapReason_refused {env : Env} {s : State} {c : Call} {g : Refusal} {t : CallTrap}
    (hg : guardOf env s c = some g) : TrapReason env s c t ↔ t = .refused g := by
  unfold TrapReason
  rw [hg]
  constructor
  · rintro (⟨g', hg', rfl⟩ | ⟨hn, _⟩ | ⟨hn, _⟩)
    · cases hg'; rfl
    · cases hn
    · cases hn
  · rintro rfl
    exact Or.inl ⟨g, rfl, rfl⟩

theorem trapReason_passed {env : Env} {s : State} {c : Call} {t : CallTrap}
    (hg : guardOf env s c = none) :
    TrapReason env s c t ↔
      (underFunded s c ∧ t = .cycles) ∨ (¬ underFunded s c ∧ domainViolation env s c ∧ t = .other) := by
  unfold TrapReason
  rw [hg]
  constructor
  · rintro (⟨g', hg', _⟩ | ⟨_, h⟩ | ⟨_, h⟩)
    · cases hg'
    · exact Or.inl h
    · exact Or.inr h
  · rintro (h | h)
    · exact Or.inr (Or.inl ⟨rfl, h⟩)
    · exact Or.inr (Or.inr ⟨rfl, h⟩)

/-- **C14, the traps of the endpoints, exactly** (every reachable configuration, paused or not):
    a call traps with `t` iff
    * the guard of the endpoint refuses it (API disabled / wrong network / not synced) and `t` is
      that refusal, or
    * it passes the guard, is under-funded and `t = cycles`, or
    * it passes the guard, is funded, hits the `maximum < base` domain violation and `t = other`.

    Nothing else traps: not `get_utxos` (`getUtxos_minConf_never_traps`), not `get_balance`
    (`getBalance_never_traps`), not the fee percentiles (`FullSys.fee_never_traps`); the model's
    `get_block_headers` is total (its two Rust panics are excluded by
    `c07_getBlockHeaders_never_traps` below). -/
theorem c14_trap_iff (hr : FullReachable sys G) (env : Env) (c : Call) (t : CallTrap) :
    callTrap env sys.st c = some t ↔ TrapReason env sys.st c t := by
  cases hg : guardOf env sys.st c with
  | some g =>
    rw [trapReason_refused hg, (c14_refused_call_no_effect env sys G c g hg).1]
    constructor
    · intro h; exact (Option.some.inj h).symm
    · rintro rfl; rfl
  | none =>
    rw [trapReason_passed hg]
    by_cases hu : underFunded sys.st c
    · rw [(c16_underfunded_call_no_effect env sys G c hg hu).1]
      constructor
      · intro h; exact Or.inl ⟨hu, (Option.some.inj h).symm⟩
      · rintro (⟨_, rfl⟩ | ⟨hn, _⟩)
        · rfl
        · exact absurd hu hn
    · -- funded: the trap can only be the domain violation
      have key : callTrap env sys.st c = some t ↔ (domainViolation env sys.st c ∧ t = .other) := by
        cases c with
        | getUtxos r =>
          simp only [guardOf] at hg
          simp only [underFunded] at hu
          simp only [callTrap, domainViolation]
          rw [callGetUtxos_passed env sys.st r hg, if_neg hu]
          cases hq : sys.st.getUtxos r.addr (.minConf r.minConf) r.limit with
          | trap m => exact absurd hq (getUtxos_minConf_never_traps hr _ _ _ m)
          | err e => simp [trapOf]
          | ok v =>
            by_cases hb : sys.st.fees.getUtxosMaximum < sys.st.fees.getUtxosBase
            · simp only [if_pos hb, trapOf, Option.some.injEq]
              constructor
              · intro h; exact ⟨⟨hb, v, rfl⟩, h.symm⟩
              · rintro ⟨_, rfl⟩; rfl
            · simp [trapOf, hb]
        | getUtxosQuery r =>
          simp only [guardOf] at hg
          simp only [callTrap, domainViolation]
          rw [(c14_passing_queries_answer hr env r hg).1]
          simp [trapOf]
        | getBalance r =>
          simp only [guardOf] at hg
          simp only [underFunded] at hu
          simp only [callTrap, domainViolation]
          rw [callGetBalance_passed env sys.st r hg, if_neg hu]
          cases hq : sys.st.getBalance r.addr r.minConf with
          | trap m => exact absurd hq (getBalance_never_traps hr _ _ m)
          | err e => simp [trapOf]
          | ok v => simp [trapOf]
        | getBalanceQuery r =>
          simp only [guardOf] at hg
          simp only [callTrap, domainViolation]
          rw [(c14_passing_queries_answer hr env r hg).2]
          simp [trapOf]
        | getBlockHeaders r =>
          simp only [guardOf] at hg
          simp only [underFunded] at hu
          simp only [callTrap, domainViolation]
          rw [callGetBlockHeaders_passed env sys.st r hg, if_neg hu]
          cases hq : sys.st.getBlockHeaders env.maxHeaders r.start none with
          | error e => simp [trapOf]
          | ok v =>
            by_cases hb : sys.st.fees.getBlockHeadersMaximum < sys.st.fees.getBlockHeadersBase
            · simp only [if_pos hb, trapOf, Option.some.injEq]
              constructor
              · intro h; exact ⟨⟨hb, v, rfl⟩, h.symm⟩
              · rintro ⟨_, rfl⟩; rfl
            · simp [trapOf, hb]
        | feePercentiles r =>
          simp only [guardOf] at hg
          simp only [underFunded] at hu
          simp only [callTrap, domainViolation]
          rw [callFeePercentiles_passed env sys.st r hg, if_neg hu]
          cases hq : sys.st.feePercentiles env.numTransactions with
          | none =>
            have := (FullSys.fee_never_traps hr env.numTransactions).2
            rw [hq] at this; cases this
          | some x => simp [trapOf]
        | sendTransaction n a l w =>
          simp only [guardOf] at hg
          simp only [underFunded] at hu
          simp only [callTrap, domainViolation]
          rw [callSendTransaction_passed env sys.st n a l w hg, if_neg hu]
          cases w <;> simp [trapOf]
      rw [key]
      constructor
      · intro h; exact Or.inr ⟨hu, h⟩
      · rintro (⟨h, _⟩ | ⟨_, h⟩)
        · exact absurd h hu
        · exact h

/-- **C14, "in all other cases they answer"** — all seven endpoints, every reachable
    configuration: a call that passes the guard of its endpoint, is funded, and whose fee table
    has `base ≤ maximum`, is answered (`ok` or a request-level error): it does not trap. -/
theorem c14_all_other_cases_answer (hr : FullReachable sys G) (env : Env) (c : Call)
    (hg : guardOf env sys.st c = none) (hu : ¬ underFunded sys.st c) (hok : FeeTableOk sys.st c) :
    callTrap env sys.st c = none := by
  cases h : callTrap env sys.st c with
  | none => rfl
  | some t =>
    exfalso
    rcases (c14_trap_iff hr env c t).mp h with ⟨g, hg', _⟩ | ⟨_, hu', _⟩ | ⟨_, _, hd, _⟩
    · rw [hg] at hg'; cases hg'
    · exact hu hu'
    · exact domainViolation_not_ok hd hok

/-- … and conversely a call that does not pass the guard, or is under-funded, traps (and changes
    nothing): `callTrap = none` iff guard ∧ funded ∧ no domain violation. -/
theorem c14_answered_iff (hr : FullReachable sys G) (env : Env) (c : Call) :
    callTrap env sys.st c = none ↔
      guardOf env sys.st c = none ∧ ¬ underFunded sys.st c ∧ ¬ domainViolation env sys.st c := by
  constructor
  · intro h
    refine ⟨?_, ?_, ?_⟩
    · cases hg : guardOf env sys.st c with
      | none => rfl
      | some g =>
        have := (c14_trap_iff hr env c (.refused g)).mpr (Or.inl ⟨g, hg, rfl⟩)
        rw [h] at this; cases this
    · intro hu
      cases hg : guardOf env sys.st c with
      | none =>
        have := (c14_trap_iff hr env c .cycles).mpr (Or.inr (Or.inl ⟨hg, hu, rfl⟩))
        rw [h] at this; cases this
      | some g =>
        have := (c14_trap_iff hr env c (.refused g)).mpr (Or.inl ⟨g, hg, rfl⟩)
        rw [h] at this; cases this
    · intro hd
      cases hg : guardOf env sys.st c with
      | none =>
        by_cases hu : underFunded sys.st c
        · have := (c14_trap_iff hr env c .cycles).mpr (Or.inr (Or.inl ⟨hg, hu, rfl⟩))
          rw [h] at this; cases this
        · have := (c14_trap_iff hr env c .other).mpr (Or.inr (Or.inr ⟨hg, hu, hd, rfl⟩))
          rw [h] at this; cases this
      | some g =>
        have := (c14_trap_iff hr env c (.refused g)).mpr (Or.inl ⟨g, hg, rfl⟩)
        rw [h] at this; cases this
  · rintro ⟨hg, hu, hd⟩
    cases h : callTrap env sys.st c with
    | none => rfl
    | some t =>
      exfalso
      rcases (c14_trap_iff hr env c t).mp h with ⟨g, hg', _⟩ | ⟨_, hu', _⟩ | ⟨_, _, hd', _⟩
      · rw [hg] at hg'; cases hg'
      · exact hu hu'
      · exact hd hd'

/-- what the answered update calls answer, in a reachable configuration: the answer of the query
    function, the fee of section 1, the same state -/
theorem c14_update_answers (hr : FullReachable sys G) (env : Env) (r : DataReq)
    (hg : sys.st.guard env r.reqNet true = none) :
    (¬ underFunded sys.st (.getBalance r) →
      callGetBalance env sys.st r =
        .answered (sys.st.getBalance r.addr r.minConf) sys.st.fees.getBalance sys.st) ∧
    (¬ underFunded sys.st (.getUtxos r) → FeeTableOk sys.st (.getUtxos r) →
      ∃ acc, callGetUtxos env sys.st r =
        .answered (sys.st.getUtxos r.addr (.minConf r.minConf) r.limit) acc sys.st) := by
  constructor
  · intro hu
    simp only [underFunded] at hu
    rw [callGetBalance_passed env sys.st r hg, if_neg hu]
    cases hq : sys.st.getBalance r.addr r.minConf with
    | trap m => exact absurd hq (getBalance_never_traps hr _ _ m)
    | err e => rfl
    | ok v => rfl
  · intro hu hok
    simp only [underFunded] at hu
    simp only [FeeTableOk] at hok
    rw [callGetUtxos_passed env sys.st r hg, if_neg hu]
    cases hq : sys.st.getUtxos r.addr (.minConf r.minConf) r.limit with
    | trap m => exact absurd hq (getUtxos_minConf_never_traps hr _ _ _ m)
    | err e => exact ⟨_, rfl⟩
    | ok v =>
      have hnb : ¬ sys.st.fees.getUtxosMaximum < sys.st.fees.getUtxosBase := by omega
      exact ⟨_, by simp only [if_neg hnb]; rfl⟩

/-! ## 3. C19 at step level, on the payload bytes -/

/-- `send_transaction` on the payload bytes, in closed form: refusal, too few cycles, accepted
    (the counter moves), or `MalformedTransaction` (charged, nothing else) -/
theorem c19_send_eq (env : Env) (s : State) (net : Tree.Net) (available : Nat) (bytes : List Nat) :
    callSendTransactionBytes env s net available bytes =
      match s.guard env net false with
      | some g => .trap (.refused g)
      | none =>
        if available < s.fees.sendTransactionBase + s.fees.sendTransactionPerByte * bytes.length
        then .trap .cycles
        else if (Btc.TxCodec.decodeExact bytes).isSome then
          .answered true (s.fees.sendTransactionBase + s.fees.sendTransactionPerByte * bytes.length)
            { s with sendTxCount := s.sendTxCount + 1 }
        else
          .answered false
            (s.fees.sendTransactionBase + s.fees.sendTransactionPerByte * bytes.length) s := by
  unfold callSendTransactionBytes
  cases hg : s.guard env net false with
  | some g => simp [callSendTransaction, hg]
  | none => rw [callSendTransaction_passed env s net available _ _ hg]

/-- **C19, accepted iff**: the payload is forwarded (answer `Ok`) iff the guard passes
    (API enabled, right network — no sync rule), at least `base + per_byte · length` cycles are
    attached, and the payload is exactly the consensus encoding of one (well-formed) transaction. -/
theorem c19_accepted_iff (env : Env) (s : State) (net : Tree.Net) (available : Nat)
    (bytes : List Nat) (hb : Btc.TxCodec.AllBytes bytes) :
    (∃ acc s', callSendTransactionBytes env s net available bytes = .answered true acc s') ↔
      s.guard env net false = none ∧
      s.fees.sendTransactionBase + s.fees.sendTransactionPerByte * bytes.length ≤ available ∧
      ∃ t : Btc.TxCodec.Tx, t.WF ∧ bytes = Btc.TxCodec.encodeTx t := by
  rw [c19_send_eq, ← C19.accept_iff_is_encoding bytes hb]
  cases hg : s.guard env net false with
  | some g => simp
  | none =>
    simp only [true_and]
    by_cases hu : available < s.fees.sendTransactionBase + s.fees.sendTransactionPerByte * bytes.length
    · simp only [if_pos hu]
      constructor
      · rintro ⟨_, _, h⟩; cases h
      · rintro ⟨h, _⟩; omega
    · simp only [if_neg hu]
      cases hd : (Btc.TxCodec.decodeExact bytes).isSome with
      | true =>
        simp only [if_true]
        exact ⟨fun _ => ⟨by omega, by simp⟩, fun _ => ⟨_, _, rfl⟩⟩
      | false =>
        simp only [Bool.false_eq_true, if_false, and_false, iff_false]
        rintro ⟨_, _, h⟩
        simp at h

/-- **C19, the effect of an accepted call**: `base + per_byte · length` cycles are accepted and
    the counter of (valid) `send_transaction` requests increases by exactly one; no other field of
    the state changes. -/
theorem c19_accepted_effect (env : Env) (s : State) (net : Tree.Net) (available : Nat)
    (bytes : List Nat) (acc : Nat) (s' : State)
    (h : callSendTransactionBytes env s net available bytes = .answered true acc s') :
    acc = s.fees.sendTransactionBase + s.fees.sendTransactionPerByte * bytes.length ∧
    s' = { s with sendTxCount := s.sendTxCount + 1 } ∧ s'.sendTxCount = s.sendTxCount + 1 := by
  rw [c19_send_eq] at h
  cases hg : s.guard env net false with
  | some g => rw [hg] at h; cases h
  | none =>
    rw [hg] at h
    simp only at h
    by_cases hu : available < s.fees.sendTransactionBase + s.fees.sendTransactionPerByte * bytes.length
    · rw [if_pos hu] at h; cases h
    · rw [if_neg hu] at h
      cases hd : (Btc.TxCodec.decodeExact bytes).isSome with
      | true =>
        simp only [hd, if_true, CallResult.answered.injEq, true_and] at h
        obtain ⟨rfl, rfl⟩ := h
        exact ⟨rfl, rfl, rfl⟩
      | false =>
        simp only [hd, Bool.false_eq_true, if_false, CallResult.answered.injEq] at h
        simp at h

/-- **C19, `MalformedTransaction` iff**: the guard passes, enough cycles are attached, and the
    payload is *not* the encoding of a transaction -/
theorem c19_malformed_iff (env : Env) (s : State) (net : Tree.Net) (available : Nat)
    (bytes : List Nat) (hb : Btc.TxCodec.AllBytes bytes) :
    (∃ acc s', callSendTransactionBytes env s net available bytes = .answered false acc s') ↔
      s.guard env net false = none ∧
      s.fees.sendTransactionBase + s.fees.sendTransactionPerByte * bytes.length ≤ available ∧
      ¬ ∃ t : Btc.TxCodec.Tx, t.WF ∧ bytes = Btc.TxCodec.encodeTx t := by
  rw [c19_send_eq, ← C19.accept_iff_is_encoding bytes hb]
  cases hg : s.guard env net false with
  | some g => simp
  | none =>
    simp only [true_and]
    by_cases hu : available < s.fees.sendTransactionBase + s.fees.sendTransactionPerByte * bytes.length
    · simp only [if_pos hu]
      constructor
      · rintro ⟨_, _, h⟩; cases h
      · rintro ⟨h, _⟩; omega
    · simp only [if_neg hu]
      cases hd : (Btc.TxCodec.decodeExact bytes).isSome with
      | true =>
        simp only [if_true, not_true_eq_false, and_false, iff_false]
        rintro ⟨_, _, h⟩
        simp at h
      | false =>
        simp only [Bool.false_eq_true, if_false, not_false_eq_true, and_true]
        exact ⟨fun _ => by omega, fun _ => ⟨_, _, rfl⟩⟩

/-- **C19, the effect of `MalformedTransaction`**: the state is unchanged (the counter does not
    move, nothing is forwarded) but `base + per_byte · length` cycles *are* accepted — in
    `send_transaction.rs` `charge_cycles` precedes the decoding, and the error is a reply, not a
    trap, so the acceptance is not rolled back. -/
theorem c19_malformed_effect (env : Env) (s : State) (net : Tree.Net) (available : Nat)
    (bytes : List Nat) (acc : Nat) (s' : State)
    (h : callSendTransactionBytes env s net available bytes = .answered false acc s') :
    acc = s.fees.sendTransactionBase + s.fees.sendTransactionPerByte * bytes.length ∧ s' = s := by
  rw [c19_send_eq] at h
  cases hg : s.guard env net false with
  | some g => rw [hg] at h; cases h
  | none =>
    rw [hg] at h
    simp only at h
    by_cases hu : available < s.fees.sendTransactionBase + s.fees.sendTransactionPerByte * bytes.length
    · rw [if_pos hu] at h; cases h
    · rw [if_neg hu] at h
      cases hd : (Btc.TxCodec.decodeExact bytes).isSome with
      | true =>
        simp only [hd, if_true, CallResult.answered.injEq] at h
        simp at h
      | false =>
        simp only [hd, Bool.false_eq_true, if_false, CallResult.answered.injEq, true_and] at h
        obtain ⟨rfl, rfl⟩ := h
        exact ⟨rfl, rfl⟩

/-- **C19, the traps**: refused by the guard (API disabled or wrong network, never "not synced"),
    or fewer cycles than `base + per_byte · length`; nothing else -/
theorem c19_trap_iff (env : Env) (s : State) (net : Tree.Net) (available : Nat) (bytes : List Nat)
    (t : CallTrap) :
    callSendTransactionBytes env s net available bytes = .trap t ↔
      (∃ g, s.guard env net false = some g ∧ t = .refused g ∧ (g = .apiDisabled ∨ g = .wrongNetwork)) ∨
      (s.guard env net false = none ∧
        available < s.fees.sendTransactionBase + s.fees.sendTransactionPerByte * bytes.length ∧
        t = .cycles) := by
  rw [c19_send_eq]
  cases hg : s.guard env net false with
  | some g =>
    have hgk : g = .apiDisabled ∨ g = .wrongNetwork := by
      have h := C14.guard_refusal env s net false
      rw [hg] at h
      split at h
      · exact Or.inl (Option.some.inj h)
      · split at h
        · exact Or.inr (Option.some.inj h)
        · simp at h
    simp only [CallResult.trap.injEq, reduceCtorEq, false_and, or_false, Option.some.injEq]
    constructor
    · intro h; exact ⟨g, rfl, h.symm, hgk⟩
    · rintro ⟨g', rfl, rfl, _⟩; rfl
  | none =>
    simp only [reduceCtorEq, false_and, exists_false, false_or, true_and]
    by_cases hu : available < s.fees.sendTransactionBase + s.fees.sendTransactionPerByte * bytes.length
    · simp only [if_pos hu, CallResult.trap.injEq]
      constructor
      · intro h; exact ⟨hu, h.symm⟩
      · rintro ⟨_, rfl⟩; rfl
    · simp only [if_neg hu]
      constructor
      · intro h
        split at h <;> cases h
      · rintro ⟨h, _⟩; exact absurd h hu

/-- **C19 at message level**: the configuration after a `send_transaction` message.  Accepted: the
    counter moves, everything else — stable set, unstable blocks, header store, syncing state,
    outstanding request, ghost — is the same; `MalformedTransaction` or a trap: the whole
    configuration is unchanged.  (What is *not* in the model: the forwarded request itself.  The
    state has no outbox; that the payload and network handed to `call_send_transaction_internal`
    are those of the request is compared by the harness, column `forwarded=`.) -/
theorem c19_message (env : Env) (sys : Fetch.Sys) (G : List Block) (net : Tree.Net)
    (available : Nat) (bytes : List Nat) :
    (∀ acc s', callSendTransactionBytes env sys.st net available bytes = .answered true acc s' →
      stepMsg env (sys, G) (.call (sendCall net available bytes)) =
        ({ sys with st := { sys.st with sendTxCount := sys.st.sendTxCount + 1 } }, G) ∧
      callAccepted env sys.st (sendCall net available bytes) =
        sys.st.fees.sendTransactionBase + sys.st.fees.sendTransactionPerByte * bytes.length) ∧
    (∀ acc s', callSendTransactionBytes env sys.st net available bytes = .answered false acc s' →
      stepMsg env (sys, G) (.call (sendCall net available bytes)) = (sys, G) ∧
      callAccepted env sys.st (sendCall net available bytes) =
        sys.st.fees.sendTransactionBase + sys.st.fees.sendTransactionPerByte * bytes.length) ∧
    (∀ t, callSendTransactionBytes env sys.st net available bytes = .trap t →
      stepMsg env (sys, G) (.call (sendCall net available bytes)) = (sys, G) ∧
      callAccepted env sys.st (sendCall net available bytes) = 0) := by
  refine ⟨?_, ?_, ?_⟩
  · intro acc s' h
    obtain ⟨h1, h2, _⟩ := c19_accepted_effect env sys.st net available bytes acc s' h
    unfold callSendTransactionBytes at h
    constructor
    · simp only [stepMsg, stepSys, stepGhost, callState, sendCall, h, stateAfter, h2]
    · simp only [callAccepted, sendCall, h, acceptedOf, h1]
  · intro acc s' h
    obtain ⟨h1, h2⟩ := c19_malformed_effect env sys.st net available bytes acc s' h
    unfold callSendTransactionBytes at h
    constructor
    · simp only [stepMsg, stepSys, stepGhost, callState, sendCall, h, stateAfter, h2]
    · simp only [callAccepted, sendCall, h, acceptedOf, h1]
  · intro t h
    unfold callSendTransactionBytes at h
    apply c14_trapping_call_no_effect env sys G _ t
    simp only [callTrap, sendCall, h, trapOf]

/-! ## 4. C07: `get_block_headers` never traps, and returns linked 80-byte headers -/

/-- **C07 trap-freedom** (every reachable configuration, paused or not).  Where the Rust code does
    `.get(..).unwrap()` on the header store and slices the unstable chain, the model function
    `State.getBlockHeaders` is total (`filterMap`, `drop`/`take`).  `getBlockHeadersT` makes the
    two panics explicit; it never traps and is the model function.  The stricter
    `getBlockHeadersStrict` (a stable height of the range with no entry in the height index is a
    trap too — the Rust iterator would silently skip it) never traps either. -/
theorem c07_getBlockHeaders_never_traps (hr : FullReachable sys G) (maxHeaders start : Nat)
    (end_ : Option Nat) (hm : 1 ≤ maxHeaders) :
    getBlockHeadersT sys.st maxHeaders start end_ =
      .ok (sys.st.getBlockHeaders maxHeaders start end_) ∧
    getBlockHeadersStrict sys.st maxHeaders start end_ =
      .ok (sys.st.getBlockHeaders maxHeaders start end_) :=
  inv2_getBlockHeadersT (Lemmas.FullSys.fullReachable_inv2 hr) maxHeaders start end_ hm

/-- the same for the endpoint as deployed (`MAX_BLOCK_HEADERS_PER_RESPONSE = 100`) -/
theorem c07_endpoint_never_traps (hr : FullReachable sys G) (env : Env)
    (he : env.maxHeaders = Btc.Gen.maxBlockHeadersPerResponse) (r : DataReq) :
    getBlockHeadersT sys.st env.maxHeaders r.start none =
      .ok (sys.st.getBlockHeaders env.maxHeaders r.start none) :=
  (c07_getBlockHeaders_never_traps hr env.maxHeaders r.start none (by rw [he]; decide)).1

/-- in *any* state, an answer of the partial version is the answer of the model function: the
    model function differs from the Rust code only where the Rust code panics -/
theorem c07_partial_refines (s : State) (maxHeaders start : Nat) (end_ : Option Nat)
    (a : Except HeadersError (Nat × List String))
    (h : getBlockHeadersT s maxHeaders start end_ = .ok a) :
    a = s.getBlockHeaders maxHeaders start end_ :=
  getBlockHeadersT_refines s maxHeaders start end_ a h

/-- `C07.answer_linked` for every reachable configuration -/
theorem c07_answer_linked (hr : FullReachable sys G) (maxHeaders start : Nat) (end_ : Option Nat)
    (lo hi : Nat) (hm : 1 ≤ maxHeaders)
    (hrange : effectiveRange sys.st.mainChainHeight maxHeaders start end_ = .ok (lo, hi)) :
    ∃ bs : List Block, bs = ((C07.bestBlocks sys.st G).drop lo).take (hi - lo + 1) ∧
      LinkedChain bs ∧ bs.length = hi - lo + 1 ∧
      sys.st.getBlockHeaders maxHeaders start end_ = .ok (hi, bs.map (·.header)) := by
  obtain ⟨s0, hA, hV, _⟩ := FullSys.fullReachable_view hr
  rw [ReachAll.mainChainHeight_congr hV] at hrange
  rw [ReachAll.bestBlocks_congr hV.unstable, hV.getBlockHeaders]
  obtain ⟨bs, e, hl, hres⟩ := C07.answer_linked hA.invU.inv hA.headers.heights maxHeaders start end_
    lo hi hm hrange
  obtain ⟨hs, hres', hlen, _, _⟩ := C07.one_header_per_height hA.invU.inv hA.headers.heights
    maxHeaders start end_ lo hi hm hrange
  refine ⟨bs, e, hl, ?_, hres⟩
  rw [hres] at hres'
  simp only [Except.ok.injEq, Prod.mk.injEq, true_and] at hres'
  rw [← hlen, ← hres', List.length_map]

open Btc.BlockCodec Btc.TxCodec in
open Btc.Merkle (ofBeBytes) in
/-- **C07 on bytes.**  In a reachable configuration all of whose blocks (ghost and tree) come from
    consensus bytes (`FromBytes`: they are `BlockCodec.toModelBlock` of a raw block with a
    well-formed header — an invariant when the genesis block and every block the decoders produce
    are such blocks: `fullReachableP_sat`), a passing `get_block_headers` request is answered with
    the hex texts of `hi - lo + 1` byte strings `raws` such that
    * each is 80 bytes long;
    * the `i`-th is the serialised header of the best-chain block at height `lo + i`: that block's
      hash is its double SHA-256 (`headerHash`);
    * the `prev_blockhash` field (bytes 4..36) of each is the double SHA-256 of the one before. -/
theorem c07_headers_from_bytes (hr : FullReachable sys G) (hfb : BlocksSat FromBytes sys.st G)
    (maxHeaders start : Nat) (end_ : Option Nat) (lo hi : Nat) (hm : 1 ≤ maxHeaders)
    (hrange : effectiveRange sys.st.mainChainHeight maxHeaders start end_ = .ok (lo, hi)) :
    ∃ raws : List (List Nat),
      sys.st.getBlockHeaders maxHeaders start end_ = .ok (hi, raws.map hexOfBytes) ∧
      raws.length = hi - lo + 1 ∧
      (∀ r ∈ raws, r.length = 80 ∧ AllBytes r) ∧
      (∀ i (h : i < raws.length), ∃ b, (C07.bestBlocks sys.st G)[lo + i]? = some b ∧
        b.hash = headerHash raws[i] ∧ b.header = hexOfBytes raws[i]) ∧
      (∀ i (h : i + 1 < raws.length),
        ofBeBytes ((raws[i + 1].drop 4).take 32) = headerHash raws[i]) := by
  obtain ⟨bs, hbs, hl, hlen, hres⟩ := c07_answer_linked hr maxHeaders start end_ lo hi hm hrange
  have hmem : ∀ b ∈ bs, FromBytes b := by
    intro b hb
    rw [hbs] at hb
    exact hfb.bestBlocks b (List.mem_of_mem_drop (List.mem_of_mem_take hb))
  have hspec : ∀ i (h : i < bs.length), HeaderOf bs[i] (headerBytes bs[i]) :=
    fun i h => headerBytes_spec (hmem _ (List.getElem_mem h))
  refine ⟨bs.map headerBytes, ?_, by rw [List.length_map, hlen], ?_, ?_, ?_⟩
  · rw [hres, List.map_map]
    congr 2
    apply List.map_congr_left
    intro b hb
    exact (headerBytes_spec (hmem b hb)).text
  · intro r hr'
    obtain ⟨b, hb, rfl⟩ := List.mem_map.mp hr'
    exact ⟨(headerBytes_spec (hmem b hb)).length, (headerBytes_spec (hmem b hb)).bytes⟩
  · intro i h
    rw [List.length_map] at h
    refine ⟨bs[i], ?_, ?_, ?_⟩
    · have h1 : bs[i]? = some bs[i] := List.getElem?_eq_getElem h
      have h2 : bs[i]? = (C07.bestBlocks sys.st G)[lo + i]? := by
        rw [hbs, List.getElem?_take_of_lt (by omega), List.getElem?_drop]
      rw [← h2]; exact h1
    · rw [List.getElem_map]; exact (hspec i h).hash
    · rw [List.getElem_map]; exact (hspec i h).text
  · intro i h
    rw [List.length_map] at h
    rw [List.getElem_map, List.getElem_map, ← (hspec (i + 1) h).prev, ← (hspec i (by omega)).hash]
    exact hl.getElem i h

/-! ## 5. C05: the query variants return the answers of the update variants -/

/-- **C05, `get_balance` vs `get_balance_query`** (any state): whenever the update call is
    answered, the query call is answered with the same typed answer (and accepts nothing); and
    whenever the query call is answered and the update call is funded, the update call is
    answered with the same typed answer.  In particular, whenever both answer, they answer the
    same. -/
theorem c05_balance_query_eq_update (env : Env) (s : State) (r : DataReq) :
    (∀ a acc s', callGetBalance env s r = .answered a acc s' →
      callGetBalanceQuery env s r = .answered a 0 s) ∧
    (∀ a acc s', callGetBalanceQuery env s r = .answered a acc s' →
      ¬ underFunded s (.getBalance r) →
      callGetBalance env s r = .answered a s.fees.getBalance s) ∧
    (∀ a acc s1 a' acc' s2, callGetBalance env s r = .answered a acc s1 →
      callGetBalanceQuery env s r = .answered a' acc' s2 → a = a' ∧ s1 = s ∧ s2 = s ∧ acc' = 0) := by
  refine ⟨?_, ?_, ?_⟩
  · intro a acc s' h
    obtain ⟨hg, _, _, _, _, hq, hk, _⟩ := c16_getBalance env s r a acc s' h
    rw [callGetBalanceQuery_passed env s r hg, hq]
    rcases hk with ⟨v, rfl⟩ | ⟨e, rfl⟩ <;> rfl
  · intro a acc s' h hu
    simp only [underFunded] at hu
    have hg : s.guard env r.reqNet true = none := by
      cases hg : s.guard env r.reqNet true with
      | none => rfl
      | some g => rw [(call_refused env s r g hg).2.2.2.1] at h; cases h
    obtain ⟨_, _, hq⟩ := (c16_queries env s r).2 a acc s' h
    rw [callGetBalance_passed env s r hg, if_neg hu, hq]
    rw [callGetBalanceQuery_passed env s r hg, hq] at h
    cases a with
    | trap m => simp at h
    | err e => rfl
    | ok v => rfl
  · intro a acc s1 a' acc' s2 h h'
    obtain ⟨_, _, _, _, hs1, hq, _⟩ := c16_getBalance env s r a acc s1 h
    obtain ⟨hacc, hs2, hq'⟩ := (c16_queries env s r).2 a' acc' s2 h'
    exact ⟨hq.symm.trans hq', hs1, hs2, hacc⟩

/-- **C05, `get_utxos` vs `get_utxos_query`** (any state) -/
theorem c05_utxos_query_eq_update (env : Env) (s : State) (r : DataReq) :
    (∀ a acc s', callGetUtxos env s r = .answered a acc s' →
      callGetUtxosQuery env s r = .answered a 0 s) ∧
    (∀ a acc s', callGetUtxosQuery env s r = .answered a acc s' →
      ¬ underFunded s (.getUtxos r) → FeeTableOk s (.getUtxos r) →
      ∃ fee, callGetUtxos env s r = .answered a fee s) ∧
    (∀ a acc s1 a' acc' s2, callGetUtxos env s r = .answered a acc s1 →
      callGetUtxosQuery env s r = .answered a' acc' s2 → a = a' ∧ s1 = s ∧ s2 = s ∧ acc' = 0) := by
  refine ⟨?_, ?_, ?_⟩
  · intro a acc s' h
    obtain ⟨hg, _, _, _, hq, hk⟩ := c16_getUtxos_answered env s r a acc s' h
    rw [callGetUtxosQuery_passed env s r hg, hq]
    rcases hk with ⟨v, rfl, _⟩ | ⟨e, rfl, _⟩ <;> rfl
  · intro a acc s' h hu hok
    simp only [underFunded] at hu
    simp only [FeeTableOk] at hok
    have hg : s.guard env r.reqNet true = none := by
      cases hg : s.guard env r.reqNet true with
      | none => rfl
      | some g => rw [(call_refused env s r g hg).2.1] at h; cases h
    obtain ⟨_, _, hq⟩ := (c16_queries env s r).1 a acc s' h
    rw [callGetUtxos_passed env s r hg, if_neg hu, hq]
    rw [callGetUtxosQuery_passed env s r hg, hq] at h
    cases a with
    | trap m => simp at h
    | err e => exact ⟨_, rfl⟩
    | ok v =>
      have hnb : ¬ s.fees.getUtxosMaximum < s.fees.getUtxosBase := by omega
      exact ⟨_, by simp only [if_neg hnb]; rfl⟩
  · intro a acc s1 a' acc' s2 h h'
    obtain ⟨_, _, _, hs1, hq, _⟩ := c16_getUtxos_answered env s r a acc s1 h
    obtain ⟨hacc, hs2, hq'⟩ := (c16_queries env s r).1 a' acc' s2 h'
    exact ⟨hq.symm.trans hq', hs1, hs2, hacc⟩

/-- **C05 in reachable configurations**: a request that passes the guard is answered by both
    query variants, and — if funded (and `base ≤ maximum` for `get_utxos`) — by both update
    variants, with the same typed answers `get_balance(addr, c)` / `get_utxos(addr, c)`, which
    are related by `FullSys.c05_balance_eq_sum_of_utxos`. -/
theorem c05_both_answer_the_same (hr : FullReachable sys G) (env : Env) (r : DataReq)
    (hg : sys.st.guard env r.reqNet true = none)
    (hub : ¬ underFunded sys.st (.getBalance r)) (huu : ¬ underFunded sys.st (.getUtxos r))
    (hok : FeeTableOk sys.st (.getUtxos r)) :
    callGetBalanceQuery env sys.st r =
      .answered (sys.st.getBalance r.addr r.minConf) 0 sys.st ∧
    callGetBalance env sys.st r =
      .answered (sys.st.getBalance r.addr r.minConf) sys.st.fees.getBalance sys.st ∧
    callGetUtxosQuery env sys.st r =
      .answered (sys.st.getUtxos r.addr (.minConf r.minConf) r.limit) 0 sys.st ∧
    ∃ fee, callGetUtxos env sys.st r =
      .answered (sys.st.getUtxos r.addr (.minConf r.minConf) r.limit) fee sys.st := by
  obtain ⟨q1, q2⟩ := c14_passing_queries_answer hr env r hg
  obtain ⟨u1, u2⟩ := c14_update_answers hr env r hg
  exact ⟨q2, u1 hub, q1, u2 huu hok⟩

/-! ## Non-vacuity: the theorems on concrete configurations

`c0` is the initial configuration of `Props/FullSysExample.lean` (regtest, genesis `gen` paying 50
to address `[1]`, nothing stable yet); `cF` is `c0` after a `set_config` message installing the fee
table `exFees`, `cD` is `c0` after the API was disabled.  `cE` / `cP` are the final / the paused
configuration of the schedule of that file (`cE`: ghost `[gen]`, tree `[b2]`). -/
namespace Example
open Btc.Props.FullSys.Example

def exFees : Fees :=
  { getUtxosBase := 5, getUtxosCyclesPerTenInstructions := 3, getUtxosMaximum := 20,
    getBalance := 7, getBalanceMaximum := 10,
    getCurrentFeePercentiles := 4, getCurrentFeePercentilesMaximum := 10,
    sendTransactionBase := 13, sendTransactionPerByte := 27,
    getBlockHeadersBase := 6, getBlockHeadersCyclesPerTenInstructions := 2,
    getBlockHeadersMaximum := 9 }

def cF : Cfg := stepMsg (env 300) (c0.1, c0.2) (.setConfig { fees := some exFees })
def cD : Cfg := stepMsg (env 300) (c0.1, c0.2) (.setConfig { apiAccess := some false })

theorem reachF : FullReachable cF.1 cF.2 :=
  FullReachable.step c0.1 c0.2 (env 300) (.setConfig { fees := some exFees }) reach0 trivial
theorem reachD : FullReachable cD.1 cD.2 :=
  FullReachable.step c0.1 c0.2 (env 300) (.setConfig { apiAccess := some false }) reach0 trivial

/-- a funded `get_utxos` request for address `[1]`, 47 instructions counted -/
def rU : DataReq := { reqNet := .regtest, available := 100, instructions := 47, addr := .ok [1] }
/-- a malformed address -/
def rBad : DataReq := { rU with addr := .malformed }
/-- one cycle short of the `get_utxos` maximum -/
def rPoor : DataReq := { rU with available := 19 }
/-- a start height beyond the tip -/
def rHigh : DataReq := { rU with start := 7 }

def okVal {α : Type} : CallResult (QResult α) → Option α
  | .answered (.ok v) _ _ => some v
  | _ => none

theorem cF_guard : cF.1.st.guard (env 301) .regtest true = none ∧
    cF.1.st.guard (env 301) .regtest false = none ∧ cF.1.st.fees = exFees := by
  decide +kernel

/-! ### 1. C16 -/

/-- the amounts accepted in `cF`: `get_utxos` error `5`, under-funded `0`; headers
    `6 + min(4·2, 3) = 9`, header error `6`; balance `7` (success and error); percentiles `4`;
    query `0`; `send_transaction` `13 + 27·3` -/
example :
    callAccepted (env 301) cF.1.st (.getUtxos rBad) = 5 ∧
    callAccepted (env 301) cF.1.st (.getUtxos rPoor) = 0 ∧
    callAccepted (env 301) cF.1.st (.getBlockHeaders rU) = 9 ∧
    callAccepted (env 301) cF.1.st (.getBlockHeaders rHigh) = 6 ∧
    callAccepted (env 301) cF.1.st (.getBalance rU) = 7 ∧
    callAccepted (env 301) cF.1.st (.getBalance rBad) = 7 ∧
    callAccepted (env 301) cF.1.st (.feePercentiles rU) = 4 ∧
    callAccepted (env 301) cF.1.st (.getBalanceQuery rU) = 0 ∧
    callAccepted (env 301) cF.1.st (.sendTransaction .regtest 100 3 false) = 94 := by
  decide +kernel

/-- the hypothesis of `c16_getUtxos_ok` is satisfiable, and the theorem pins the amount down:
    `5 + min(4·3, 15) = 17`.  (The `ok` answer is obtained from `FullSys.c05_balance_eq_sum_of_utxos`.) -/
theorem ex_getUtxos_ok : ∃ v acc s', callGetUtxos (env 301) cF.1.st rU = .answered (.ok v) acc s' ∧
    acc = 5 + min (47 / 10 * 3) (20 - 5) ∧ acc ≤ 20 ∧ s' = cF.1.st := by
  obtain ⟨hg, _, hf⟩ := cF_guard
  obtain ⟨l, r, h1, _⟩ := FullSys.c05_balance_eq_sum_of_utxos reachF [1] 0 1000 (Nat.zero_le _)
  obtain ⟨fee, hcall⟩ := (c05_both_answer_the_same reachF (env 301) rU hg
    (by simp only [underFunded, hf]; decide) (by simp only [underFunded, hf]; decide)
    (by simp only [FeeTableOk, hf]; decide)).2.2.2
  rw [show cF.1.st.getUtxos rU.addr (.minConf rU.minConf) rU.limit = .ok r from h1] at hcall
  obtain ⟨_, h2, h3, _, h5⟩ := c16_getUtxos_ok _ _ _ _ _ _ hcall
  rw [hf] at h2 h3
  exact ⟨r, fee, _, hcall, h2, h3, h5⟩

/-- `c16_below_maximum_refused` applies: 19 < 20 -/
example : callTrap (env 301) cF.1.st (.getUtxos rPoor) = some .cycles ∧
    stepMsg (env 301) (cF.1, cF.2) (.call (.getUtxos rPoor)) = (cF.1, cF.2) :=
  have h := c16_below_maximum_refused (env 301) cF.1 cF.2 (.getUtxos rPoor) 20 cF_guard.1
    (by simp only [maximumOf, cF_guard.2.2]; rfl) (by decide)
  ⟨h.1, h.2.1⟩

/-- **what the property text over-claims**: with a fee table in which the flat fee (or the base
    fee) exceeds the maximum, more than the maximum is accepted — exactly as the Rust code does
    (`verify_has_enough_cycles(maximum); charge_cycles(fee)` never compares the two) — while the
    same table makes a `get_utxos` request that would succeed trap (`c16_maximum_lt_base`). -/
theorem fee_can_exceed_maximum :
    let s : State := { c0.1.st with fees :=
      { getBalance := 30, getBalanceMaximum := 20, getUtxosBase := 30, getUtxosMaximum := 20 } }
    maximumOf s (.getBalance rU) = some 20 ∧ callAccepted (env 301) s (.getBalance rU) = 30 ∧
    maximumOf s (.getUtxos rBad) = some 20 ∧ callAccepted (env 301) s (.getUtxos rBad) = 30 := by
  decide +kernel

/-! ### 2. C14 -/

/-- `c14_all_other_cases_answer` applies to all seven endpoints in `cF` -/
example :
    callTrap (env 301) cF.1.st (.getUtxos rU) = none ∧
    callTrap (env 301) cF.1.st (.getUtxosQuery rU) = none ∧
    callTrap (env 301) cF.1.st (.getBalance rBad) = none ∧
    callTrap (env 301) cF.1.st (.getBalanceQuery rU) = none ∧
    callTrap (env 301) cF.1.st (.getBlockHeaders rHigh) = none ∧
    callTrap (env 301) cF.1.st (.feePercentiles rU) = none ∧
    callTrap (env 301) cF.1.st (.sendTransaction .regtest 100 3 false) = none := by
  obtain ⟨hg, hg', hf⟩ := cF_guard
  refine ⟨?_, ?_, ?_, ?_, ?_, ?_, ?_⟩
  · exact c14_all_other_cases_answer reachF (env 301) _ hg
      (by simp only [underFunded, hf]; decide) (by simp only [FeeTableOk, hf]; decide)
  · exact c14_all_other_cases_answer reachF (env 301) _ hg (fun h => h) trivial
  · exact c14_all_other_cases_answer reachF (env 301) _ hg
      (by simp only [underFunded, hf]; decide) (by simp only [FeeTableOk, hf]; decide)
  · exact c14_all_other_cases_answer reachF (env 301) _ hg (fun h => h) trivial
  · exact c14_all_other_cases_answer reachF (env 301) _ hg
      (by simp only [underFunded, hf]; decide) (by simp only [FeeTableOk, hf]; decide)
  · exact c14_all_other_cases_answer reachF (env 301) _ hg
      (by simp only [underFunded, hf]; decide) (by simp only [FeeTableOk, hf]; decide)
  · exact c14_all_other_cases_answer reachF (env 301) _ hg'
      (by simp only [underFunded, hf]; decide) trivial

/-- the kinds of trap occur — refusal (API disabled in `cD`, wrong network in `cF`), too few
    cycles — and `c14_trap_iff` characterises them -/
theorem ex_traps :
    callTrap (env 301) cD.1.st (.getBalance rU) = some (.refused .apiDisabled) ∧
    callTrap (env 301) cF.1.st (.getBalance { rU with reqNet := .mainnet }) =
      some (.refused .wrongNetwork) ∧
    callTrap (env 301) cF.1.st (.getBalance { rU with available := 9 }) = some .cycles := by
  decide +kernel

example : TrapReason (env 301) cD.1.st (.getBalance rU) (.refused .apiDisabled) :=
  (c14_trap_iff reachD (env 301) _ _).mp ex_traps.1

/-! ### 3. C19 -/

/-- a real payload (the legacy transaction of `Props/C19.lean`, 65 bytes) is accepted in `cF`:
    `13 + 27 · 65` cycles, the counter moves from 0 to 1; `[1, 2, 3]` is `MalformedTransaction`:
    `13 + 27 · 3` cycles are kept, the counter does not move; on the wrong network or with too
    few cycles the call traps -/
example :
    callAccepted (env 301) cF.1.st (sendCall .regtest 10000 C19.legacyBytes) = 13 + 27 * 65 ∧
    cF.1.st.sendTxCount = 0 ∧
    (stepMsg (env 301) cF (.call (sendCall .regtest 10000 C19.legacyBytes))).1.st.sendTxCount = 1 ∧
    callAccepted (env 301) cF.1.st (sendCall .regtest 10000 [1, 2, 3]) = 13 + 27 * 3 ∧
    (stepMsg (env 301) cF (.call (sendCall .regtest 10000 [1, 2, 3]))).1.st.sendTxCount = 0 ∧
    callTrap (env 301) cF.1.st (sendCall .mainnet 10000 C19.legacyBytes) =
      some (.refused .wrongNetwork) ∧
    callTrap (env 301) cF.1.st (sendCall .regtest 1767 C19.legacyBytes) = some .cycles ∧
    callTrap (env 301) cF.1.st (sendCall .regtest 1768 C19.legacyBytes) = none := by
  decide +kernel

/-- `c19_accepted_iff` from right to left on that payload -/
example : ∃ acc s', callSendTransactionBytes (env 301) cF.1.st .regtest 10000 C19.legacyBytes =
    .answered true acc s' :=
  (c19_accepted_iff (env 301) cF.1.st .regtest 10000 C19.legacyBytes (by decide)).mpr
    ⟨cF_guard.2.1, by rw [cF_guard.2.2]; decide, C19.txLegacy, by decide, by decide⟩

/-- `c19_malformed_iff` from right to left on `[1, 2, 3]` -/
example : ∃ acc s', callSendTransactionBytes (env 301) cF.1.st .regtest 10000 [1, 2, 3] =
    .answered false acc s' :=
  (c19_malformed_iff (env 301) cF.1.st .regtest 10000 [1, 2, 3] (by decide)).mpr
    ⟨cF_guard.2.1, by rw [cF_guard.2.2]; decide,
      (C19.reject_iff_not_encoding [1, 2, 3] (by decide)).mp (by decide)⟩

/-! ### 4. C07 -/

def hdrObs : Except HeadersTrap (Except HeadersError (Nat × List String)) →
    Option (Nat × List String)
  | .ok (.ok v) => some v
  | _ => none

def hdrTrap : Except HeadersTrap (Except HeadersError (Nat × List String)) → Option HeadersTrap
  | .error t => some t
  | _ => none

/-- in `cE` (stable height 1) a request for heights 0..1 takes `"g"` from the header store and
    `"h2"` from the unstable chain; neither panic occurs.  The panics are real in states that
    violate the invariant: with the blob of `gen` removed from the header store the Rust code
    panics in `.unwrap()` where the total model function silently returns one header less; with
    the height entry removed the Rust iterator skips the height and the strict variant traps. -/
example :
    let s1 : State := { cE.1.st with headers := { cE.1.st.headers with byHash := [] } }
    let s2 : State := { cE.1.st with headers := { cE.1.st.headers with byHeight := [] } }
    hdrObs (getBlockHeadersT cE.1.st 100 0 none) = some (1, ["g", "h2"]) ∧
    hdrObs (getBlockHeadersStrict cE.1.st 100 0 none) = some (1, ["g", "h2"]) ∧
    hdrTrap (getBlockHeadersT s1 100 0 none) = some .missingBlob ∧
    hdrObs (.ok (s1.getBlockHeaders 100 0 none)) = some (1, ["h2"]) ∧
    hdrObs (getBlockHeadersT s2 100 0 none) = some (1, ["h2"]) ∧
    hdrTrap (getBlockHeadersStrict s2 100 0 none) = some .missingBlob := by
  decide +kernel

/-- the theorem applies to the paused configuration `cP` -/
example : getBlockHeadersT cP.1.st 100 0 none = .ok (cP.1.st.getBlockHeaders 100 0 none) :=
  (c07_getBlockHeaders_never_traps reachP 100 0 none (by decide)).1

section Bytes
open Btc.BlockCodec Btc.TxCodec

/-- a genesis block obtained from bytes: the header and the (segwit) coinbase of
    `Props/BlockCodec.lean` -/
def rawG : RawBlock := ⟨Btc.Props.BlockCodec.hdrEx, [Btc.Props.BlockCodec.cbEx]⟩
def genB : Block := toModelBlock .regtest (fun _ => 1) rawG

theorem genB_fromBytes : FromBytes genB := ⟨.regtest, fun _ => 1, rawG, by decide, rfl⟩

def sB : State := (State.new 1 .regtest genB).getD dummy

theorem new_sB : State.new 1 .regtest genB = some sB :=
  some_of_isSome dummy (by decide +kernel)

/-- `State::new` on that block is a configuration of `FullReachableP FromBytes`; so is every
    configuration reached from it with decoders that produce `FromBytes` blocks
    (`fromBytes_of_blockOfBytesPrefix`) -/
theorem reachB : FullReachableP FromBytes { st := sB, pending := none } [] :=
  FullReachableP.init 1 .regtest genB sB (by decide +kernel) new_sB genB_fromBytes

/-- `c07_headers_from_bytes` applies: the answer to `get_block_headers(0)` is the hex text of one
    80-byte string whose double SHA-256 is the hash of the genesis block -/
example : ∃ raws : List (List Nat),
    sB.getBlockHeaders 100 0 none = .ok (0, raws.map hexOfBytes) ∧ raws.length = 1 ∧
    (∀ r ∈ raws, r.length = 80 ∧ AllBytes r) ∧
    (∀ i (h : i < raws.length), ∃ b, (C07.bestBlocks sB [])[0 + i]? = some b ∧
      b.hash = headerHash raws[i] ∧ b.header = hexOfBytes raws[i]) := by
  obtain ⟨hr, hsat⟩ := fullReachableP_sat reachB
  have htip : sB.mainChainHeight = 0 := by decide +kernel
  have hrange : effectiveRange sB.mainChainHeight 100 0 none = .ok (0, 0) :=
    (C07.range_spec _ 100 0 none 0 0).mpr
      ⟨Nat.zero_le _, fun e he => (nomatch he), rfl, (by rw [htip]; rfl)⟩
  obtain ⟨raws, h1, h2, h3, h4, _⟩ :=
    c07_headers_from_bytes (sys := { st := sB, pending := none }) hr hsat 100 0 none 0 0
      (by decide) hrange
  exact ⟨raws, h1, h2, h3, h4⟩

end Bytes

/-! ### 5. C05 -/

/-- update and query variants return the same balance in `cF` -/
example :
    okVal (callGetBalance (env 301) cF.1.st rU) = some 50 ∧
    okVal (callGetBalanceQuery (env 301) cF.1.st rU) = some 50 := by
  decide +kernel

/-- … and the same `get_utxos` answer (`c05_both_answer_the_same`) -/
example : (∃ fee, callGetUtxos (env 301) cF.1.st rU =
      .answered (cF.1.st.getUtxos (.ok [1]) (.minConf 0) 1000) fee cF.1.st) ∧
    callGetUtxosQuery (env 301) cF.1.st rU =
      .answered (cF.1.st.getUtxos (.ok [1]) (.minConf 0) 1000) 0 cF.1.st := by
  obtain ⟨hg, _, hf⟩ := cF_guard
  have h := c05_both_answer_the_same reachF (env 301) rU hg
    (by simp only [underFunded, hf]; decide) (by simp only [underFunded, hf]; decide)
    (by simp only [FeeTableOk, hf]; decide)
  exact ⟨h.2.2.2, h.2.2.1⟩

end Example

end Btc.Props.EndpointsFull
