import BtcModel.Props.ReachAll

/-! Non-vacuity: a reachable state WITH a fork, a transaction shared between forks, an output spent
    on both forks, and the fork discarded when the anchor advances. -/
namespace Btc.Props.ReachForkExample
open Btc Btc.Spec Btc.State Btc.Props.InvPush Btc.Props.ReachAll Btc.Lemmas.Reach2

def bnd : Unstable.BoundFn := fun _ _ => 1000

/-- fork block on g0: own coinbase, and the SAME transaction 102 that b1 contains (spends (100,0)) -/
def f1 : Block :=
  { hash := 3, prev := 1, diff := 1, time := 1, bits := 0, header := "f1",
    txs := [{ txid := 201, coinbase := true, vsize := 100, ins := [],
              outs := [⟨50, some [4], false⟩] },
            { txid := 102, coinbase := false, vsize := 200, ins := [⟨100, 0⟩],
              outs := [⟨30, some [2], false⟩, ⟨15, some [1], false⟩] }] }

/-- child of b1 -/
def b2 : Block :=
  { hash := 4, prev := 2, diff := 1, time := 2, bits := 0, header := "b2",
    txs := [{ txid := 301, coinbase := true, vsize := 100, ins := [],
              outs := [⟨50, some [1], false⟩] },
            { txid := 302, coinbase := false, vsize := 100, ins := [⟨102, 1⟩],
              outs := [⟨14, some [5], false⟩] }] }

def dummy : State :=
  { utxos := {}, unstable := { thr := 0, tree := .leaf ⟨g0, none, 0⟩, net := .regtest } }

theorem some_of_isSome {α : Type} {o : Option α} (d : α) (h : o.isSome = true) : o = some (o.getD d) := by
  cases o with
  | none => cases h
  | some v => rfl

def s0 : State := (State.new 1 .mainnet g0).getD dummy
theorem new_s0 : State.new 1 .mainnet g0 = some s0 := some_of_isSome dummy (by decide +kernel)

abbrev Cfg := State × List Block
def c0 : Cfg := (s0, [])
def nxt (c : Cfg) (op : Op) : Cfg := (step2 bnd c op).getD (dummy, [])
def c1 : Cfg := nxt c0 (.push b1)
def c2 : Cfg := nxt c1 (.push f1)
def c3 : Cfg := nxt c2 (.push b2)
def c4 : Cfg := nxt c3 (.ingest 100)

theorem r0 : Reachable2 bnd c0.1 c0.2 := Reachable2.init 1 .mainnet g0 s0 (by decide) new_s0

theorem st1 : step2 bnd c0 (.push b1) = some c1 := some_of_isSome _ (by decide +kernel)
theorem st2 : step2 bnd c1 (.push f1) = some c2 := some_of_isSome _ (by decide +kernel)
theorem st3 : step2 bnd c2 (.push b2) = some c3 := some_of_isSome _ (by decide +kernel)
theorem st4 : step2 bnd c3 (.ingest 100) = some c4 := some_of_isSome _ (by decide +kernel)

theorem d1 : Domain2 c0 (.push b1) :=
  ⟨by decide +kernel,
   { fresh := by decide +kernel
     parent := by decide +kernel
     valid := by
       intro p hp
       have e : pathBlocks c0.1.unstable.tree b1.prev = some [g0] := by decide +kernel
       rw [e] at hp; cases hp; decide
     unique := by
       intro p hp
       have e : pathBlocks c0.1.unstable.tree b1.prev = some [g0] := by decide +kernel
       rw [e] at hp; cases hp; decide
     consistent := by
       have e : c0.1.unstable.tree.blocks.map (·.blk) = [g0] := by decide +kernel
       rw [e]; decide }⟩

theorem d2 : Domain2 c1 (.push f1) :=
  ⟨by decide +kernel,
   { fresh := by decide +kernel
     parent := by decide +kernel
     valid := by
       intro p hp
       have e : pathBlocks c1.1.unstable.tree f1.prev = some [g0] := by decide +kernel
       rw [e] at hp; cases hp; decide
     unique := by
       intro p hp
       have e : pathBlocks c1.1.unstable.tree f1.prev = some [g0] := by decide +kernel
       rw [e] at hp; cases hp; decide
     consistent := by
       have e : c1.1.unstable.tree.blocks.map (·.blk) = [g0, b1] := by decide +kernel
       have e2 : c1.2 = [] := by decide +kernel
       rw [e, e2]; decide }⟩

theorem d3 : Domain2 c2 (.push b2) :=
  ⟨by decide +kernel,
   { fresh := by decide +kernel
     parent := by decide +kernel
     valid := by
       intro p hp
       have e : pathBlocks c2.1.unstable.tree b2.prev = some [g0, b1] := by decide +kernel
       have e2 : c2.2 = [] := by decide +kernel
       rw [e] at hp; cases hp; rw [e2]; decide
     unique := by
       intro p hp
       have e : pathBlocks c2.1.unstable.tree b2.prev = some [g0, b1] := by decide +kernel
       have e2 : c2.2 = [] := by decide +kernel
       rw [e] at hp; cases hp; rw [e2]; decide
     consistent := by
       have e : c2.1.unstable.tree.blocks.map (·.blk) = [g0, b1, f1] := by decide +kernel
       have e2 : c2.2 = [] := by decide +kernel
       rw [e, e2]; decide }⟩

theorem r1 : Reachable2 bnd c1.1 c1.2 := Reachable2.step c0.1 c0.2 _ c1.1 c1.2 r0 d1 st1
theorem r2 : Reachable2 bnd c2.1 c2.2 := Reachable2.step c1.1 c1.2 _ c2.1 c2.2 r1 d2 st2
theorem r3 : Reachable2 bnd c3.1 c3.2 := Reachable2.step c2.1 c2.2 _ c3.1 c3.2 r2 d3 st3
theorem r4 : Reachable2 bnd c4.1 c4.2 := Reachable2.step c3.1 c3.2 _ c4.1 c4.2 r3 trivial st4

/-- the forked state: g0 with children b1 (-> b2) and f1; output (100,0) is referenced three times
    (created by g0, spent by b1 and by f1) -/
example : c3.1.unstable.tree.blocks.map CBlock.hash = [1, 2, 4, 3] ∧
    (c3.1.unstable.cache.getTxOut ⟨100, 0⟩).isSome = true ∧
    ((AList.find? c3.1.unstable.cache.txOuts ⟨100, 0⟩).map (·.count)) = some 3 ∧
    ((AList.find? c3.1.unstable.cache.txOuts ⟨102, 0⟩).map (·.count)) = some 3 := by decide +kernel

/-- after the ingestion: g0 is stable, the fork f1 is gone, b1 -> b2 remains; counts dropped -/
example : c4.2 = [g0] ∧ c4.1.unstable.tree.blocks.map CBlock.hash = [2, 4] ∧
    c4.1.unstable.blockCache = [2, 4] ∧
    ((AList.find? c4.1.unstable.cache.txOuts ⟨100, 0⟩).map (·.count)) = some 1 ∧
    ((AList.find? c4.1.unstable.cache.txOuts ⟨102, 0⟩).map (·.count)) = some 2 ∧
    (AList.find? c4.1.unstable.cache.txOuts ⟨201, 0⟩).isNone = true := by decide +kernel

/-- the general theorems apply to the forked state and to the state after the discard -/
example : Bookkeeping c3.1.unstable c3.1.utxos.nextHeight c3.2 := bookkeeping_exact r3
example : Bookkeeping c4.1.unstable c4.1.utxos.nextHeight c4.2 := bookkeeping_exact r4

example : ∃ l r tip, c3.1.unstable.mainChain.getLast? = some tip ∧
    l.Perm (ledgerFor [1] (c3.2 ++ c3.1.unstable.mainChain.map (·.blk))) ∧
    c3.1.getUtxos (.ok [1]) .none_ 10 = .ok r ∧ r.utxos = l.take 10 ∧ r.tipHash = tip.hash := by
  have e : c3.2 = [] := by decide +kernel
  obtain ⟨l, r, tip, h1, h2, _, _, h5, h6, h7, _⟩ := getUtxos_unfiltered r3 (by rw [e]; decide) [1] 10
  exact ⟨l, r, tip, h1, h2, h5, h6, h7⟩

/-- and what the model answers there -/
example : (match c3.1.getUtxos (.ok [1]) .none_ 10 with | .ok r => some (r.utxos, r.tipHash, r.tipHeight) | _ => none)
    = some ([⟨2, ⟨301, 0⟩, 50⟩], 4, 2) := by decide +kernel

end Btc.Props.ReachForkExample
