import BtcModel.Lemmas.MapT
import BtcModel.Props.C01
import BtcModel.Props.InvPush
import BtcModel.Props.C13
import BtcModel.Lemmas.Pop

/-!
  # C09 — upgrade transparency

  `State.upgrade s c` models `pre_upgrade` followed by `post_upgrade(c)`: the fetch flag and the
  stored response are reset, the per-block metrics (`fee_rates`, `utxo_delta`) are not serialised
  (`Tree.mapT stripC`), the tip-depth cache is recomputed and then the optional config is applied.

  1. every query answers the same before and after `upgrade s none` (for *every* state);
     `utxos_length` of `get_blockchain_info` needs the stored deltas to be right (`DeltaOk`);
  2. the fee rates recomputed from the tx-out cache after the upgrade are the insertion-time ones
     (under the invariant and `MetricsOk`), hence the same fee percentiles;
  3. `upgrade s (some c) = setConfig (upgrade s none) c` and `setConfig` changes exactly the named
     fields;
  4. the upgraded state is *similar* (`Sim`) to the old one, similarity is preserved by `push` and
     by ingestion, gives equal query answers, and the first request after an upgrade is an initial one.
-/
namespace Btc.Props.C09
open Btc Btc.Spec Btc.State Btc.Tree Btc.InsertOutpoints

/-! ## 0. States that differ only in metrics / fetch state -/

/-- `s'` has the tree of `s` with all per-block metrics cleared, and the same ledger data, caches,
    announced headers, header store and fee cache. Nothing is said about the fetch state, the
    tip-depth cache, the block cache or the configuration. -/
structure Stripped (s s' : State) : Prop where
  utxos : s'.utxos = s.utxos
  tree : s'.unstable.tree = Tree.mapT stripC s.unstable.tree
  cache : s'.unstable.cache = s.unstable.cache
  next : s'.unstable.next = s.unstable.next
  headers : s'.headers = s.headers
  feeCache : s'.feeCache = s.feeCache

theorem upgrade_none_eq (s : State) :
    s.upgrade none =
      { s with syncing := { s.syncing with isFetching := false, response := none },
               unstable := { s.unstable.clearMetrics with tipDepthsCache := s.unstable.tree.tipDepths } } := rfl

theorem upgrade_tree (s : State) : (s.upgrade none).unstable.tree = Tree.mapT stripC s.unstable.tree := rfl

/-- the upgraded state is a stripped copy of the old one -/
theorem stripped_upgrade (s : State) : Stripped s (s.upgrade none) :=
  ⟨rfl, rfl, rfl, rfl, rfl, rfl⟩

section Strip
variable {s s' : State} (h : Stripped s s')
include h

theorem mainChain_stripped : s'.unstable.mainChain = s.unstable.mainChain.map stripC := by
  unfold Unstable.mainChain
  rw [h.tree, Tree.mainChain_mapT stripC CBlock.diff CBlock.diff (fun _ => rfl)]

theorem levels_stripped :
    Tree.levels CBlock.hash s'.unstable.tree = Tree.levels CBlock.hash s.unstable.tree := by
  rw [h.tree, Tree.levels_mapT stripC CBlock.hash CBlock.hash (fun _ => rfl)]

theorem mainChainHeight_stripped : s'.mainChainHeight = s.mainChainHeight := by
  unfold mainChainHeight
  rw [h.tree, h.utxos, Tree.mainChainLen_mapT stripC CBlock.diff CBlock.diff (fun _ => rfl)]

omit h in
theorem stablePrefix_map (L : List (List (Nat × Nat))) (c : Nat) :
    ∀ (chain : List CBlock) (i : Nat),
      stablePrefix L c (chain.map stripC) i = (stablePrefix L c chain i).map stripC
  | [], _ => rfl
  | b :: bs, i => by
    simp only [List.map_cons, stablePrefix, stripC_hash, stablePrefix_map L c bs (i + 1)]
    rw [apply_ite (List.map stripC)]
    rfl

theorem applyBlocks_stripped (a : Addr) :
    ∀ (l : List CBlock) (ht : Nat) (acc : List Utxo × List OutPoint),
      applyBlocks s' a (l.map stripC) ht acc = applyBlocks s a l ht acc
  | [], _, _ => rfl
  | b :: bs, ht, (ad, rm) => by
    simp only [List.map_cons, applyBlocks, h.cache, stripC_hash]
    split
    · rfl
    · exact applyBlocks_stripped a bs _ _

theorem addressUtxos_stripped (a : Addr) (ad : List Utxo) (rm : List OutPoint) (off : Option Utxo) :
    addressUtxos s' a ad rm off = addressUtxos s a ad rm off := by
  unfold addressUtxos
  rw [h.utxos]

/-- `get_utxos_from_chain` over a stripped chain in the stripped state -/
theorem getUtxosFromChain_stripped (addr : AddrArg) (c : Nat) (chain : List CBlock)
    (off : Option Utxo) (limit : Nat) :
    getUtxosFromChain s' addr c (chain.map stripC) off limit =
      getUtxosFromChain s addr c chain off limit := by
  unfold getUtxosFromChain
  cases addr with
  | malformed => rfl
  | wrongNetwork => rfl
  | ok a =>
    simp only [List.length_map, levels_stripped h, stablePrefix_map, applyBlocks_stripped h,
      addressUtxos_stripped h, h.utxos, List.getLast?_map, List.head?_map]
    split
    · rfl
    · cases hl : (stablePrefix (Tree.levels CBlock.hash s.unstable.tree) c chain 0).getLast? with
      | none =>
        cases chain.head? <;> rfl
      | some b => rfl

theorem getUtxos_stripped (addr : AddrArg) (filter : UtxosFilter) (limit : Nat) :
    s'.getUtxos addr filter limit = s.getUtxos addr filter limit := by
  unfold getUtxos
  cases filter with
  | none_ => simp only [mainChain_stripped h, getUtxosFromChain_stripped h]
  | minConf c => simp only [mainChain_stripped h, getUtxosFromChain_stripped h]
  | page p =>
    cases p with
    | none => rfl
    | some p =>
      obtain ⟨tip, height, op⟩ := p
      simp only [h.tree, Tree.chainWithTip_mapT stripC CBlock.hash CBlock.hash (fun _ => rfl)]
      cases Tree.chainWithTip CBlock.hash tip s.unstable.tree with
      | none => rfl
      | some x =>
        simp only [Option.map_some, Tree.mapPair]
        exact getUtxosFromChain_stripped h addr 0 x.1 _ limit

theorem getBalance_stripped (addr : AddrArg) (minConf : Nat) :
    s'.getBalance addr minConf = s.getBalance addr minConf := by
  unfold getBalance
  cases addr with
  | malformed => rfl
  | wrongNetwork => rfl
  | ok a =>
    simp only [h.utxos, mainChain_stripped h, levels_stripped h, List.length_map, stablePrefix_map,
      h.cache, List.foldl_map, stripC_hash]
    rfl

theorem getBlockHeaders_stripped (maxHeaders start : Nat) (end_ : Option Nat) :
    s'.getBlockHeaders maxHeaders start end_ = s.getBlockHeaders maxHeaders start end_ := by
  unfold getBlockHeaders stableHeight
  simp only [mainChainHeight_stripped h, h.utxos, h.headers, mainChain_stripped h,
    ← List.map_drop, ← List.map_take, List.map_map, Function.comp_def, stripC_blk]

theorem isSynced_stripped (thr : Nat) : s'.isSynced thr = s.isSynced thr := by
  unfold isSynced
  simp only [mainChainHeight_stripped h, h.next]

theorem tip_stripped :
    s'.unstable.mainChain.getLast?.getD s'.unstable.tree.root =
      stripC (s.unstable.mainChain.getLast?.getD s.unstable.tree.root) := by
  rw [mainChain_stripped h, h.tree, Tree.root_mapT, List.getLast?_map]
  cases s.unstable.mainChain.getLast? <;> rfl

/-- the first four fields of `get_blockchain_info` never depend on the metrics -/
theorem blockchainInfo_stripped_fields :
    s'.blockchainInfo.height = s.blockchainInfo.height ∧
    s'.blockchainInfo.hash = s.blockchainInfo.hash ∧
    s'.blockchainInfo.timestamp = s.blockchainInfo.timestamp ∧
    s'.blockchainInfo.difficulty = s.blockchainInfo.difficulty := by
  unfold blockchainInfo
  simp only [mainChainHeight_stripped h, tip_stripped h, stripC_hash, stripC_blk, and_self]

/-- after stripping, `utxos_length` is computed from the block bodies -/
theorem utxosLength_stripped :
    s'.blockchainInfo.utxosLength =
      ((s.utxos.utxos.length : Int) +
        (s.unstable.mainChain.map (fun b => blockUtxoDelta b.blk)).foldl (· + ·) 0).toNat := by
  unfold blockchainInfo
  simp only [mainChain_stripped h, h.utxos, List.map_map, Function.comp_def, utxoDeltaNow_stripC]

end Strip

/-! ## 1. Query transparency of `upgrade s none` (every state, no invariant) -/

theorem getUtxos_upgrade (s : State) (addr : AddrArg) (filter : UtxosFilter) (limit : Nat) :
    (s.upgrade none).getUtxos addr filter limit = s.getUtxos addr filter limit :=
  getUtxos_stripped (stripped_upgrade s) addr filter limit

theorem getBalance_upgrade (s : State) (addr : AddrArg) (minConf : Nat) :
    (s.upgrade none).getBalance addr minConf = s.getBalance addr minConf :=
  getBalance_stripped (stripped_upgrade s) addr minConf

theorem getBlockHeaders_upgrade (s : State) (maxHeaders start : Nat) (end_ : Option Nat) :
    (s.upgrade none).getBlockHeaders maxHeaders start end_ = s.getBlockHeaders maxHeaders start end_ :=
  getBlockHeaders_stripped (stripped_upgrade s) maxHeaders start end_

theorem isSynced_upgrade (s : State) (thr : Nat) : (s.upgrade none).isSynced thr = s.isSynced thr :=
  isSynced_stripped (stripped_upgrade s) thr

theorem mainChainHeight_upgrade (s : State) : (s.upgrade none).mainChainHeight = s.mainChainHeight :=
  mainChainHeight_stripped (stripped_upgrade s)

theorem mainChain_upgrade (s : State) :
    (s.upgrade none).unstable.mainChain = s.unstable.mainChain.map stripC :=
  mainChain_stripped (stripped_upgrade s)

/-- the API guard (`verify_api_access; verify_network; verify_synced`) decides the same -/
theorem guard_upgrade (env : Env) (s : State) (reqNet : Tree.Net) (syncRule : Bool) :
    State.guard env (s.upgrade none) reqNet syncRule = State.guard env s reqNet syncRule := by
  unfold State.guard
  rw [isSynced_upgrade]
  rfl

/-- everything that is not fetch state, metrics or the tip-depth cache is literally unchanged -/
theorem upgrade_fields (s : State) :
    (s.upgrade none).fees = s.fees ∧ (s.upgrade none).apiAccess = s.apiAccess ∧
    (s.upgrade none).disableApiIfNotSynced = s.disableApiIfNotSynced ∧
    (s.upgrade none).lazyFees = s.lazyFees ∧
    (s.upgrade none).syncing.syncing = s.syncing.syncing ∧
    (s.upgrade none).syncing.rejects = s.syncing.rejects ∧
    (s.upgrade none).syncing.deserializeErrors = s.syncing.deserializeErrors ∧
    (s.upgrade none).syncing.insertErrors = s.syncing.insertErrors ∧
    (s.upgrade none).unstable.thr = s.unstable.thr ∧ (s.upgrade none).network = s.network ∧
    (s.upgrade none).unstable.cache = s.unstable.cache ∧
    (s.upgrade none).unstable.next = s.unstable.next ∧
    (s.upgrade none).unstable.blockCache = s.unstable.blockCache ∧
    (s.upgrade none).feeCache = s.feeCache ∧ (s.upgrade none).headers = s.headers ∧
    (s.upgrade none).utxos = s.utxos ∧ (s.upgrade none).sendTxCount = s.sendTxCount :=
  ⟨rfl, rfl, rfl, rfl, rfl, rfl, rfl, rfl, rfl, rfl, rfl, rfl, rfl, rfl, rfl, rfl, rfl⟩

/-- what does change: fetch state reset, metrics cleared, tip depths recomputed -/
theorem upgrade_changes (s : State) :
    (s.upgrade none).syncing.isFetching = false ∧ (s.upgrade none).syncing.response = none ∧
    (s.upgrade none).unstable.tree = Tree.mapT stripC s.unstable.tree ∧
    (s.upgrade none).unstable.tipDepthsCache = s.unstable.tree.tipDepths ∧
    (s.upgrade none).unstable.tipDepthsCache = (s.upgrade none).unstable.tree.tipDepths :=
  ⟨rfl, rfl, rfl, rfl, (Tree.tipDepths_mapT stripC s.unstable.tree).symm⟩

/-- the blocks (bodies) of the tree, in pre-order, are unchanged -/
theorem upgrade_blocks (s : State) :
    (s.upgrade none).unstable.tree.blocks.map (·.blk) = s.unstable.tree.blocks.map (·.blk) := by
  rw [upgrade_tree, Tree.blocks_mapT, List.map_map]
  rfl

/-! ### `get_blockchain_info` -/

/-- the stored delta of every block with metrics is the block's true net UTXO change -/
def DeltaOk (s : State) : Prop :=
  ∀ b ∈ s.unstable.tree.blocks, b.feeRates = none ∨ b.utxoDelta = blockUtxoDelta b.blk

/-- the stored metrics of every block that has metrics are the specified ones
    (`hist` = where inputs are resolved) -/
def MetricsOk (hist : List Block) (s : State) : Prop :=
  ∀ b ∈ s.unstable.tree.blocks,
    b.feeRates = none ∨
      (b.utxoDelta = blockUtxoDelta b.blk ∧ b.feeRates = some (feeRatesSpec hist b.blk.txs))

theorem MetricsOk.deltaOk {hist : List Block} {s : State} (h : MetricsOk hist s) : DeltaOk s := by
  intro b hb
  rcases h b hb with h1 | h1
  · exact Or.inl h1
  · exact Or.inr h1.1

theorem utxoDeltaNow_of_ok {b : CBlock}
    (h : b.feeRates = none ∨ b.utxoDelta = blockUtxoDelta b.blk) :
    b.utxoDeltaNow = blockUtxoDelta b.blk := by
  unfold CBlock.utxoDeltaNow
  rcases h with h | h
  · simp [h]
  · split
    · rfl
    · exact h

theorem DeltaOk_iff (s : State) :
    DeltaOk s ↔ ∀ b ∈ s.unstable.tree.blocks, b.utxoDeltaNow = blockUtxoDelta b.blk := by
  constructor
  · intro h b hb; exact utxoDeltaNow_of_ok (h b hb)
  · intro h b hb
    have := h b hb
    unfold CBlock.utxoDeltaNow at this
    cases hf : b.feeRates with
    | none => exact Or.inl rfl
    | some r =>
      right
      simpa [hf] using this

theorem blockchainInfo_fields_upgrade (s : State) :
    (s.upgrade none).blockchainInfo.height = s.blockchainInfo.height ∧
    (s.upgrade none).blockchainInfo.hash = s.blockchainInfo.hash ∧
    (s.upgrade none).blockchainInfo.timestamp = s.blockchainInfo.timestamp ∧
    (s.upgrade none).blockchainInfo.difficulty = s.blockchainInfo.difficulty :=
  blockchainInfo_stripped_fields (stripped_upgrade s)

theorem blockchainInfo_stripped {s s' : State} (h : Stripped s s') (hd : DeltaOk s) :
    s'.blockchainInfo = s.blockchainInfo := by
  obtain ⟨h1, h2, h3, h4⟩ := blockchainInfo_stripped_fields h
  have h5 : s'.blockchainInfo.utxosLength = s.blockchainInfo.utxosLength := by
    rw [utxosLength_stripped h]
    unfold blockchainInfo
    simp only
    congr 3
    apply List.map_congr_left
    intro b hb
    exact (utxoDeltaNow_of_ok (hd b (Tree.mainChain_mem_blocks _ _ b hb))).symm
  cases hi : s'.blockchainInfo
  cases hj : s.blockchainInfo
  simp_all

/-- **`get_blockchain_info` is unchanged by an upgrade** when the stored deltas are right. -/
theorem blockchainInfo_upgrade (s : State) (hd : DeltaOk s) :
    (s.upgrade none).blockchainInfo = s.blockchainInfo :=
  blockchainInfo_stripped (stripped_upgrade s) hd

/-! ## 3. Upgrade with a configuration argument -/

theorem upgrade_some (s : State) (c : SetConfig) :
    s.upgrade (some c) = setConfig (s.upgrade none) c := rfl

/-- closed form of `set_config_no_verification`: six optional field updates -/
theorem setConfig_eq (s : State) (c : SetConfig) :
    setConfig s c =
      { s with
        syncing := { s.syncing with syncing := c.syncing.getD s.syncing.syncing },
        fees := c.fees.getD s.fees,
        unstable := { s.unstable with thr := c.stabilityThreshold.getD s.unstable.thr },
        apiAccess := c.apiAccess.getD s.apiAccess,
        disableApiIfNotSynced := c.disableApiIfNotSynced.getD s.disableApiIfNotSynced,
        lazyFees := c.lazyFees.getD s.lazyFees } := by
  obtain ⟨a, b, c, d, e, f⟩ := c
  cases a <;> cases b <;> cases c <;> cases d <;> cases e <;> cases f <;> rfl

/-- `set_config_no_verification` writes exactly the named fields -/
theorem setConfig_fields (s : State) (c : SetConfig) :
    (setConfig s c).fees = c.fees.getD s.fees ∧
    (setConfig s c).apiAccess = c.apiAccess.getD s.apiAccess ∧
    (setConfig s c).disableApiIfNotSynced = c.disableApiIfNotSynced.getD s.disableApiIfNotSynced ∧
    (setConfig s c).lazyFees = c.lazyFees.getD s.lazyFees ∧
    (setConfig s c).syncing.syncing = c.syncing.getD s.syncing.syncing ∧
    (setConfig s c).unstable.thr = c.stabilityThreshold.getD s.unstable.thr := by
  rw [setConfig_eq]
  exact ⟨rfl, rfl, rfl, rfl, rfl, rfl⟩

/-- … and nothing else -/
theorem setConfig_frame (s : State) (c : SetConfig) :
    (setConfig s c).utxos = s.utxos ∧ (setConfig s c).unstable.tree = s.unstable.tree ∧
    (setConfig s c).unstable.cache = s.unstable.cache ∧
    (setConfig s c).unstable.next = s.unstable.next ∧
    (setConfig s c).unstable.net = s.unstable.net ∧
    (setConfig s c).unstable.tipDepthsCache = s.unstable.tipDepthsCache ∧
    (setConfig s c).unstable.blockCache = s.unstable.blockCache ∧
    (setConfig s c).headers = s.headers ∧ (setConfig s c).feeCache = s.feeCache ∧
    (setConfig s c).sendTxCount = s.sendTxCount ∧
    (setConfig s c).syncing.isFetching = s.syncing.isFetching ∧
    (setConfig s c).syncing.response = s.syncing.response ∧
    (setConfig s c).syncing.rejects = s.syncing.rejects ∧
    (setConfig s c).syncing.deserializeErrors = s.syncing.deserializeErrors ∧
    (setConfig s c).syncing.insertErrors = s.syncing.insertErrors := by
  rw [setConfig_eq]
  exact ⟨rfl, rfl, rfl, rfl, rfl, rfl, rfl, rfl, rfl, rfl, rfl, rfl, rfl, rfl, rfl⟩

/-- the empty config changes nothing -/
theorem setConfig_empty (s : State) : setConfig s {} = s := rfl

/-- a configuration only touches configuration: the configured state is a stripped copy too -/
theorem stripped_setConfig {s s' : State} (h : Stripped s s') (c : SetConfig) :
    Stripped s (setConfig s' c) := by
  obtain ⟨h1, h2, h3, h4, _, _, _, h8, h9, _⟩ := setConfig_frame s' c
  exact ⟨h1.trans h.utxos, h2.trans h.tree, h3.trans h.cache, h4.trans h.next, h8.trans h.headers,
    h9.trans h.feeCache⟩

theorem stripped_upgrade' (s : State) (c : Option SetConfig) : Stripped s (s.upgrade c) := by
  cases c with
  | none => exact stripped_upgrade s
  | some c => exact stripped_setConfig (stripped_upgrade s) c

/-- with any config argument, the data queries answer as before the upgrade -/
theorem queries_upgrade_config (s : State) (c : Option SetConfig) :
    (∀ addr filter limit, (s.upgrade c).getUtxos addr filter limit = s.getUtxos addr filter limit) ∧
    (∀ addr minConf, (s.upgrade c).getBalance addr minConf = s.getBalance addr minConf) ∧
    (∀ m st e, (s.upgrade c).getBlockHeaders m st e = s.getBlockHeaders m st e) ∧
    (∀ thr, (s.upgrade c).isSynced thr = s.isSynced thr) ∧
    (s.upgrade c).mainChainHeight = s.mainChainHeight ∧
    (DeltaOk s → (s.upgrade c).blockchainInfo = s.blockchainInfo) :=
  have h := stripped_upgrade' s c
  ⟨getUtxos_stripped h, getBalance_stripped h, getBlockHeaders_stripped h, isSynced_stripped h,
    mainChainHeight_stripped h, blockchainInfo_stripped h⟩

/-! ## 2. Fee percentiles -/

/-- the fallback of `get_fees_per_byte` for a block without cached fee rates: every transaction's
    fee rate is recomputed through the tx-out cache (`None` = a referenced output is missing) -/
def fallbackRates (s : State) (b : Block) : Option (List Nat) :=
  let rs := b.txs.map (txFeePerByte s)
  if rs.any Option.isNone then none else some ((rs.filterMap id).filterMap id)

theorem blockFeeRates_none (s : State) (b : CBlock) (hb : b.feeRates = none) :
    blockFeeRates s b = fallbackRates s b.blk := by
  unfold blockFeeRates fallbackRates
  rw [hb]

theorem blockFeeRates_stripC (s : State) (b : CBlock) :
    blockFeeRates s (stripC b) = fallbackRates s b.blk := blockFeeRates_none s (stripC b) rfl

theorem txFeePerByte_stripped {s s' : State} (h : Stripped s s') (tx : Tx) :
    txFeePerByte s' tx = txFeePerByte s tx := by
  unfold txFeePerByte
  rw [h.cache]

theorem fallbackRates_stripped {s s' : State} (h : Stripped s s') (b : Block) :
    fallbackRates s' b = fallbackRates s b := by
  unfold fallbackRates
  rw [show txFeePerByte s' = txFeePerByte s from funext (txFeePerByte_stripped h)]

/-- **The recomputed fee rate is the insertion-time one**: for a transaction of a tree block, all
    inputs are in the tx-out cache with their true outputs, so `get_tx_fee_per_byte` computes
    `feeRateOf hist tx`. -/
theorem txFeePerByte_spec (s : State) (hist : List Block) (hce : CachesExact s.unstable hist)
    (b : CBlock) (hb : b ∈ s.unstable.tree.blocks) (tx : Tx) (htx : tx ∈ b.blk.txs) :
    txFeePerByte s tx = some (feeRateOf hist tx) := by
  unfold txFeePerByte feeRateOf
  cases hcb : tx.coinbase with
  | true => simp
  | false =>
    have hvals : tx.ins.map (fun o => (s.unstable.cache.getTxOut o).map (·.1.value)) =
        tx.ins.map (fun o => some (((outAt hist o).map (·.value)).getD 0)) := by
      apply List.map_congr_left
      intro o ho
      obtain ⟨info, hf, hout⟩ := getTxOut_of_ref s.unstable hist hce b hb o
        (mem_blockRefs_input b.blk tx htx o ho)
      simp [OutPointsCache.getTxOut, hf, hout]
    have hany : (tx.ins.map (fun o => some (((outAt hist o).map (·.value)).getD 0))).any
        Option.isNone = false := by
      simp [List.any_eq_false]
    have hfm : (tx.ins.map (fun o => some (((outAt hist o).map (·.value)).getD 0))).filterMap id =
        tx.ins.map (fun o => ((outAt hist o).map (·.value)).getD 0) := by
      simp [List.filterMap_map]
    have hsum : (tx.ins.map (fun o => ((outAt hist o).map (·.value)).getD 0)).foldl (· + ·) 0 =
        inSum hist tx.ins := by
      unfold inSum
      rw [List.sum_eq_foldl]
    simp only [Bool.false_eq_true, if_false, hvals, hany, hfm, hsum, Bool.not_false, Bool.true_and,
      decide_eq_true_eq]
    show (if inSum hist tx.ins < outSum tx then some none
      else some (feeRatePerVbyte (inSum hist tx.ins - outSum tx) tx.vsize)) = _
    by_cases hlt : inSum hist tx.ins < outSum tx
    · have : ¬ outSum tx ≤ inSum hist tx.ins := by omega
      simp [hlt, this]
    · have : outSum tx ≤ inSum hist tx.ins := by omega
      simp [hlt, this]

/-- the whole fallback gives `BlockMetrics::fee_rates` as computed at insertion -/
theorem fallbackRates_spec (s : State) (hist : List Block) (hce : CachesExact s.unstable hist)
    (b : CBlock) (hb : b ∈ s.unstable.tree.blocks) :
    fallbackRates s b.blk = some (feeRatesSpec hist b.blk.txs) := by
  unfold fallbackRates feeRatesSpec
  have hrs : b.blk.txs.map (txFeePerByte s) = b.blk.txs.map (fun tx => some (feeRateOf hist tx)) :=
    List.map_congr_left (fun tx htx => txFeePerByte_spec s hist hce b hb tx htx)
  simp only [hrs]
  have hany : (b.blk.txs.map (fun tx => some (feeRateOf hist tx))).any Option.isNone = false := by
    simp [List.any_eq_false]
  simp [hany, List.filterMap_map]

/-- **Per-block fee rates survive the upgrade** (cache-exactness version). -/
theorem blockFeeRates_stripped {s s' : State} (h : Stripped s s') (hist : List Block)
    (hce : CachesExact s.unstable hist) (hm : MetricsOk hist s)
    (b : CBlock) (hb : b ∈ s.unstable.tree.blocks) :
    blockFeeRates s' (stripC b) = blockFeeRates s b := by
  rw [blockFeeRates_stripC, fallbackRates_stripped h]
  rcases hm b hb with hn | ⟨_, hs⟩
  · rw [blockFeeRates_none s b hn]
  · rw [fallbackRates_spec s hist hce b hb]
    unfold blockFeeRates
    rw [hs]

/-- **Per-block fee rates survive the upgrade**: under the invariant, for every block of the tree
    the rates recomputed from the tx-out cache after the upgrade are the rates `s` reports. -/
theorem blockFeeRates_upgrade {s : State} {G : List Block} (hinv : Inv s G)
    (hm : MetricsOk (G ++ s.unstable.tree.blocks.map (·.blk)) s)
    (b : CBlock) (hb : b ∈ s.unstable.tree.blocks) :
    blockFeeRates (s.upgrade none) (stripC b) = blockFeeRates s b :=
  blockFeeRates_stripped (stripped_upgrade s) _ hinv.caches hm b hb

/-- … and they are the specified ones whenever `s` has them cached, or recomputes them -/
theorem blockFeeRates_upgrade_spec {s : State} {G : List Block} (hinv : Inv s G)
    (b : CBlock) (hb : b ∈ s.unstable.tree.blocks) :
    blockFeeRates (s.upgrade none) (stripC b) =
      some (feeRatesSpec (G ++ s.unstable.tree.blocks.map (·.blk)) b.blk.txs) := by
  rw [blockFeeRates_stripC, fallbackRates_stripped (stripped_upgrade s)]
  exact fallbackRates_spec s _ hinv.caches b hb

theorem feesPerByte_stripped {s s' : State} (h : Stripped s s') (hist : List Block)
    (hce : CachesExact s.unstable hist) (hm : MetricsOk hist s) (n : Nat) :
    ∀ (chain : List CBlock) (acc : List Nat), (∀ b ∈ chain, b ∈ s.unstable.tree.blocks) →
      feesPerByte s' n (chain.map stripC) acc = feesPerByte s n chain acc
  | [], _, _ => rfl
  | b :: bs, acc, hc => by
    simp only [List.map_cons, feesPerByte,
      blockFeeRates_stripped h hist hce hm b (hc b List.mem_cons_self)]
    split
    · rfl
    · cases blockFeeRates s b with
      | none => rfl
      | some rs => exact feesPerByte_stripped h hist hce hm n bs _ (fun x hx => hc x (List.mem_cons_of_mem _ hx))

/-- what `get_current_fee_percentiles` returns and what it leaves in the cache -/
def feeView (r : State × List Nat) : Option (Nat × List Nat) × List Nat := (r.1.feeCache, r.2)

theorem recompute_stripped {s s' : State} (h : Stripped s s') (n : Nat) (chain chain' : List CBlock)
    (hf : feesPerByte s' n chain'.reverse [] = feesPerByte s n chain.reverse []) (tip : Nat) :
    (feePercentiles.recompute s' n chain' tip).map feeView =
      (feePercentiles.recompute s n chain tip).map feeView := by
  unfold feePercentiles.recompute
  rw [hf, h.feeCache]
  cases feesPerByte s n chain.reverse [] with
  | none => rfl
  | some fees =>
    cases fees with
    | nil =>
      cases hc : s.feeCache with
      | none => simp [feeView]
      | some v => simp [feeView, h.feeCache, hc]
    | cons x xs => simp [feeView]

theorem feePercentiles_stripped {s s' : State} (h : Stripped s s') (hist : List Block)
    (hce : CachesExact s.unstable hist) (hm : MetricsOk hist s) (n : Nat) :
    (s'.feePercentiles n).map feeView = (s.feePercentiles n).map feeView := by
  have hf : feesPerByte s' n s'.unstable.mainChain.reverse [] =
      feesPerByte s n s.unstable.mainChain.reverse [] := by
    rw [mainChain_stripped h, ← List.map_reverse]
    apply feesPerByte_stripped h hist hce hm
    intro b hb
    exact Tree.mainChain_mem_blocks _ _ b (List.mem_reverse.mp hb)
  have hr := recompute_stripped h n s.unstable.mainChain s'.unstable.mainChain hf
  unfold feePercentiles
  simp only [tip_stripped h, stripC_hash, h.feeCache]
  cases hc : s.feeCache with
  | none => exact hr _
  | some v =>
    obtain ⟨hh, p⟩ := v
    simp only
    split
    · simp [feeView, h.feeCache, hc]
    · exact hr _

/-- **`get_current_fee_percentiles` is unchanged by an upgrade**: same percentiles, same panic
    behaviour, same new fee cache. -/
theorem feePercentiles_upgrade {s : State} {G : List Block} (hinv : Inv s G)
    (hm : MetricsOk (G ++ s.unstable.tree.blocks.map (·.blk)) s) (n : Nat) :
    ((s.upgrade none).feePercentiles n).map feeView = (s.feePercentiles n).map feeView :=
  feePercentiles_stripped (stripped_upgrade s) _ hinv.caches hm n

theorem feePercentiles_upgrade_values {s : State} {G : List Block} (hinv : Inv s G)
    (hm : MetricsOk (G ++ s.unstable.tree.blocks.map (·.blk)) s) (n : Nat) :
    ((s.upgrade none).feePercentiles n).map (·.2) = (s.feePercentiles n).map (·.2) := by
  have := congrArg (Option.map (·.2)) (feePercentiles_upgrade hinv hm n)
  simpa [Option.map_map, Function.comp_def, feeView] using this

/-- the state returned after the upgrade is the upgraded state with the fee cache that `s` gets -/
theorem feePercentiles_upgrade_state {s : State} {G : List Block} (hinv : Inv s G)
    (hm : MetricsOk (G ++ s.unstable.tree.blocks.map (·.blk)) s) (n : Nat)
    (s1 : State) (p : List Nat) (h1 : s.feePercentiles n = some (s1, p)) :
    s1 = { s with feeCache := s1.feeCache } ∧
    (s.upgrade none).feePercentiles n = some ({ s.upgrade none with feeCache := s1.feeCache }, p) := by
  refine ⟨Lemmas.Fetch.feePercentiles_eq h1, ?_⟩
  have h := feePercentiles_upgrade hinv hm n
  rw [h1] at h
  cases h2 : (s.upgrade none).feePercentiles n with
  | none => rw [h2] at h; simp at h
  | some r =>
    obtain ⟨s2, p2⟩ := r
    rw [h2] at h
    simp only [Option.map_some, feeView, Option.some.injEq, Prod.mk.injEq] at h
    have e := Lemmas.Fetch.feePercentiles_eq h2
    rw [e, h.1, h.2]

/-! ### `MetricsOk` is what `push` establishes -/

theorem foldl_add_int (l : List Int) (a : Int) : l.foldl (· + ·) a = a + l.sum := by
  induction l generalizing a with
  | nil => simp
  | cons x xs ih => simp only [List.foldl_cons, List.sum_cons, ih]; omega

/-- the specified delta of `insert_outpoints` is the delta `utxo_delta()` recomputes -/
theorem utxoDeltaSpec_eq (b : Block) : utxoDeltaSpec b.txs = blockUtxoDelta b := by
  unfold utxoDeltaSpec blockUtxoDelta
  rw [foldl_add_int]
  omega

theorem inSum_congr {h1 h2 : List Block} (ins : List OutPoint)
    (h : ∀ o ∈ ins, outAt h1 o = outAt h2 o) : inSum h1 ins = inSum h2 ins := by
  unfold inSum
  congr 1
  apply List.map_congr_left
  intro o ho
  rw [h o ho]

/-- the specified fee rates only look at the outputs designated by the block's own inputs -/
theorem feeRatesSpec_congr {h1 h2 : List Block} (txs : List Tx)
    (h : ∀ tx ∈ txs, ∀ o ∈ tx.ins, outAt h1 o = outAt h2 o) :
    feeRatesSpec h1 txs = feeRatesSpec h2 txs := by
  unfold feeRatesSpec
  induction txs with
  | nil => rfl
  | cons tx txs ih =>
    have e : feeRateOf h1 tx = feeRateOf h2 tx := by
      unfold feeRateOf
      rw [inSum_congr tx.ins (h tx List.mem_cons_self)]
    simp only [List.filterMap_cons, e, ih (fun t ht => h t (List.mem_cons_of_mem _ ht))]

/-- **`push` establishes and preserves `MetricsOk`** (together with the invariant): the new block is
    stored with the specified metrics w.r.t. the new history, and the old blocks' fee rates do not
    change when the history grows (their inputs are already resolved in it). -/
theorem metricsOk_push (s : State) (G : List Block) (b : Block)
    (hinv : Inv s G)
    (hfresh : b.hash ∉ (G ++ s.unstable.tree.blocks.map (·.blk)).map (·.hash))
    (hparent : Tree.contains CBlock.hash b.prev s.unstable.tree = true)
    (hvalid : ∀ p, pathBlocks s.unstable.tree b.prev = some p → TxValid (G ++ p ++ [b]))
    (htxids : TxidsConsistent (G ++ s.unstable.tree.blocks.map (·.blk) ++ [b]))
    (hm : MetricsOk (G ++ s.unstable.tree.blocks.map (·.blk)) s) :
    ∃ u', s.unstable.push s.utxos b = .ok u' ∧ Inv { s with unstable := u' } G ∧
      MetricsOk (G ++ u'.tree.blocks.map (·.blk)) { s with unstable := u' } := by
  obtain ⟨u', hp, hinv'⟩ := InvPush.push_preserves_inv s G b hinv hfresh hparent hvalid htxids
  obtain ⟨u'', hp', hext⟩ := InvPush.push_metrics s G b hinv hfresh hparent hvalid htxids
  rw [hp] at hp'
  cases hp'
  refine ⟨u', hp, hinv', ?_⟩
  have hmemT := TreeExtend.extend_mem_blocks CBlock.hash b.prev _ _ _ hext
  have hcons' : TxidsConsistent (G ++ u'.tree.blocks.map (·.blk)) := hinv'.txids
  intro x hx
  rcases (hmemT x).mp hx with rfl | hxo
  · right
    refine ⟨utxoDeltaSpec_eq b, ?_⟩
    show some _ = some _
    congr 1
    apply feeRatesSpec_congr
    intro tx _ o _
    apply InvPush.outAt_congr hcons'
    intro y
    simp only [List.mem_append, List.mem_map, List.mem_singleton, hmemT]
    constructor
    · rintro ((hg | ⟨c, hc, rfl⟩) | rfl)
      · exact Or.inl hg
      · exact Or.inr ⟨c, Or.inr hc, rfl⟩
      · exact Or.inr ⟨_, Or.inl rfl, rfl⟩
    · rintro (hg | ⟨c, (rfl | hc), rfl⟩)
      · exact Or.inl (Or.inl hg)
      · exact Or.inr rfl
      · exact Or.inl (Or.inr ⟨c, hc, rfl⟩)
  · -- an old block: its metrics are unchanged and its inputs resolve the same way
    rcases hm x hxo with h1 | ⟨h1, h2⟩
    · exact Or.inl h1
    · right
      refine ⟨h1, ?_⟩
      rw [h2]
      congr 1
      apply feeRatesSpec_congr
      intro tx htx o ho
      obtain ⟨info, _, hout⟩ := getTxOut_of_ref s.unstable _ hinv.caches x hxo o
        (mem_blockRefs_input x.blk tx htx o ho)
      rw [hout]
      symm
      apply outAt_mono hcons' _ hout
      intro y hy
      simp only [List.mem_append, List.mem_map, hmemT] at hy ⊢
      rcases hy with hg | ⟨c, hc, rfl⟩
      · exact Or.inl hg
      · exact Or.inr ⟨c, Or.inr hc, rfl⟩

/-! ## 4. Simulation: a state and its upgraded copy evolve in lock-step -/

/-- forget what an upgrade forgets: fetch flag, stored response, per-block metrics -/
def norm (s : State) : State :=
  { s with syncing := { s.syncing with isFetching := false, response := none },
           unstable := s.unstable.clearMetrics }

/-- equal except for `syncing.isFetching`, `syncing.response` and the per-block metrics -/
def Sim (s s' : State) : Prop := norm s = norm s'

theorem Sim.refl (s : State) : Sim s s := rfl
theorem Sim.symm {s s' : State} (h : Sim s s') : Sim s' s := Eq.symm h
theorem Sim.trans {s s' s'' : State} (h : Sim s s') (h' : Sim s' s'') : Sim s s'' := Eq.trans h h'

theorem sim_equivalence : Equivalence Sim := ⟨Sim.refl, Sim.symm, Sim.trans⟩

/-- the same trees up to metrics -/
def TSim (t t' : Tree CBlock) : Prop := Tree.mapT stripC t = Tree.mapT stripC t'

/-- the unstable-block structures agree up to metrics -/
def USim (u u' : Unstable) : Prop := u.clearMetrics = u'.clearMetrics

theorem usim_iff (u u' : Unstable) : USim u u' ↔
    u.thr = u'.thr ∧ TSim u.tree u'.tree ∧ u.cache = u'.cache ∧ u.net = u'.net ∧ u.next = u'.next ∧
    u.tipDepthsCache = u'.tipDepthsCache ∧ u.blockCache = u'.blockCache := by
  constructor
  · intro h0
    have h : u.clearMetrics = u'.clearMetrics := h0
    exact ⟨congrArg (·.thr) h, show Tree.mapT stripC u.tree = Tree.mapT stripC u'.tree from
        congrArg (fun x : Unstable => x.tree) h, congrArg (·.cache) h, congrArg (·.net) h,
      congrArg (·.next) h, congrArg (·.tipDepthsCache) h, congrArg (·.blockCache) h⟩
  · rintro ⟨h1, h2, h3, h4, h5, h6, h7⟩
    obtain ⟨thr, tree, cache, net, next, tdc, bc⟩ := u
    obtain ⟨thr', tree', cache', net', next', tdc', bc'⟩ := u'
    simp only at h1 h2 h3 h4 h5 h6 h7
    subst h1 h3 h4 h5 h6 h7
    show Unstable.mk _ _ _ _ _ _ _ = Unstable.mk _ _ _ _ _ _ _
    have h2' : Tree.mapT stripC tree = Tree.mapT stripC tree' := h2
    exact congrArg (fun t => Unstable.mk thr t cache net next tdc bc) h2'

/-- **Readable characterisation of `Sim`**: all fields equal except the two fetch fields, and the
    trees equal once the metrics are stripped. -/
theorem sim_iff (s s' : State) : Sim s s' ↔
    s.utxos = s'.utxos ∧
    Tree.mapT stripC s.unstable.tree = Tree.mapT stripC s'.unstable.tree ∧
    s.unstable.thr = s'.unstable.thr ∧ s.unstable.cache = s'.unstable.cache ∧
    s.unstable.net = s'.unstable.net ∧ s.unstable.next = s'.unstable.next ∧
    s.unstable.tipDepthsCache = s'.unstable.tipDepthsCache ∧
    s.unstable.blockCache = s'.unstable.blockCache ∧
    s.syncing.syncing = s'.syncing.syncing ∧ s.syncing.rejects = s'.syncing.rejects ∧
    s.syncing.deserializeErrors = s'.syncing.deserializeErrors ∧
    s.syncing.insertErrors = s'.syncing.insertErrors ∧
    s.feeCache = s'.feeCache ∧ s.headers = s'.headers ∧ s.fees = s'.fees ∧
    s.apiAccess = s'.apiAccess ∧ s.disableApiIfNotSynced = s'.disableApiIfNotSynced ∧
    s.lazyFees = s'.lazyFees ∧ s.sendTxCount = s'.sendTxCount := by
  constructor
  · intro h0
    have h : norm s = norm s' := h0
    exact ⟨congrArg (·.utxos) h, congrArg (·.unstable.tree) h, congrArg (·.unstable.thr) h,
      congrArg (·.unstable.cache) h, congrArg (·.unstable.net) h, congrArg (·.unstable.next) h,
      congrArg (·.unstable.tipDepthsCache) h, congrArg (·.unstable.blockCache) h,
      congrArg (·.syncing.syncing) h, congrArg (·.syncing.rejects) h,
      congrArg (·.syncing.deserializeErrors) h, congrArg (·.syncing.insertErrors) h,
      congrArg (·.feeCache) h, congrArg (·.headers) h, congrArg (·.fees) h,
      congrArg (·.apiAccess) h, congrArg (·.disableApiIfNotSynced) h, congrArg (·.lazyFees) h,
      congrArg (·.sendTxCount) h⟩
  · rintro ⟨h1, h2, h3, h4, h5, h6, h7, h8, h9, h10, h11, h12, h13, h14, h15, h16, h17, h18, h19⟩
    have hu : USim s.unstable s'.unstable := (usim_iff _ _).mpr ⟨h3, h2, h4, h5, h6, h7, h8⟩
    obtain ⟨ut, un, ⟨sy, isF, resp, rej, de, ie⟩, fc, hd, fees, api, dis, lz, stc⟩ := s
    obtain ⟨ut', un', ⟨sy', isF', resp', rej', de', ie'⟩, fc', hd', fees', api', dis', lz', stc'⟩ := s'
    simp only at h1 h9 h10 h11 h12 h13 h14 h15 h16 h17 h18 h19 hu
    subst h1 h9 h10 h11 h12 h13 h14 h15 h16 h17 h18 h19
    show State.mk _ _ _ _ _ _ _ _ _ _ = State.mk _ _ _ _ _ _ _ _ _ _
    have hu' : un.clearMetrics = un'.clearMetrics := hu
    rw [hu']

theorem Sim.usim {s s' : State} (h : Sim s s') : USim s.unstable s'.unstable := by
  have h' : norm s = norm s' := h
  exact congrArg (fun x : State => x.unstable) h'
theorem Sim.tsim {s s' : State} (h : Sim s s') : TSim s.unstable.tree s'.unstable.tree := by
  have h' : norm s = norm s' := h
  exact congrArg (fun x : State => x.unstable.tree) h'
theorem Sim.utxos {s s' : State} (h : Sim s s') : s.utxos = s'.utxos := by
  have h' : norm s = norm s' := h
  have := congrArg (fun x : State => x.utxos) h'
  exact this
theorem Sim.headers {s s' : State} (h : Sim s s') : s.headers = s'.headers := by
  have h' : norm s = norm s' := h
  have := congrArg (fun x : State => x.headers) h'
  exact this

/-- `norm s` is a stripped copy of `s` -/
theorem stripped_norm (s : State) : Stripped s (norm s) := ⟨rfl, rfl, rfl, rfl, rfl, rfl⟩

/-- **The upgraded state is similar to the old one** whenever the tip-depth cache was exact
    (`CachesExact.tipDepths`). -/
theorem sim_upgrade (s : State) (ht : s.unstable.tipDepthsCache = s.unstable.tree.tipDepths) :
    Sim (s.upgrade none) s := by
  rw [sim_iff]
  refine ⟨rfl, mapT_stripC_idem _, rfl, rfl, rfl, rfl, ht.symm, rfl, rfl, rfl, rfl, rfl, rfl, rfl,
    rfl, rfl, rfl, rfl, rfl⟩

theorem sim_upgrade_inv {s : State} {G : List Block} (hinv : Inv s G) : Sim (s.upgrade none) s :=
  sim_upgrade s hinv.caches.tipDepths

/-! ### similar states answer queries alike -/

section SimQueries
variable {s s' : State} (h : Sim s s')
include h

theorem Sim.getUtxos (addr : AddrArg) (filter : UtxosFilter) (limit : Nat) :
    s.getUtxos addr filter limit = s'.getUtxos addr filter limit := by
  have h' : norm s = norm s' := h
  rw [← getUtxos_stripped (stripped_norm s), ← getUtxos_stripped (stripped_norm s'), h']

theorem Sim.getBalance (addr : AddrArg) (minConf : Nat) :
    s.getBalance addr minConf = s'.getBalance addr minConf := by
  have h' : norm s = norm s' := h
  rw [← getBalance_stripped (stripped_norm s), ← getBalance_stripped (stripped_norm s'), h']

theorem Sim.getBlockHeaders (m st : Nat) (e : Option Nat) :
    s.getBlockHeaders m st e = s'.getBlockHeaders m st e := by
  have h' : norm s = norm s' := h
  rw [← getBlockHeaders_stripped (stripped_norm s), ← getBlockHeaders_stripped (stripped_norm s'), h']

theorem Sim.isSynced (thr : Nat) : s.isSynced thr = s'.isSynced thr := by
  have h' : norm s = norm s' := h
  rw [← isSynced_stripped (stripped_norm s), ← isSynced_stripped (stripped_norm s'), h']

theorem Sim.mainChainHeight : s.mainChainHeight = s'.mainChainHeight := by
  have h' : norm s = norm s' := h
  rw [← mainChainHeight_stripped (stripped_norm s), ← mainChainHeight_stripped (stripped_norm s'), h']

theorem Sim.blockchainInfo (hd : DeltaOk s) (hd' : DeltaOk s') :
    s.blockchainInfo = s'.blockchainInfo := by
  have h' : norm s = norm s' := h
  rw [← blockchainInfo_stripped (stripped_norm s) hd, ← blockchainInfo_stripped (stripped_norm s') hd',
    h']

theorem Sim.feePercentiles (hist hist' : List Block)
    (hce : CachesExact s.unstable hist) (hm : MetricsOk hist s)
    (hce' : CachesExact s'.unstable hist') (hm' : MetricsOk hist' s') (n : Nat) :
    (s.feePercentiles n).map feeView = (s'.feePercentiles n).map feeView := by
  have h' : norm s = norm s' := h
  rw [← feePercentiles_stripped (stripped_norm s) hist hce hm,
    ← feePercentiles_stripped (stripped_norm s') hist' hce' hm', h']

theorem Sim.guard (env : Env) (reqNet : Tree.Net) (syncRule : Bool) :
    State.guard env s reqNet syncRule = State.guard env s' reqNet syncRule := by
  obtain ⟨_, _, _, _, h5, _, _, _, _, _, _, _, _, _, _, h16, h17, _, _⟩ := (sim_iff s s').mp h
  unfold State.guard State.network
  rw [Sim.isSynced h, h5, h16, h17]

end SimQueries

/-! ### record updates -/

theorem sim_with_unstable {s s' : State} (h : Sim s s') {u u' : Unstable} (hu : USim u u') :
    Sim { s with unstable := u } { s' with unstable := u' } := by
  have h' : norm s = norm s' := h
  have hu' : u.clearMetrics = u'.clearMetrics := hu
  show ({ norm s with unstable := u.clearMetrics } : State) = { norm s' with unstable := u'.clearMetrics }
  rw [h', hu']

theorem sim_with_utxos {s s' : State} (h : Sim s s') (x : UtxoSet) :
    Sim { s with utxos := x } { s' with utxos := x } := by
  have h' : norm s = norm s' := h
  show ({ norm s with utxos := x } : State) = { norm s' with utxos := x }
  rw [h']

theorem sim_with_headers {s s' : State} (h : Sim s s') (x : HeaderStore) :
    Sim { s with headers := x } { s' with headers := x } := by
  have h' : norm s = norm s' := h
  show ({ norm s with headers := x } : State) = { norm s' with headers := x }
  rw [h']

/-! ### trees that agree up to metrics -/

section TSimLemmas
variable {t t' : Tree CBlock} (h : TSim t t')
include h

theorem TSim.findDepth (x : Nat) :
    Tree.findDepth CBlock.hash x t = Tree.findDepth CBlock.hash x t' := by
  have h' : Tree.mapT stripC t = Tree.mapT stripC t' := h
  rw [← Tree.findDepth_mapT stripC CBlock.hash CBlock.hash (fun _ => rfl) x t, h',
    Tree.findDepth_mapT stripC CBlock.hash CBlock.hash (fun _ => rfl)]

theorem TSim.stableChild (net : Tree.Net) (thr bound : Nat) :
    Tree.stableChild CBlock.diff net thr bound t = Tree.stableChild CBlock.diff net thr bound t' := by
  have h' : Tree.mapT stripC t = Tree.mapT stripC t' := h
  rw [← Tree.stableChild_mapT stripC CBlock.diff CBlock.diff (fun _ => rfl) net thr bound t, h',
    Tree.stableChild_mapT stripC CBlock.diff CBlock.diff (fun _ => rfl)]

theorem TSim.blocksCount : t.blocksCount = t'.blocksCount := by
  have h' : Tree.mapT stripC t = Tree.mapT stripC t' := h
  rw [← Tree.blocksCount_mapT stripC t, h', Tree.blocksCount_mapT]

theorem TSim.tipDepths : t.tipDepths = t'.tipDepths := by
  have h' : Tree.mapT stripC t = Tree.mapT stripC t' := h
  rw [← Tree.tipDepths_mapT stripC t, h', Tree.tipDepths_mapT]

theorem TSim.blocks : t.blocks.map (·.blk) = t'.blocks.map (·.blk) := by
  have h' : Tree.mapT stripC t = Tree.mapT stripC t' := h
  have := congrArg (fun x => (Tree.blocks x).map (·.blk)) h'
  simpa only [Tree.blocks_mapT, List.map_map, Function.comp_def, stripC_blk] using this

theorem TSim.root : t.root.blk = t'.root.blk := by
  have h' : Tree.mapT stripC t = Tree.mapT stripC t' := h
  have := congrArg (fun x => (Tree.root x).blk) h'
  simpa only [Tree.root_mapT, stripC_blk] using this

/-- extending similar trees with blocks that agree up to metrics -/
theorem TSim.extend (prev : Nat) {cb cb' : CBlock} (hcb : stripC cb = stripC cb') {t1 : Tree CBlock}
    (he : Tree.extend CBlock.hash prev cb t = some t1) :
    ∃ t1', Tree.extend CBlock.hash prev cb' t' = some t1' ∧ TSim t1 t1' := by
  have h' : Tree.mapT stripC t = Tree.mapT stripC t' := h
  have e1 := Tree.extend_mapT stripC CBlock.hash CBlock.hash (fun _ => rfl) prev cb t
  have e2 := Tree.extend_mapT stripC CBlock.hash CBlock.hash (fun _ => rfl) prev cb' t'
  rw [he, hcb, h'] at e1
  rw [e1] at e2
  cases he' : Tree.extend CBlock.hash prev cb' t' with
  | none => rw [he'] at e2; simp at e2
  | some t1' =>
    rw [he'] at e2
    simp only [Option.map_some, Option.some.injEq] at e2
    exact ⟨t1', rfl, e2⟩

end TSimLemmas

/-! ### `push` -/

theorem push_ok_elim {u u' : Unstable} {utxos : UtxoSet} {b : Block}
    (hp : u.push utxos b = .ok u') :
    ∃ depth cache m tree, Tree.findDepth CBlock.hash b.prev u.tree = some depth ∧
      insertOutpoints u.cache utxos b (utxos.nextHeight + depth + 1) = some (cache, m) ∧
      Tree.extend CBlock.hash b.prev (CBlock.mk b (some m.feeRates) m.utxoDelta) u.tree = some tree ∧
      u' = { u with tree := tree, cache := cache, next := u.next.remove b.hash,
                    tipDepthsCache := tree.tipDepths,
                    blockCache := if u.blockCache.contains b.hash then u.blockCache
                      else u.blockCache ++ [b.hash] } := by
  unfold Unstable.push at hp
  split at hp
  · cases hp
  · rename_i depth hd
    dsimp only at hp
    split at hp
    · cases hp
    · rename_i cache m hi
      split at hp
      · cases hp
      · rename_i tree he
        cases hp
        exact ⟨depth, cache, m, tree, hd, hi, he, rfl⟩

/-- **`push` preserves similarity**: the same block is accepted by both states, gets the same
    metrics (`insert_outpoints` reads only the caches and the UTXO set), and the results are
    similar. -/
theorem sim_push {s s' : State} (h : Sim s s') (b : Block) (u : Unstable)
    (hp : s.unstable.push s.utxos b = .ok u) :
    ∃ u', s'.unstable.push s'.utxos b = .ok u' ∧
      Sim { s with unstable := u } { s' with unstable := u' } := by
  obtain ⟨depth, cache, m, tree, hd, hi, he, rfl⟩ := push_ok_elim hp
  obtain ⟨h1, h2, h3, h4, h5, h6, h7⟩ := (usim_iff _ _).mp h.usim
  have hU := h.utxos
  obtain ⟨tree', he', ht'⟩ := TSim.extend h2 b.prev (rfl : stripC _ = stripC _) he
  rw [h2.findDepth] at hd
  rw [h3, hU] at hi
  refine ⟨{ s'.unstable with
      tree := tree', cache := cache, next := s'.unstable.next.remove b.hash,
      tipDepthsCache := tree'.tipDepths,
      blockCache := if s'.unstable.blockCache.contains b.hash then s'.unstable.blockCache
        else s'.unstable.blockCache ++ [b.hash] }, by simp only [Unstable.push, hd, hi, he'], ?_⟩
  apply sim_with_unstable h
  rw [usim_iff]
  exact ⟨h1, ht', rfl, h4, by simp only [h5], ht'.tipDepths, by simp only [h7]⟩

/-- the other outcomes of `push` agree as well -/
theorem sim_push_doesNotExtend {s s' : State} (h : Sim s s') (b : Block)
    (hp : s.unstable.push s.utxos b = .doesNotExtend) :
    s'.unstable.push s'.utxos b = .doesNotExtend := by
  rw [InvPush.push_doesNotExtend_iff] at hp ⊢
  rw [← hp]
  have h' : Tree.mapT stripC s.unstable.tree = Tree.mapT stripC s'.unstable.tree := h.tsim
  rw [← Tree.contains_mapT stripC CBlock.hash CBlock.hash (fun _ => rfl) b.prev s'.unstable.tree, ← h',
    Tree.contains_mapT stripC CBlock.hash CBlock.hash (fun _ => rfl)]

/-! ### ingestion commutes with `norm` -/

theorem eraseIdx_map' {α β : Type} (f : α → β) :
    ∀ (l : List α) (i : Nat), (l.map f).eraseIdx i = (l.eraseIdx i).map f
  | [], _ => rfl
  | _ :: _, 0 => rfl
  | x :: xs, i + 1 => by
    show f x :: (xs.map f).eraseIdx i = f x :: (xs.eraseIdx i).map f
    rw [eraseIdx_map' f xs i]

theorem removeBlocks_map_stripC :
    ∀ (l : List CBlock) (c : OutPointsCache),
      Unstable.removeBlocks c (l.map stripC) = Unstable.removeBlocks c l
  | [], _ => rfl
  | b :: bs, c => by
    simp only [List.map_cons, Unstable.removeBlocks, stripC_blk]
    cases c.remove b.blk with
    | none => rfl
    | some c' => exact removeBlocks_map_stripC bs c'

theorem stableChildIdx_clear (bound : Unstable.BoundFn) (u : Unstable) :
    Unstable.stableChildIdx bound u.clearMetrics = Unstable.stableChildIdx bound u := by
  unfold Unstable.stableChildIdx
  show Tree.stableChild CBlock.diff u.net u.thr
      (bound (Tree.mapT stripC u.tree).blocksCount u.thr) (Tree.mapT stripC u.tree) = _
  rw [Tree.blocksCount_mapT, Tree.stableChild_mapT stripC CBlock.diff CBlock.diff (fun _ => rfl)]

theorem peek_clear (bound : Unstable.BoundFn) (u : Unstable) :
    Unstable.peek bound u.clearMetrics = (Unstable.peek bound u).map stripC := by
  unfold Unstable.peek
  rw [stableChildIdx_clear]
  show (Unstable.stableChildIdx bound u).map (fun _ => (Tree.mapT stripC u.tree).root) = _
  rw [Tree.root_mapT]
  cases Unstable.stableChildIdx bound u <;> rfl

/-- image of a `pop` result -/
def mapPop (f : Unstable → Unstable) : Unstable.PopResult → Unstable.PopResult
  | .none_ => .none_
  | .ok u b => .ok (f u) b
  | .trap m => .trap m

theorem pop_clear (bound : Unstable.BoundFn) (u : Unstable) (sh : Nat) :
    Unstable.pop bound u.clearMetrics sh = mapPop Unstable.clearMetrics (Unstable.pop bound u sh) := by
  unfold Unstable.pop
  rw [stableChildIdx_clear]
  cases Unstable.stableChildIdx bound u with
  | none => rfl
  | some idx =>
    obtain ⟨thr, tree, cache, net, next, tdc, bc⟩ := u
    cases tree with
    | node r cs =>
      have hl : (fun c : CBlock => ({ blk := c.blk, feeRates := none, utxoDelta := 0 } : CBlock)) =
          stripC := rfl
      have hold : (Tree.node ({ blk := r.blk, feeRates := none, utxoDelta := 0 } : CBlock)
            ((cs.map (Tree.mapT stripC)).eraseIdx idx)).blocks =
          (Tree.node r (cs.eraseIdx idx)).blocks.map stripC := by
        rw [eraseIdx_map', ← Tree.mapTList_eq_map, ← Tree.blocks_mapT]
        rfl
      simp only [Unstable.clearMetrics, hl, Tree.mapT, Tree.mapTList_eq_map, List.getElem?_map, hold,
        removeBlocks_map_stripC, List.map_map]
      have hh : (CBlock.hash ∘ stripC) = CBlock.hash := rfl
      simp only [hh]
      cases cs[idx]? with
      | none => rfl
      | some child =>
        simp only [Option.map_some]
        cases Unstable.removeBlocks cache (Tree.node r (cs.eraseIdx idx)).blocks with
        | none => rfl
        | some cache2 =>
          simp only
          split
          · rfl
          · simp only [mapPop, Unstable.clearMetrics, Tree.tipDepths_mapT, hl]

/-- image of an ingestion result -/
def mapIngest (f : State → State) : IngestResult → IngestResult
  | .paused s => .paused (f s)
  | .done s w => .done (f s) w
  | .trap m => .trap m

theorem popBlock_norm (bound : Unstable.BoundFn) (s : State) (x : Nat) :
    popBlock bound (norm s) x = (popBlock bound s x).map norm := by
  unfold popBlock
  show (match Unstable.pop bound s.unstable.clearMetrics s.utxos.nextHeight with
    | .ok u b => if b.hash = x then some { norm s with unstable := u } else none
    | _ => none) = _
  rw [pop_clear]
  cases Unstable.pop bound s.unstable s.utxos.nextHeight with
  | none_ => rfl
  | trap m => rfl
  | ok u b =>
    simp only [mapPop]
    split <;> rfl

theorem ingestNewStable_norm (bound : Unstable.BoundFn) :
    ∀ (fuel : Nat) (s : State) (budget : Nat) (w : Bool),
      ingestNewStable bound fuel (norm s) budget w =
        mapIngest norm (ingestNewStable bound fuel s budget w)
  | 0, _, _, _ => rfl
  | fuel + 1, s, budget, w => by
    rw [ingestNewStable, ingestNewStable]
    show (match Unstable.peek bound s.unstable.clearMetrics with
      | none => IngestResult.done (norm s) w
      | some anchor =>
        match s.utxos.ingestBlock anchor.blk budget with
        | .trap m => .trap m
        | .paused u => .paused (norm { s with headers := s.headers.insert anchor.blk s.utxos.nextHeight, utxos := u })
        | .done u budget' =>
          match popBlock bound (norm { s with headers := s.headers.insert anchor.blk s.utxos.nextHeight, utxos := u })
              anchor.blk.hash with
          | none => .trap "popped block differs from ingested block"
          | some s2 => ingestNewStable bound fuel s2 budget' true) = _
    rw [peek_clear]
    cases Unstable.peek bound s.unstable with
    | none => rfl
    | some anchor =>
      simp only [Option.map_some, stripC_blk]
      cases s.utxos.ingestBlock anchor.blk budget with
      | trap m => rfl
      | paused u => rfl
      | done u budget' =>
        simp only [popBlock_norm]
        cases popBlock bound { s with headers := s.headers.insert anchor.blk s.utxos.nextHeight, utxos := u }
            anchor.blk.hash with
        | none => rfl
        | some s2 =>
          simp only [Option.map_some]
          exact ingestNewStable_norm bound fuel s2 budget' true

theorem ingestStable_norm (bound : Unstable.BoundFn) (s : State) (budget : Nat) :
    ingestStable bound (norm s) budget = mapIngest norm (ingestStable bound s budget) := by
  unfold ingestStable
  show (match s.utxos.ingestContinue budget with
    | none => ingestNewStable bound ((Tree.mapT stripC s.unstable.tree).blocksCount + 1) (norm s) budget false
    | some (.trap m) => .trap m
    | some (.paused u) => .paused (norm { s with utxos := u })
    | some (.done u budget') =>
      match popBlock bound (norm { s with utxos := u })
          (match s.utxos.ingesting with | some ing => ing.block.hash | none => 0) with
      | none => .trap "popped block differs from ingested block"
      | some s2 => ingestNewStable bound ((Tree.mapT stripC s.unstable.tree).blocksCount + 1) s2 budget' true) = _
  rw [Tree.blocksCount_mapT]
  cases s.utxos.ingestContinue budget with
  | none => exact ingestNewStable_norm bound _ s budget false
  | some r =>
    cases r with
    | trap m => rfl
    | paused u => rfl
    | done u budget' =>
      simp only [popBlock_norm]
      cases popBlock bound { s with utxos := u }
          (match s.utxos.ingesting with | some ing => ing.block.hash | none => 0) with
      | none => rfl
      | some s2 =>
        simp only [Option.map_some]
        exact ingestNewStable_norm bound _ s2 budget' true

/-- ingestion results that agree up to fetch state and metrics -/
inductive IngestSim : IngestResult → IngestResult → Prop
  | paused {a b : State} : Sim a b → IngestSim (.paused a) (.paused b)
  | done {a b : State} (w : Bool) : Sim a b → IngestSim (.done a w) (.done b w)
  | trap (m : String) : IngestSim (.trap m) (.trap m)

theorem ingestSim_of_map {r r' : IngestResult} (h : mapIngest norm r = mapIngest norm r') :
    IngestSim r r' := by
  cases r <;> cases r' <;> simp only [mapIngest, IngestResult.paused.injEq, IngestResult.done.injEq,
    IngestResult.trap.injEq, reduceCtorEq] at h
  · exact .paused h
  · obtain ⟨h1, rfl⟩ := h
    exact .done _ h1
  · subst h
    exact .trap _

/-- **Ingestion preserves similarity**: `ingest_stable_blocks_into_utxoset` takes the same branch
    (pause / done with the same `did work` flag / trap with the same message) in similar states and
    leaves similar states. -/
theorem sim_ingestStable (bound : Unstable.BoundFn) {s s' : State} (h : Sim s s') (budget : Nat) :
    IngestSim (ingestStable bound s budget) (ingestStable bound s' budget) := by
  apply ingestSim_of_map
  have h' : norm s = norm s' := h
  rw [← ingestStable_norm, ← ingestStable_norm, h']

theorem sim_popBlock (bound : Unstable.BoundFn) {s s' : State} (h : Sim s s') (x : Nat) :
    (popBlock bound s x).map norm = (popBlock bound s' x).map norm := by
  have h' : norm s = norm s' := h
  rw [← popBlock_norm, ← popBlock_norm, h']

/-! ### after an upgrade the next request is an initial one -/

theorem upgrade_hashes (s : State) (c : Option SetConfig) :
    (s.upgrade c).unstable.tree.blocks.map CBlock.hash = s.unstable.tree.blocks.map CBlock.hash := by
  rw [(stripped_upgrade' s c).tree, Tree.blocks_mapT, List.map_map]
  rfl

/-- **The first request after an upgrade is an `Initial` one** carrying the anchor and all other
    unstable block hashes (in pre-order), whatever was being fetched or stored before. -/
theorem successorsRequest_upgrade (s : State) (c : Option SetConfig) :
    ∃ anchor rest, anchor :: rest = s.unstable.tree.blocks.map CBlock.hash ∧
      State.successorsRequest (s.upgrade c) = some (some (.initial anchor rest)) := by
  have hf := (Lemmas.Fetch.upgrade_fetch s c).2
  unfold State.successorsRequest
  rw [hf, upgrade_hashes]
  cases hl : s.unstable.tree.blocks.map CBlock.hash with
  | nil =>
    exfalso
    have := C13.blocks_ne_nil s.unstable.tree
    simp_all
  | cons a r => exact ⟨a, r, rfl, rfl⟩

/-- the anchor of that request is the root of the tree -/
theorem successorsRequest_upgrade_anchor (s : State) (c : Option SetConfig) :
    State.successorsRequest (s.upgrade c) =
      some (some (.initial s.unstable.tree.root.hash (s.unstable.tree.blocks.map CBlock.hash).tail)) := by
  obtain ⟨a, r, h1, h2⟩ := successorsRequest_upgrade s c
  rw [h2, ← h1]
  cases ht : s.unstable.tree with
  | node x cs =>
    rw [ht] at h1
    simp only [Tree.blocks, List.map_cons, List.cons.injEq] at h1
    simp [Tree.root, h1.1]

/-- **Heartbeat after an upgrade**: when syncing is enabled and the ingestion round has nothing to
    do, the heartbeat issues an `Initial` request and sets the fetch guard. -/
theorem heartbeatStart_upgrade (env : Env) (s : State) (c : Option SetConfig) (budget : Nat)
    (s1 : State) (hsync : (s.upgrade c).syncing.syncing = true)
    (hidle : (s.upgrade c).ingestStable env.bound budget = .done s1 false) :
    ∃ anchor rest, anchor :: rest = s.unstable.tree.blocks.map CBlock.hash ∧
      heartbeatStart env (s.upgrade c) budget =
        .awaiting { s.upgrade c with syncing := { (s.upgrade c).syncing with isFetching := true } }
          (.initial anchor rest) := by
  have := Lemmas.Fetch.ingestStable_done_false hidle
  subst this
  obtain ⟨a, r, h1, h2⟩ := successorsRequest_upgrade s c
  refine ⟨a, r, h1, ?_⟩
  rw [Lemmas.Fetch.heartbeatStart_eq, hidle]
  simp only [Lemmas.Fetch.afterIngest, Lemmas.Fetch.fetchDecision, hsync,
    (Lemmas.Fetch.upgrade_fetch s c).1, h2, Bool.not_true, Bool.false_eq_true, if_false]

/-! ### `MetricsOk` is an invariant: initialisation and `pop` -/

/-- `State::new` stores the specified metrics for the genesis block -/
theorem metricsOk_new (thr : Nat) (net : Tree.Net) (genesis : Block) (hvalid : TxValid [genesis]) :
    ∃ s0, State.new thr net genesis = some s0 ∧ Inv s0 [] ∧
      MetricsOk ([] ++ s0.unstable.tree.blocks.map (·.blk)) s0 := by
  obtain ⟨s0, h0, hinv⟩ := InvPush.init_establishes_inv thr net genesis hvalid
  refine ⟨s0, h0, hinv, ?_⟩
  have hwf : BlockWF genesis := by
    unfold TxValid at hvalid
    simp only [TxValidFrom] at hvalid
    exact hvalid.1
  obtain ⟨cache', m, hio, hres⟩ := insertOutpoints_spec
    (cache := {}) (utxos := {}) (hist := [genesis]) (G := []) (P := []) (b := genesis)
    ({} : UtxoSet).nextHeight (fun _ => rfl) (by intro o i h; simp at h) (by simp)
    (txidsConsistent_single hwf) (by simp) (by simp) (by simpa using hvalid)
  unfold State.new Unstable.new at h0
  simp only [hio, Option.some.injEq] at h0
  subst h0
  intro b hb
  have hb' : b = CBlock.mk genesis (some m.feeRates) m.utxoDelta := by
    simpa [Tree.leaf, Tree.blocks, Tree.blocksList] using hb
  subst hb'
  right
  refine ⟨?_, ?_⟩
  · show m.utxoDelta = blockUtxoDelta genesis
    rw [hres.utxoDelta, utxoDeltaSpec_eq]
  · show some m.feeRates = some (feeRatesSpec [genesis] genesis.txs)
    rw [hres.feeRates]

/-- **`MetricsOk` survives shrinking the tree and the history** (what `pop` does), as long as the
    caches stay exact for the new history: the inputs of the remaining blocks resolve the same way. -/
theorem MetricsOk.shrink {hist hist' : List Block} {s s' : State} (hm : MetricsOk hist s)
    (hcons : TxidsConsistent hist) (hsub : ∀ b ∈ hist', b ∈ hist)
    (hblocks : ∀ b ∈ s'.unstable.tree.blocks, b ∈ s.unstable.tree.blocks)
    (hce' : CachesExact s'.unstable hist') : MetricsOk hist' s' := by
  intro x hx
  rcases hm x (hblocks x hx) with h1 | ⟨h1, h2⟩
  · exact Or.inl h1
  · right
    refine ⟨h1, ?_⟩
    rw [h2]
    congr 1
    apply feeRatesSpec_congr
    intro tx htx o ho
    obtain ⟨info, _, hout⟩ := getTxOut_of_ref s'.unstable hist' hce' x hx o
      (mem_blockRefs_input x.blk tx htx o ho)
    rw [hout, outAt_mono hcons hsub hout]

theorem DeltaOk.shrink {s s' : State} (hd : DeltaOk s)
    (hblocks : ∀ b ∈ s'.unstable.tree.blocks, b ∈ s.unstable.tree.blocks) : DeltaOk s' :=
  fun b hb => hd b (hblocks b hb)

/-- **`pop` preserves `MetricsOk`** (with the stable chain extended by the popped anchor). -/
theorem metricsOk_pop (bound : Unstable.BoundFn) (s : State) (G : List Block) (sh : Nat)
    (r : CBlock) (cs : List (Tree CBlock)) (idx : Nat) (child : Tree CBlock)
    (htree : s.unstable.tree = .node r cs) (hidx : Unstable.stableChildIdx bound s.unstable = some idx)
    (hchild : cs[idx]? = some child) (hpre : PopPre s.unstable G)
    (hm : MetricsOk (G ++ s.unstable.tree.blocks.map (·.blk)) s) :
    ∃ u', Unstable.pop bound s.unstable sh = .ok u' r.blk ∧ u'.tree = child ∧
      ∀ utxos' headers', MetricsOk ((G ++ [r.blk]) ++ u'.tree.blocks.map (·.blk))
        { s with unstable := u', utxos := utxos', headers := headers' } := by
  obtain ⟨u', hpop, ht, _, _, hce'⟩ :=
    pop_caches bound s.unstable G sh r cs idx child htree hidx hchild hpre
  refine ⟨u', hpop, ht, fun utxos' headers' => ?_⟩
  have hsubT : ∀ b ∈ child.blocks, b ∈ s.unstable.tree.blocks := by
    intro b hb
    rw [htree]
    simp only [Tree.blocks, List.mem_cons]
    exact Or.inr ((Tree.blocks_child_sublist cs idx child hchild).subset hb)
  apply MetricsOk.shrink hm hpre.txids
  · intro b hb
    rw [ht] at hb
    simp only [List.mem_append, List.mem_map, List.mem_singleton] at hb ⊢
    rcases hb with (hg | rfl) | ⟨c, hc, rfl⟩
    · exact Or.inl hg
    · exact Or.inr ⟨r, by rw [htree]; simp [Tree.blocks], rfl⟩
    · exact Or.inr ⟨c, hsubT c hc, rfl⟩
  · intro b hb
    have hb' : b ∈ u'.tree.blocks := hb
    rw [ht] at hb'
    exact hsubT b hb'
  · have : CachesExact u' ((G ++ [r.blk]) ++ u'.tree.blocks.map (·.blk)) := by rw [ht]; exact hce'
    exact this

/-! ## Non-vacuity -/

/-- the example state of C01 (stable chain `[exG]`, one unstable block `exB1` stored with fee
    rates `[0]` and delta `3`) satisfies `MetricsOk` -/
theorem exMetricsOk :
    MetricsOk ([exG] ++ C01.exS.unstable.tree.blocks.map (·.blk)) C01.exS := by
  intro b hb
  have hb' : b = C01.exCB := by
    simpa [C01.exS, C01.exU, Tree.leaf, Tree.blocks, Tree.blocksList] using hb
  subst hb'
  right
  exact ⟨by decide, by decide⟩

example : (C01.exS.upgrade none).blockchainInfo = C01.exS.blockchainInfo :=
  blockchainInfo_upgrade _ exMetricsOk.deltaOk

example (n : Nat) :
    ((C01.exS.upgrade none).feePercentiles n).map (·.2) = (C01.exS.feePercentiles n).map (·.2) :=
  feePercentiles_upgrade_values C01.exInv exMetricsOk n

example : blockFeeRates (C01.exS.upgrade none) (stripC C01.exCB) = some [0] := by
  rw [blockFeeRates_upgrade C01.exInv exMetricsOk C01.exCB (by simp [C01.exS, C01.exU, Tree.leaf, Tree.blocks, Tree.blocksList])]
  rfl

/-- the upgrade is not the identity on this state (the metrics are gone) … -/
example : (C01.exS.upgrade none).unstable.tree.blocks.map (·.feeRates) = [none] ∧
    C01.exS.unstable.tree.blocks.map (·.feeRates) = [some [0]] := ⟨rfl, rfl⟩

/-- … but the two states are similar -/
example : Sim (C01.exS.upgrade none) C01.exS := sim_upgrade_inv C01.exInv

/-- a state whose only unstable block carries a wrong delta (7 instead of 3) -/
def exBad : State :=
  { C01.exS with unstable := { C01.exU with tree := Tree.leaf ⟨exB1, some [0], 7⟩ } }

/-- **the hypothesis `DeltaOk` of `blockchainInfo_upgrade` is needed**: with a wrong stored delta
    `utxos_length` changes across the upgrade (8 before, 4 after) -/
example : exBad.blockchainInfo.utxosLength = 8 ∧ (exBad.upgrade none).blockchainInfo.utxosLength = 4 ∧
    ¬ DeltaOk exBad := by
  refine ⟨by decide, by decide, ?_⟩
  intro h
  have := h ⟨exB1, some [0], 7⟩ (by simp [exBad, Tree.leaf, Tree.blocks, Tree.blocksList])
  revert this
  decide

/-- the first request after upgrading the example state -/
example : State.successorsRequest (C01.exS.upgrade none) = some (some (.initial 101 [])) := by decide

/-- `sim_push`, `metricsOk_push` on the two-block example of `InvPush` -/
example : ∃ s0 u1 u1', State.new 2 .regtest InvPush.g0 = some s0 ∧
    s0.unstable.push s0.utxos InvPush.b1 = .ok u1 ∧
    (s0.upgrade none).unstable.push (s0.upgrade none).utxos InvPush.b1 = .ok u1' ∧
    Sim { s0.upgrade none with unstable := u1' } { s0 with unstable := u1 } ∧
    MetricsOk ([] ++ u1.tree.blocks.map (·.blk)) { s0 with unstable := u1 } := by
  obtain ⟨s0, h0, hinv, hm0⟩ := metricsOk_new 2 .regtest InvPush.g0 (by decide)
  obtain ⟨_, fr, d, ht⟩ := InvPush.new_shape h0
  have hblocks : s0.unstable.tree.blocks.map (·.blk) = [InvPush.g0] := by rw [ht]; rfl
  obtain ⟨u1, hp, hinv1, hm1⟩ := metricsOk_push s0 [] InvPush.b1 hinv
    (by rw [hblocks]; decide)
    (by rw [ht]; simp [Tree.contains, Tree.leaf, Tree.chainWithTip, CBlock.hash, InvPush.g0, InvPush.b1])
    (by
      intro p hp
      rw [ht] at hp
      simp only [pathBlocks, Tree.leaf, Tree.chainWithTip] at hp
      split at hp
      · simp only [Option.map_some, List.map_cons, List.map_nil, Option.some.injEq] at hp
        subst hp
        decide
      · rename_i hn; exact absurd rfl hn)
    (by rw [hblocks]; decide) hm0
  obtain ⟨u1', hp', hsim⟩ := sim_push (sim_upgrade_inv hinv).symm InvPush.b1 u1 hp
  exact ⟨s0, u1, u1', h0, hp, hp', hsim.symm, hm1⟩

/-- ingestion in the upgraded example state mirrors ingestion in the original one -/
example (bound : Unstable.BoundFn) (budget : Nat) :
    IngestSim (ingestStable bound (C01.exS.upgrade none) budget) (ingestStable bound C01.exS budget) :=
  sim_ingestStable bound (sim_upgrade_inv C01.exInv) budget

/-- similar states answer `get_utxos` alike — instance: the upgraded example state -/
example : (C01.exS.upgrade none).getUtxos (.ok [2]) .none_ 10 = C01.exS.getUtxos (.ok [2]) .none_ 10 :=
  (sim_upgrade_inv C01.exInv).getUtxos _ _ _

end Btc.Props.C09
