import BtcModel.Props.C01

/-!
# C05 — `get_balance` agrees with `get_utxos`

Under the invariant (plus `Spec.TxidsUnique`, see C01), `get_balance(a, c)` is the sum of the values
of the complete `get_utxos(a, min_confirmations = c)` answer: both walk the same prefix of the main
chain (`State.stablePrefix`), and both equal the reference ledger of `a` at `G ++ prefix`.
Both endpoints report the same errors for a malformed address, an address of another network and
a too large `min_confirmations`.
-/
namespace Btc.Props.C05
open Btc Btc.Spec Btc.State

/-- the blocks both endpoints apply for `min_confirmations = c` -/
def counted (s : State) (c : Nat) : List CBlock :=
  stablePrefix (Tree.levels CBlock.hash s.unstable.tree) c s.unstable.mainChain 0

theorem counted_pathCtx {s : State} {G : List Block} (hinv : Inv s G)
    (hU : TxidsUnique (G ++ s.unstable.mainChain.map (·.blk))) (c : Nat) :
    PathCtx s G (counted s c) := by
  obtain ⟨rest, hrest⟩ := C01.stablePrefix_isPrefix (Tree.levels CBlock.hash s.unstable.tree) c
    s.unstable.mainChain 0
  have hp0 := C01.mainChain_pathCtx hinv hU
  rw [hrest] at hp0
  exact hp0.prefix

/-- **`get_balance` is the ledger balance** of `a` at the chain `G ++ counted`. -/
theorem getBalance_eq_ledger {s : State} {G : List Block} (hinv : Inv s G)
    (hU : TxidsUnique (G ++ s.unstable.mainChain.map (·.blk)))
    (a : Addr) (c : Nat) (hc : c ≤ s.unstable.mainChain.length) :
    s.getBalance (.ok a) c = .ok (totalValue (ledgerFor a (G ++ (counted s c).map (·.blk)))) := by
  have hp := counted_pathCtx hinv hU c
  have hst := getBalance_stable s.utxos (ledger G) hinv.stable a
  rw [getBalance_unfold s a c _ hst hc]
  have := balFold_spec hinv a (counted s c) [] (by simpa using hp)
  simp only [List.map_nil, List.append_nil, List.nil_append] at this
  rw [← ledgerFor_eq_lfor]
  unfold counted at this
  rw [this]
  rfl

/-- **C05**: `get_balance(a, c)` is the sum of the values of the complete list `l` that
    `get_utxos(a, min_confirmations = c)` pages through (the same `l` as in
    `C01.getUtxos_minConf`: `r.utxos = l.take limit`, next page iff `l` is longer). -/
theorem balance_eq_sum_of_utxos {s : State} {G : List Block} (hinv : Inv s G)
    (hU : TxidsUnique (G ++ s.unstable.mainChain.map (·.blk)))
    (a : Addr) (c limit : Nat) (hc : c ≤ s.unstable.mainChain.length) :
    ∃ l r, s.getUtxos (.ok a) (.minConf c) limit = .ok r ∧
      r.utxos = l.take limit ∧ (r.nextPage = none ↔ l.length ≤ limit) ∧
      l.Perm (ledgerFor a (G ++ (counted s c).map (·.blk))) ∧
      s.getBalance (.ok a) c = .ok (totalValue l) := by
  have hp := counted_pathCtx hinv hU c
  obtain ⟨r, hr, hu, hn, _⟩ := C01.getUtxosFromChain_ok hinv a c s.unstable.mainChain limit hc hp
  obtain ⟨_, _, h3, _⟩ := addressUtxos_path hinv hp a
  refine ⟨resultList s G a (counted s c), r, hr, hu, hn, h3, ?_⟩
  rw [getBalance_eq_ledger hinv hU a c hc, totalValue_perm h3]

/-- In particular, when the whole answer fits in one page, the balance is the sum of the values
    of the returned UTXOs. -/
theorem balance_eq_sum_single_page {s : State} {G : List Block} (hinv : Inv s G)
    (hU : TxidsUnique (G ++ s.unstable.mainChain.map (·.blk)))
    (a : Addr) (c limit : Nat) (hc : c ≤ s.unstable.mainChain.length) (r : UtxosResponse)
    (hr : s.getUtxos (.ok a) (.minConf c) limit = .ok r) (hnext : r.nextPage = none) :
    s.getBalance (.ok a) c = .ok (totalValue r.utxos) := by
  obtain ⟨l, r', hr', hu, hn, _, hb⟩ := balance_eq_sum_of_utxos hinv hU a c limit hc
  rw [hr] at hr'
  injection hr' with hr'
  subst hr'
  rw [hb, hu, List.take_of_length_le (hn.mp hnext)]

/-! ### Errors agree -/

theorem malformed_agree (s : State) (c limit : Nat) :
    s.getBalance .malformed c = .err .malformedAddress ∧
    s.getUtxos .malformed (.minConf c) limit = .err .malformedAddress := ⟨rfl, rfl⟩

theorem wrongNetwork_agree (s : State) (c limit : Nat) :
    s.getBalance .wrongNetwork c = .err .wrongNetwork ∧
    s.getUtxos .wrongNetwork (.minConf c) limit = .err .wrongNetwork := ⟨rfl, rfl⟩

/-- a too large `min_confirmations` is reported identically by both endpoints (the stable balance
    lookup of `get_balance` cannot fail first: no block is being ingested) -/
theorem tooLarge_agree {s : State} {G : List Block} (hinv : Inv s G) (a : Addr) (c limit : Nat)
    (hc : s.unstable.mainChain.length < c) :
    s.getBalance (.ok a) c = .err (.minConfirmationsTooLarge c s.unstable.mainChain.length) ∧
    s.getUtxos (.ok a) (.minConf c) limit =
      .err (.minConfirmationsTooLarge c s.unstable.mainChain.length) := by
  have hst := getBalance_stable s.utxos (ledger G) hinv.stable a
  constructor
  · unfold State.getBalance
    simp only [hst, hc, if_true]
  · unfold State.getUtxos State.getUtxosFromChain
    simp only [hc, if_true]

/-! ### Non-vacuity (the concrete state of `C01.exS`) -/

example : C01.exS.getBalance (.ok [1]) 0 = .ok 20 := by
  rw [getBalance_eq_ledger C01.exInv C01.exUnique [1] 0 (Nat.zero_le _)]
  have : totalValue (ledgerFor [1] ([exG] ++ (counted C01.exS 0).map (·.blk))) = 20 := by decide
  rw [this]

example : C01.exS.getBalance (.ok [2]) 1 = .ok 80 := by
  rw [getBalance_eq_ledger C01.exInv C01.exUnique [2] 1 (by decide)]
  have : totalValue (ledgerFor [2] ([exG] ++ (counted C01.exS 1).map (·.blk))) = 80 := by decide
  rw [this]

end Btc.Props.C05
