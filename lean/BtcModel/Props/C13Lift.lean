import BtcModel.Lemmas.Lift1315

/-!
# C13 for the REAL message-level system: the gaps of the audit closed

`Props/C13.lean` proves the safety half of C13 on the abstract system `Spec.Fetch`; several of its
theorems take hypotheses that nothing establishes for reachable states (`no_block_twice` needs
`TreeOk`, `hdet`, `hanchor`), and `trace_consecutive` / the reassembly theorems speak about
`Spec.Fetch` runs, in which endpoint calls do not exist.  This file proves the statements for the
message-level system of `Spec/FullSys.lean` (`FullReachable`, `stepMsg`, `run`, `Trusted`).

## A1. No block twice
* `hashes_pairwise_distinct`, `hashes_split`, `treeOk_reachable`: in every reachable
  configuration (paused or not) the hashes of `G ++ tree blocks` are pairwise distinct and the tree
  is `TreeOk`; `no_block_twice_reachable` = `C13.no_block_twice` with `TreeOk` discharged.
* `applied_blocks_distinct`: the blocks a processing heartbeat accepts have pairwise distinct
  hashes, none in `G`, none in the tree before.
* `reoffered_block_rejected`: a block offered again (ingested before / in the tree / accepted
  earlier in the same response) is refused, the rest of the response is dropped,
  `insert_errors` moves by exactly one.  `known_block_refused`: the code refuses such a block by
  itself (`AlreadyKnown` / `BlockDoesNotExtendTree`) when a hash determines the parent hash — no
  environment assumption on the offered block.

## A2. Consecutive numbering and reassembly on real runs
* `traceM_consecutive`, `traceM_exchanges`: along ANY schedule of messages (endpoint calls
  interleaved, no environment assumption at all) whose delivered replies are of the kind the
  request asks for (`WellTypedM`), the requests are: initial, follow-ups 0,1,2,…, initial, ….
* `traceM_consecutiveW`, `reachable_consecutiveW`: without `WellTypedM` a request may be
  *repeated* and nothing else goes wrong; `reply_traps_iff`, `trapped_reply`: the continuation
  traps exactly on ill-typed replies, the trap releases the guard, the same request is re-sent.
* `reassembly_runM`, `fetch_block_in_pagesM`: page reassembly with heartbeats and endpoint calls
  interleaved.

## A3. No interleaving loses a block
* `SuccessorsOf`, `Offers`: the environment-side predicate.
* `delivered_block_applied`, `valid_response_applied`, `allPass_of_successors`: a delivered block
  that passes validation is in the tree after the next effective heartbeat; successors are never
  refused for their position in the tree.
* `request_lists_tree`, `unpushed_hash_never_listed`, `dropped_block_offered_again`: a dropped
  block is not listed by any later initial request, so a source that offers successors offers it
  again.
-/
namespace Btc.Props.C13Lift
open Btc Btc.State Btc.Spec Btc.Spec.Full Btc.Lemmas.Reach Btc.Lemmas.Reach2 Btc.Lemmas.Fetch
open Btc.Lemmas.FullSys Btc.Lemmas.FetchLive Btc.Lemmas.FullLive Btc.Lemmas.FullCor
open Btc.Lemmas.Lift1315 Btc.Props Btc.Props.C13Live Btc.Props.C13Full

variable {sys : Fetch.Sys} {G : List Block}

/-! ## A1. No block twice -/

/-- **The hashes of the ingested blocks and of the unstable blocks are pairwise distinct in every
    reachable configuration**, paused or not (`Inv.hashesNodup` through `fullReachable_inv`; for a
    paused configuration through `PausedAt'`, which leaves the unstable blocks alone). -/
theorem hashes_pairwise_distinct (hr : FullReachable sys G) :
    ((G ++ sys.st.unstable.tree.blocks.map (·.blk)).map (·.hash)).Nodup :=
  inv2_hashesNodup (fullReachable_inv2 hr)

/-- the same, split: no ingested block twice, no unstable block twice, none in both -/
theorem hashes_split (hr : FullReachable sys G) :
    (G.map (·.hash)).Nodup ∧ (treeHashes sys.st).Nodup ∧
    ∀ g ∈ G, g.hash ∉ treeHashes sys.st := by
  have h := hashes_pairwise_distinct hr
  rw [List.map_append, List.map_map, List.nodup_append] at h
  refine ⟨h.1, h.2.1, fun g hg hm => ?_⟩
  exact h.2.2 g.hash (List.mem_map_of_mem hg) g.hash hm rfl

/-- **`TreeOk` — the hypothesis of `C13.no_block_twice` — holds in every reachable configuration**:
    children point to their parents and no hash occurs twice. -/
theorem treeOk_reachable (hr : FullReachable sys G) : Fetch.TreeOk sys.st.unstable.tree :=
  inv2_treeOk (fullReachable_inv2 hr)

/-- **`C13.no_block_twice` for reachable configurations**: `TreeOk` is discharged; what remains is
    that the hash determines the parent hash (the hash is the hash of the header, which contains
    `prev`) and that the offered block is not the anchor.  Then an accepted block was not in the
    tree, and was not ingested before either. -/
theorem no_block_twice_reachable (hr : FullReachable sys G) (env : Env) (s' : State) (b : Block)
    (hdet : ∀ x ∈ sys.st.unstable.tree.blocks, x.hash = b.hash → x.blk.prev = b.prev)
    (hanchor : sys.st.unstable.tree.root.hash ≠ b.hash)
    (h : insertBlock env sys.st b = .ok s') :
    b.hash ∉ treeHashes sys.st ∧ Fetch.TreeOk s'.unstable.tree :=
  C13.no_block_twice env sys.st s' b (treeOk_reachable hr) hdet hanchor h


/-- **A block that is already known is refused by the code itself** — no environment assumption
    on the offered block.  Reachable configuration; `b` carries the hash of a block `x` that was
    ingested or is in the tree; the hash determines the parent hash (`hdet`: collision-freeness of
    the header hash, `prev` is a field of the header); the genesis block's `prev` (all-zero in
    Bitcoin) is not the hash of an unstable block (`hgen`).  Then `insert_block` returns
    `AlreadyKnown` (the block hangs in the tree) or `BlockDoesNotExtendTree` (the block is the
    anchor or was ingested: its parent is no longer in the tree) — it neither accepts nor traps. -/
theorem known_block_refused (hr : FullReachable sys G) (env : Env) (b : Block)
    (hknown : b.hash ∈ (G ++ sys.st.unstable.tree.blocks.map (·.blk)).map (·.hash))
    (hdet : ∀ x ∈ G ++ sys.st.unstable.tree.blocks.map (·.blk), x.hash = b.hash → x.prev = b.prev)
    (hgen : ∀ x, firstBlock sys.st G = some x → x.prev ∉ treeHashes sys.st) :
    insertBlock env sys.st b = .rejected "AlreadyKnown" ∨
    insertBlock env sys.st b = .rejected "BlockDoesNotExtendTree" := by
  have h2 := fullReachable_inv2 hr
  obtain ⟨hnG, hnT, hdis⟩ := hashes_split hr
  have unknown : b.prev ∉ treeHashes sys.st →
      insertBlock env sys.st b = .rejected "BlockDoesNotExtendTree" := fun hn =>
    C10.rejected_unknown_parent env sys.st b
      (Btc.TreeExtend.chainWithTip_none_of_not_mem CBlock.hash b.prev _ hn)
  obtain ⟨x, hx, hxe⟩ := List.mem_map.mp hknown
  have hprev := hdet x hx hxe
  rw [List.mem_append] at hx
  rcases hx with hx | hx
  · -- an ingested block
    right
    apply unknown
    obtain ⟨i, hi, rfl⟩ := List.getElem_of_mem hx
    cases i with
    | zero =>
      rw [← hprev]
      apply hgen
      unfold firstBlock
      rw [List.head?_eq_getElem?, List.getElem?_append_left hi, List.getElem?_eq_getElem hi]
    | succ i =>
      rw [← hprev, inv2_stableLinked h2 i hi]
      exact hdis _ (List.getElem_mem _)
  · obtain ⟨c, hc, rfl⟩ := List.mem_map.mp hx
    have hok := treeOk_reachable hr
    rcases child_of_parent CBlock.hash (fun c => c.blk.prev) _ hok.1 hok.2 c hc with rfl | ⟨ch, su, hch, hs⟩
    · -- the anchor
      right
      apply unknown
      rw [← hprev]
      cases hl : G.getLast? with
      | none =>
        have hG : G = [] := List.getLast?_eq_none_iff.mp hl
        apply hgen
        simp [firstBlock, hG]
      | some g =>
        rw [inv2_rootLinked h2 g hl]
        exact hdis g (List.mem_of_getLast? hl)
    · left
      simp only [hprev] at hch
      exact C10.rejected_already_known env sys.st b ch su hch
        (List.any_eq_true.mpr ⟨c, hs, by simpa [CBlock.hash] using hxe⟩)

/-- the state in which `maybe_process_response` examines the first blob: the response taken -/
abbrev taken (s : State) : State := { s with syncing := { s.syncing with response := none } }

/-- **Every block is applied at most once, and never after it was ingested**: the blocks a
    processing heartbeat accepts carry pairwise distinct hashes, none of which is the hash of an
    ingested block or of a block already in the tree. -/
theorem applied_blocks_distinct (hr : FullReachable sys G) (env : Env) (b : Nat)
    (ht : Trusted env (sys, G) (.heartbeat b)) (r : CompleteResp)
    (hresp : sys.st.syncing.response = some (.complete r)) (hq : quiet env b sys.st = true) :
    (G.map (·.hash) ++ ((acceptedBlocks env (taken sys.st) r.blocks).map (·.hash) ++
      treeHashes sys.st)).Nodup := by
  obtain ⟨s', s2, _, hstep, _, _, _, _, _, _, hperm, _, _⟩ :=
    response_applied_once hr env b ht r hresp hq
  have hr' : FullReachable (stepMsg env (sys, G) (.heartbeat b)).1
      (stepMsg env (sys, G) (.heartbeat b)).2 := FullReachable.step sys G env _ hr ht
  rw [hstep] at hr'
  have := hashes_pairwise_distinct hr'
  rw [List.map_append, ← map_hash_eq] at this
  exact (List.Perm.append_left _ hperm).nodup_iff.mp this

/-- **A block offered a second time is refused** — whether it was ingested, is in the tree, or was
    accepted earlier in the same response.  Reachable configuration, the heartbeat finds ingestion
    at rest and processes the stored response `r = pre ++ blob :: rest`; the blobs `pre` are all
    accepted (state `sMid`), `blob` decodes to a block whose hash is the hash of an ingested block
    or of a block of the tree of `sMid`.  Then `insert_block` refuses it (it neither accepts nor
    traps), the loop stops: exactly `pre` is applied, `rest` is dropped unexamined,
    `insert_errors` moves by one and nothing else. -/
theorem reoffered_block_rejected (hr : FullReachable sys G) (env : Env) (b : Nat)
    (ht : Trusted env (sys, G) (.heartbeat b)) (r : CompleteResp)
    (hresp : sys.st.syncing.response = some (.complete r)) (hq : quiet env b sys.st = true)
    (pre : List String) (blob : String) (rest : List String) (hsplit : r.blocks = pre ++ blob :: rest)
    (sMid : State) (hpre : processBlocks env (taken sys.st) pre = some (sMid, false))
    (blk : Block) (hdec : env.dec.block blob = some blk)
    (hknown : blk.hash ∈ (G ++ sMid.unstable.tree.blocks.map (·.blk)).map (·.hash)) :
    (∃ why, insertBlock env sMid blk = .rejected why) ∧
    acceptedBlocks env (taken sys.st) r.blocks = acceptedBlocks env (taken sys.st) pre ∧
    ∃ s', heartbeatStart env sys.st b = .processed s' ∧
      s'.syncing.insertErrors = sys.st.syncing.insertErrors + 1 ∧
      s'.syncing.deserializeErrors = sys.st.syncing.deserializeErrors ∧
      s'.unstable = sMid.unstable ∧ s'.syncing.response = none := by
  have hi := (quiet_iff env b _).mp hq
  have hni := (ingestStable_done_false' hi).2
  have hA : InvAll sys.st G := (FullSys.fullReachable_inv hr).1 (by simp [Paused, hni])
  obtain ⟨ht1, _⟩ := ht (pastIngestion_iff.mpr hi) r hresp
  simp only at ht1
  have hA0 : InvAll (taken sys.st) G := invAll_frame (clearResponse_frame sys.st) hA
  rw [hsplit] at ht1
  obtain ⟨hAm, _, _⟩ := processBlocks_mid env G pre (taken sys.st) sMid hA0
    (trustedBlocks_prefix env G pre _ _ ht1) hpre
  have tmid := trustedBlocks_after env G pre (taken sys.st) sMid (blob :: rest) ht1 hpre
  obtain ⟨tm1, _⟩ := tmid blk hdec
  have hrej : ∃ why, insertBlock env sMid blk = .rejected why := by
    cases hib : insertBlock env sMid blk with
    | ok s'' => exact absurd hknown (tm1 (passes_of_ok hib)).fresh
    | rejected why => exact ⟨why, rfl⟩
    | trap =>
      exfalso
      rcases insertBlock_trap_cases hib with ht' | ⟨hp, hn⟩
      · exact headerTraps_false hAm.invU.inv blk ht'
      · obtain ⟨u, hu, _⟩ := accepted_of_passes hAm.invU (tm1 hp) hp
        exact hn u hu
  obtain ⟨why, hwhy⟩ := hrej
  have hpb : processBlocks env (taken sys.st) r.blocks = some (C10.bumpInsert sMid, true) := by
    rw [hsplit]
    exact (C10.processBlocks_stops_at_bad env _ sMid pre blob rest hpre).2 blk why hdec hwhy
  have hpr : processResponse env sys.st = some (C10.bumpInsert sMid) := by
    unfold processResponse
    rw [hresp]
    simp only
    rw [show ({ sys.st with syncing := { sys.st.syncing with response := none } } : State) =
      taken sys.st from rfl, hpb]
  have hsy : sMid.syncing = (taken sys.st).syncing := processBlocks_false_syncing env pre _ sMid hpre
  refine ⟨⟨why, hwhy⟩, ?_, ?_⟩
  · rw [hsplit, acceptedBlocks_append env pre _ sMid _ hpre]
    simp only [acceptedBlocks, hdec, hwhy, List.append_nil]
  · obtain ⟨s', _, h, _⟩ := response_applied_once hr env b ht r hresp hq
    obtain ⟨_, _, s2, hp2, _, _, _, _, hcase⟩ := processed_anatomy hr env b ht s' h
    rw [hpr] at hp2
    cases hp2
    have key : s'.syncing = (C10.bumpInsert sMid).syncing ∧ s'.unstable = (C10.bumpInsert sMid).unstable := by
      rcases hcase with ⟨_, rfl⟩ | ⟨_, p, hfp⟩
      · exact ⟨rfl, rfl⟩
      · rw [feePercentiles_eq hfp]; exact ⟨rfl, rfl⟩
    refine ⟨s', h, ?_, ?_, key.2, ?_⟩
    · rw [key.1]; show sMid.syncing.insertErrors + 1 = _; rw [hsy]
    · rw [key.1]; show sMid.syncing.deserializeErrors = _; rw [hsy]
    · rw [key.1]; show sMid.syncing.response = _; rw [hsy]

/-! ## A2. Consecutive numbering and reassembly along real runs -/

/-- consecutive numbering from a configuration whose bookkeeping invariant holds for `last` -/
theorem traceM_consecutive_from : ∀ (msgs : List (Env × Msg)) {c : Cfg} {last : Option Request},
    C13.Inv c.1 → C13.Ghost c.1 last → WellTypedM c msgs → C13.Consecutive last (traceM c msgs)
  | [], _, _, _, _, _ => trivial
  | (env, m) :: rest, c, last, inv, g, hw => by
    obtain ⟨hw1, hw2⟩ := hw
    obtain ⟨hf, g'⟩ := ghost_stepM env inv g m hw1
    have inv' : C13.Inv (stepMsg env c m).1 := fetchInv_stepM env m inv
    have := traceM_consecutive_from rest (c := stepMsg env c m) inv' g' hw2
    simp only [traceM]
    cases hi : issuedM env c.1 m with
    | none => rw [hi] at this; simpa using this
    | some req => rw [hi] at this; exact ⟨hf req hi, this⟩

/-- **Follow-up requests are numbered consecutively from 0 along every schedule of messages** —
    heartbeats with any budgets, replies, rejects, upgrades, `set_config`s and endpoint calls in any
    order — in which every reply delivered to a suspended heartbeat is of the kind its request
    asks for (`WellTypedM`): every `followUp 0` comes immediately after an initial request, every
    `followUp (k+1)` immediately after `followUp k`.  From a configuration with nothing outstanding
    and nothing stored (after `State::new`, after an upgrade). -/
theorem traceM_consecutive {c : Cfg} (h : c.1.Initial) (msgs : List (Env × Msg))
    (hw : WellTypedM c msgs) : C13.Consecutive none (traceM c msgs) := by
  refine traceM_consecutive_from msgs (C13.inv_initial h) ?_ hw
  obtain ⟨hp, _, hr⟩ := h
  exact C13.ghost_idle hp (fun p k h' => by rw [hr] at h'; cases h')

theorem traceM_consecutiveW_from : ∀ (msgs : List (Env × Msg)) {c : Cfg} {last : Option Request},
    C13.Inv c.1 → GhostW c.1 last → ConsecutiveW last (traceM c msgs)
  | [], _, _, _, _ => trivial
  | (env, m) :: rest, c, last, inv, g => by
    obtain ⟨hf, g'⟩ := ghostW_stepM env inv g m
    have inv' : C13.Inv (stepMsg env c m).1 := fetchInv_stepM env m inv
    have := traceM_consecutiveW_from rest (c := stepMsg env c m) inv' g'
    simp only [traceM]
    cases hi : issuedM env c.1 m with
    | none => rw [hi] at this; simpa using this
    | some req => rw [hi] at this; exact ⟨hf req hi, this⟩

/-- **Without the type discipline: any replies, any schedule.**  Every follow-up request
    `followUp k` comes immediately after an initial request (`k = 0`), after `followUp (k-1)`, or
    after `followUp k` itself: an ill-typed reply makes the continuation trap, the trap rolls the
    message back except that the fetch guard is released, and the next heartbeat re-sends the same
    request. -/
theorem traceM_consecutiveW {c : Cfg} (h : c.1.Initial) (msgs : List (Env × Msg)) :
    ConsecutiveW none (traceM c msgs) := by
  refine traceM_consecutiveW_from msgs (C13.inv_initial h) ?_
  obtain ⟨hp, _, hr⟩ := h
  exact ghostW_idle hp (fun p k h' => by rw [hr] at h'; cases h')

/-- … and from every reachable configuration, for a suitable "last request" -/
theorem reachable_consecutiveW (hr : FullReachable sys G) :
    ∃ last, GhostW sys last ∧ ∀ msgs, ConsecutiveW last (traceM (sys, G) msgs) := by
  have key : ∃ last, GhostW sys last := by
    induction hr with
    | init thr net genesis s0 hv hn =>
      obtain ⟨hp, _, hr⟩ := new_initial hn
      exact ⟨none, ghostW_idle hp (fun p k h' => by
        have : s0.syncing.response = none := hr
        rw [this] at h'; cases h')⟩
    | step sys G env m hr' _ ih =>
      obtain ⟨last, g⟩ := ih
      exact ⟨_, (ghostW_stepM env (fullReachable_fetchInv hr') g m).2⟩
  obtain ⟨last, g⟩ := key
  exact ⟨last, g, fun msgs => traceM_consecutiveW_from msgs (fullReachable_fetchInv hr) g⟩

/-! ### The shape of the sequence of requests -/

/-- one exchange: an initial request and the `m` follow-ups `0, …, m-1` -/
def exchange (x : Nat × List Nat × Nat) : List Request :=
  .initial x.1 x.2.1 :: (List.range x.2.2).map Request.followUp

/-- where the numbering continues after `prev` -/
def nextIndex : Option Request → Nat
  | some (.followUp k) => k + 1
  | _ => 0

theorem consecutive_shape : ∀ (tr : List Request) (prev : Option Request), C13.Consecutive prev tr →
    ∃ m segs, tr = (List.range m).map (fun i => Request.followUp (nextIndex prev + i)) ++
      List.flatMap exchange segs ∧ (prev = none → m = 0)
  | [], _, _ => ⟨0, [], rfl, fun _ => rfl⟩
  | r :: rs, prev, h => by
    obtain ⟨hf, hrest⟩ := h
    obtain ⟨m, segs, e, _⟩ := consecutive_shape rs (some r) hrest
    cases r with
    | initial a l =>
      refine ⟨0, (a, l, m) :: segs, ?_, fun _ => rfl⟩
      rw [e]
      simp [exchange, nextIndex]
    | followUp k =>
      have hk : nextIndex prev = k ∧ prev ≠ none := by
        cases k with
        | zero =>
          obtain ⟨a, l, rfl⟩ := hf
          exact ⟨rfl, by simp⟩
        | succ j =>
          have : prev = some (.followUp j) := hf
          subst this
          exact ⟨rfl, by simp⟩
      refine ⟨m + 1, segs, ?_, fun hn => absurd hn hk.2⟩
      rw [e, hk.1, List.range_succ_eq_map]
      simp only [nextIndex, List.map_cons, List.map_map, Nat.add_zero, List.cons_append,
        List.cons.injEq, true_and, List.append_cancel_right_eq]
      apply List.map_congr_left
      intro i _
      simp only [Function.comp, Nat.succ_eq_add_one]
      congr 1; omega

/-- **The sequence of requests of a well-typed run is a sequence of exchanges**: an initial
    request, then the follow-ups numbered `0, 1, 2, …` while the pages of one block arrive, then an
    initial request again. -/
theorem traceM_exchanges {c : Cfg} (h : c.1.Initial) (msgs : List (Env × Msg))
    (hw : WellTypedM c msgs) : ∃ segs, traceM c msgs = List.flatMap exchange segs := by
  obtain ⟨m, segs, e, hm⟩ := consecutive_shape _ none (traceM_consecutive h msgs hw)
  rw [hm rfl] at e
  exact ⟨segs, by simpa using e⟩

/-- **… in particular along every schedule of messages from `State::new`**: the sequence of
    requests the canister ever sends is a sequence of exchanges `initial, followUp 0, followUp 1, …`
    (no environment assumption other than the type discipline of the replies is needed). -/
theorem traceM_consecutive_new {thr : Nat} {net : Tree.Net} {genesis : Block} {s0 : State}
    (hn : State.new thr net genesis = some s0) (msgs : List (Env × Msg))
    (hw : WellTypedM ({ st := s0, pending := none }, []) msgs) :
    C13.Consecutive none (traceM ({ st := s0, pending := none }, []) msgs) ∧
    ∃ segs, traceM ({ st := s0, pending := none }, []) msgs = List.flatMap exchange segs :=
  ⟨traceM_consecutive (c := ({ st := s0, pending := none }, [])) (new_initial hn) msgs hw,
    traceM_exchanges (c := ({ st := s0, pending := none }, [])) (new_initial hn) msgs hw⟩

/-! ### The role of the type discipline -/

/-- **The continuation of the heartbeat traps exactly on the ill-typed replies** (other than a
    partial response announcing more than 255 follow-ups, which the candid type `u8` excludes):
    in a configuration satisfying C13's invariants with the request `req` outstanding, the
    continuation traps on `r` iff `r` is not of the kind `req` asks for. -/
theorem reply_traps_iff {last : Option Request} (inv : C13.Inv sys) (g : C13.Ghost sys last)
    {req : Request} (hp : sys.pending = some req) (r : Reply) :
    heartbeatReply sys.st r = none ↔
      ¬ Fetch.answers req r ∧ ¬ (∃ a l p, req = .initial a l ∧ r = .partial_ p) := by
  have hag := inv.agree
  rw [hp] at hag
  constructor
  · intro hn
    refine ⟨fun ha => C13.welltyped_reply_accepted inv g hp ha hn, ?_⟩
    rintro ⟨a, l, p, rfl, rfl⟩
    simp only [C13.Matches] at hag
    by_cases h0 : p.remaining = 0
    · rw [C13.reply_partial_zero _ _ hag h0] at hn; cases hn
    · rw [C13.reply_partial _ _ hag h0] at hn; cases hn
  · rintro ⟨hna, hnp⟩
    cases req with
    | initial a l =>
      simp only [C13.Matches] at hag
      cases r with
      | complete c => exact absurd trivial hna
      | partial_ p => exact absurd ⟨a, l, p, rfl, rfl⟩ hnp
      | reject => exact absurd trivial hna
      | followUp bytes => simp [heartbeatReply, hag]
    | followUp k =>
      obtain ⟨p0, hp0⟩ := hag
      cases r with
      | complete c => simp [heartbeatReply, hp0]
      | partial_ p => simp [heartbeatReply, hp0]
      | reject => exact absurd trivial hna
      | followUp bytes => exact absurd trivial hna

/-- **What a trapped continuation leaves behind, and what is sent next.**  The message is rolled
    back except that the fetch guard is released (`replyTrapState`) and the call is no longer
    outstanding; the stored response is untouched.  Hence the next request a heartbeat sends is
    the same follow-up request again, resp. again an initial request. -/
theorem trapped_reply (inv : C13.Inv sys) (env : Env) {req : Request} (hp : sys.pending = some req)
    (r : Reply) (h : heartbeatReply sys.st r = none) :
    stepMsg env (sys, G) (.reply r) = ({ st := replyTrapState sys.st, pending := none }, G) ∧
    (replyTrapState sys.st).syncing.response = sys.st.syncing.response ∧
    (replyTrapState sys.st).syncing.isFetching = false ∧
    ∀ env' m req', issuedM env' { st := replyTrapState sys.st, pending := none } m = some req' →
      match req with
      | .followUp k => req' = .followUp k
      | .initial _ _ => ∃ a l, req' = .initial a l := by
  refine ⟨FullSys.reply_traps env sys G r req hp h, rfl, rfl, ?_⟩
  intro env' m req' hi
  have hsel := (C13.request_selection (env := env')
    (sys := { st := replyTrapState sys.st, pending := none }) (a := Msg.action m) hi).2.2.2
  have hag := inv.agree
  rw [hp] at hag
  have hresp : (replyTrapState sys.st).syncing.response = sys.st.syncing.response := rfl
  cases req with
  | initial a l =>
    simp only [C13.Matches] at hag
    simp only [hresp, hag] at hsel
    obtain ⟨a', l', e, _⟩ := hsel
    exact ⟨a', l', e⟩
  | followUp k =>
    obtain ⟨p0, hp0⟩ := hag
    simp only [hresp, hp0] at hsel
    exact hsel

/-! ### Reassembly along schedules of messages, endpoint calls interleaved -/

/-- one round of the protocol: any number of heartbeats and endpoint calls, then the source
    delivers a page -/
structure RoundM where
  noise : List (Env × Msg)
  env : Env
  page : String

def RoundM.msgs (r : RoundM) : List (Env × Msg) := r.noise ++ [(r.env, .reply (.followUp r.page))]

def scheduleM : List RoundM → List (Env × Msg)
  | [] => []
  | r :: rs => r.msgs ++ scheduleM rs

/-- every page is delivered to a suspended heartbeat (one of the heartbeats of the round did send
    the request the page answers) -/
def DeliveredM : Cfg → List RoundM → Prop
  | _, [] => True
  | c, r :: rs => NoiseM r.noise ∧ (run c r.noise).1.pending.isSome ∧ DeliveredM (run c r.msgs) rs

/-- **I4 for the message-level system.**  `j` pages of a partial response are stored and nothing
    is outstanding.  Whatever heartbeats and endpoint calls are interleaved, if the source delivers
    `m` more pages (`j + m ≤ n`), the requests sent are exactly `followUp j, …, followUp (j+m-1)`
    in this order, nothing is outstanding afterwards, and the pages have been appended in order;
    the response is complete exactly when `j + m = n`. -/
theorem reassembly_runM (next : List String) (n : Nat) (hn : n ≤ 255) :
    ∀ (rs : List RoundM) {c : Cfg} (j : Nat) (acc : String), C13.Inv c.1 → c.1.pending = none →
    c.1.st.syncing.response = some (.partial_ ⟨acc, next, n⟩ j) →
    DeliveredM c rs → j + rs.length ≤ n →
    (run c (scheduleM rs)).1.pending = none ∧
    traceM c (scheduleM rs) = (List.range rs.length).map (fun i => Request.followUp (j + i)) ∧
    (run c (scheduleM rs)).1.st.syncing.response =
      some (if j + rs.length = n then .complete ⟨[C13.joinPages acc (rs.map (·.page))], next⟩
            else .partial_ ⟨C13.joinPages acc (rs.map (·.page)), next, n⟩ (j + rs.length))
  | [], c, j, acc, inv, hp, hr, _, _ => by
    have hj : j < n := by have := inv.wf; rw [hr] at this; exact this
    have : ¬ (j = n) := by omega
    simp [scheduleM, run, traceM, hp, hr, C13.joinPages, this]
  | r :: rs, c, j, acc, inv, hp, hr, hd, hm => by
    have hj : j < n := by have := inv.wf; rw [hr] at this; exact this
    obtain ⟨hnoise, hpend, hd'⟩ := hd
    simp only [List.length_cons] at hm
    have hc : ∀ x, c.1.st.syncing.response ≠ some (.complete x) := by rw [hr]; intro x h; cases h
    obtain ⟨hresp1, hcase⟩ := noise_phaseM r.noise inv hnoise hc
    have inv1 := fetchInv_runM r.noise c inv
    rcases hcase with ⟨_, hp1⟩ | ⟨_, req, ht1, hp1⟩
    · rw [hp1, hp] at hpend; cases hpend
    · have hreq : req = .followUp j := by
        have := inv1.agree
        rw [hp1, hresp1, hr] at this
        cases req with
        | initial a l => cases this
        | followUp k => obtain ⟨p, hpk⟩ := this; cases hpk; rfl
      subst hreq
      have hreply := C13.reply_followUp (run c r.noise).1.st acc next n j r.page
        (by rw [hresp1, hr]) (by omega)
      have hstep : (run c r.msgs).1 =
          ⟨{ (run c r.noise).1.st with syncing := { (run c r.noise).1.st.syncing with
              response := some (if j + 1 = n then .complete ⟨[acc ++ r.page], next⟩
                                else .partial_ ⟨acc ++ r.page, next, n⟩ (j + 1)),
              isFetching := false } }, none⟩ := by
        simp only [RoundM.msgs, Btc.Lemmas.FullSys.run_append, run, stepMsg, stepSys, Fetch.step, hp1,
          hreply]
      have htr : traceM c r.msgs = [.followUp j] := by
        simp only [RoundM.msgs, traceM_append, ht1, traceM, issuedM, Msg.action, Fetch.issued]
        rfl
      simp only [scheduleM, Btc.Lemmas.FullSys.run_append, traceM_append, htr]
      by_cases hlast : j + 1 = n
      · have : rs = [] := by
          cases rs with
          | nil => rfl
          | cons a b => simp only [List.length_cons] at hm; omega
        subst this
        simp [scheduleM, run, traceM, hstep, hlast, C13.joinPages]
      · have inv2 : C13.Inv (run c r.msgs).1 := fetchInv_runM _ c inv
        have hr2 : (run c r.msgs).1.st.syncing.response =
            some (.partial_ ⟨acc ++ r.page, next, n⟩ (j + 1)) := by
          rw [hstep]; simp [hlast]
        obtain ⟨h1, h2, h3⟩ := reassembly_runM next n hn rs (c := run c r.msgs) (j + 1)
          (acc ++ r.page) inv2 (by rw [hstep]) hr2 hd' (by omega)
        refine ⟨h1, ?_, ?_⟩
        · rw [h2]
          simp only [List.length_cons, List.range_succ_eq_map, List.map_cons, List.map_map,
            Nat.add_zero, List.singleton_append, List.cons.injEq, true_and]
          apply List.map_congr_left
          intro i _
          simp only [Function.comp, Nat.succ_eq_add_one]
          congr 1; omega
        · rw [h3]
          simp only [List.length_cons, List.map_cons, C13.joinPages]
          have : j + 1 + rs.length = j + (rs.length + 1) := by omega
          rw [this]

/-- **I4, whole exchange, for the message-level system.**  Nothing outstanding, nothing stored:
    heartbeats and endpoint calls, the source answers the initial request with a partial response
    announcing `n = rs.length ≥ 1` follow-ups, then delivers the `n` pages (heartbeats and endpoint
    calls interleaved anywhere).  The requests sent are one initial request followed by
    `followUp 0, …, followUp (n-1)`, and the stored response is then the complete response whose
    single block is `b0 ++ b1 ++ … ++ bn`. -/
theorem fetch_block_in_pagesM {c : Cfg} (inv : C13.Inv c.1) (hp : c.1.pending = none)
    (hr : c.1.st.syncing.response = none)
    (noise0 : List (Env × Msg)) (hn0 : NoiseM noise0) (hsent : (run c noise0).1.pending.isSome)
    (env0 : Env) (b0 : String) (next : List String) (rs : List RoundM)
    (h1 : 1 ≤ rs.length) (h255 : rs.length ≤ 255)
    (hd : DeliveredM (run c (noise0 ++ [(env0, .reply (.partial_ ⟨b0, next, rs.length⟩))])) rs) :
    let full := noise0 ++ [(env0, .reply (.partial_ ⟨b0, next, rs.length⟩))] ++ scheduleM rs
    (∃ anchor rest, traceM c full =
        .initial anchor rest :: (List.range rs.length).map (fun i => Request.followUp i)) ∧
    (run c full).1.pending = none ∧
    (run c full).1.st.syncing.response =
      some (.complete ⟨[C13.joinPages b0 (rs.map (·.page))], next⟩) := by
  intro full
  have hc : ∀ x, c.1.st.syncing.response ≠ some (.complete x) := by rw [hr]; intro x h; cases h
  obtain ⟨hresp1, hcase⟩ := noise_phaseM noise0 inv hn0 hc
  have inv1 := fetchInv_runM noise0 c inv
  rcases hcase with ⟨_, hp1⟩ | ⟨_, req, ht1, hp1⟩
  · rw [hp1, hp] at hsent; cases hsent
  · obtain ⟨anchor, rest, rfl⟩ : ∃ a l, req = .initial a l := by
      have := inv1.agree
      rw [hp1, hresp1, hr] at this
      cases req with
      | initial a l => exact ⟨a, l, rfl⟩
      | followUp k => obtain ⟨p, hpk⟩ := this; cases hpk
    have hreply := C13.reply_partial (run c noise0).1.st ⟨b0, next, rs.length⟩ (by rw [hresp1, hr])
      (by simp only; omega)
    have hstep : (run c (noise0 ++ [(env0, .reply (.partial_ ⟨b0, next, rs.length⟩))])).1 =
        ⟨{ (run c noise0).1.st with syncing := { (run c noise0).1.st.syncing with
            response := some (.partial_ ⟨b0, next, rs.length⟩ 0), isFetching := false } }, none⟩ := by
      simp only [Btc.Lemmas.FullSys.run_append, run, stepMsg, stepSys, Fetch.step, hp1, hreply]
    have inv2 : C13.Inv (run c (noise0 ++ [(env0, .reply (.partial_ ⟨b0, next, rs.length⟩))])).1 :=
      fetchInv_runM _ c inv
    obtain ⟨g1, g2, g3⟩ := reassembly_runM next rs.length h255 rs 0 b0 inv2 (by rw [hstep])
      (by rw [hstep]) hd (by omega)
    refine ⟨⟨anchor, rest, ?_⟩, ?_, ?_⟩
    · simp only [full, traceM_append, g2, ht1, traceM, issuedM, Msg.action, Fetch.issued]
      simp
    · simp only [full, Btc.Lemmas.FullSys.run_append] at g1 ⊢; exact g1
    · simp only [full, Btc.Lemmas.FullSys.run_append] at g3 ⊢
      rw [g3]; simp

/-! ## A3. No interleaving loses a block -/

/-- **A delivered block that passes validation IS in the tree after the next effective
    heartbeat.**  Reachable configuration with the complete (or reassembled) response
    `r = pre ++ blob :: rest` stored, the heartbeat finds ingestion at rest; the blobs `pre` are
    accepted (state `sMid`), `blob` decodes to `blk`, and `blk` passes the canister's validation
    there (`passesValidation`: its parent is in the tree and it is not yet a child of it, header and
    body are valid).  Then the heartbeat does not trap, `blk` is among the accepted blocks, and
    afterwards a cached block with body `blk` is in the tree. -/
theorem delivered_block_applied (hr : FullReachable sys G) (env : Env) (b : Nat)
    (ht : Trusted env (sys, G) (.heartbeat b)) (r : CompleteResp)
    (hresp : sys.st.syncing.response = some (.complete r)) (hq : quiet env b sys.st = true)
    (pre : List String) (blob : String) (rest : List String) (hsplit : r.blocks = pre ++ blob :: rest)
    (sMid : State) (hpre : processBlocks env (taken sys.st) pre = some (sMid, false))
    (blk : Block) (hdec : env.dec.block blob = some blk)
    (hpass : passesValidation env sMid blk = true) :
    blk ∈ acceptedBlocks env (taken sys.st) r.blocks ∧
    ∃ s', heartbeatStart env sys.st b = .processed s' ∧
      stepMsg env (sys, G) (.heartbeat b) = ({ sys with st := s' }, G) ∧
      blk.hash ∈ treeHashes s' ∧ (∃ c ∈ s'.unstable.tree.blocks, c.blk = blk) ∧
      s'.syncing.response = none := by
  have hi := (quiet_iff env b _).mp hq
  have hni := (ingestStable_done_false' hi).2
  have hA : InvAll sys.st G := (FullSys.fullReachable_inv hr).1 (by simp [Paused, hni])
  obtain ⟨ht1, _⟩ := ht (pastIngestion_iff.mpr hi) r hresp
  simp only at ht1
  have hA0 : InvAll (taken sys.st) G := invAll_frame (clearResponse_frame sys.st) hA
  rw [hsplit] at ht1
  obtain ⟨hAm, _, _⟩ := processBlocks_mid env G pre (taken sys.st) sMid hA0
    (trustedBlocks_prefix env G pre _ _ ht1) hpre
  have tmid := trustedBlocks_after env G pre (taken sys.st) sMid (blob :: rest) ht1 hpre
  obtain ⟨tm1, _⟩ := tmid blk hdec
  obtain ⟨u, _, hok⟩ := accepted_of_passes hAm.invU (tm1 hpass) hpass
  have hmem : blk ∈ acceptedBlocks env (taken sys.st) r.blocks := by
    rw [hsplit, acceptedBlocks_append env pre _ sMid _ hpre]
    simp only [acceptedBlocks, hdec, hok, List.mem_append, List.mem_cons, true_or, or_true]
  obtain ⟨s', s2, h, hstep, _, _, hnone, _, hacc, htree, hperm, _, _⟩ :=
    response_applied_once hr env b ht r hresp hq
  refine ⟨hmem, s', h, hstep, ?_, ?_, hnone⟩
  · exact hperm.symm.subset (List.mem_append_left _ (List.mem_map_of_mem hmem))
  · have hb := acceptAll_blks env _ _ s2 hacc
    have : blk ∈ s'.unstable.tree.blocks.map (·.blk) := by
      rw [htree]
      exact hb.symm.subset (List.mem_append_left _ hmem)
    obtain ⟨c, hc, hcb⟩ := List.mem_map.mp this
    exact ⟨c, hc, hcb⟩

/-- every block of the list passes validation when it is examined (on top of the previous ones) -/
def AllPass (env : Env) : State → List Block → Prop
  | _, [] => True
  | s, b :: rest =>
    passesValidation env s b = true ∧ ∀ s', insertBlock env s b = .ok s' → AllPass env s' rest

/-- under the environment assumption, blocks that all pass validation are all accepted -/
theorem allPass_processBlocks (env : Env) (G : List Block) : ∀ (blobs : List String)
    (blocks : List Block) (s : State), InvAll s G → TrustedBlocks env G s blobs →
    blobs.map env.dec.block = blocks.map some → AllPass env s blocks →
    acceptedBlocks env s blobs = blocks ∧ ∃ s1, processBlocks env s blobs = some (s1, false)
  | [], [], s, _, _, _, _ => ⟨rfl, s, rfl⟩
  | [], _ :: _, _, _, _, hd, _ => by simp at hd
  | _ :: _, [], _, _, _, hd, _ => by simp at hd
  | blob :: rest, blk :: blocks, s, hA, ht, hd, hp => by
    simp only [List.map_cons, List.cons.injEq] at hd
    obtain ⟨hd1, hd2⟩ := hd
    obtain ⟨t1, t2⟩ := ht blk hd1
    obtain ⟨u, hu, hok⟩ := accepted_of_passes hA.invU (t1 hp.1) hp.1
    have hA' : InvAll { s with unstable := u } G :=
      step_preserves_invAll (fun _ _ => 0) s G (.push blk) _ G hA (t1 hp.1) (by simp only [step, hu])
    obtain ⟨i1, s1, i2⟩ := allPass_processBlocks env G rest blocks _ hA' (t2 _ hok) hd2 (hp.2 _ hok)
    refine ⟨?_, s1, ?_⟩
    · simp only [acceptedBlocks, hd1, hok, i1]
    · rw [C10.processBlocks_cons, hd1]
      simp only [hok]
      exact i2

/-- **A response whose blocks all decode and all pass validation is applied completely**: every
    delivered block is in the tree afterwards, no error counter moves, and the announced headers
    are looked at. -/
theorem valid_response_applied (hr : FullReachable sys G) (env : Env) (b : Nat)
    (ht : Trusted env (sys, G) (.heartbeat b)) (r : CompleteResp)
    (hresp : sys.st.syncing.response = some (.complete r)) (hq : quiet env b sys.st = true)
    (blocks : List Block) (hdec : r.blocks.map env.dec.block = blocks.map some)
    (hpass : AllPass env (taken sys.st) blocks) :
    acceptedBlocks env (taken sys.st) r.blocks = blocks ∧
    ∃ s', heartbeatStart env sys.st b = .processed s' ∧
      (treeHashes s').Perm (blocks.map (·.hash) ++ treeHashes sys.st) ∧
      (∀ blk ∈ blocks, ∃ c ∈ s'.unstable.tree.blocks, c.blk = blk) ∧
      (∃ s1, processBlocks env (taken sys.st) r.blocks = some (s1, false)) := by
  have hi := (quiet_iff env b _).mp hq
  have hni := (ingestStable_done_false' hi).2
  have hA : InvAll sys.st G := (FullSys.fullReachable_inv hr).1 (by simp [Paused, hni])
  obtain ⟨ht1, _⟩ := ht (pastIngestion_iff.mpr hi) r hresp
  simp only at ht1
  have hA0 : InvAll (taken sys.st) G := invAll_frame (clearResponse_frame sys.st) hA
  obtain ⟨hacc, s1, hs1⟩ := allPass_processBlocks env G r.blocks blocks _ hA0 ht1 hdec hpass
  obtain ⟨s', s2, h, _, _, _, _, _, hacc2, htree, hperm, _, _⟩ :=
    response_applied_once hr env b ht r hresp hq
  simp only at hperm hacc2
  rw [show ({ sys.st with syncing := { sys.st.syncing with response := none } } : State) =
      taken sys.st from rfl, hacc] at hperm hacc2
  refine ⟨hacc, s', h, hperm, ?_, s1, hs1⟩
  intro blk hblk
  have hb := acceptAll_blks env _ _ s2 hacc2
  have : blk ∈ s'.unstable.tree.blocks.map (·.blk) := by
    rw [htree]
    exact hb.symm.subset (List.mem_append_left _ hblk)
  obtain ⟨c, hc, hcb⟩ := List.mem_map.mp this
  exact ⟨c, hc, hcb⟩

/-! ### The environment side: a block source that offers successors -/

/-- `blocks`, in the order they are delivered, are *successors* with respect to the hashes
    `known` (the `anchor :: hashes` of an initial request): no block is among the known ones, and
    each hangs under a known block or under an earlier block of the same reply -/
def SuccessorsOf : List Nat → List Block → Prop
  | _, [] => True
  | known, b :: rest => b.hash ∉ known ∧ b.prev ∈ known ∧ SuccessorsOf (known ++ [b.hash]) rest

/-- **`Offers dec src`**: the block source `src` (its reply as a function of the request) answers
    every initial request `initial anchor hashes` it answers with a complete response by blobs that
    decode (by the decoders `dec`) to successors of `anchor :: hashes` -/
def Offers (dec : Decoders) (src : Request → Reply) : Prop :=
  ∀ anchor hashes r, src (.initial anchor hashes) = .complete r →
    ∃ blocks, r.blocks.map dec.block = blocks.map some ∧ SuccessorsOf (anchor :: hashes) blocks

/-- header and body of `b` are valid in state `s` at the time of `env` (whatever chain
    `ValidationContext::new` finds) -/
def HeaderBodyOk (env : Env) (s : State) (b : Block) : Prop :=
  validateBody b = none ∧
  ∀ chain, validationContext s (hdrOfBlock b) = .ok chain →
    Header.validateHeader s.network (validationStore s chain) (hdrOfBlock b) env.now = .ok

/-- every block of the list has a valid header and body when it is examined -/
def ValidAll (env : Env) : State → List Block → Prop
  | _, [] => True
  | s, b :: rest => HeaderBodyOk env s b ∧ ∀ s', insertBlock env s b = .ok s' → ValidAll env s' rest

/-- a successor is never refused as `BlockDoesNotExtendTree` or `AlreadyKnown`:
    `ValidationContext::new` succeeds -/
theorem successor_context_ok (s : State) (b : Block) (hp : b.prev ∈ treeHashes s)
    (hn : b.hash ∉ treeHashes s) : ∃ chain, validationContext s (hdrOfBlock b) = .ok chain := by
  have hsome := Btc.TreeExtend.chainWithTip_isSome_of_mem CBlock.hash b.prev s.unstable.tree hp
  unfold validationContext
  cases hc : Tree.chainWithTip CBlock.hash (hdrOfBlock b).prev s.unstable.tree with
  | none =>
    have : Tree.chainWithTip CBlock.hash b.prev s.unstable.tree = none := hc
    rw [this] at hsome; cases hsome
  | some x =>
    obtain ⟨chain, succ⟩ := x
    simp only
    have hany : succ.any (fun c => c.hash == (hdrOfBlock b).hash) = false := by
      rw [List.any_eq_false]
      intro c hcm
      have hcb := chainWithTip_succ_mem CBlock.hash _ _ chain succ hc c hcm
      intro e
      have : c.hash = b.hash := by simpa [hdrOfBlock] using e
      exact hn (this ▸ List.mem_map_of_mem hcb)
    rw [hany]
    exact ⟨_, rfl⟩

theorem passes_of_headerBodyOk {env : Env} {s : State} {b : Block} (hv : HeaderBodyOk env s b)
    (hc : ∃ chain, validationContext s (hdrOfBlock b) = .ok chain) :
    passesValidation env s b = true := by
  obtain ⟨chain, hc⟩ := hc
  unfold passesValidation
  rw [hc]
  simp only [hv.2 chain hc, hv.1, Option.isNone_none]

/-- **successors with valid headers and bodies all pass validation**, one on top of the other -/
theorem allPass_of_successors (env : Env) : ∀ (blocks : List Block) (known : List Nat) (s : State),
    (treeHashes s).Perm known → SuccessorsOf known blocks → ValidAll env s blocks →
    AllPass env s blocks
  | [], _, _, _, _, _ => trivial
  | b :: rest, known, s, hk, hs, hv => by
    obtain ⟨h1, h2, h3⟩ := hs
    have hctx := successor_context_ok s b (hk.symm.subset h2) (fun h => h1 (hk.subset h))
    refine ⟨passes_of_headerBodyOk hv.1 hctx, fun s' hs' => ?_⟩
    refine allPass_of_successors env rest (known ++ [b.hash]) s' ?_ h3 (hv.2 s' hs')
    have hp := (C13.accepted_not_a_sibling_and_hashes env s s' b hs').2
    refine hp.trans ?_
    refine (List.Perm.cons _ hk).trans ?_
    exact (List.perm_append_singleton _ _).symm

/-- a block that passes validation has a valid header and body -/
theorem headerBodyOk_of_passes {env : Env} {s : State} {b : Block}
    (h : passesValidation env s b = true) : HeaderBodyOk env s b := by
  unfold passesValidation at h
  cases hc : validationContext s (hdrOfBlock b) with
  | error e => rw [hc] at h; cases h
  | ok chain =>
    rw [hc] at h
    simp only at h
    cases hv : Header.validateHeader s.network (validationStore s chain) (hdrOfBlock b) env.now with
    | ok =>
      rw [hv] at h
      simp only [Option.isNone_iff_eq_none] at h
      exact ⟨h, fun chain' hc' => by rw [hc] at hc'; cases hc'; exact hv⟩
    | err e => rw [hv] at h; cases h
    | trap => rw [hv] at h; cases h

/-- **What a source that offers successors delivers is applied, up to the canister's own header
    and body checks.**  The stored response is the source's answer to the request that listed the
    blocks now in the tree; then no delivered block is refused as `BlockDoesNotExtendTree` or
    `AlreadyKnown`, and if headers and bodies are valid when examined, every delivered block is in
    the tree after the heartbeat. -/
theorem offered_valid_blocks_applied (hr : FullReachable sys G) (env : Env) (b : Nat)
    (ht : Trusted env (sys, G) (.heartbeat b)) (r : CompleteResp)
    (hresp : sys.st.syncing.response = some (.complete r)) (hq : quiet env b sys.st = true)
    (src : Request → Reply) (hoff : Offers env.dec src) (anchor : Nat) (hashes : List Nat)
    (hsrc : src (.initial anchor hashes) = .complete r)
    (hlist : (treeHashes sys.st).Perm (anchor :: hashes))
    (hvalid : ∀ blocks, r.blocks.map env.dec.block = blocks.map some →
      ValidAll env (taken sys.st) blocks) :
    ∃ blocks, r.blocks.map env.dec.block = blocks.map some ∧
      acceptedBlocks env (taken sys.st) r.blocks = blocks ∧
      ∃ s', heartbeatStart env sys.st b = .processed s' ∧
        (treeHashes s').Perm (blocks.map (·.hash) ++ treeHashes sys.st) ∧
        (∀ blk ∈ blocks, ∃ c ∈ s'.unstable.tree.blocks, c.blk = blk) := by
  obtain ⟨blocks, hd, hs⟩ := hoff anchor hashes r hsrc
  have hpass := allPass_of_successors env blocks (anchor :: hashes) (taken sys.st) hlist hs
    (hvalid blocks hd)
  obtain ⟨h1, s', h2, h3, h4, _⟩ := valid_response_applied hr env b ht r hresp hq blocks hd hpass
  exact ⟨blocks, hd, h1, s', h2, h3, h4⟩

/-! ### What the next request lists -/

/-- **an initial request lists exactly the unstable blocks**: the anchor first, then every other
    block of the tree, in pre-order -/
theorem request_lists_tree {env : Env} {m : Msg} {a : Nat} {l : List Nat}
    (h : issuedM env sys m = some (.initial a l)) : a :: l = treeHashes sys.st := by
  have := (C13.request_selection (env := env) (sys := sys) (a := Msg.action m) h).2.2.2
  cases hr : sys.st.syncing.response with
  | none =>
    rw [hr] at this
    obtain ⟨a', l', e, he⟩ := this
    cases e
    exact he
  | some x =>
    rw [hr] at this
    cases x with
    | complete c => exact absurd this id
    | partial_ p k => cases this

/-- **a hash that is not in the tree does not get there without a reply of the block source**, and
    no request sent in the meantime lists it.  Reachable configuration with no response stored,
    any trusted schedule of heartbeats, endpoint calls, `set_config`s and upgrades. -/
theorem unpushed_hash_never_listed : ∀ (msgs : List (Env × Msg)) (c : Cfg), FullReachable c.1 c.2 →
    TrustedRun c msgs → c.1.st.syncing.response = none → (∀ em ∈ msgs, isReplyM em.2 = false) →
    ∀ h, h ∉ treeHashes c.1.st →
      h ∉ treeHashes (run c msgs).1.st ∧ ∀ a l, Request.initial a l ∈ traceM c msgs → h ∉ a :: l
  | [], _, _, _, _, _, h, hh => ⟨hh, fun _ _ hm => by simp [traceM] at hm⟩
  | (env, m) :: rest, c, hr, ht, hn, hall, h, hh => by
    have hm := hall (env, m) List.mem_cons_self
    have hr' := FullReachable.step c.1 c.2 env m hr ht.1
    have hsub := stepMsg_hashes_shrink env c m ht.1 (fullReachable_inv2 hr)
      (fun blk => push_needs_response env c.1.st m (by rw [hn]; intro r e; cases e) blk)
    have hh' : h ∉ treeHashes (stepMsg env c m).1.st := fun hx => hh (hsub.subset hx)
    obtain ⟨i1, i2⟩ := unpushed_hash_never_listed rest (stepMsg env c m) hr' ht.2
      (response_stays_none env c m hm hn) (fun em hem => hall em (List.mem_cons_of_mem _ hem)) h hh'
    refine ⟨i1, fun a l hmem => ?_⟩
    simp only [traceM, List.mem_append] at hmem
    rcases hmem with hmem | hmem
    · have hi : issuedM env c.1 m = some (.initial a l) := by
        cases hiss : issuedM env c.1 m with
        | none => rw [hiss] at hmem; simp at hmem
        | some q => rw [hiss] at hmem; simp at hmem; rw [hmem]
      rw [request_lists_tree hi]
      exact hh
    · exact i2 a l hmem

/-- **A dropped block is offered again.**  After the heartbeat that processed the response `r`,
    a hash that is neither the hash of an accepted block of `r` nor of a block that was in the tree
    — the hash of a block of `r` that was refused, or dropped unexamined because an earlier
    element of `r` was bad — is not in the tree, and every initial request sent before the next
    reply arrives lists exactly the blocks of the tree at that moment, hence not that hash: a
    source that offers the successors of the listed blocks offers the block again. -/
theorem dropped_block_offered_again (hr : FullReachable sys G) (env : Env) (b : Nat)
    (ht : Trusted env (sys, G) (.heartbeat b)) (r : CompleteResp)
    (hresp : sys.st.syncing.response = some (.complete r)) (hq : quiet env b sys.st = true)
    (h : Nat)
    (hnew : h ∉ (acceptedBlocks env (taken sys.st) r.blocks).map (·.hash) ++ treeHashes sys.st)
    (msgs : List (Env × Msg)) (htr : TrustedRun (stepMsg env (sys, G) (.heartbeat b)) msgs)
    (hnr : ∀ em ∈ msgs, isReplyM em.2 = false) :
    h ∉ treeHashes (stepMsg env (sys, G) (.heartbeat b)).1.st ∧
    h ∉ treeHashes (run (stepMsg env (sys, G) (.heartbeat b)) msgs).1.st ∧
    ∀ a l, Request.initial a l ∈ traceM (stepMsg env (sys, G) (.heartbeat b)) msgs → h ∉ a :: l := by
  obtain ⟨s', s2, _, hstep, _, _, hnone, _, _, _, hperm, _, _⟩ :=
    response_applied_once hr env b ht r hresp hq
  have hr' : FullReachable (stepMsg env (sys, G) (.heartbeat b)).1
      (stepMsg env (sys, G) (.heartbeat b)).2 := FullReachable.step sys G env _ hr ht
  have h0 : h ∉ treeHashes (stepMsg env (sys, G) (.heartbeat b)).1.st := by
    rw [hstep]
    exact fun hx => hnew (hperm.subset hx)
  obtain ⟨i1, i2⟩ := unpushed_hash_never_listed msgs _ hr' htr (by rw [hstep]; exact hnone) hnr h h0
  exact ⟨h0, i1, i2⟩

end Btc.Props.C13Lift
