import BtcModel.Lemmas.FullLive
import BtcModel.Props.FullSysExample

/-!
# C13, liveness half, for the REAL message-level system

`Props/C13Live.lean` proves that fetching is never permanently disabled on the transition system
`Spec.Fetch` — but several of its theorems take `Spec.Inv sys.st G`, `effective …` and `settles …`
as *hypotheses*, because `Spec.Fetch`'s reachability says nothing about the ledger part of the
canister state.  This file discharges them for the message-level system of `Spec/FullSys.lean`
(`FullReachable`: heartbeats with any budget, replies of any kind, endpoint calls, `set_config`,
upgrades, under the environment assumption `Trusted`), using `fullReachable_inv`.

1. `effective_iff_quiet`: in a reachable configuration a heartbeat is *effective* iff ingestion
   has nothing to do (*quiet*) — it never traps once past ingestion.  `heartbeat_progress`: a
   heartbeat in a configuration in which `n` ingestion rounds remain either is effective (`n = 0`)
   or ingests, and `n - 1` rounds remain.
2. `Stuck` (finding F13, `Lemmas/FullLive.lean`) and `settles_full`: every reachable
   configuration that is not stuck settles within `treeWork + 1` heartbeats.  `stuck_iff_witness`:
   `Stuck` is exactly the conclusion of `heartbeat_trap_is_F13`; `stuck_heartbeat`,
   `stuck_never_settles`: a stuck canister stays stuck (the hypothesis cannot be dropped).
   (2b) `response_applied_once`, `treeWork_afterProcess`: the processing heartbeat.
3. `no_deadlock_full`: from every reachable, non-stuck configuration with syncing enabled the
   explicit schedule `recoveryM` (deliver any reply if a request is outstanding, then heartbeats
   with budget `b ≥ 1`) sends a NEW request; its length is at most
   `2 * treeWork + respWork + 5`.  The only environment hypothesis is `Trusted` for the single
   heartbeat that processes a stored complete response.
   (3b) `fair_issues_full`, `fair_unbounded_full`: along every fair, trusted schedule of messages
   (upgrades, `set_config` that leaves syncing on, endpoint calls interleaved) the number of
   requests is unbounded.  (3c) `nonStuck_step`, `nonStuck_run`: what keeps a configuration
   non-stuck.  (3d) `fetch_completes_full`: the remaining follow-up pages arrive, the block is
   applied, the next initial request is sent; length `2 * (total - k) + m + 2`.
4. `response_applied_once` (2b), `no_reapplication`: a stored complete response is applied by the
   next effective heartbeat — exactly the accepted prefix, each block once — and never again.
5. `Example`: everything instantiated on the schedule of `Props/FullSysExample.lean`.
-/
namespace Btc.Props.C13Full
open Btc Btc.State Btc.Spec Btc.Spec.Full Btc.Lemmas.Reach Btc.Lemmas.Reach2 Btc.Lemmas.Fetch
open Btc.Lemmas.FullSys Btc.Lemmas.FetchLive Btc.Lemmas.FullLive Btc.Props Btc.Props.C13Live

variable {sys : Fetch.Sys} {G : List Block}

/-! ## 1. `effective` from reachability -/

/-- **"Effective" is "quiet"** (`C13Live.effective`, `FetchLive.quiet` = `Full.pastIngestion`).
    In a reachable configuration, under the environment assumption for this heartbeat: the
    heartbeat gets past ingestion and does not trap iff ingestion has nothing to do.  No hypothesis
    on the budget, on syncing or on pausing is needed: a quiet heartbeat is not paused, and an
    unpaused heartbeat never traps (`heartbeat_never_traps_unpaused`). -/
theorem effective_iff_quiet (hr : FullReachable sys G) (env : Env) (b : Nat)
    (ht : Trusted env (sys, G) (.heartbeat b)) :
    effective env sys.st b = true ↔ quiet env b sys.st = true := by
  rw [effective_eq_quiet hr env b ht]

/-- the three notions of "ingestion has nothing to do" coincide: `quiet`, `pastIngestion`,
    `settles … 0`, and they say `ingest_stable_blocks_into_utxoset` returns `Done(false)` -/
theorem quiet_notions (env : Env) (b : Nat) (s : State) :
    (quiet env b s = pastIngestion env s b) ∧ (settles env b 0 s = quiet env b s) ∧
    (quiet env b s = true ↔ s.ingestStable env.bound b = .done s false) :=
  ⟨rfl, rfl, quiet_iff env b s⟩

/-- **A heartbeat in a reachable, unpaused configuration**: it ingests, or it is effective (sends
    a request or runs `maybe_process_response` to its end).  It does not trap. -/
theorem heartbeat_unpaused (hr : FullReachable sys G) (hn : ¬ Paused sys.st) (env : Env) (b : Nat)
    (ht : Trusted env (sys, G) (.heartbeat b)) :
    (∃ s' p, heartbeatStart env sys.st b = .ingested s' p ∧ quiet env b sys.st = false) ∨
    (effective env sys.st b = true ∧ quiet env b sys.st = true) := by
  have hnt := FullSys.heartbeat_never_traps_unpaused hr hn env b ht
  rcases heartbeatStart_cases env sys.st b with h | ⟨s', p, h, hc⟩ | ⟨hi, _, req, _, h⟩ |
      ⟨hi, _, _, s', _, h⟩
  · exact absurd h hnt
  · left
    refine ⟨s', p, h, ?_⟩
    unfold quiet
    rcases hc with ⟨_, hc⟩ | ⟨_, hc⟩ <;> rw [hc]
  · right; exact ⟨by unfold effective; rw [h], (quiet_iff env b _).mpr hi⟩
  · right; exact ⟨by unfold effective; rw [h], (quiet_iff env b _).mpr hi⟩

/-! ## 2. `Stuck` and `settles` from reachability -/

/-- **`Stuck` is the conclusion of `heartbeat_trap_is_F13`**: in a reachable configuration,
    `Stuck bound sys.st` holds iff the state is a paused copy `PausedAt'` of a state `s0`
    satisfying the invariant whose anchor is not stable for `bound` — for some, equivalently for
    every, such witness. -/
theorem stuck_iff_witness (hr : FullReachable sys G) (bound : Unstable.BoundFn) :
    (Stuck bound sys.st ↔
      Paused sys.st ∧ ∃ s0 A B, InvAll s0 G ∧ PausedAt' s0 sys.st G A B ∧
        Unstable.peek bound s0.unstable = none) ∧
    (Stuck bound sys.st ↔
      Paused sys.st ∧ ∀ s0 A B, PausedAt' s0 sys.st G A B → Unstable.peek bound s0.unstable = none) := by
  refine ⟨⟨fun ⟨hp, hk⟩ => ?_, fun ⟨hp, s0, A, B, _, hP, hk⟩ => ⟨hp, by rw [hP.unstable]; exact hk⟩⟩,
    ⟨fun ⟨hp, hk⟩ => ⟨hp, fun s0 A B hP => by rw [← hP.unstable]; exact hk⟩, fun ⟨hp, hk⟩ => ?_⟩⟩
  · obtain ⟨s0, A, B, hA, hP⟩ := (FullSys.fullReachable_inv hr).2 hp
    exact ⟨hp, s0, A, B, hA, hP, by rw [← hP.unstable]; exact hk⟩
  · obtain ⟨s0, A, B, _, hP⟩ := (FullSys.fullReachable_inv hr).2 hp
    exact ⟨hp, by rw [hP.unstable]; exact hk s0 A B hP⟩

/-- a heartbeat that traps in a reachable configuration finds it stuck -/
theorem trap_stuck (hr : FullReachable sys G) (env : Env) (b : Nat)
    (ht : Trusted env (sys, G) (.heartbeat b)) (h : heartbeatStart env sys.st b = .trap) :
    Stuck env.bound sys.st :=
  ((stuck_iff_witness hr env.bound).1).mpr (FullSys.heartbeat_trap_is_F13 hr env b ht h)

/-- **A stuck canister stays stuck** (finding F13 is a real deadlock): every heartbeat either
    traps (and is rolled back) or pauses again inside the same block, still stuck; it never gets
    past ingestion, so no request is ever sent again. -/
theorem stuck_heartbeat (hr : FullReachable sys G) (env : Env) (b : Nat)
    (hst : Stuck env.bound sys.st) :
    effective env sys.st b = false ∧ issuedM env sys (.heartbeat b) = none ∧
    Stuck env.bound (stepMsg env (sys, G) (.heartbeat b)).1.st := by
  obtain ⟨hp, s0, A, B, hA, hP, hk⟩ := ((stuck_iff_witness hr env.bound).1).mp hst
  rcases stuck_ingest env.bound hA hP hk b with ⟨u2, h1, B', hP'⟩ | ⟨m, h1⟩
  · have hh : heartbeatStart env sys.st b = .ingested { sys.st with utxos := u2 } true := by
      rw [heartbeatStart_eq, h1]
    refine ⟨by unfold effective; rw [hh], by simp only [issuedM, Msg.action, Fetch.issued, hh], ?_⟩
    simp only [stepMsg, stepSys, Fetch.step, hh]
    exact ⟨hP'.paused, hst.2⟩
  · have hh : heartbeatStart env sys.st b = .trap := by rw [heartbeatStart_eq, h1]
    refine ⟨by unfold effective; rw [hh], by simp only [issuedM, Msg.action, Fetch.issued, hh], ?_⟩
    simp only [stepMsg, stepSys, Fetch.step, hh]
    exact hst

/-- **`settles` from reachability.**  In every reachable configuration that is not stuck, for
    heartbeats with any budget `b ≥ 1` there is `n ≤ treeWork + 1` such that exactly `n`
    heartbeats are spent on ingestion (none traps), after which ingestion has nothing to do. -/
theorem settles_full (hr : FullReachable sys G) (env : Env) (b : Nat) (hb : 1 ≤ b)
    (hns : ¬ Stuck env.bound sys.st) :
    ∃ n, n ≤ treeWork sys.st + 1 ∧ settles env b n sys.st = true :=
  settles_of_reachable hr env b hb hns

/-- … and conversely: a stuck configuration never settles -/
theorem stuck_never_settles (env : Env) (b : Nat) : ∀ (n : Nat) {sys : Fetch.Sys} {G : List Block},
    FullReachable sys G → Stuck env.bound sys.st → settles env b n sys.st = false
  | 0, sys, G, _, hst => by
    cases h : settles env b 0 sys.st with
    | false => rfl
    | true => exact absurd hst.1 (quiet_not_paused h)
  | n + 1, sys, G, hr, hst => by
    cases h : settles env b (n + 1) sys.st with
    | false => rfl
    | true =>
      have hq := settles_succ_not_quiet h
      obtain ⟨h1, h2⟩ := settles_succ_step (c := (sys, G)) h
      have h3 := (stuck_heartbeat hr env b hst).2.2
      have hr' := FullReachable.step sys G env (.heartbeat b) hr (trusted_of_not_quiet hq)
      rw [h1] at h3
      have := stuck_never_settles env b n hr' (by rw [h1]; exact h3)
      rw [h1] at this
      rw [h2] at this; cases this

/-- **Progress of one heartbeat** with budget `b ≥ 1` in a reachable configuration that is not
    stuck, `n` being the number of ingestion rounds that remain (`settles_full`): if `n = 0` the
    heartbeat is effective; otherwise it ingests, does not trap, looks at no delivered data, and
    `n - 1` rounds remain afterwards. -/
theorem heartbeat_progress (hr : FullReachable sys G) (env : Env) (b : Nat) (n : Nat)
    (hn : settles env b n sys.st = true) (ht : Trusted env (sys, G) (.heartbeat b)) :
    (n = 0 ∧ effective env sys.st b = true) ∨
    (∃ k s' p, n = k + 1 ∧ heartbeatStart env sys.st b = .ingested s' p ∧
      (stepMsg env (sys, G) (.heartbeat b)).1 = ⟨s', sys.pending⟩ ∧ settles env b k s' = true) := by
  cases n with
  | zero => exact Or.inl ⟨rfl, (effective_iff_quiet hr env b ht).mpr hn⟩
  | succ k =>
    right
    obtain ⟨h1, h2⟩ := settles_succ_step (c := (sys, G)) hn
    have hq := settles_succ_not_quiet hn
    unfold settles at hn
    cases hi : sys.st.ingestStable env.bound b with
    | trap m => rw [hi] at hn; cases hn
    | paused s' =>
      refine ⟨k, s', true, rfl, by rw [heartbeatStart_eq, hi], ?_, ?_⟩
      · rw [h1]; simp only [ingestOnce, hi]
      · simpa only [ingestOnce, hi] using h2
    | done s' w =>
      rw [hi] at hn
      cases w with
      | false => cases hn
      | true =>
        refine ⟨k, s', false, rfl, by rw [heartbeatStart_eq, hi], ?_, ?_⟩
        · rw [h1]; simp only [ingestOnce, hi]
        · simpa only [ingestOnce, hi] using h2

/-! ## 2b. The heartbeat that processes a stored complete response (see also section 4) -/

/-- **A stored complete response is applied by the next heartbeat past ingestion — exactly its
    accepted prefix, every block once.**  Reachable configuration with the complete response `r`
    stored, the heartbeat finds ingestion at rest and the environment assumption holds for it.
    Then nothing is outstanding, the heartbeat does not trap and sends nothing; it is the run of
    the operations `push b` for the blocks `b` of the accepted prefix of `r.blocks`
    (`acceptedBlocks`: decoded and accepted by `insert_block` one on top of the other,
    `C10.acceptAll` / `C10.accepted_iff`), followed by `insertNext`s if no blob was refused;
    the unstable blocks afterwards are the old ones plus exactly these blocks, all hashes pairwise
    distinct (no block is applied twice, none was there before); the response is cleared. -/
theorem response_applied_once (hr : FullReachable sys G) (env : Env) (b : Nat)
    (ht : Trusted env (sys, G) (.heartbeat b)) (r : CompleteResp)
    (hresp : sys.st.syncing.response = some (.complete r)) (hq : quiet env b sys.st = true) :
    let s0 : State := { sys.st with syncing := { sys.st.syncing with response := none } }
    let acc := acceptedBlocks env s0 r.blocks
    ∃ s' s2, heartbeatStart env sys.st b = .processed s' ∧
      stepMsg env (sys, G) (.heartbeat b) = ({ sys with st := s' }, G) ∧
      sys.pending = none ∧ issuedM env sys (.heartbeat b) = none ∧
      s'.syncing.response = none ∧
      msgOps env sys.st (.heartbeat b) =
        acc.map Op.push ++
          (match processBlocks env s0 r.blocks with
            | some (s1, false) => (insertedHeaders env s1 r.next).map Op.insertNext
            | _ => []) ∧
      C10.acceptAll env s0 acc = some s2 ∧ s'.unstable.tree = s2.unstable.tree ∧
      (s'.unstable.tree.blocks.map CBlock.hash).Perm
        (acc.map (·.hash) ++ sys.st.unstable.tree.blocks.map CBlock.hash) ∧
      (acc.map (·.hash) ++ sys.st.unstable.tree.blocks.map CBlock.hash).Nodup ∧
      ((∃ s1, processBlocks env s0 r.blocks = some (s1, false)) ↔
        r.blocks.map env.dec.block = acc.map some) := by
  intro s0 acc
  have he := (effective_iff_quiet hr env b ht).mpr hq
  have inv := (FullSys.fetch_invariant hr).1
  have hp : sys.pending = none := by
    have hag := inv.agree
    cases hpe : sys.pending with
    | none => rfl
    | some req =>
      rw [hpe, hresp] at hag
      cases req with
      | initial a l => cases hag
      | followUp k => obtain ⟨p, hpk⟩ := hag; cases hpk
  obtain ⟨hiss, _, _, _, _⟩ := hb_process (sys := sys) he hresp
  rcases heartbeatStart_cases env sys.st b with h | ⟨s', p, h, _⟩ | ⟨_, _, req, _, h⟩ |
      ⟨hi, hni, _, s', hfin, h⟩
  · unfold effective at he; rw [h] at he; cases he
  · unfold effective at he; rw [h] at he; cases he
  · simp only [Fetch.issued, h] at hiss; cases hiss
  · -- the processing heartbeat
    have hstep := (FullSys.heartbeat_processes env sys G b s' ht h).2.2.2
    have hr' : FullReachable (stepMsg env (sys, G) (.heartbeat b)).1
        (stepMsg env (sys, G) (.heartbeat b)).2 := FullReachable.step sys G env _ hr ht
    rw [hstep] at hr'
    have hnp : ¬ Paused s' := by
      have := afterProcess_not_paused hq
      unfold afterProcess at this
      rwa [h] at this
    have hA' : InvAll s' G := (FullSys.fullReachable_inv hr').1 hnp
    -- `finish` = `maybe_process_response` + fee percentiles
    unfold finish at hfin
    cases hpr : processResponse env sys.st with
    | none => rw [hpr] at hfin; cases hfin
    | some sp =>
      rw [hpr] at hfin
      have hun : s'.unstable = sp.unstable := by
        simp only at hfin
        split at hfin
        · cases hfin; rfl
        · split at hfin
          · cases hfin
          · rename_i s3 pp hfp
            cases hfin
            rw [feePercentiles_eq hfp]
      have hnone : s'.syncing.response = none := by
        have h1 := C10.processResponse_consumes env sys.st sp r hresp hpr
        simp only at hfin
        split at hfin
        · cases hfin; exact h1
        · split at hfin
          · cases hfin
          · rename_i s3 pp hfp
            cases hfin
            rw [feePercentiles_syncing hfp]; exact h1
      -- the block loop
      unfold processResponse at hpr
      rw [hresp] at hpr
      simp only at hpr
      have hex : ∃ s1 stopped, processBlocks env s0 r.blocks = some (s1, stopped) := by
        cases hb : processBlocks env s0 r.blocks with
        | none => rw [hb] at hpr; cases hpr
        | some x => exact ⟨x.1, x.2, rfl⟩
      obtain ⟨s1, stopped, hb⟩ := hex
      · obtain ⟨s2, hacc, hcase⟩ := FullSys.processBlocks_accepted env r.blocks s0 s1 stopped hb
        have htree : s'.unstable.tree = s2.unstable.tree := by
          rw [hun]
          rw [hb] at hpr
          rcases hcase with ⟨rfl, rfl, _⟩ | ⟨rfl, hs1⟩
          · simp only at hpr
            exact (insertNextHeaders_tree _ _ _ _ hpr).1
          · simp only [Option.some.injEq] at hpr
            subst hpr
            rcases hs1 with rfl | rfl <;> rfl
        have hperm := C13.acceptAll_hashes env s0 s2 acc hacc
        have hperm' : (s'.unstable.tree.blocks.map CBlock.hash).Perm
            (acc.map (·.hash) ++ sys.st.unstable.tree.blocks.map CBlock.hash) := by
          rw [htree]; exact hperm
        refine ⟨s', s2, h, hstep, hp, hiss, hnone, ?_, hacc, htree, hperm',
          hperm'.nodup_iff.mp (tree_hashes_nodup hA'.invU.inv), ?_⟩
        · simp only [msgOps, h]
          exact FullSys.finishOps_complete env sys.st r hresp
        · constructor
          · rintro ⟨s1', h1'⟩
            rw [hb] at h1'
            simp only [Option.some.injEq, Prod.mk.injEq] at h1'
            obtain ⟨_, rfl⟩ := h1'
            rcases hcase with ⟨_, _, hd⟩ | ⟨hcontra, _⟩
            · exact hd
            · cases hcontra
          · intro hd
            exact ⟨s2, (C10.processBlocks_all_accepted_iff env s0 s2 r.blocks).mpr ⟨acc, hd, hacc⟩⟩

/-- the processing heartbeat adds exactly the work of the accepted blocks to the tree of unstable
    blocks (`respWork`: the sum of `blockWork` over the accepted prefix of the stored response) -/
theorem treeWork_afterProcess (hr : FullReachable sys G) (env : Env) (b : Nat)
    (ht : Trusted env (sys, G) (.heartbeat b)) (r : CompleteResp)
    (hresp : sys.st.syncing.response = some (.complete r)) (hq : quiet env b sys.st = true) :
    treeWork (afterProcess env b sys.st) = treeWork sys.st + respWork env sys.st := by
  obtain ⟨s', s2, h1, _, _, _, _, _, hacc, htree, _⟩ :=
    response_applied_once hr env b ht r hresp hq
  have e1 : treeWork (afterProcess env b sys.st) = treeWork s2 := by
    unfold afterProcess treeWork
    rw [h1]
    dsimp only
    rw [htree]
  rw [e1, acceptAll_treeWork env _ _ s2 hacc]
  unfold respWork
  rw [hresp]
  rfl

/-! ## 3. No deadlock, at the message level -/

/-- deliver the reply `r` if a request is outstanding -/
def deliverM (env : Env) (r : Reply) (sys : Fetch.Sys) : List (Env × Msg) :=
  match sys.pending with
  | some _ => [(env, .reply r)]
  | none => []

/-- `C13Live.resume` as a schedule of messages -/
def resumeM (env : Env) (b n m : Nat) (sys : Fetch.Sys) : List (Env × Msg) :=
  match sys.st.syncing.response with
  | some (.complete _) => hbsM env b (n + 1) ++ hbsM env b (m + 1)
  | _ => hbsM env b (n + 1)

/-- **The recovering continuation** (`C13Live.recovery`) as a schedule of messages: deliver the
    reply `r` (any reply) if a request is outstanding; `n` ingestion heartbeats and one that
    fetches — unless a complete response is stored: then that heartbeat processes it, and `m`
    ingestion heartbeats and one that fetches follow. -/
def recoveryM (env : Env) (b : Nat) (r : Reply) (n m : Nat) (sys : Fetch.Sys) : List (Env × Msg) :=
  deliverM env r sys ++ resumeM env b n m (afterDelivery env r sys)

theorem deliverM_length (env : Env) (r : Reply) (sys : Fetch.Sys) : (deliverM env r sys).length ≤ 1 := by
  unfold deliverM; split <;> simp

theorem resumeM_length (env : Env) (b n m : Nat) (sys : Fetch.Sys) :
    (resumeM env b n m sys).length ≤ n + m + 2 ∧
    ((∀ r, sys.st.syncing.response ≠ some (.complete r)) → (resumeM env b n m sys).length = n + 1) := by
  unfold resumeM
  split
  · rename_i c hc
    exact ⟨by simp [hbsM_length]; omega, fun h => absurd hc (h c)⟩
  · exact ⟨by simp [hbsM_length]; omega, fun _ => by simp [hbsM_length]⟩

theorem recoveryM_length (env : Env) (b : Nat) (r : Reply) (n m : Nat) (sys : Fetch.Sys) :
    (recoveryM env b r n m sys).length ≤ n + m + 3 := by
  have h1 := deliverM_length env r sys
  have h2 := (resumeM_length env b n m (afterDelivery env r sys)).1
  unfold recoveryM
  rw [List.length_append]; omega

/-- the schedule of messages is the schedule of `C13Live` -/
theorem recoveryM_acts (env : Env) (b : Nat) (r : Reply) (n m : Nat) (sys : Fetch.Sys) :
    actsOf (recoveryM env b r n m sys) = recovery env b r n m sys := by
  unfold recoveryM recovery deliverM resumeM resume
  rw [actsOf_append]
  congr 1
  · cases sys.pending <;> rfl
  · generalize (afterDelivery env r sys).st.syncing.response = resp
    cases resp with
    | none => simp only [actsOf_hbsM]
    | some x => cases x <;> simp only [actsOf_append, actsOf_hbsM]

theorem run_deliverM (env : Env) (r : Reply) (sys : Fetch.Sys) (G : List Block) :
    run (sys, G) (deliverM env r sys) = (afterDelivery env r sys, G) := by
  unfold deliverM afterDelivery
  cases sys.pending <;> rfl

theorem trusted_deliverM (env : Env) (r : Reply) (sys : Fetch.Sys) (G : List Block) :
    TrustedRun (sys, G) (deliverM env r sys) := by
  unfold deliverM
  cases sys.pending
  · trivial
  · exact ⟨trivial, trivial⟩

theorem traceM_deliverM (env : Env) (r : Reply) (sys : Fetch.Sys) (G : List Block) :
    traceM (sys, G) (deliverM env r sys) = [] := by
  unfold deliverM
  cases sys.pending <;> rfl

/-- the delivery of a reply leaves the ledger part alone -/
theorem afterDelivery_frame (env : Env) (r : Reply) (sys : Fetch.Sys) :
    Frame sys.st (afterDelivery env r sys).st := by
  unfold afterDelivery
  cases sys.pending with
  | none => exact Frame.refl _
  | some req => exact reply_frame env sys r

/-- **No deadlock from an idle configuration.**  Reachable, nothing outstanding, syncing enabled,
    not stuck, heartbeats with budget `b ≥ 1`; the environment assumption is needed for ONE
    heartbeat only: the one that processes the stored complete response (if there is one), after
    the `n` ingestion rounds. -/
theorem resume_full {c : Cfg} (hr : FullReachable c.1 c.2) (env : Env) (b : Nat) (hb : 1 ≤ b)
    (hp : c.1.pending = none) (hs : c.1.st.syncing.syncing = true)
    (hns : ¬ Stuck env.bound c.1.st)
    (hT : ∀ n r0, c.1.st.syncing.response = some (.complete r0) → settles env b n c.1.st = true →
      Trusted env (run c (hbsM env b n)) (.heartbeat b)) :
    ∃ n m, n ≤ treeWork c.1.st + 1 ∧
      m ≤ treeWork (afterProcess env b (settled env b n c.1.st)) + 1 ∧
      m ≤ treeWork c.1.st + respWork env (settled env b n c.1.st) + 1 ∧
      ((∀ r0, c.1.st.syncing.response ≠ some (.complete r0)) → m = 0) ∧
      healthy env b n m c.1.st = true ∧
      TrustedRun c (resumeM env b n m c.1) ∧
      ∃ req, traceM c (resumeM env b n m c.1) = [req] ∧
        (run c (resumeM env b n m c.1)).1.pending = some req ∧
        ResumeRequest env b n m c.1.st req := by
  obtain ⟨n, hn, hsettle⟩ := settles_of_reachable hr env b hb hns
  by_cases hc : ∀ r0, c.1.st.syncing.response ≠ some (.complete r0)
  · obtain ⟨t, req, tr, rn, sel⟩ := idle_full hr hp hs hsettle hc
    have hres : resumeM env b n 0 c.1 = hbsM env b (n + 1) := by
      unfold resumeM
      split
      · rename_i r0 h0; exact absurd h0 (hc r0)
      · rfl
    refine ⟨n, 0, hn, Nat.zero_le _, Nat.zero_le _, fun _ => rfl, healthy_of_not_complete hsettle hc, ?_,
      req, ?_, ?_, ?_⟩
    · rw [hres]; exact t
    · rw [hres]; exact tr
    · rw [hres, rn]
    · unfold ResumeRequest
      cases hresp : c.1.st.syncing.response with
      | none => rw [hresp] at sel; exact sel
      | some resp =>
        cases resp with
        | partial_ p k => rw [hresp] at sel; exact sel
        | complete r0 => exact absurd hresp (hc r0)
  · have hex : ∃ r0, c.1.st.syncing.response = some (.complete r0) := by
      cases hresp : c.1.st.syncing.response with
      | none => exact absurd (fun r0 h => by rw [hresp] at h; cases h) hc
      | some resp =>
        cases resp with
        | partial_ p k => exact absurd (fun r0 h => by rw [hresp] at h; cases h) hc
        | complete r0 => exact ⟨r0, rfl⟩
    obtain ⟨r0, hresp⟩ := hex
    obtain ⟨t1, tr1, rn1, he, hnone, hsync, hnp⟩ :=
      process_full hr hp hsettle hresp (hT n r0 hresp hsettle)
    -- the configuration after the processing heartbeat
    have hr3 : FullReachable (run c (hbsM env b (n + 1))).1 (run c (hbsM env b (n + 1))).2 :=
      run_reachable _ c hr t1
    have hns3 : ¬ Stuck env.bound (run c (hbsM env b (n + 1))).1.st := by
      rw [rn1]; exact fun h => hnp h.1
    obtain ⟨m, hm, hsettle2⟩ := settles_of_reachable hr3 env b hb hns3
    rw [rn1] at hm hsettle2
    dsimp only at hm hsettle2
    have hc3 : ∀ r1, (run c (hbsM env b (n + 1))).1.st.syncing.response ≠ some (.complete r1) := by
      rw [rn1]; dsimp only; rw [hnone]; intro r1 h; cases h
    obtain ⟨t2, req, tr2, rn2, sel⟩ := idle_full (env := env) (b := b) (n := m) hr3 (by rw [rn1])
      (by rw [rn1]; dsimp only; rw [hsync]; exact hs) (by rw [rn1]; exact hsettle2) hc3
    have hres : resumeM env b n m c.1 = hbsM env b (n + 1) ++ hbsM env b (m + 1) := by
      unfold resumeM; rw [hresp]
    have hm' : m ≤ treeWork c.1.st + respWork env (settled env b n c.1.st) + 1 := by
      obtain ⟨t0, r0', _⟩ := settle_full env b n c hsettle
      have hr2 := run_reachable _ c hr t0
      have hst2 : (run c (hbsM env b n)).1.st = settled env b n c.1.st := by rw [r0']
      have := treeWork_afterProcess hr2 env b (hT n r0 hresp hsettle) r0
        (by rw [hst2, settled_syncing]; exact hresp)
        (by rw [hst2]; exact settles_quiet env b n c.1.st hsettle)
      rw [hst2] at this
      have h3 := settled_treeWork env b n c.1.st
      omega
    refine ⟨n, m, hn, hm, hm', fun h => absurd hresp (h r0), ?_, ?_, req, ?_, ?_, ?_⟩
    · simp only [healthy, hresp, hsettle, he, hsettle2, Bool.and_self]
    · rw [hres, trustedRun_append]; exact ⟨t1, t2⟩
    · rw [hres, traceM_append, tr1, tr2]; rfl
    · rw [hres, Btc.Lemmas.FullSys.run_append, rn2]
    · unfold ResumeRequest
      rw [hresp]
      rw [rn1] at sel
      dsimp only at sel
      rw [hnone] at sel
      exact sel

/-- **No deadlock, for the message-level system.**  From EVERY reachable configuration (any phase:
    idle, request outstanding, `k` of `n` pages stored, complete response stored, ingestion
    paused) with syncing enabled that is not stuck (finding F13), for heartbeats with any budget
    `b ≥ 1` and any reply `r` (a reject, the expected page, an ill-typed one): there are
    `n ≤ treeWork + 1` and `m ≤ treeWork + respWork + 1` (`respWork`: the ingestion work of the
    blocks of the stored response that are accepted) such that the explicit schedule
    `recoveryM env b r n m sys` — of length at most `n + m + 3 ≤ 2 * treeWork + respWork + 5` —
    satisfies the environment assumption, sends exactly one request, with its last message, and
    that request is then outstanding.

    The ONLY hypothesis on the environment (`hT`) concerns the single heartbeat that processes a
    stored complete response: the delivered blocks that pass the canister's validation are
    `PushDomain` blocks there.  Nothing is assumed when no complete response is stored after the
    delivery (`m = 0` then, and the schedule has at most `treeWork + 3` messages). -/
theorem no_deadlock_full (hr : FullReachable sys G) (env : Env) (b : Nat) (hb : 1 ≤ b) (r : Reply)
    (hs : sys.st.syncing.syncing = true) (hns : ¬ Stuck env.bound sys.st)
    (hT : ∀ n r0, (afterDelivery env r sys).st.syncing.response = some (.complete r0) →
      settles env b n (afterDelivery env r sys).st = true →
      Trusted env (run (sys, G) (deliverM env r sys ++ hbsM env b n)) (.heartbeat b)) :
    ∃ n m, n ≤ treeWork sys.st + 1 ∧
      m ≤ treeWork sys.st + respWork env (settled env b n (afterDelivery env r sys).st) + 1 ∧
      ((∀ r0, (afterDelivery env r sys).st.syncing.response ≠ some (.complete r0)) → m = 0) ∧
      (recoveryM env b r n m sys).length ≤
        2 * treeWork sys.st + respWork env (settled env b n (afterDelivery env r sys).st) + 5 ∧
      healthy env b n m (afterDelivery env r sys).st = true ∧
      TrustedRun (sys, G) (recoveryM env b r n m sys) ∧
      FullReachable (run (sys, G) (recoveryM env b r n m sys)).1
        (run (sys, G) (recoveryM env b r n m sys)).2 ∧
      ∃ req, traceM (sys, G) (recoveryM env b r n m sys) = [req] ∧
        (run (sys, G) (recoveryM env b r n m sys)).1.pending = some req ∧
        ResumeRequest env b n m (afterDelivery env r sys).st req := by
  have hrun1 := run_deliverM env r sys G
  have ht1 := trusted_deliverM env r sys G
  have hf := afterDelivery_frame env r sys
  have hr1 : FullReachable (afterDelivery env r sys, G).1 (afterDelivery env r sys, G).2 := by
    rw [← hrun1]; exact run_reachable _ _ hr ht1
  have hs1 : (afterDelivery env r sys).st.syncing.syncing = true := by
    unfold afterDelivery
    cases sys.pending with
    | none => exact hs
    | some req => dsimp only; rw [reply_syncing_flag]; exact hs
  obtain ⟨n, m, hn, _, hm, hm0, hh, t2, req, tr, rn, sel⟩ :=
    resume_full (c := (afterDelivery env r sys, G)) hr1 env b hb (afterDelivery_pending env r sys) hs1
      (fun h => hns ((stuck_frame hf).mp h))
      (fun n r0 h1 h2 => by
        have := hT n r0 h1 h2
        rwa [Btc.Lemmas.FullSys.run_append, hrun1] at this)
  have hT : TrustedRun (sys, G) (recoveryM env b r n m sys) := by
    unfold recoveryM
    rw [trustedRun_append, hrun1]
    exact ⟨ht1, t2⟩
  have htw : treeWork (afterDelivery env r sys).st = treeWork sys.st :=
    treeWork_congr hf.unstable
  dsimp only at hn hm
  rw [htw] at hn hm
  refine ⟨n, m, hn, hm, hm0, ?_, hh, hT, run_reachable _ _ hr hT, req, ?_, ?_, sel⟩
  · have := recoveryM_length env b r n m sys
    omega
  · unfold recoveryM
    rw [traceM_append, traceM_deliverM, hrun1, tr]; rfl
  · unfold recoveryM
    rw [Btc.Lemmas.FullSys.run_append, hrun1, rn]

/-- **No deadlock, no complete response stored**: no hypothesis on the environment at all, the
    schedule — reject the outstanding request (if any), then `n + 1 ≤ treeWork + 2` heartbeats —
    has at most `treeWork sys.st + 3` messages. -/
theorem no_deadlock_full_reject (hr : FullReachable sys G) (env : Env) (b : Nat) (hb : 1 ≤ b)
    (hs : sys.st.syncing.syncing = true) (hns : ¬ Stuck env.bound sys.st)
    (hc : sys.pending = none → ∀ c, sys.st.syncing.response ≠ some (.complete c)) :
    ∃ n, n ≤ treeWork sys.st + 1 ∧
      (recoveryM env b .reject n 0 sys).length ≤ treeWork sys.st + 3 ∧
      TrustedRun (sys, G) (recoveryM env b .reject n 0 sys) ∧
      ∃ req, traceM (sys, G) (recoveryM env b .reject n 0 sys) = [req] ∧
        (run (sys, G) (recoveryM env b .reject n 0 sys)).1.pending = some req := by
  have hc1 : ∀ r0, (afterDelivery env .reject sys).st.syncing.response ≠ some (.complete r0) := by
    unfold afterDelivery
    cases hp : sys.pending with
    | none => exact hc hp
    | some req =>
      dsimp only
      rw [reject_state env sys req hp]
      intro r0 h; cases h
  obtain ⟨n, m, hn, _, hm0, _, _, hT, _, req, tr, rn, _⟩ :=
    no_deadlock_full hr env b hb .reject hs hns (fun n r0 h _ => absurd h (hc1 r0))
  have := hm0 hc1
  subst this
  refine ⟨n, hn, ?_, hT, req, tr, rn⟩
  have h1 := deliverM_length env .reject sys
  have h2 := (resumeM_length env b n 0 (afterDelivery env .reject sys)).2 hc1
  unfold recoveryM
  rw [List.length_append]; omega

/-! ## 3b. Fair schedules of messages -/

def isReplyM : Msg → Bool
  | .reply _ => true
  | _ => false

/-- one of the first `k` messages is a reply of the block source (accept or reject) -/
def replyWithinM : Nat → List (Env × Msg) → Bool
  | 0, _ => false
  | _, [] => false
  | k + 1, (_, m) :: rest => isReplyM m || replyWithinM k rest

/-- one of the first `k` messages is a heartbeat whose ingestion round has nothing to do, at the
    configuration in which it is executed (`pastIngestion` = `quiet`).  Nothing is said about
    trapping: that such a heartbeat is *effective* is a theorem (`effective_iff_quiet`). -/
def quietWithin : Nat → Cfg → List (Env × Msg) → Bool
  | 0, _, _ => false
  | _, _, [] => false
  | k + 1, c, (env, m) :: rest =>
    (match m with
      | .heartbeat b => pastIngestion env c.1.st b
      | _ => false) || quietWithin k (stepMsg env c m) rest

/-- the syncing flag is on whenever a message of the schedule is executed -/
def syncOnM : Cfg → List (Env × Msg) → Bool
  | _, [] => true
  | c, (env, m) :: rest => c.1.st.syncing.syncing && syncOnM (stepMsg env c m) rest

/-- every window of `k` consecutive messages (i) contains a reply if a request is outstanding
    when the window starts and (ii) contains a heartbeat past ingestion -/
def windowsM (k : Nat) : Cfg → List (Env × Msg) → Bool
  | _, [] => true
  | c, (env, m) :: rest =>
    (decide (rest.length + 1 < k) ||
      ((!c.1.pending.isSome || replyWithinM k ((env, m) :: rest)) &&
        quietWithin k c ((env, m) :: rest))) &&
    windowsM k (stepMsg env c m) rest

/-- **Fair schedules of messages** (window size `k`): syncing stays enabled; every outstanding
    request receives some reply within `k` messages; heartbeats that find ingestion at rest occur
    again and again.  Upgrades, `set_config`s that leave syncing on, endpoint calls, ingesting
    heartbeats and stray replies may be interleaved arbitrarily.  (By `stuck_heartbeat` a stuck
    configuration has no fair continuation: condition (ii) fails for ever.) -/
structure FairM (k : Nat) (c : Cfg) (msgs : List (Env × Msg)) : Prop where
  on : syncOnM c msgs = true
  win : windowsM k c msgs = true

theorem run_take_drop (c : Cfg) (msgs : List (Env × Msg)) (n : Nat) :
    run (run c (msgs.take n)) (msgs.drop n) = run c msgs := by
  rw [← Btc.Lemmas.FullSys.run_append, List.take_append_drop]

theorem syncOnM_drop : ∀ (n : Nat) (c : Cfg) (msgs : List (Env × Msg)), syncOnM c msgs = true →
    syncOnM (run c (msgs.take n)) (msgs.drop n) = true
  | 0, _, _, h => h
  | _ + 1, _, [], _ => rfl
  | n + 1, c, (env, m) :: rest, h => by
    simp only [syncOnM, Bool.and_eq_true] at h
    exact syncOnM_drop n _ rest h.2

theorem windowsM_drop (k : Nat) : ∀ (n : Nat) (c : Cfg) (msgs : List (Env × Msg)),
    windowsM k c msgs = true → windowsM k (run c (msgs.take n)) (msgs.drop n) = true
  | 0, _, _, h => h
  | _ + 1, _, [], _ => rfl
  | n + 1, c, (env, m) :: rest, h => by
    simp only [windowsM, Bool.and_eq_true] at h
    exact windowsM_drop k n _ rest h.2

theorem FairM.drop {k : Nat} {c : Cfg} {msgs : List (Env × Msg)} (h : FairM k c msgs) (n : Nat) :
    FairM k (run c (msgs.take n)) (msgs.drop n) :=
  ⟨syncOnM_drop n c msgs h.on, windowsM_drop k n c msgs h.win⟩

theorem trustedRun_drop {c : Cfg} {msgs : List (Env × Msg)} (h : TrustedRun c msgs) (n : Nat) :
    TrustedRun (run c (msgs.take n)) (msgs.drop n) :=
  ((trustedRun_append c (msgs.take n) (msgs.drop n)).mp (by rw [List.take_append_drop]; exact h)).2

theorem FairM.head {k : Nat} {c : Cfg} {msgs : List (Env × Msg)} (h : FairM k c msgs)
    (hk : 0 < k) (hlen : k ≤ msgs.length) :
    (c.1.pending.isSome = true → replyWithinM k msgs = true) ∧ quietWithin k c msgs = true := by
  cases msgs with
  | nil => simp only [List.length_nil] at hlen; omega
  | cons em rest =>
    obtain ⟨env, m⟩ := em
    have hw := h.win
    simp only [windowsM, Bool.and_eq_true, Bool.or_eq_true, decide_eq_true_eq, Bool.not_eq_true'] at hw
    simp only [List.length_cons] at hlen
    rcases hw.1 with hlt | ⟨h1, h2⟩
    · omega
    · refine ⟨fun hp => ?_, h2⟩
      rcases h1 with h1 | h1
      · rw [hp] at h1; cases h1
      · exact h1

/-- the phase never goes up on a message that sends no request (endpoint calls included) -/
theorem stageM_step_le (env : Env) (sys : Fetch.Sys) (m : Msg) (hi : issuedM env sys m = none) :
    stage (stepSys env sys m) ≤ stage sys := by
  cases m with
  | call cl =>
    obtain ⟨h1, h2⟩ := stepSys_call_fetch env sys cl
    unfold stage
    rw [h1, h2]
    exact Nat.le_refl _
  | heartbeat b => exact stage_step_le env (.heartbeat b) hi
  | reply r => exact stage_step_le env (.reply r) hi
  | upgrade cfg => exact stage_step_le env (.upgrade cfg) hi
  | setConfig cfg => exact stage_step_le env (.setConfig cfg) hi

theorem traceM_cons_nil {env : Env} {c : Cfg} {m : Msg} {rest : List (Env × Msg)}
    (h : traceM c ((env, m) :: rest) = []) :
    issuedM env c.1 m = none ∧ traceM (stepMsg env c m) rest = [] := by
  simp only [traceM, List.append_eq_nil_iff] at h
  refine ⟨?_, h.2⟩
  cases hi : issuedM env c.1 m with
  | none => rfl
  | some r => rw [hi] at h; simp at h

theorem stageM_run_le : ∀ (msgs : List (Env × Msg)) (c : Cfg), traceM c msgs = [] →
    stage (run c msgs).1 ≤ stage c.1
  | [], _, _ => Nat.le_refl _
  | (env, m) :: rest, c, h => by
    obtain ⟨h1, h2⟩ := traceM_cons_nil h
    exact Nat.le_trans (stageM_run_le rest _ h2) (stageM_step_le env c.1 m h1)

theorem stageM_run_or (msgs : List (Env × Msg)) (c : Cfg) :
    traceM c msgs ≠ [] ∨ stage (run c msgs).1 ≤ stage c.1 := by
  by_cases h : traceM c msgs = []
  · exact .inr (stageM_run_le msgs c h)
  · exact .inl h

/-- (i): a reply among the first `k` messages ends the wait — unless a request is sent before -/
theorem reply_windowM : ∀ (k : Nat) (c : Cfg) (msgs : List (Env × Msg)),
    replyWithinM k msgs = true →
    traceM c (msgs.take k) ≠ [] ∨ stage (run c (msgs.take k)).1 ≤ 1
  | 0, _, _, h => by simp [replyWithinM] at h
  | _ + 1, _, [], h => by simp [replyWithinM] at h
  | k + 1, c, (env, m) :: rest, h => by
    simp only [replyWithinM, Bool.or_eq_true] at h
    simp only [List.take_succ_cons, traceM, run]
    cases hi : issuedM env c.1 m with
    | some req => left; simp
    | none =>
      simp only [Option.toList, List.nil_append]
      rcases h with h | h
      · cases m with
        | reply r =>
          rcases stageM_run_or (rest.take k) (stepMsg env c (.reply r)) with h1 | h1
          · exact .inl h1
          · exact .inr (Nat.le_trans h1 (stage_reply env c.1 r))
        | _ => simp [isReplyM] at h
      · exact reply_windowM k _ rest h

/-- (ii): a heartbeat past ingestion among the first `k` messages, executed in a reachable
    configuration under the environment assumption while nothing is outstanding and syncing is on,
    sends a request or consumes the stored complete response — it cannot trap -/
theorem quiet_windowM : ∀ (k : Nat) (c : Cfg) (msgs : List (Env × Msg)), FullReachable c.1 c.2 →
    TrustedRun c msgs → syncOnM c msgs = true → stage c.1 ≤ 1 → quietWithin k c msgs = true →
    traceM c (msgs.take k) ≠ [] ∨ stage (run c (msgs.take k)).1 < stage c.1
  | 0, _, _, _, _, _, _, h => by simp [quietWithin] at h
  | _ + 1, _, [], _, _, _, _, h => by simp [quietWithin] at h
  | k + 1, c, (env, m) :: rest, hr, htr, hon, hst, h => by
    simp only [quietWithin, Bool.or_eq_true] at h
    simp only [syncOnM, Bool.and_eq_true] at hon
    obtain ⟨ht, htr'⟩ := htr
    simp only [List.take_succ_cons, traceM, run]
    have inv := (FullSys.fetch_invariant hr).1
    have hr' : FullReachable (stepMsg env c m).1 (stepMsg env c m).2 :=
      FullReachable.step c.1 c.2 env m hr ht
    cases hi : issuedM env c.1 m with
    | some req => left; simp
    | none =>
      simp only [Option.toList, List.nil_append]
      have hle := stageM_step_le env c.1 m hi
      have hp := pending_of_stage hst
      rcases h with h | h
      · cases m with
        | heartbeat b =>
          dsimp only at h
          have he : effective env c.1.st b = true :=
            (effective_iff_quiet hr env b ht).mpr h
          cases hresp : c.1.st.syncing.response with
          | some resp =>
            cases resp with
            | complete cr =>
              obtain ⟨_, _, hpend, hnone, _⟩ := hb_process (sys := c.1) he hresp
              have h0 : stage (stepMsg env c (.heartbeat b)).1 = 0 :=
                stage_of_idle_none (sys := Fetch.step env c.1 (.heartbeat b)) (by rw [hpend, hp]) hnone
              have h1 : stage c.1 = 1 := by simp [stage, hp, hresp]
              rcases stageM_run_or (rest.take k) (stepMsg env c (.heartbeat b)) with h2 | h2
              · exact .inl h2
              · right; omega
            | partial_ p j =>
              have hc : ∀ r, c.1.st.syncing.response ≠ some (.complete r) := by
                rw [hresp]; intro r hr; cases hr
              obtain ⟨req, hreq, _⟩ := hb_ready (env := env) (b := b) inv hp hon.1 (effective_quiet he) hc
              have : issuedM env c.1 (.heartbeat b) = some req := hreq
              rw [this] at hi; cases hi
          | none =>
            have hc : ∀ r, c.1.st.syncing.response ≠ some (.complete r) := by
              rw [hresp]; intro r hr; cases hr
            obtain ⟨req, hreq, _⟩ := hb_ready (env := env) (b := b) inv hp hon.1 (effective_quiet he) hc
            have : issuedM env c.1 (.heartbeat b) = some req := hreq
            rw [this] at hi; cases hi
        | _ => simp at h
      · rcases quiet_windowM k _ rest hr' htr' hon.2 (Nat.le_trans hle hst) h with h1 | h1
        · exact .inl h1
        · right
          have : stage (stepMsg env c m).1 ≤ stage c.1 := hle
          omega

theorem take_add_three (msgs : List (Env × Msg)) (k : Nat) :
    msgs.take (3 * k) = msgs.take k ++ ((msgs.drop k).take k ++ ((msgs.drop k).drop k).take k) := by
  have : 3 * k = k + (k + k) := by omega
  rw [this, List.take_add, List.take_add]

/-- **A request is sent again under every fair, trusted schedule of messages.**  From every
    reachable configuration (any phase, ingestion paused or not): if the schedule satisfies the
    environment assumption, is fair with window `k ≥ 1` and at least `3 * k` messages long, one of
    its first `3 * k` messages sends a request to the block source. -/
theorem fair_issues_full {c : Cfg} (hr : FullReachable c.1 c.2) {k : Nat} (hk : 0 < k)
    {msgs : List (Env × Msg)} (htr : TrustedRun c msgs) (hfair : FairM k c msgs)
    (hlen : 3 * k ≤ msgs.length) : traceM c (msgs.take (3 * k)) ≠ [] := by
  rw [take_add_three, traceM_append, traceM_append]
  have f1 := hfair.drop k
  have f2 := f1.drop k
  have t1 := trustedRun_drop htr k
  have t2 := trustedRun_drop t1 k
  have r1 : FullReachable (run c (msgs.take k)).1 (run c (msgs.take k)).2 :=
    run_reachable _ c hr (trustedRun_take htr k)
  have r2 : FullReachable (run (run c (msgs.take k)) ((msgs.drop k).take k)).1
      (run (run c (msgs.take k)) ((msgs.drop k).take k)).2 :=
    run_reachable _ _ r1 (trustedRun_take t1 k)
  have l1 : k ≤ (msgs.drop k).length := by rw [List.length_drop]; omega
  have l2 : k ≤ ((msgs.drop k).drop k).length := by rw [List.length_drop, List.length_drop]; omega
  -- first window: the outstanding request (if any) is answered
  have s1 : traceM c (msgs.take k) ≠ [] ∨ stage (run c (msgs.take k)).1 ≤ 1 := by
    cases hp : c.1.pending with
    | some req =>
      exact reply_windowM k c msgs ((hfair.head hk (by omega)).1 (by simp [hp]))
    | none =>
      rcases stageM_run_or (msgs.take k) c with h | h
      · exact .inl h
      · exact .inr (Nat.le_trans h (stage_idle hp))
  rcases s1 with s1 | s1
  · intro h; simp only [List.append_eq_nil_iff] at h; exact s1 h.1
  -- second window: a stored complete response is consumed
  rcases quiet_windowM k _ (msgs.drop k) r1 t1 f1.on s1 (f1.head hk l1).2 with s2 | s2
  · intro h; simp only [List.append_eq_nil_iff] at h; exact s2 h.2.1
  -- third window: the request is sent
  rcases quiet_windowM k _ ((msgs.drop k).drop k) r2 t2 f2.on (by omega) (f2.head hk l2).2 with s3 | s3
  · intro h; simp only [List.append_eq_nil_iff] at h; exact s3 h.2.2
  · omega

/-- **Unboundedly many requests, at the message level.**  Along a fair schedule of messages that
    satisfies the environment assumption and has at least `m * (3 * k)` messages, at least `m`
    requests are sent — from every reachable configuration: fetching is never permanently
    disabled.  Upgrades, `set_config`s (syncing stays on), endpoint calls, replies of any kind may
    be interleaved; "effective" is no longer assumed of any heartbeat. -/
theorem fair_unbounded_full {k : Nat} (hk : 0 < k) : ∀ (m : Nat) {c : Cfg}, FullReachable c.1 c.2 →
    ∀ {msgs : List (Env × Msg)}, TrustedRun c msgs → FairM k c msgs → m * (3 * k) ≤ msgs.length →
    m ≤ (traceM c msgs).length
  | 0, _, _, _, _, _, _ => Nat.zero_le _
  | m + 1, c, hr, msgs, htr, hfair, hlen => by
    have hsplit : (m + 1) * (3 * k) = m * (3 * k) + 3 * k := Nat.succ_mul _ _
    have h1 := fair_issues_full hr hk htr hfair (by omega)
    have h2 := fair_unbounded_full hk m (run_reachable _ c hr (trustedRun_take htr (3 * k)))
      (trustedRun_drop htr (3 * k)) (hfair.drop (3 * k)) (by rw [List.length_drop]; omega)
    have : traceM c msgs = traceM c (msgs.take (3 * k)) ++
        traceM (run c (msgs.take (3 * k))) (msgs.drop (3 * k)) := by
      rw [← traceM_append, List.take_append_drop]
    rw [this, List.length_append]
    have : 1 ≤ (traceM c (msgs.take (3 * k))).length := by
      cases ht : traceM c (msgs.take (3 * k)) with
      | nil => exact absurd ht h1
      | cons x xs => simp
    omega

/-- where the heartbeats past ingestion come from: from a configuration in which `n` ingestion
    rounds remain (`settles_full`: `n ≤ treeWork + 1` if reachable and not stuck), the
    `(n + 1)`-th of `n + 1` consecutive heartbeats is past ingestion -/
theorem quietWithin_of_settles (env : Env) (b : Nat) : ∀ (n : Nat) (c : Cfg),
    settles env b n c.1.st = true → quietWithin (n + 1) c (hbsM env b (n + 1)) = true
  | 0, c, h => by
    simp only [hbsM, List.replicate, quietWithin, Bool.or_eq_true]
    exact Or.inl h
  | n + 1, c, h => by
    obtain ⟨h1, h2⟩ := settles_succ_step (c := c) h
    have := quietWithin_of_settles env b n (stepMsg env c (.heartbeat b)) (by rw [h1]; exact h2)
    show quietWithin (n + 1 + 1) c ((env, Msg.heartbeat b) :: hbsM env b (n + 1)) = true
    simp only [quietWithin, Bool.or_eq_true]
    exact Or.inr this

/-! ## 3c. What keeps a configuration non-stuck -/

/-- the message does not change the stability threshold -/
def keepsThreshold : Msg → Bool
  | .setConfig c => c.stabilityThreshold.isNone
  | .upgrade (some c) => c.stabilityThreshold.isNone
  | _ => true

/-- **Staying non-stuck, one message** (environments with one depth bound — it is a fixed function
    in the code).  Heartbeats (whatever they do), replies and endpoint calls never make a
    configuration stuck.  `set_config` and upgrades cannot either, unless they are executed while
    a block is partially ingested AND make its anchor unstable: exactly what is needed is that the
    anchor is still stable afterwards (`hcfg`); it is automatic if no block is partially ingested
    or if the message does not touch the stability threshold (`nonStuck_step_keeps`). -/
theorem nonStuck_step (hr : FullReachable sys G) (env : Env) (m : Msg)
    (hns : ¬ Stuck env.bound sys.st)
    (hcfg : (∃ c, m = .setConfig c) ∨ (∃ c, m = .upgrade c) → Paused sys.st →
      Unstable.peek env.bound (stepMsg env (sys, G) m).1.st.unstable ≠ none) :
    ¬ Stuck env.bound (stepMsg env (sys, G) m).1.st := by
  cases m with
  | reply r => exact fun h => hns ((stuck_frame (reply_frame env sys r)).mp h)
  | call cl => exact fun h => hns ((stuck_frame (callState_frame env sys.st cl)).mp h)
  | setConfig c =>
    intro hst
    have hp : Paused sys.st := by
      have := hst.1
      simp only [stepMsg, stepSys, Fetch.step, Paused] at this
      rw [(setConfig_frame sys.st c).1] at this
      exact this
    exact hcfg (Or.inl ⟨c, rfl⟩) hp hst.2
  | upgrade c =>
    intro hst
    have hp : Paused sys.st := by
      have := hst.1
      simp only [stepMsg, stepSys, Fetch.step, Paused] at this
      rw [utxos_upgrade] at this
      exact this
    exact hcfg (Or.inr ⟨c, rfl⟩) hp hst.2
  | heartbeat b =>
    have h2 := ingest_not_stuck env.bound (fullReachable_inv2 hr) hns b
    simp only [stepMsg, stepSys, Fetch.step]
    rcases heartbeatStart_cases env sys.st b with h | ⟨s', p, h, hc⟩ | ⟨_, _, req, _, h⟩ |
        ⟨hi, _, _, s', _, h⟩
    · rw [h]; exact hns
    · rw [h]
      rcases hc with ⟨_, hc⟩ | ⟨_, hc⟩ <;> rw [hc] at h2 <;> exact h2
    · rw [h]
      exact fun hst => hns ((stuck_frame (s := sys.st) ⟨rfl, rfl, rfl⟩).mp hst)
    · rw [h]
      have := afterProcess_not_paused ((quiet_iff env b _).mpr hi)
      unfold afterProcess at this
      rw [h] at this
      exact fun hst => this hst.1

/-- messages that leave the stability threshold alone never make a configuration stuck -/
theorem nonStuck_step_keeps (hr : FullReachable sys G) (env : Env) (m : Msg)
    (hns : ¬ Stuck env.bound sys.st) (hk : keepsThreshold m = true) :
    ¬ Stuck env.bound (stepMsg env (sys, G) m).1.st := by
  apply nonStuck_step hr env m hns
  rintro (⟨c, rfl⟩ | ⟨c, rfl⟩) hp hpeek
  · have hthr : c.stabilityThreshold = none := by
      simpa [keepsThreshold] using hk
    simp only [stepMsg, stepSys, Fetch.step] at hpeek
    rw [setConfig_unstable _ c hthr] at hpeek
    exact hns ⟨hp, hpeek⟩
  · simp only [stepMsg, stepSys, Fetch.step] at hpeek
    rw [upgrade_eq] at hpeek
    cases c with
    | none => exact hns ⟨hp, (peek_none_upgraded env.bound sys.st).mp hpeek⟩
    | some c =>
      have hthr : c.stabilityThreshold = none := by
        simpa [keepsThreshold] using hk
      simp only at hpeek
      rw [setConfig_unstable _ c hthr] at hpeek
      exact hns ⟨hp, (peek_none_upgraded env.bound sys.st).mp hpeek⟩

/-- **Staying non-stuck along a schedule**: all environments use the depth bound `bound`, every
    `set_config` / upgrade either leaves the stability threshold alone or is executed while no
    block is partially ingested -/
theorem nonStuck_run (bound : Unstable.BoundFn) : ∀ (msgs : List (Env × Msg)) (c : Cfg),
    FullReachable c.1 c.2 → TrustedRun c msgs → ¬ Stuck bound c.1.st →
    (∀ i (h : i < msgs.length), msgs[i].1.bound = bound ∧
      (keepsThreshold msgs[i].2 = true ∨ ¬ Paused (run c (msgs.take i)).1.st)) →
    ¬ Stuck bound (run c msgs).1.st
  | [], _, _, _, hns, _ => hns
  | (env, m) :: rest, c, hr, ht, hns, hall => by
    obtain ⟨hb, hk⟩ := hall 0 (by simp)
    simp only [List.getElem_cons_zero] at hb hk
    subst hb
    have hr' := FullReachable.step c.1 c.2 env m hr ht.1
    have hns' : ¬ Stuck env.bound (stepMsg env c m).1.st := by
      rcases hk with hk | hk
      · exact nonStuck_step_keeps hr env m hns hk
      · exact nonStuck_step hr env m hns (fun _ hp => absurd hp hk)
    refine nonStuck_run env.bound rest (stepMsg env c m) hr' ht.2 hns' ?_
    intro i hi
    have := hall (i + 1) (by simp; omega)
    simpa only [List.getElem_cons_succ, List.take_succ_cons, run] using this

/-- special case: no message of the schedule touches the stability threshold -/
theorem nonStuck_run_keeps (bound : Unstable.BoundFn) (msgs : List (Env × Msg)) (c : Cfg)
    (hr : FullReachable c.1 c.2) (ht : TrustedRun c msgs) (hns : ¬ Stuck bound c.1.st)
    (hall : ∀ em ∈ msgs, em.1.bound = bound ∧ keepsThreshold em.2 = true) :
    ¬ Stuck bound (run c msgs).1.st :=
  nonStuck_run bound msgs c hr ht hns (fun _ hi =>
    ⟨(hall _ (List.getElem_mem hi)).1, Or.inl (hall _ (List.getElem_mem hi)).2⟩)

/-! ## 3d. The happy path: the remaining pages arrive, the block is applied, fetching goes on -/

/-- for every page: a heartbeat (which asks for it), then the page (`C13Live.pagesSchedule`) -/
def pagesM (env : Env) (b : Nat) : List String → List (Env × Msg)
  | [] => []
  | pg :: rest => (env, .heartbeat b) :: (env, .reply (.followUp pg)) :: pagesM env b rest

theorem pagesM_acts (env : Env) (b : Nat) : ∀ pages, actsOf (pagesM env b pages) = pagesSchedule env b pages
  | [] => rfl
  | pg :: rest => by
    show (env, Msg.action (.heartbeat b)) :: (env, Msg.action (.reply (.followUp pg))) ::
      actsOf (pagesM env b rest) = _
    rw [pagesM_acts env b rest]; rfl

theorem pagesM_noCalls (env : Env) (b : Nat) : ∀ pages, ∀ em ∈ pagesM env b pages, isCall em.2 = false
  | [], _, h => by simp [pagesM] at h
  | pg :: rest, em, h => by
    simp only [pagesM, List.mem_cons] at h
    rcases h with rfl | rfl | h
    · rfl
    · rfl
    · exact pagesM_noCalls env b rest em h

theorem pagesM_length (env : Env) (b : Nat) (pages : List String) :
    (pagesM env b pages).length = 2 * pages.length := by
  induction pages with
  | nil => rfl
  | cons pg rest ih => simp only [pagesM, List.length_cons, ih]; omega

theorem settles_quiet_zero {env : Env} {b n : Nat} {s : State} (hq : quiet env b s = true)
    (h : settles env b n s = true) : n = 0 := by
  cases n with
  | zero => rfl
  | succ k => rw [settles_succ_not_quiet h] at hq; cases hq

/-- the page-by-page schedule satisfies the environment assumption by itself: no heartbeat of it
    finds a complete response -/
theorem pages_trusted (env : Env) (b : Nat) (next : List String) (total : Nat) (h255 : total ≤ 255) :
    ∀ (pages : List String) (c : Cfg) (acc : String) (k : Nat), FullReachable c.1 c.2 →
    c.1.pending = none → c.1.st.syncing.response = some (.partial_ ⟨acc, next, total⟩ k) →
    k + pages.length ≤ total → c.1.st.syncing.syncing = true → quiet env b c.1.st = true →
    TrustedRun c (pagesM env b pages)
  | [], _, _, _, _, _, _, _, _, _ => trivial
  | pg :: rest, c, acc, k, hr, hp, hresp, hlen, hs, hq => by
    have inv := (FullSys.fetch_invariant hr).1
    have hc : ∀ r, c.1.st.syncing.response ≠ some (.complete r) := by rw [hresp]; intro r h; cases h
    have t1 : Trusted env c (.heartbeat b) := trusted_of_not_complete hc
    have hr1 := FullReachable.step c.1 c.2 env (.heartbeat b) hr t1
    have hr2 := FullReachable.step _ _ env (.reply (.followUp pg)) hr1 trivial
    refine ⟨t1, trivial, ?_⟩
    simp only [List.length_cons] at hlen
    by_cases hlast : k + 1 = total
    · have : rest = [] := by
        cases rest with
        | nil => rfl
        | cons a l => simp only [List.length_cons] at hlen; omega
      subst this
      trivial
    · obtain ⟨_, hrun⟩ := deliver_pages env b next total h255 [pg] acc k inv hp hresp
        (by simp only [List.length_cons, List.length_nil]; omega) hs hq
      have h2 : (stepMsg env (stepMsg env c (.heartbeat b)) (.reply (.followUp pg))).1 =
          ⟨withSy (pagesStored c.1.st.syncing acc next total k [pg]) c.1.st, none⟩ := hrun
      exact pages_trusted env b next total h255 rest _ (acc ++ pg) (k + 1) hr2 (by rw [h2])
        (by rw [h2]; simp [withSy, pagesStored, hlast, C13.joinPages]) (by omega)
        (by rw [h2]; exact hs) (by rw [h2]; dsimp only; rw [quiet_withSy]; exact hq)

/-- **The block in flight is fetched to the end, applied, and fetching goes on — at the message
    level.**  Reachable configuration, idle with `k` of `total` pages stored, syncing on, ingestion
    at rest, heartbeats with budget `b ≥ 1`.  If the source delivers the remaining `total - k`
    pages (each after the heartbeat that asks for it), and the environment assumption holds for
    the ONE heartbeat that processes the reassembled block, then there is
    `m ≤ treeWork + respWork + 1` such that the explicit continuation of length
    `2 * (total - k) + m + 2` — a function of the remaining follow-up pages, the work of the
    unstable blocks and the work of the stored block — sends `followUp k, …, followUp (total - 1)`
    and then an INITIAL request.  `effective` and `settles` (hypotheses of
    `C13Live.fetch_completes`) are no longer assumed. -/
theorem fetch_completes_full (hr : FullReachable sys G) (env : Env) (b : Nat) (hb : 1 ≤ b)
    (acc : String) (next : List String) (total k : Nat) (pages : List String)
    (hp : sys.pending = none) (hresp : sys.st.syncing.response = some (.partial_ ⟨acc, next, total⟩ k))
    (h255 : total ≤ 255) (hlen : k + pages.length = total)
    (hs : sys.st.syncing.syncing = true) (hq : quiet env b sys.st = true)
    (hT : Trusted env (run (sys, G) (pagesM env b pages)) (.heartbeat b)) :
    ∃ m, m ≤ treeWork sys.st +
        respWork env (withSy (pagesStored sys.st.syncing acc next total k pages) sys.st) + 1 ∧
      (pagesM env b pages ++ (hbsM env b 1 ++ hbsM env b (m + 1))).length = 2 * (total - k) + m + 2 ∧
      TrustedRun (sys, G) (pagesM env b pages ++ (hbsM env b 1 ++ hbsM env b (m + 1))) ∧
      ∃ anchor rest,
        traceM (sys, G) (pagesM env b pages ++ (hbsM env b 1 ++ hbsM env b (m + 1))) =
          (List.range pages.length).map (fun i => Request.followUp (k + i)) ++ [.initial anchor rest] ∧
        (run (sys, G) (pagesM env b pages ++ (hbsM env b 1 ++ hbsM env b (m + 1)))).1.pending =
          some (.initial anchor rest) ∧
        (run (sys, G) (pagesM env b pages)).1.st.syncing.response =
          some (.complete ⟨[C13.joinPages acc pages], next⟩) ∧
        (run (sys, G) (pagesM env b pages ++ hbsM env b 1)).1.st.syncing.response = none := by
  have inv := (FullSys.fetch_invariant hr).1
  obtain ⟨htr, hrun⟩ := deliver_pages env b next total h255 pages acc k inv hp hresp (by omega) hs hq
  have t1 : TrustedRun (sys, G) (pagesM env b pages) :=
    pages_trusted env b next total h255 pages (sys, G) acc k hr hp hresp (by omega) hs hq
  have hr1 := run_reachable _ (sys, G) hr t1
  have h1 : (run (sys, G) (pagesM env b pages)).1 =
      ⟨withSy (pagesStored sys.st.syncing acc next total k pages) sys.st, none⟩ := by
    rw [run_fst_eq _ _ (pagesM_noCalls env b pages), pagesM_acts]; exact hrun
  have hst : (run (sys, G) (pagesM env b pages)).1.st =
      withSy (pagesStored sys.st.syncing acc next total k pages) sys.st := by rw [h1]
  have h3 : (run (sys, G) (pagesM env b pages)).1.st.syncing.response =
      some (.complete ⟨[C13.joinPages acc pages], next⟩) := by
    rw [hst]; simp [withSy, pagesStored, hlen]
  have hq1 : quiet env b (run (sys, G) (pagesM env b pages)).1.st = true := by
    rw [hst, quiet_withSy]; exact hq
  obtain ⟨n, m, _, _, hm, _, hh, t2, req, tr, rn, sel⟩ :=
    resume_full hr1 env b hb (by rw [h1]) (by rw [hst]; exact hs)
      (fun h => quiet_not_paused hq1 h.1)
      (fun n r0 _ hsn => by
        have := settles_quiet_zero hq1 hsn
        subst this
        exact hT)
  have hn0 : n = 0 := by
    simp only [healthy, Bool.and_eq_true] at hh
    exact settles_quiet_zero hq1 hh.1
  subst hn0
  have hres : resumeM env b 0 m (run (sys, G) (pagesM env b pages)).1 =
      hbsM env b 1 ++ hbsM env b (m + 1) := by
    unfold resumeM; rw [h3]
  rw [hres] at t2 tr rn
  unfold ResumeRequest at sel
  rw [h3] at sel
  obtain ⟨anchor, rest, rfl, _⟩ := sel
  have hm' : m ≤ treeWork sys.st +
      respWork env (withSy (pagesStored sys.st.syncing acc next total k pages) sys.st) + 1 := by
    simp only [settled] at hm
    rw [hst] at hm
    exact hm
  -- the processing heartbeat alone
  have hT' : Trusted env (run (sys, G) (pagesM env b pages)) (.heartbeat b) := hT
  obtain ⟨_, _, rn1, _, hnone, _, _⟩ :=
    process_full (env := env) (b := b) (n := 0) hr1 (by rw [h1]) hq1 h3 hT'
  refine ⟨m, hm', ?_, ?_, anchor, rest, ?_, ?_, h3, ?_⟩
  · simp only [List.length_append, pagesM_length, hbsM_length]; omega
  · rw [trustedRun_append]; exact ⟨t1, t2⟩
  · rw [traceM_append, traceM_eq _ _ (pagesM_noCalls env b pages), pagesM_acts, htr, tr]
  · rw [Btc.Lemmas.FullSys.run_append, rn]
  · rw [Btc.Lemmas.FullSys.run_append, rn1]
    exact hnone

/-! ## 4. Every complete response is applied exactly once -/

/-- the operations of a whole schedule (`msgOps` of every message, in order) -/
def opsOfRun (c : Cfg) : List (Env × Msg) → List Op
  | [] => []
  | (env, m) :: rest => msgOps env c.1.st m ++ opsOfRun (stepMsg env c m) rest

/-- only a processing heartbeat with a complete response stored pushes blocks -/
theorem push_needs_response (env : Env) (s : State) (m : Msg)
    (hn : ∀ r, s.syncing.response ≠ some (.complete r)) (blk : Block) :
    Op.push blk ∉ msgOps env s m := by
  cases m with
  | heartbeat b =>
    simp only [msgOps]
    split
    · simp
    · rw [FullSys.finishOps_idle env s hn]; simp
    · simp
  | reply r => simp [msgOps]
  | upgrade c => simp [msgOps]
  | setConfig c => simp [msgOps]
  | call c => simp [msgOps]

/-- a message other than a reply does not store a response -/
theorem response_stays_none (env : Env) (c : Cfg) (m : Msg) (hm : isReplyM m = false)
    (hn : c.1.st.syncing.response = none) : (stepMsg env c m).1.st.syncing.response = none := by
  cases m with
  | reply r => cases hm
  | heartbeat b =>
    rcases C13.heartbeat_response env c.1 b with h | h
    · exact h.trans hn
    · exact h
  | upgrade cfg => exact (upgrade_fetch c.1.st cfg).2
  | setConfig cfg => exact (setConfig_isFetching c.1.st cfg).2.trans hn
  | call cl =>
    show (stepSys env c.1 (.call cl)).st.syncing.response = none
    rw [(stepSys_call_fetch env c.1 cl).2]; exact hn

/-- **… and it is never applied again.**  Once the response is cleared (`response = none`, the
    state `response_applied_once` leaves), no message applies a block until the next reply of the
    block source arrives: along every schedule without replies — heartbeats, upgrades,
    `set_config`s, endpoint calls, in any order and number — the stored response stays `none` and
    no `push` operation is executed. -/
theorem no_reapplication : ∀ (msgs : List (Env × Msg)) (c : Cfg),
    c.1.st.syncing.response = none → (∀ em ∈ msgs, isReplyM em.2 = false) →
    (run c msgs).1.st.syncing.response = none ∧ ∀ blk, Op.push blk ∉ opsOfRun c msgs
  | [], _, hn, _ => ⟨hn, fun _ => by simp [opsOfRun]⟩
  | (env, m) :: rest, c, hn, hall => by
    have hm := hall (env, m) List.mem_cons_self
    obtain ⟨h1, h2⟩ := no_reapplication rest (stepMsg env c m) (response_stays_none env c m hm hn)
      (fun em hem => hall em (List.mem_cons_of_mem _ hem))
    refine ⟨h1, fun blk hmem => ?_⟩
    simp only [opsOfRun, List.mem_append] at hmem
    rcases hmem with hmem | hmem
    · exact push_needs_response env c.1.st m (by rw [hn]; intro r h; cases h) blk hmem
    · exact h2 blk hmem

theorem deliverM_idle (env : Env) (r : Reply) {sys : Fetch.Sys} (hp : sys.pending = none) :
    deliverM env r sys = [] ∧ afterDelivery env r sys = sys := by
  simp only [deliverM, afterDelivery, hp, and_self]

/-! ## 5. Non-vacuity: the schedule of `Props/FullSysExample.lean` -/

namespace Example
open Btc.Props.FullSys.Example

/-- `c2`: the complete response `⟨["B2"], ["H3"]⟩` is stored, nothing outstanding -/
theorem reach2 : FullReachable c2.1 c2.2 := reachable 2

theorem c2_resp : c2.1.st.syncing.response = some (.complete ⟨["B2"], ["H3"]⟩) := by decide +kernel
theorem c2_quiet : quiet m3.1 100 c2.1.st = true := by decide +kernel
theorem c2_idle : c2.1.pending = none := by decide +kernel

/-- 1. the heartbeat `m3` is effective because it is quiet (no trap is assumed away) -/
example : effective m3.1 c2.1.st 100 = true :=
  (effective_iff_quiet reach2 m3.1 100 trusted3).mpr c2_quiet

/-- 4. the response stored in `c2` is applied by `m3`: exactly `b2` is pushed (then `h3` is
    announced), the hashes of the unstable blocks become `[2] ++ [1]`, the response is cleared -/
example : ∃ s', heartbeatStart m3.1 c2.1.st 100 = .processed s' ∧ s'.syncing.response = none ∧
    (s'.unstable.tree.blocks.map CBlock.hash).Perm ([2] ++ [1]) ∧
    (msgOps m3.1 c2.1.st (.heartbeat 100)).map FullSys.Example.tag = [(0, 2), (2, 3)] := by
  obtain ⟨s', s2, h1, _, _, _, h5, _, _, _, h9, _, _⟩ :=
    response_applied_once reach2 m3.1 100 trusted3 _ c2_resp c2_quiet
  have e1 : (acceptedBlocks m3.1 { c2.1.st with syncing := { c2.1.st.syncing with response := none } }
      ["B2"]).map (·.hash) = [2] := by decide +kernel
  have e2 : c2.1.st.unstable.tree.blocks.map CBlock.hash = [1] := by decide +kernel
  rw [e1, e2] at h9
  exact ⟨s', h1, h5, h9, ops_of_schedule.2.2.1⟩

/-- … and is not applied again by the rest of the schedule up to the next reply (`m4 … m7`) -/
example : (run c3 [m4, m5, m6, m7]).1.st.syncing.response = none ∧
    ∀ blk, Op.push blk ∉ opsOfRun c3 [m4, m5, m6, m7] :=
  no_reapplication [m4, m5, m6, m7] c3 (by decide +kernel) (by decide)

/-- 3. `no_deadlock_full` in `c2` (phase "complete response stored"): the only environment
    hypothesis is `trusted3`, for the heartbeat that processes the response -/
example : ∃ n m, n ≤ treeWork c2.1.st + 1 ∧
    TrustedRun c2 (recoveryM m3.1 100 .reject n m c2.1) ∧
    ∃ req, traceM c2 (recoveryM m3.1 100 .reject n m c2.1) = [req] ∧
      (run c2 (recoveryM m3.1 100 .reject n m c2.1)).1.pending = some req := by
  obtain ⟨n, m, h1, _, _, _, _, h6, _, req, h8, h9, _⟩ :=
    no_deadlock_full reach2 m3.1 100 (by decide) .reject (by decide +kernel) (by decide +kernel)
      (by
        intro n r0 _ hs
        obtain ⟨e1, e2⟩ := deliverM_idle m3.1 .reject c2_idle
        rw [e2] at hs
        cases n with
        | zero => rw [e1]; exact trusted3
        | succ k =>
          have := settles_succ_not_quiet hs
          rw [c2_quiet] at this; cases this)
  exact ⟨n, m, h1, h6, req, h8, h9⟩

/-- the numbers: processing is immediate (`n = 0`), ingesting `gen` (stable once `b2` is there)
    takes one heartbeat (`m = 1`), then the request for the successors of `b2` goes out -/
example : healthy m3.1 100 0 1 c2.1.st = true ∧
    traceM c2 (recoveryM m3.1 100 .reject 0 1 c2.1) = [.initial 2 []] ∧
    (recoveryM m3.1 100 .reject 0 1 c2.1).length = 3 := by decide +kernel


/-! `fetch_completes_full`: the block `b2` arrives in two pages (`"B"` with the partial response,
    then `"2"`), is reassembled, processed (`push b2; insertNext h3`), `gen` is ingested, and the
    next initial request names `b2` -/

def mP : Env × Msg := (env 201, .reply (.partial_ ⟨"B", ["H3"], 1⟩))
/-- idle with 0 of 1 follow-up pages stored -/
def cQ : Cfg := run c0 [m1, mP]

theorem reachQ : FullReachable cQ.1 cQ.2 :=
  run_reachable [m1, mP] c0 reach0 ⟨trusted_no_response (by decide +kernel), trivial, trivial⟩

/-- the configuration in which the reassembled block is processed -/
def cR : Cfg := run (cQ.1, cQ.2) (pagesM (env 202) 100 ["2"])
def sR : State := { cR.1.st with syncing := { cR.1.st.syncing with response := none } }
def sRb : State := ((processBlocks (env 202) sR ["B2"]).getD (dummy, true)).1

theorem b2_domainR : PushDomain sR [] b2 :=
  { fresh := by decide +kernel
    parent := by decide +kernel
    valid := by
      intro p hp
      have e : pathBlocks sR.unstable.tree b2.prev = some [gen] := by decide +kernel
      rw [e] at hp; cases hp; decide
    unique := by
      intro p hp
      have e : pathBlocks sR.unstable.tree b2.prev = some [gen] := by decide +kernel
      rw [e] at hp; cases hp; decide
    consistent := by
      have e : sR.unstable.tree.blocks.map (·.blk) = [gen] := by decide +kernel
      rw [e]; decide }

theorem trustedR : Trusted (env 202) cR (.heartbeat 100) := by
  intro _ r hr
  have e : cR.1.st.syncing.response = some (.complete ⟨["B2"], ["H3"]⟩) := by decide +kernel
  have eG : cR.2 = [] := by decide +kernel
  rw [e] at hr
  cases hr
  rw [eG]
  refine ⟨?_, ?_⟩
  · intro b hb
    have hb' : b = b2 := by
      have : (env 202).dec.block "B2" = some b2 := by decide
      rw [this] at hb; cases hb; rfl
    subst hb'
    exact ⟨fun _ => b2_domainR, fun s' _ => by simp [TrustedBlocks]⟩
  · intro s1 hs1
    have hs1' : processBlocks (env 202) sR ["B2"] = some (s1, false) := hs1
    rw [some_of_isSome (o := processBlocks (env 202) sR ["B2"]) (dummy, true) (by decide +kernel)] at hs1'
    have e1 : s1 = sRb := (congrArg Prod.fst (Option.some.inj hs1')).symm
    rw [e1]
    have : ∀ h ∈ insertedHeaders (env 202) sRb ["H3"],
        h.hash ∉ sRb.unstable.tree.blocks.map CBlock.hash := by decide +kernel
    exact this

example := fetch_completes_full (sys := cQ.1) (G := cQ.2) reachQ (env 202) 100 (by decide)
  "B" ["H3"] 1 0 ["2"] (by decide +kernel) (by decide +kernel) (by decide) (by decide)
  (by decide +kernel) (by decide +kernel) trustedR

example : traceM cQ (pagesM (env 202) 100 ["2"] ++ (hbsM (env 202) 100 1 ++ hbsM (env 202) 100 2)) =
    [.followUp 0, .initial 2 []] := by decide +kernel

/-- `cP`: `gen` is partially ingested (paused), not stuck; ingestion settles after one heartbeat
    with budget 100 (`treeWork = 4`), and `no_deadlock_full_reject` needs no environment hypothesis -/
theorem cP_notStuck : ¬ Stuck (env 205).bound cP.1.st := by decide +kernel

example : Paused cP.1.st ∧ treeWork cP.1.st = 4 ∧ settles (env 205) 100 1 cP.1.st = true := by
  decide +kernel

example : ∃ n, n ≤ treeWork cP.1.st + 1 ∧ settles (env 205) 100 n cP.1.st = true :=
  settles_full reachP (env 205) 100 (by decide) cP_notStuck

example : ∃ n, n ≤ treeWork cP.1.st + 1 ∧
    (recoveryM (env 205) 100 .reject n 0 cP.1).length ≤ treeWork cP.1.st + 3 ∧
    TrustedRun (cP.1, cP.2) (recoveryM (env 205) 100 .reject n 0 cP.1) ∧
    ∃ req, traceM (cP.1, cP.2) (recoveryM (env 205) 100 .reject n 0 cP.1) = [req] ∧
      (run (cP.1, cP.2) (recoveryM (env 205) 100 .reject n 0 cP.1)).1.pending = some req :=
  no_deadlock_full_reject (sys := cP.1) (G := cP.2) reachP (env 205) 100 (by decide)
    (by decide +kernel) cP_notStuck
    (fun _ => by
      have : cP.1.st.syncing.response = none := by decide +kernel
      rw [this]; intro c h; cases h)

example : traceM cP (recoveryM (env 205) 100 .reject 1 0 cP.1) = [.initial 2 []] := by decide +kernel

/-- progress of one heartbeat in the paused configuration -/
example := heartbeat_progress (sys := cP.1) (G := cP.2) reachP (env 205) 100 1 (by decide +kernel)
  (trusted_of_not_quiet (c := (cP.1, cP.2)) (by decide +kernel))

/-- **Finding F13**: after `set_config(stability_threshold = 2)` in the paused configuration the
    canister is `Stuck`; the configuration is reachable, `stuck_heartbeat` applies (no heartbeat is
    effective, none sends a request, it stays stuck) and it never settles — the hypothesis
    `¬ Stuck` of `no_deadlock_full` cannot be dropped. -/
def cBad : Cfg := stepMsg (env 204) (cP.1, cP.2) (.setConfig { stabilityThreshold := some 2 })

theorem reachBad : FullReachable cBad.1 cBad.2 :=
  FullReachable.step cP.1 cP.2 (env 204) (.setConfig { stabilityThreshold := some 2 }) reachP trivial

theorem cBad_stuck : Stuck (env 205).bound cBad.1.st := by decide +kernel

example : effective (env 205) cBad.1.st 100 = false ∧
    issuedM (env 205) cBad.1 (.heartbeat 100) = none ∧
    Stuck (env 205).bound (stepMsg (env 205) (cBad.1, cBad.2) (.heartbeat 100)).1.st :=
  stuck_heartbeat (sys := cBad.1) (G := cBad.2) reachBad (env 205) 100 cBad_stuck

example (n : Nat) : settles (env 205) 100 n cBad.1.st = false :=
  stuck_never_settles (env 205) 100 n reachBad cBad_stuck

/-- the same `set_config` without a threshold keeps the configuration non-stuck -/
example : ¬ Stuck (env 204).bound
    (stepMsg (env 204) (cP.1, cP.2) (.setConfig { syncing := some true })).1.st :=
  nonStuck_step_keeps (sys := cP.1) (G := cP.2) reachP (env 204) (.setConfig { syncing := some true })
    cP_notStuck rfl

/-- a fair schedule of 12 messages (window 4): the schedule of `FullSysExample` — a paused
    ingestion, an endpoint call, a garbage response included — followed by a request, a reject
    and a new request -/
def m10 : Env × Msg := (env 209, .heartbeat 100)
def m11 : Env × Msg := (env 210, .reply .reject)
def m12 : Env × Msg := (env 211, .heartbeat 100)
def msgs12 : List (Env × Msg) := msgs ++ [m10, m11, m12]

theorem trusted12 : TrustedRun c0 msgs12 := by
  unfold msgs12
  rw [trustedRun_append]
  refine ⟨trusted, trusted_no_response (by decide +kernel), trivial,
    trusted_no_response (by decide +kernel), trivial⟩

theorem fair12 : FairM 4 c0 msgs12 := ⟨by decide +kernel, by decide +kernel⟩

example : 1 ≤ (traceM c0 msgs12).length :=
  fair_unbounded_full (by decide) 1 reach0 trusted12 fair12 (by decide)

example : traceM c0 msgs12 = [.initial 1 [], .initial 2 [], .initial 2 [], .initial 2 []] := by
  decide +kernel

/-- a schedule in which the replies stop coming is not fair -/
example : windowsM 2 c0 [m1, m5, m5, m5] = false := by decide +kernel

/-- `nonStuck_run` on the whole schedule: one depth bound, no message touches the threshold -/
example : ¬ Stuck (fun _ _ => 1000) (run c0 msgs12).1.st :=
  nonStuck_run_keeps _ msgs12 c0 reach0 trusted12 (by decide +kernel) (by
    intro em hem
    simp only [msgs12, msgs, List.cons_append, List.nil_append, List.mem_cons, List.mem_nil_iff,
      or_false] at hem
    rcases hem with rfl | rfl | rfl | rfl | rfl | rfl | rfl | rfl | rfl | rfl | rfl | rfl <;>
      exact ⟨rfl, rfl⟩)

end Example

end Btc.Props.C13Full
