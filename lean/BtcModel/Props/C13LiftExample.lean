import BtcModel.Props.C13Lift

/-!
# Examples for `Props/C13Lift.lean`

The schedule of `Props/FullSysExample.lean` (a request, a complete response, a processing
heartbeat, a paused ingestion, an endpoint call, …) and variations of it: a block offered twice,
a block in two pages with endpoint calls interleaved, ill-typed replies, a block source that
offers successors, a dropped block.
-/
namespace Btc.Props.C13Lift
open Btc Btc.State Btc.Spec Btc.Spec.Full Btc.Lemmas.Reach Btc.Lemmas.Reach2 Btc.Lemmas.Fetch
open Btc.Lemmas.FullSys Btc.Lemmas.FetchLive Btc.Lemmas.FullLive Btc.Lemmas.FullCor
open Btc.Lemmas.Lift1315 Btc.Props Btc.Props.C13Live Btc.Props.C13Full
namespace Example
open Btc.Props.FullSys.Example Btc.Props.C13Full.Example

/-! helpers for checking the environment assumption on concrete configurations -/

theorem trusted_of (env : Env) (sys : Fetch.Sys) (G : List Block) (b : Nat) (r : CompleteResp)
    (hresp : sys.st.syncing.response = some (.complete r))
    (hblocks : TrustedBlocks env G (taken sys.st) r.blocks)
    (hhdrs : ∀ s1, processBlocks env (taken sys.st) r.blocks = some (s1, false) →
      ∀ h ∈ insertedHeaders env s1 r.next, h.hash ∉ s1.unstable.tree.blocks.map CBlock.hash) :
    Trusted env (sys, G) (.heartbeat b) := by
  intro _ r' hr'
  have hr'' : sys.st.syncing.response = some (.complete r') := hr'
  rw [hresp] at hr''
  cases hr''
  exact ⟨hblocks, hhdrs⟩

theorem trustedBlocks_of_fails (env : Env) (G : List Block) (s : State) (blob : String) (b : Block)
    (rest : List String) (hd : env.dec.block blob = some b)
    (hf : passesValidation env s b = false) : TrustedBlocks env G s (blob :: rest) := by
  intro b' hb'
  rw [hd] at hb'
  cases hb'
  refine ⟨fun hp => ?_, fun s' hs' => ?_⟩
  · rw [hf] at hp; cases hp
  · have := passes_of_ok hs'
    rw [hf] at this; cases this

theorem trustedBlocks_of_garbage (env : Env) (G : List Block) (s : State) (blob : String)
    (rest : List String) (hd : env.dec.block blob = none) : TrustedBlocks env G s (blob :: rest) := by
  intro b' hb'
  rw [hd] at hb'
  cases hb'

theorem no_headers_of_stopped {env : Env} {s : State} {blobs : List String}
    (h : (processBlocks env s blobs).map (·.2) = some true) (next : List String) :
    ∀ s1, processBlocks env s blobs = some (s1, false) →
      ∀ h ∈ insertedHeaders env s1 next, h.hash ∉ s1.unstable.tree.blocks.map CBlock.hash := by
  intro s1 hs1
  rw [hs1] at h
  cases h

/-- A1: hashes are distinct in the paused configuration `cP` and in the final one -/
example : ((cP.2 ++ cP.1.st.unstable.tree.blocks.map (·.blk)).map (·.hash)).Nodup ∧ Paused cP.1.st :=
  ⟨hashes_pairwise_distinct reachP, by decide +kernel⟩
example : (cE.2 ++ cE.1.st.unstable.tree.blocks.map (·.blk)).map (·.hash) = [1, 2] := by
  decide +kernel
example : Fetch.TreeOk cE.1.st.unstable.tree := treeOk_reachable reachE

/-- A1: the heartbeat `m3` applies `b2` once: `[] ++ ([2] ++ [1])` has no repetition -/
example : ∃ acc : List Block, acc = acceptedBlocks m3.1 (taken c2.1.st) ["B2"] ∧
    (c2.2.map (·.hash) ++ (acc.map (·.hash) ++ treeHashes c2.1.st)).Nodup := by
  have h := applied_blocks_distinct reach2 m3.1 100 trusted3 _ c2_resp c2_quiet
  exact ⟨_, rfl, h⟩

/-! `b2` is offered a second time (after `gen` was ingested and `b2` became the anchor) -/

/-- the configuration after the first seven messages: the request `initial 2 []` is outstanding -/
def d7 : Cfg := run c0 (msgs.take 7)
theorem reach7 : FullReachable d7.1 d7.2 := reachable 7

def m8' : Env × Msg := (env 207, .reply (.complete ⟨["B2"], []⟩))
def d8' : Cfg := stepMsg m8'.1 (d7.1, d7.2) m8'.2
theorem reach8' : FullReachable d8'.1 d8'.2 := FullReachable.step d7.1 d7.2 m8'.1 m8'.2 reach7 trivial


theorem d8'_resp : d8'.1.st.syncing.response = some (.complete ⟨["B2"], []⟩) := by decide +kernel
theorem d8'_quiet : quiet m9.1 100 d8'.1.st = true := by decide +kernel
theorem d8'_known : b2.hash ∈ (d8'.2 ++ (taken d8'.1.st).unstable.tree.blocks.map (·.blk)).map (·.hash) := by
  decide +kernel
theorem d8'_fails : passesValidation m9.1 (taken d8'.1.st) b2 = false := by decide +kernel
theorem d8'_stops : (processBlocks m9.1 (taken d8'.1.st) (CompleteResp.mk ["B2"] []).blocks).map (·.2) =
    some true := by decide +kernel

theorem trusted9' : Trusted m9.1 (d8'.1, d8'.2) (.heartbeat 100) :=
  trusted_of m9.1 d8'.1 d8'.2 100 ⟨["B2"], []⟩ d8'_resp
    (trustedBlocks_of_fails m9.1 d8'.2 _ "B2" b2 [] (by decide) d8'_fails)
    (no_headers_of_stopped d8'_stops [])

/-- the second offer is refused, `insert_errors` moves by one, the tree is unchanged -/
example : (∃ why, insertBlock m9.1 (taken d8'.1.st) b2 = .rejected why) ∧
    ∃ s', heartbeatStart m9.1 d8'.1.st 100 = .processed s' ∧
      s'.syncing.insertErrors = d8'.1.st.syncing.insertErrors + 1 ∧
      s'.syncing.deserializeErrors = d8'.1.st.syncing.deserializeErrors ∧
      s'.unstable = (taken d8'.1.st).unstable := by
  have hd : m9.1.dec.block "B2" = some b2 := by decide
  obtain ⟨h1, _, s', h2, h3, h4, h5, _⟩ :=
    reoffered_block_rejected reach8' m9.1 100 trusted9' _ d8'_resp d8'_quiet
      [] "B2" [] rfl (taken d8'.1.st) rfl b2 hd d8'_known
  exact ⟨h1, s', h2, h3, h4, h5⟩

theorem d7_G : d7.2 = [gen] := by decide +kernel
theorem d7_T : d7.1.st.unstable.tree.blocks.map (·.blk) = [b2] := by decide +kernel
theorem d7_H : treeHashes d7.1.st = [2] := by decide +kernel

/-- … and by the code itself (`known_block_refused`): `b2` is the anchor, its parent `gen` was
    ingested -/
example : insertBlock m9.1 d7.1.st b2 = .rejected "AlreadyKnown" ∨
    insertBlock m9.1 d7.1.st b2 = .rejected "BlockDoesNotExtendTree" := by
  apply known_block_refused reach7 m9.1 b2
  · rw [d7_G, d7_T]; decide
  · rw [d7_G, d7_T]
    intro x hx hxe
    simp only [List.cons_append, List.nil_append, List.mem_cons, List.not_mem_nil, or_false] at hx
    rcases hx with rfl | rfl
    · exact absurd hxe (by decide)
    · rfl
  · intro x hx
    have : firstBlock d7.1.st d7.2 = some gen := by rw [d7_G]; rfl
    rw [this] at hx
    cases hx
    rw [d7_H]; decide


/-! A2: the schedule `msgs` (it contains the endpoint call `m5`, a paused ingestion and a garbage
    response) is well-typed -/
theorem c0_initial : c0.1.Initial := new_initial new_s0

theorem msgs_wellTyped : WellTypedM c0 msgs := (wellTypedM_iff _ _).mpr (by decide +kernel)

example : C13.Consecutive none (traceM c0 msgs) := traceM_consecutive c0_initial msgs msgs_wellTyped

example : ∃ segs, traceM c0 msgs = List.flatMap exchange segs :=
  traceM_exchanges c0_initial msgs msgs_wellTyped

/-- a block in two pages, endpoint calls interleaved everywhere -/
def paged : List (Env × Msg) :=
  [m1, m5, mP, m5, (env 202, .heartbeat 100), m5, (env 202, .heartbeat 100),
   (env 203, .reply (.followUp "2")), m5, (env 204, .heartbeat 100), (env 205, .heartbeat 100),
   (env 206, .heartbeat 100)]

example : traceM c0 paged = [.initial 1 [], .followUp 0, .initial 2 []] := by decide +kernel
example : C13.Consecutive none (traceM c0 paged) :=
  traceM_consecutive c0_initial paged ((wellTypedM_iff _ _).mpr (by decide +kernel))

theorem paged_sent : (run c0 [m1, m5]).1.pending.isSome = true := by decide +kernel
theorem paged_delivered :
    (run (run c0 ([m1, m5] ++ [(env 201, .reply (.partial_ ⟨"B", ["H3"], 1⟩))]))
      [m5, (env 202, Msg.heartbeat 100), m5, (env 202, Msg.heartbeat 100)]).1.pending.isSome = true := by
  decide +kernel
theorem c0_resp : c0.1.st.syncing.response = none := by decide +kernel

/-- `fetch_block_in_pagesM` on the first eight messages -/
example := fetch_block_in_pagesM (c := c0) (C13.inv_initial c0_initial) rfl c0_resp
    [m1, m5] (by
      intro em h
      simp only [List.mem_cons, List.not_mem_nil, or_false] at h
      rcases h with rfl | rfl <;> trivial) paged_sent (env 201) "B" ["H3"]
    [⟨[m5, (env 202, .heartbeat 100), m5, (env 202, .heartbeat 100)], env 203, "2"⟩]
    (by decide) (by decide) ⟨by
      intro em h
      simp only [List.mem_cons, List.not_mem_nil, or_false] at h
      rcases h with rfl | rfl | rfl | rfl <;> trivial, paged_delivered, trivial⟩

/-- ill-typed replies: a `followUp` page while an initial request is outstanding, then (after the
    partial response) a complete response while follow-up 0 is outstanding: both continuations
    trap, the guard is released, the same request is sent again -/
def illTyped : List (Env × Msg) :=
  [m1, (env 201, .reply (.followUp "x")), (env 202, .heartbeat 100), mP, (env 203, .heartbeat 100),
   (env 204, .reply (.complete ⟨["B2"], []⟩)), (env 205, .heartbeat 100)]

example : traceM c0 illTyped = [.initial 1 [], .initial 1 [], .followUp 0, .followUp 0] ∧
    wellTypedMB c0 illTyped = false := by decide +kernel
example : ConsecutiveW none (traceM c0 illTyped) := traceM_consecutiveW c0_initial illTyped


/-! A3 -/
theorem b2_passes : passesValidation m3.1 (taken c2.1.st) b2 = true := by decide +kernel

/-- `b2`, delivered in the response stored in `c2`, passes validation and is in the tree after `m3` -/
example : ∃ s', heartbeatStart m3.1 c2.1.st 100 = .processed s' ∧ b2.hash ∈ treeHashes s' ∧
    ∃ c ∈ s'.unstable.tree.blocks, c.blk = b2 := by
  have hd : m3.1.dec.block "B2" = some b2 := by decide
  obtain ⟨_, s', h1, _, h2, h3, _⟩ := delivered_block_applied reach2 m3.1 100 trusted3
    _ c2_resp c2_quiet [] "B2" [] rfl (taken c2.1.st) rfl b2 hd b2_passes
  exact ⟨s', h1, h2, h3⟩

/-- a block source that offers successors: it answers `initial 1 []` with `b2` -/
def src (req : Request) : Reply :=
  if req = .initial 1 [] then .complete ⟨["B2"], ["H3"]⟩ else .reject

theorem src_offers : Offers dec src := by
  intro anchor hashes r h
  unfold src at h
  split at h
  · rename_i heq
    cases heq
    cases h
    exact ⟨[b2], by decide, by decide, by decide, trivial⟩
  · cases h

theorem c2_tree : (treeHashes c2.1.st).Perm (1 :: []) := by
  have : treeHashes c2.1.st = [1] := by decide +kernel
  rw [this]

example : ∃ blocks, acceptedBlocks m3.1 (taken c2.1.st) ["B2"] = blocks ∧
    ∃ s', heartbeatStart m3.1 c2.1.st 100 = .processed s' ∧
      ∀ blk ∈ blocks, ∃ c ∈ s'.unstable.tree.blocks, c.blk = blk := by
  obtain ⟨blocks, _, h1, s', h2, _, h4⟩ := offered_valid_blocks_applied reach2 m3.1 100 trusted3
    _ c2_resp c2_quiet src src_offers 1 [] rfl c2_tree
    (by
      intro blocks hd
      have : blocks = [b2] := by
        have e : (["B2"] : List String).map m3.1.dec.block = [some b2] := by decide
        have hd' : (["B2"] : List String).map m3.1.dec.block = blocks.map some := hd
        rw [e] at hd'
        cases blocks with
        | nil => cases hd'
        | cons x xs =>
          cases xs with
          | nil =>
            simp only [List.map_cons, List.map_nil, List.cons.injEq, Option.some.injEq, and_true] at hd'
            rw [hd']
          | cons y ys => simp at hd'
      subst this
      exact ⟨headerBodyOk_of_passes b2_passes, fun _ _ => trivial⟩)
  exact ⟨blocks, h1, s', h2, h4⟩

/-- the configuration after the first eight messages: garbage followed by `"B2"` is stored -/
def d8 : Cfg := run c0 (msgs.take 8)
theorem reach8 : FullReachable d8.1 d8.2 := reachable 8
theorem d8_resp : d8.1.st.syncing.response = some (.complete ⟨["\x00garbage", "B2"], []⟩) := by
  decide +kernel
theorem d8_quiet : quiet m9.1 100 d8.1.st = true := by decide +kernel
theorem d8_new : (3 : Nat) ∉ (acceptedBlocks m9.1 (taken d8.1.st)
    (CompleteResp.mk ["\x00garbage", "B2"] []).blocks).map (·.hash) ++ treeHashes d8.1.st := by
  decide +kernel
theorem d9_resp : (stepMsg m9.1 (d8.1, d8.2) (.heartbeat 100)).1.st.syncing.response = none := by
  decide +kernel

theorem d8_stops : (processBlocks m9.1 (taken d8.1.st)
    (CompleteResp.mk ["\x00garbage", "B2"] []).blocks).map (·.2) = some true := by decide +kernel

theorem trusted9d : Trusted m9.1 (d8.1, d8.2) (.heartbeat 100) :=
  trusted_of m9.1 d8.1 d8.2 100 ⟨["\x00garbage", "B2"], []⟩ d8_resp
    (trustedBlocks_of_garbage m9.1 d8.2 _ "\x00garbage" ["B2"] (by decide))
    (no_headers_of_stopped d8_stops [])

/-- the response stored in `d8` is garbage followed by `"B2"`: whatever block is dropped with it, a
    hash that is not in the tree (here `3`) is not listed by the next request -/
example : (3 : Nat) ∉ treeHashes (stepMsg m9.1 (d8.1, d8.2) (.heartbeat 100)).1.st ∧
    ∀ a l, Request.initial a l ∈ traceM (stepMsg m9.1 (d8.1, d8.2) (.heartbeat 100)) [m10] →
      3 ∉ a :: l := by
  obtain ⟨h1, _, h3⟩ := dropped_block_offered_again reach8 m9.1 100 trusted9d
    _ d8_resp d8_quiet 3 d8_new
    [m10] ⟨trusted_no_response d9_resp, trivial⟩ (by decide)
  exact ⟨h1, h3⟩

example : traceM (stepMsg m9.1 (d8.1, d8.2) (.heartbeat 100)) [m10] = [.initial 2 []] := by
  decide +kernel

end Example
end Btc.Props.C13Lift
