import BtcModel.Props.C15Full
import BtcModel.Props.FullSysExample

/-!
# Why `NoCollision` cannot be dropped from `snapshot_is_current_chain`: a reachable stale cache

In the model the hash of a block is a free field, and the environment assumption `Trusted`
(`PushDomain.fresh`) only asks that the hash of a delivered block is new with respect to the
blocks *currently* known (ingested or in the tree).  The hash of a block of a **discarded fork**
may therefore be carried by a later block.  This file exhibits such a run of the message-level
system — every message satisfies the environment assumption:

* `gen ← X` (hash 5) is fetched, the eager heartbeat fills the fee cache under the tip hash `5`
  (snapshot `([], [gen, X])`, fee rate 100 msat/vbyte);
* fee percentiles are made lazy; the fork `gen ← Y ← Z ← V` is fetched; `gen` and `Y` become stable
  and are ingested, `X` is discarded;
* `W` with `prev = V` and **hash 5** is fetched (fresh: neither `gen, Y` nor `Z, V` carry hash 5).

Now the best chain ends in a block with hash 5, the cache is keyed by 5: `get_current_fee_percentiles`
answers from the cache — the percentiles of `X`'s fee rates (100), although `X` is not on the
current chain, whose only fee rate is 200.  The conclusion of `snapshot_is_current_chain` fails,
and so does its hypothesis `NoCollision` (`X` and `W` are different blocks with the same hash).
In the code a hash is the double SHA-256 of the header, so this is a hash collision.
-/
namespace Btc.Props.C15Full.Collision
open Btc Btc.State Btc.Spec Btc.Spec.Full Btc.Lemmas.Reach Btc.Lemmas.Reach2 Btc.Lemmas.Fetch
open Btc.Lemmas.FullSys Btc.Lemmas.FullLive Btc.Lemmas.FullCor Btc.Lemmas.Lift1315 Btc.Props
open Btc.Props.FullSys.Example (gen dummy trusted_no_response trusted_not_past)

def cb (id : Nat) (a : Nat) : Tx :=
  { txid := id, ntxid := id, coinbase := true, vsize := 100, ins := [], outs := [⟨50, some [a], false⟩] }
def bX : Block :=
  { hash := 5, prev := 1, diff := 1, time := 101, bits := 0x207fffff, header := "hX",
    txs := [cb 500 5, { txid := 501, ntxid := 501, coinbase := false, vsize := 100, ins := [⟨100, 0⟩],
                        outs := [⟨40, some [6], false⟩] }] }
def bY : Block := { hash := 2, prev := 1, diff := 1, time := 101, bits := 0x207fffff, header := "hY", txs := [cb 200 2] }
def bZ : Block := { hash := 3, prev := 2, diff := 1, time := 102, bits := 0x207fffff, header := "hZ", txs := [cb 300 3] }
def bV : Block := { hash := 4, prev := 3, diff := 1, time := 103, bits := 0x207fffff, header := "hV", txs := [cb 400 4] }
def bW : Block :=
  { hash := 5, prev := 4, diff := 1, time := 104, bits := 0x207fffff, header := "hW",
    txs := [cb 600 7, { txid := 601, ntxid := 601, coinbase := false, vsize := 100, ins := [⟨200, 0⟩],
                        outs := [⟨30, some [8], false⟩] }] }

def dec : Decoders :=
  { block := fun blob => if blob = "X" then some bX else if blob = "Y" then some bY
      else if blob = "Z" then some bZ else if blob = "V" then some bV
      else if blob = "W" then some bW else none
    header := fun _ => none }

def env (now : Nat) : Env :=
  { now := now, dec := dec, bound := fun _ _ => 1000, syncedThreshold := 2, maxHeaders := 100,
    numTransactions := 1000 }

def k1 : Env × Msg := (env 200, .heartbeat 100)
def k2 : Env × Msg := (env 201, .reply (.complete ⟨["X"], []⟩))
def k3 : Env × Msg := (env 202, .heartbeat 100)
def k4 : Env × Msg := (env 203, .setConfig { lazyFees := some true })
def k5 : Env × Msg := (env 204, .heartbeat 100)
def k6 : Env × Msg := (env 205, .reply (.complete ⟨["Y", "Z", "V"], []⟩))
def k7 : Env × Msg := (env 206, .heartbeat 100)
def k8 : Env × Msg := (env 207, .heartbeat 100)
def k9 : Env × Msg := (env 208, .heartbeat 100)
def k10 : Env × Msg := (env 209, .reply (.complete ⟨["W"], []⟩))
def k11 : Env × Msg := (env 210, .heartbeat 100)
def ks : List (Env × Msg) := [k1, k2, k3, k4, k5, k6, k7, k8, k9, k10, k11]

def s0 : State := (State.new 2 .regtest gen).getD dummy
def e0 : Cfg := ({ st := s0, pending := none }, [])


theorem new_s0 : State.new 2 .regtest gen = some s0 := by
  have h : (State.new 2 .regtest gen).isSome = true := by decide +kernel
  unfold s0
  cases hs : State.new 2 .regtest gen with
  | none => rw [hs] at h; cases h
  | some v => rfl

def e1 : Cfg := stepMsg k1.1 e0 k1.2
def e2 : Cfg := stepMsg k2.1 e1 k2.2
def e3 : Cfg := stepMsg k3.1 e2 k3.2
def e4 : Cfg := stepMsg k4.1 e3 k4.2
def e5 : Cfg := stepMsg k5.1 e4 k5.2
def e6 : Cfg := stepMsg k6.1 e5 k6.2
def e7 : Cfg := stepMsg k7.1 e6 k7.2
def e8 : Cfg := stepMsg k8.1 e7 k8.2
def e9 : Cfg := stepMsg k9.1 e8 k9.2
def e10 : Cfg := stepMsg k10.1 e9 k10.2

/-! ### generic helpers for checking the environment assumption -/

abbrev taken (s : State) : State := { s with syncing := { s.syncing with response := none } }

theorem trusted_of (env : Env) (c : Cfg) (b : Nat) (r : CompleteResp)
    (hresp : c.1.st.syncing.response = some (.complete r))
    (hblocks : TrustedBlocks env c.2 (taken c.1.st) r.blocks) (hnext : r.next = []) :
    Trusted env c (.heartbeat b) := by
  intro _ r' hr'
  rw [hresp] at hr'
  cases hr'
  refine ⟨hblocks, fun s1 _ h hh => ?_⟩
  rw [hnext] at hh
  simp [insertedHeaders, insertedHeadersAll] at hh

def okState : InsertResult → Option State
  | .ok s => some s
  | _ => none

/-- the state after accepting `b` (evaluated by the kernel in the examples) -/
def after (env : Env) (s : State) (b : Block) : State := (okState (insertBlock env s b)).getD dummy

theorem trustedBlocks_cons (env : Env) (G : List Block) (s : State) (blob : String) (b : Block)
    (rest : List String) (hd : env.dec.block blob = some b) (hdom : PushDomain s G b)
    (hrest : TrustedBlocks env G (after env s b) rest) : TrustedBlocks env G s (blob :: rest) := by
  intro b' hb'
  rw [hd] at hb'
  cases hb'
  refine ⟨fun _ => hdom, fun s' hs' => ?_⟩
  have : after env s b = s' := by unfold after; rw [hs']; rfl
  rw [← this]
  exact hrest

theorem pushDomain_of {s : State} {G : List Block} {b : Block} (p : List Block)
    (hfresh : b.hash ∉ (G ++ s.unstable.tree.blocks.map (·.blk)).map (·.hash))
    (hparent : Tree.contains CBlock.hash b.prev s.unstable.tree = true)
    (hpath : pathBlocks s.unstable.tree b.prev = some p)
    (hvalid : TxValid (G ++ p ++ [b])) (hunique : TxidsUnique (G ++ p ++ [b]))
    (hcons : TxidsConsistent (G ++ s.unstable.tree.blocks.map (·.blk) ++ [b])) :
    PushDomain s G b :=
  { fresh := hfresh
    parent := hparent
    valid := by intro q hq; rw [hpath] at hq; cases hq; exact hvalid
    unique := by intro q hq; rw [hpath] at hq; cases hq; exact hunique
    consistent := hcons }

/-! ### the three processing heartbeats -/

/-- `X` where it is delivered -/
def sX : State := taken e2.1.st
theorem e2_G : e2.2 = [] := by decide +kernel
theorem e2_resp : e2.1.st.syncing.response = some (.complete ⟨["X"], []⟩) := by decide +kernel
theorem domX : PushDomain sX [] bX :=
  pushDomain_of [gen] (by decide +kernel) (by decide +kernel) (by decide +kernel)
    (by decide +kernel) (by decide +kernel)
    (by
      have e : sX.unstable.tree.blocks.map (·.blk) = [gen] := by decide +kernel
      rw [e]; decide +kernel)

theorem trusted3 : Trusted k3.1 e2 k3.2 := by
  refine trusted_of k3.1 e2 100 ⟨["X"], []⟩ e2_resp ?_ rfl
  rw [e2_G]
  exact trustedBlocks_cons k3.1 [] sX "X" bX [] (by decide) domX trivial

/-- `Y`, `Z`, `V` where they are delivered -/
def sY : State := taken e6.1.st
def sZ : State := after k7.1 sY bY
def sV : State := after k7.1 sZ bZ
theorem e6_G : e6.2 = [] := by decide +kernel
theorem e6_resp : e6.1.st.syncing.response = some (.complete ⟨["Y", "Z", "V"], []⟩) := by decide +kernel
theorem domY : PushDomain sY [] bY :=
  pushDomain_of [gen] (by decide +kernel) (by decide +kernel) (by decide +kernel)
    (by decide +kernel) (by decide +kernel)
    (by
      have e : sY.unstable.tree.blocks.map (·.blk) = [gen, bX] := by decide +kernel
      rw [e]; decide +kernel)
theorem domZ : PushDomain sZ [] bZ :=
  pushDomain_of [gen, bY] (by decide +kernel) (by decide +kernel) (by decide +kernel)
    (by decide +kernel) (by decide +kernel)
    (by
      have e : sZ.unstable.tree.blocks.map (·.blk) = [gen, bX, bY] := by decide +kernel
      rw [e]; decide +kernel)
theorem domV : PushDomain sV [] bV :=
  pushDomain_of [gen, bY, bZ] (by decide +kernel) (by decide +kernel) (by decide +kernel)
    (by decide +kernel) (by decide +kernel)
    (by
      have e : sV.unstable.tree.blocks.map (·.blk) = [gen, bX, bY, bZ] := by decide +kernel
      rw [e]; decide +kernel)

theorem trusted7 : Trusted k7.1 e6 k7.2 := by
  refine trusted_of k7.1 e6 100 ⟨["Y", "Z", "V"], []⟩ e6_resp ?_ rfl
  rw [e6_G]
  exact trustedBlocks_cons k7.1 [] sY "Y" bY _ (by decide) domY
    (trustedBlocks_cons k7.1 [] sZ "Z" bZ _ (by decide) domZ
      (trustedBlocks_cons k7.1 [] sV "V" bV _ (by decide) domV trivial))

/-- `W` — with the hash of the discarded block `X` — where it is delivered: `gen` and `Y` have been
    ingested, the tree is `Z ← V`, nothing carries hash 5 any more -/
def sW : State := taken e10.1.st
theorem e10_G : e10.2 = [gen, bY] := by decide +kernel
theorem e10_resp : e10.1.st.syncing.response = some (.complete ⟨["W"], []⟩) := by decide +kernel
theorem domW : PushDomain sW [gen, bY] bW :=
  pushDomain_of [bZ, bV] (by decide +kernel) (by decide +kernel) (by decide +kernel)
    (by decide +kernel) (by decide +kernel)
    (by
      have e : sW.unstable.tree.blocks.map (·.blk) = [bZ, bV] := by decide +kernel
      rw [e]; decide +kernel)

theorem trusted11 : Trusted k11.1 e10 k11.2 := by
  refine trusted_of k11.1 e10 100 ⟨["W"], []⟩ e10_resp ?_ rfl
  rw [e10_G]
  exact trustedBlocks_cons k11.1 [gen, bY] sW "W" bW [] (by decide) domW trivial

/-- **the schedule satisfies the environment assumption** -/
theorem trusted : TrustedRun e0 ks := by
  refine ⟨trusted_no_response (by decide +kernel), trivial, trusted3, trivial,
    trusted_no_response (by decide +kernel), trivial, trusted7,
    trusted_not_past (by decide +kernel), trusted_no_response (by decide +kernel), trivial,
    trusted11, trivial⟩

theorem feeReach : FeeReachableM (run e0 ks).1 (run e0 ks).2 (snapsM e0 ks ++ []) :=
  run_feeReachableM ks e0 [] (FeeReachableM.init 2 .regtest gen s0 (by decide) new_s0) trusted

/-! ### the stale answer -/

/-- the final configuration: `gen, Y` ingested, best chain `Z, V, W`, cache keyed by hash 5 = the
    hash of the tip `W`; the only recorded fee computation is the one at `([], [gen, X])` -/
theorem final_shape : (run e0 ks).2 = [gen, bY] ∧ bestChain (run e0 ks).1.st = [bZ, bV, bW] ∧
    (run e0 ks).1.st.feeCache.map (·.1) = some 5 ∧ tipOf (bestChain (run e0 ks).1.st) = 5 ∧
    (snapsM e0 ks).map (fun sn => (sn.n, sn.G, sn.best)) = [(1000, [], [gen, bX])] := by
  decide +kernel

/-- **the cache is hit and the answer is stale**: `get_current_fee_percentiles` returns the
    percentiles of the snapshot `([], [gen, X])` (all 100), while the fresh answer for the current
    history `([gen, Y], [Z, V, W])` is all 200; the tips carry the same hash -/
theorem stale_answer :
    ((run e0 ks).1.st.feePercentiles 1000).map (·.2) = some (feePercentilesSpec 1000 [] [gen, bX]) ∧
    feePercentilesSpec 1000 [] [gen, bX] = List.replicate 101 100 ∧
    feePercentilesSpec 1000 (run e0 ks).2 (bestChain (run e0 ks).1.st) = List.replicate 101 200 ∧
    tipOf [gen, bX] = tipOf (bestChain (run e0 ks).1.st) := by
  decide +kernel

/-- the conclusion of `snapshot_is_current_chain` fails for the recorded snapshot … -/
theorem chains_differ : ([] : List Block) ++ [gen, bX] ≠ (run e0 ks).2 ++ bestChain (run e0 ks).1.st := by
  rw [final_shape.1, final_shape.2.1]
  decide

/-- … because its hypothesis does: `X` and `W` are different blocks with the same hash -/
theorem collision : ¬ NoCollision ([] ++ [gen, bX]) ((run e0 ks).2 ++ bestChain (run e0 ks).1.st) := by
  rw [final_shape.1, final_shape.2.1]
  intro h
  have := h bX (by simp) bW (by simp) rfl
  exact absurd this (by decide)

/-- B1 still holds, of course: the answer is the fresh answer at a recorded snapshot whose tip hash
    is the current tip hash -/
example : CacheIsSpecM (run e0 ks).1.st (snapsM e0 ks ++ []) := (feeReachableM_inv feeReach).1

end Btc.Props.C15Full.Collision
