import BtcModel.Lemmas.BlockCodec
import BtcModel.Spec.Invariant

/-!
# Block decoding, transaction ids and address derivation inside the model

`Model/BlockCodec.lean` computes from the raw consensus bytes of a block everything the harness used
to hand to the Lean driver as attributes computed by rust-bitcoin (block hash, txid, ntxid,
`is_coinbase`, `vsize`, the address text of every output, `is_op_return`). The agreement of those
functions with the crate is established by the vectors of `Model/BlockCodecTest.lean`; this file
proves structural facts about them (helper lemmas are in `Lemmas/BlockCodec.lean`):

1. `block_roundtrip`, `block_canonical`, `decodeBlockExact_iff`, `encodeBlock_injective`,
   `block_trailing_bytes_rejected`, `decoded_header_bytes`
   — `decodeBlock` accepts exactly the encodings of well-formed blocks and returns that block;
2. `opReturn_no_address`, `address_legacy_chars`, `address_witness_shape`, `address_text_kinds`,
   `witness_address_injective`
   — the shape of the address text; an `OP_RETURN` script never has an address;
3. `vsize_pos`, `vsize_bounds`, `vsize_decoded`, `vsize_legacy`, `baseSize_is_length`,
   `totalSize_is_length`, `coinbase_iff`, `coinbase_decoded`
   — sizes and the coinbase test;
4. `toModelBlock_opretNoAddr`, `toModelBlock_coinbaseNoIns`, `toModelBlock_blockWF`
   — the two script/transaction-level fields of the domain assumption `Spec.BlockWF` hold for every
   block obtained from bytes.
-/
namespace Btc.Props.BlockCodec
open Btc.TxCodec Btc.BlockCodec

/-! ## 1. Block round trip and canonicity -/

/-- `deserialize_partial(serialize(header) ++ rest) = (header, rest)`. -/
theorem header_roundtrip (h : HeaderFields) (rest : List Nat) (hw : h.WF) :
    decodeHeader (encodeHeader h ++ rest) = some (h, rest) :=
  decodeHeader_encodeHeader h rest hw

/-- `deserialize_partial(serialize(block) ++ rest) = (block, rest)` for every block value the Rust
    type can hold. -/
theorem block_roundtrip (b : RawBlock) (rest : List Nat) (hw : b.WF) :
    decodeBlock (encodeBlock b ++ rest) = some (b, rest) :=
  decodeBlock_encodeBlock b rest hw

theorem block_roundtrip_exact (b : RawBlock) (hw : b.WF) :
    decodeBlockExact (encodeBlock b) = some b := by
  have := block_roundtrip b [] hw
  rw [List.append_nil] at this
  unfold decodeBlockExact
  rw [this]

/-- Whatever the decoder accepts is the encoding of the (well-formed) block it returns, followed by
    the unread input: no two byte strings decode to the same block. -/
theorem block_canonical (bs : List Nat) (b : RawBlock) (rest : List Nat) (hb : AllBytes bs)
    (h : decodeBlock bs = some (b, rest)) : bs = encodeBlock b ++ rest ∧ b.WF :=
  decodeBlock_some hb h

theorem decodeBlockExact_eq_some {bs : List Nat} {b : RawBlock} :
    decodeBlockExact bs = some b ↔ decodeBlock bs = some (b, []) := by
  unfold decodeBlockExact
  constructor
  · intro h
    split at h
    · rename_i b' heq
      rw [heq, Option.some.inj h]
    · simp at h
  · intro h
    rw [h]

/-- `deserialize::<Block>` accepts `bs` as `b` iff `bs` is the serialisation of the well-formed `b`. -/
theorem decodeBlockExact_iff (bs : List Nat) (hb : AllBytes bs) (b : RawBlock) :
    decodeBlockExact bs = some b ↔ b.WF ∧ bs = encodeBlock b := by
  rw [decodeBlockExact_eq_some]
  constructor
  · intro h
    have := block_canonical bs b [] hb h
    rw [List.append_nil] at this
    exact ⟨this.2, this.1⟩
  · rintro ⟨hw, rfl⟩
    have := block_roundtrip b [] hw
    rwa [List.append_nil] at this

theorem encodeBlock_injective (b b' : RawBlock) (h : b.WF) (h' : b'.WF)
    (he : encodeBlock b = encodeBlock b') : b = b' := by
  have h1 := block_roundtrip_exact b h
  have h2 := block_roundtrip_exact b' h'
  rw [he, h2] at h1
  exact (Option.some.inj h1).symm

theorem block_trailing_bytes_rejected (b : RawBlock) (hw : b.WF) (r : List Nat) (hr : r ≠ []) :
    decodeBlockExact (encodeBlock b ++ r) = none := by
  have := block_roundtrip b r hw
  unfold decodeBlockExact
  rw [this]
  cases r with
  | nil => exact absurd rfl hr
  | cons _ _ => rfl

/-- The first 80 bytes of an accepted input are the header encoding the model hashes: the block hash
    of `toModelBlock` is the SHA256d of the first 80 input bytes. -/
theorem decoded_header_bytes (bs : List Nat) (b : RawBlock) (rest : List Nat) (hb : AllBytes bs)
    (h : decodeBlock bs = some (b, rest)) (net : Tree.Net) (diffOf : HeaderFields → Nat) :
    bs.take 80 = encodeHeader b.header ∧
      (toModelBlock net diffOf b).hash = headerHash (bs.take 80) := by
  obtain ⟨rfl, hw⟩ := block_canonical bs b rest hb h
  have hl := encodeHeader_length b.header hw.1
  have : (encodeBlock b ++ rest).take 80 = encodeHeader b.header := by
    rw [encodeBlock, List.append_assoc, List.take_append_of_le_length (by omega), ← hl,
      List.take_length]
  rw [this]
  exact ⟨rfl, rfl⟩

/-! ## 2. Address text -/

/-- An `OP_RETURN` script has no address (`Address::from_script` fails): the model-level reason for
    the domain fact `Spec.BlockWF.opretNoAddr`. -/
theorem opReturn_no_address (net : Tree.Net) (s : List Nat) (h : isOpReturn s = true) :
    addressOf net s = none :=
  addressOf_opReturn net s h

/-- P2PKH / P2SH address texts consist of base58 characters only. -/
theorem address_legacy_chars (net : Tree.Net) (s a : List Nat) (h : addressOf net s = some a)
    (hk : isP2pkh s = true ∨ isP2sh s = true) : ∀ c ∈ a, c ∈ b58Alphabet := by
  rcases addressOf_cases net s a h with ⟨_, rfl⟩ | ⟨_, _, rfl⟩ | ⟨h1, h2, _⟩
  · exact base58Encode_chars _
  · exact base58Encode_chars _
  · rcases hk with hk | hk
    · rw [h1] at hk; cases hk
    · rw [h2] at hk; cases hk

/-- Every other address text is `hrp '1' data` with the network's human-readable part and `data` over
    the bech32 character set; its first data character is the witness version (≤ 16). -/
theorem address_witness_shape (net : Tree.Net) (s a : List Nat) (h : addressOf net s = some a)
    (h1 : isP2pkh s = false) (h2 : isP2sh s = false) :
    ∃ v rest, witnessVersion s = some v ∧ v ≤ 16 ∧
      a = hrpOf net ++ 49 :: bech32Charset.getD v 0 :: rest ∧
      (∀ c ∈ rest, c ∈ bech32Charset) ∧
      rest.length = (8 * (s.length - 2) + 4) / 5 + 6 := by
  rcases addressOf_cases net s a h with ⟨h1', _⟩ | ⟨_, h2', _⟩ | ⟨_, _, v, hv, _, rfl⟩
  · rw [h1] at h1'; cases h1'
  · rw [h2] at h2'; cases h2'
  · have hle := witnessVersion_le hv
    obtain ⟨rest, he, hc, _⟩ := segwitEncode_shape (hrpOf net) v (s.drop 2) (by omega)
    refine ⟨v, ((bytesToFes (s.drop 2)) ++ bech32Checksum (if v = 0 then 1 else 0x2bc830a3)
      (hrpOf net) (v :: bytesToFes (s.drop 2))).map (fun d => bech32Charset.getD d 0),
      hv, hle, rfl, ?_, ?_⟩
    · intro c hc'
      have he' : rest = ((v :: bytesToFes (s.drop 2)) ++
          bech32Checksum (if v = 0 then 1 else 0x2bc830a3) (hrpOf net)
            (v :: bytesToFes (s.drop 2))).map (fun d => bech32Charset.getD d 0) :=
        (List.cons.inj (List.append_cancel_left he)).2.symm
      apply hc
      rw [he', List.cons_append, List.map_cons]
      exact List.mem_cons_of_mem _ hc'
    · rw [List.length_map, List.length_append, bytesToFes_length, bech32Checksum_length,
        List.length_drop]

/-- The two kinds of address text. -/
theorem address_text_kinds (net : Tree.Net) (s a : List Nat) (h : addressOf net s = some a) :
    (∀ c ∈ a, c ∈ b58Alphabet) ∨
      (∃ rest, a = hrpOf net ++ 49 :: rest ∧ ∀ c ∈ rest, c ∈ bech32Charset) := by
  cases h1 : isP2pkh s
  · cases h2 : isP2sh s
    · right
      obtain ⟨v, rest, hv, hle, rfl, hc, _⟩ := address_witness_shape net s a h h1 h2
      refine ⟨_, rfl, ?_⟩
      intro c hc'
      rcases List.mem_cons.1 hc' with rfl | hc'
      · exact getD_mem_of_lt _ _ (by rw [show bech32Charset.length = 32 from rfl]; omega)
      · exact hc c hc'
    · left; exact address_legacy_chars net s a h (Or.inr h2)
  · left; exact address_legacy_chars net s a h (Or.inl h1)

/-- A witness-program script is determined by its version and program. -/
theorem witness_script_eq {s : List Nat} {v : Nat} (h : witnessVersion s = some v) :
    s = (if v = 0 then 0 else v + 0x50) :: (s.length - 2) :: s.drop 2 := by
  match s, h with
  | [], h => simp [witnessVersion] at h
  | [_], h => simp [witnessVersion] at h
  | a :: b :: rest, h =>
    simp only [witnessVersion, List.getD_cons_zero, List.getD_cons_succ, List.length_cons] at h
    split at h
    · simp at h
    · split at h
      · simp at h
      · split at h
        · simp at h
        · rename_i hpush
          simp only [Decidable.not_not] at hpush
          simp only [List.drop_succ_cons, List.drop_zero, List.length_cons, List.cons.injEq,
            and_true]
          refine ⟨?_, hpush.symm⟩
          unfold witnessVersionOfOpcode at h
          split at h
          · rename_i h0
            simp only [Option.some.injEq] at h
            subst h
            simp [h0]
          · split at h
            · simp only [Option.some.injEq] at h
              subst h
              rw [if_neg (by omega)]
              omega
            · simp at h

/-- Two witness-program scripts with the same address text (on the same network) are the same
    script: the bech32 data part is injective in (version, program). -/
theorem witness_address_injective (net : Tree.Net) (s s' a : List Nat)
    (hs : AllBytes s) (hs' : AllBytes s')
    (h : addressOf net s = some a) (h' : addressOf net s' = some a)
    (h1 : isP2pkh s = false) (h2 : isP2sh s = false)
    (h1' : isP2pkh s' = false) (h2' : isP2sh s' = false) : s = s' := by
  rcases addressOf_cases net s a h with ⟨c, _⟩ | ⟨_, c, _⟩ | ⟨_, _, v, hv, _, ha⟩
  · rw [h1] at c; cases c
  · rw [h2] at c; cases c
  rcases addressOf_cases net s' a h' with ⟨c, _⟩ | ⟨_, c, _⟩ | ⟨_, _, v', hv', _, ha'⟩
  · rw [h1'] at c; cases c
  · rw [h2'] at c; cases c
  have hd : AllBytes (s.drop 2) := fun b hb => hs b (List.mem_of_mem_drop hb)
  have hd' : AllBytes (s'.drop 2) := fun b hb => hs' b (List.mem_of_mem_drop hb)
  have hle := witnessVersion_le hv
  have hle' := witnessVersion_le hv'
  obtain ⟨rfl, hp⟩ := segwitEncode_inj (hrpOf net) v v' (s.drop 2) (s'.drop 2) (by omega)
    (by omega) hd hd' (ha.symm.trans ha')
  have e := witness_script_eq hv
  have e' := witness_script_eq hv'
  have hl : s.length - 2 = s'.length - 2 := by
    have := congrArg List.length hp
    simpa [List.length_drop] using this
  rw [e, e', hp, hl]

/-! ## 3. Sizes and the coinbase test -/

/-- `vsize` is positive (indeed at least 10) for every transaction value. -/
theorem vsize_pos (t : TxCodec.Tx) : 0 < vsizeOf t ∧ 10 ≤ vsizeOf t := by
  have := ten_le_baseSize t
  have := (vsize_bounds t).1
  omega

/-- `base_size ≤ vsize ≤ total_size`. -/
theorem vsize_bounds (t : TxCodec.Tx) : baseSize t ≤ vsizeOf t ∧ vsizeOf t ≤ totalSize t :=
  Btc.BlockCodec.vsize_bounds t

/-- `base_size` / `total_size` (computed by formulas in the crate) are the lengths of the
    serialisation without / with witness data. -/
theorem baseSize_is_length (t : TxCodec.Tx) (h : t.WF) :
    baseSize t = (encodeTxNoWitness t).length :=
  baseSize_eq_length t (fun i hi => (h.2.2.2.2.1 i hi).1)

theorem totalSize_is_length (t : TxCodec.Tx) (h : t.WF) : totalSize t = (encodeTx t).length :=
  totalSize_eq_length t (fun i hi => (h.2.2.2.2.1 i hi).1)

/-- For a decoded transaction the virtual size is positive and at most the number of bytes read. -/
theorem vsize_decoded (bs : List Nat) (t : TxCodec.Tx) (rest : List Nat) (hb : AllBytes bs)
    (h : decodeTx bs = some (t, rest)) :
    0 < vsizeOf t ∧ vsizeOf t + rest.length ≤ bs.length := by
  obtain ⟨rfl, hw⟩ := decodeTx_some hb h
  have h1 := (vsize_pos t).1
  have h2 := (vsize_bounds t).2
  rw [totalSize_is_length t hw] at h2
  rw [List.length_append]
  omega

/-- Without segwit data the virtual size is the serialised size. -/
theorem vsize_legacy (t : TxCodec.Tx) (h : usesSegwit t = false) : vsizeOf t = totalSize t := by
  have hb : baseSize t = totalSize t := by
    unfold baseSize totalSize totalSizeWith
    rw [h, sum_map_add]
    simp only [Bool.false_eq_true, if_false, sum_map_zero]
    omega
  unfold vsizeOf weightOf
  omega

/-- `is_coinbase`: exactly one input, and it is the null outpoint (all-zero txid, `vout = u32::MAX`). -/
theorem coinbase_iff (t : TxCodec.Tx) :
    isCoinbase t = true ↔
      ∃ i, t.inputs = [i] ∧ i.prevTxid = List.replicate i.prevTxid.length 0 ∧
        i.vout = 4294967295 := by
  rw [isCoinbase_iff]
  constructor
  · rintro ⟨i, hi, hn⟩; exact ⟨i, hi, (isNullOutPoint_iff i).1 hn⟩
  · rintro ⟨i, hi, hn⟩; exact ⟨i, hi, (isNullOutPoint_iff i).2 hn⟩

theorem coinbase_decoded (bs : List Nat) (t : TxCodec.Tx) (rest : List Nat) (hb : AllBytes bs)
    (h : decodeTx bs = some (t, rest)) (hc : isCoinbase t = true) :
    ∃ i, t.inputs = [i] ∧ i.prevTxid = List.replicate 32 0 ∧ i.vout = 4294967295 := by
  obtain ⟨i, hi, hz, hv⟩ := (coinbase_iff t).1 hc
  obtain ⟨_, hw⟩ := decodeTx_some hb h
  have : i.prevTxid.length = 32 := (hw.2.2.2.2.1 i (by rw [hi]; exact List.mem_cons_self)).1
  rw [this] at hz
  exact ⟨i, hi, hz, hv⟩

/-! ## 4. The domain facts of `Spec.BlockWF` for blocks obtained from bytes -/

theorem toModelTx_opretNoAddr (net : Tree.Net) (t : TxCodec.Tx) :
    ∀ o ∈ (toModelTx net t).outs, o.opret = true → o.addr = none := by
  intro o ho hop
  simp only [toModelTx, List.mem_map] at ho
  obtain ⟨x, _, rfl⟩ := ho
  exact addressOf_opReturn net x.script hop

theorem toModelTx_coinbaseNoIns (net : Tree.Net) (t : TxCodec.Tx)
    (h : (toModelTx net t).coinbase = true) : (toModelTx net t).ins = [] := by
  have h' : isCoinbase t = true := h
  obtain ⟨i, hi, hn⟩ := (isCoinbase_iff t).1 h'
  simp [toModelTx, hi, hn]

theorem toModelBlock_opretNoAddr (net : Tree.Net) (diffOf : HeaderFields → Nat) (raw : RawBlock) :
    ∀ tx ∈ (toModelBlock net diffOf raw).txs, ∀ o ∈ tx.outs, o.opret = true → o.addr = none := by
  intro tx htx
  simp only [toModelBlock, List.mem_map] at htx
  obtain ⟨t, _, rfl⟩ := htx
  exact toModelTx_opretNoAddr net t

theorem toModelBlock_coinbaseNoIns (net : Tree.Net) (diffOf : HeaderFields → Nat) (raw : RawBlock) :
    ∀ tx ∈ (toModelBlock net diffOf raw).txs, tx.coinbase = true → tx.ins = [] := by
  intro tx htx
  simp only [toModelBlock, List.mem_map] at htx
  obtain ⟨t, _, rfl⟩ := htx
  exact toModelTx_coinbaseNoIns net t

/-- A block obtained from bytes satisfies `Spec.BlockWF` as soon as its transaction ids are pairwise
    distinct (the only field that is a property of the data rather than of the derivation). -/
theorem toModelBlock_blockWF (net : Tree.Net) (diffOf : HeaderFields → Nat) (raw : RawBlock)
    (h : ((toModelBlock net diffOf raw).txs.map (·.txid)).Nodup) :
    Btc.Spec.BlockWF (toModelBlock net diffOf raw) :=
  ⟨toModelBlock_opretNoAddr net diffOf raw, toModelBlock_coinbaseNoIns net diffOf raw, h⟩

/-! ## 5. Concrete instances (the hypotheses above are satisfiable) -/

/-- a legacy transaction spending one output to a P2PKH script -/
def txEx : TxCodec.Tx :=
  ⟨2, [⟨List.replicate 32 7, 1, [1, 2, 3], 0xFFFFFFFF, []⟩],
    [⟨5000, [0x76, 0xa9, 0x14] ++ List.replicate 20 9 ++ [0x88, 0xac]⟩, ⟨0, [0x6a, 1, 2]⟩], 0⟩

/-- a segwit coinbase paying to a P2WPKH script -/
def cbEx : TxCodec.Tx :=
  ⟨2, [⟨List.replicate 32 0, 0xFFFFFFFF, [1, 101], 0xFFFFFFFF, [List.replicate 32 0]⟩],
    [⟨5000000000, [0x00, 0x14] ++ List.replicate 20 9⟩], 0⟩

def hdrEx : HeaderFields := ⟨0x20000000, List.replicate 32 1, List.replicate 32 2, 1700000000,
  0x207fffff, 7⟩

def blockEx : RawBlock := ⟨hdrEx, [cbEx, txEx]⟩

example : blockEx.WF := by decide
set_option maxRecDepth 8000 in
example : AllBytes (encodeBlock blockEx) := by decide
set_option maxRecDepth 8000 in
example : (encodeBlock blockEx).length = 301 := by decide
set_option maxRecDepth 8000 in
example : decodeBlockExact (encodeBlock blockEx) = some blockEx := by decide
set_option maxRecDepth 8000 in
example : decodeBlockExact (encodeBlock blockEx ++ [0]) = none := by decide
example : isCoinbase cbEx = true ∧ isCoinbase txEx = false := by decide
example : vsizeOf txEx = 100 ∧ totalSize txEx = 100 ∧ usesSegwit txEx = false := by decide
example : baseSize cbEx = 84 ∧ totalSize cbEx = 120 ∧ vsizeOf cbEx = 93 := by decide
example : isOpReturn [0x6a, 1, 2] = true := by decide
example : isP2pkh ([0x76, 0xa9, 0x14] ++ List.replicate 20 9 ++ [0x88, 0xac]) = true := by decide
example : ∃ a, addressOf .mainnet ([0x76, 0xa9, 0x14] ++ List.replicate 20 9 ++ [0x88, 0xac]) =
    some a := ⟨_, rfl⟩
example : ∃ a, addressOf .testnet ([0xa9, 0x14] ++ List.replicate 20 9 ++ [0x87]) = some a :=
  ⟨_, rfl⟩
example : ∃ a, addressOf .regtest ([0x00, 0x14] ++ List.replicate 20 9) = some a ∧
    isP2pkh ([0x00, 0x14] ++ List.replicate 20 9) = false ∧
    isP2sh ([0x00, 0x14] ++ List.replicate 20 9) = false := ⟨_, rfl, rfl, rfl⟩
example : witnessVersion ([0x51, 0x20] ++ List.replicate 32 9) = some 1 := by decide
/-- the hypothesis of `toModelBlock_blockWF` for a block with only a coinbase (for two or more
    transactions it amounts to evaluating SHA256d, which `BlockCodecTest.lean` does with `#guard`) -/
example : ((toModelBlock .regtest (fun _ => 1) ⟨hdrEx, [cbEx]⟩).txs.map (·.txid)).Nodup := by
  simp [toModelBlock]
/-- a version-0 witness program of 21 bytes is a witness program without an address -/
example : witnessVersion ([0x00, 0x15] ++ List.replicate 21 9) = some 0 ∧
    addressOf .mainnet ([0x00, 0x15] ++ List.replicate 21 9) = none := by decide

/-- The heartbeat's decoding of a response blob: a serialised block followed by ANY bytes decodes to
    that block (trailing bytes are ignored), and whatever decodes is a serialisation followed by the
    ignored rest. -/
theorem prefix_decode_roundtrip (net : Tree.Net) (diffOf : HeaderFields → Nat) (b : RawBlock) (rest : List Nat)
    (h : b.WF) :
    blockOfBytesPrefix net diffOf (encodeBlock b ++ rest) = some (toModelBlock net diffOf b) := by
  simp [blockOfBytesPrefix, block_roundtrip b rest h]

theorem prefix_decode_canonical (net : Tree.Net) (diffOf : HeaderFields → Nat) (bs : List Nat) (m : Btc.Block)
    (hb : TxCodec.AllBytes bs) (h : blockOfBytesPrefix net diffOf bs = some m) :
    ∃ b rest, b.WF ∧ bs = encodeBlock b ++ rest ∧ m = toModelBlock net diffOf b := by
  unfold blockOfBytesPrefix at h
  cases hd : decodeBlock bs with
  | none => simp [hd] at h
  | some p =>
    obtain ⟨b, rest⟩ := p
    simp [hd] at h
    obtain ⟨h1, h2⟩ := block_canonical bs b rest hb hd
    exact ⟨b, rest, h2, h1, h.symm⟩

end Btc.Props.BlockCodec
