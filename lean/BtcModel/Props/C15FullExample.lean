import BtcModel.Props.C15Full
import BtcModel.Props.FullSysExample

/-!
# Examples for `Props/C15Full.lean`: the schedule of `Props/FullSysExample.lean`

Along the schedule `msgs` fee percentiles are computed three times: by the eager heartbeat `m3`
(history `([], [gen, b2])`), by the endpoint call `m5` while `gen` is partially ingested (same
history: the block being ingested is still the anchor), and by the eager heartbeat `m9` (history
`([gen], [b2])`: `gen` has moved to the stable part).  The cache is filled by `m3` under the tip
`b2` and never replaced: the final configuration answers with the percentiles of the snapshot
`([], [gen, b2])`, which is the current full chain `[gen] ++ [b2]` — the situation of
`snapshot_is_current_chain`.
-/
namespace Btc.Props.C15Full.Example
open Btc Btc.State Btc.Spec Btc.Spec.Full Btc.Lemmas.Reach Btc.Lemmas.Reach2 Btc.Lemmas.Fetch
open Btc.Lemmas.FullSys Btc.Lemmas.FullLive Btc.Lemmas.FullCor Btc.Lemmas.Lift1315 Btc.Props
open Btc.Props.FullSys.Example

theorem feeReach0 : FeeReachableM c0.1 c0.2 [] := FeeReachableM.init 1 .regtest gen s0 (by decide) new_s0

/-- the final configuration with its ghost list of fee computations -/
theorem feeReachE : FeeReachableM (run c0 msgs).1 (run c0 msgs).2 (snapsM c0 msgs ++ []) :=
  run_feeReachableM msgs c0 [] feeReach0 trusted

/-- what was recorded (most recent first): `(n, hashes of G, hashes of best)` -/
def view (sn : Snap) : Nat × List Nat × List Nat := (sn.n, sn.G.map (·.hash), sn.best.map (·.hash))

theorem snaps_view : (snapsM c0 msgs).map view =
    [(1000, [1], [2]), (1000, [], [1, 2]), (1000, [], [1, 2])] := by decide +kernel

theorem snaps_eq : snapsM c0 msgs =
    [⟨1000, [gen], [b2]⟩, ⟨1000, [], [gen, b2]⟩, ⟨1000, [], [gen, b2]⟩] := by
  have h : (snapsM c0 msgs).map (fun sn => (sn.n, sn.G, sn.best)) =
      [(1000, [gen], [b2]), (1000, [], [gen, b2]), (1000, [], [gen, b2])] := by decide +kernel
  have inj : ∀ (l : List Snap) (l' : List (Nat × List Block × List Block)),
      l.map (fun sn => (sn.n, sn.G, sn.best)) = l' → l = l'.map (fun x => ⟨x.1, x.2.1, x.2.2⟩) := by
    intro l l' e
    subst e
    induction l with
    | nil => rfl
    | cons x xs ih => simp only [List.map_cons, ← ih]
  exact inj _ _ h

/-- the only fee rate of the history: transaction 201 of `b2` pays 10 satoshi for 100 vbytes -/
example : recentFeeRates 1000 [] [gen, b2] = [100] ∧ recentFeeRates 1000 [gen] [b2] = [100] ∧
    feePercentilesSpec 1000 [] [gen, b2] = List.replicate 101 100 := by decide

theorem cE_shape : (run c0 msgs).2 = [gen] ∧ bestChain (run c0 msgs).1.st = [b2] ∧
    (run c0 msgs).1.st.feeCache.map (·.1) = some 2 ∧ tipOf (bestChain (run c0 msgs).1.st) = 2 := by
  decide +kernel

/-- B1 on the final configuration: `CacheIsSpecM` and the recorded snapshots -/
example : CacheIsSpecM (run c0 msgs).1.st (snapsM c0 msgs ++ []) := (feeReachableM_inv feeReachE).1

/-- B1: a call in the final configuration (attached cycles 0, fees 0) is answered, with 101
    entries, from the cache -/
def req : DataReq := { reqNet := .regtest, available := 0, instructions := 0 }

theorem call_answered : ∃ p acc s', callFeePercentiles (env 300) (run c0 msgs).1.st req = .answered p acc s' := by
  rcases callFeePercentiles_never_panics (run_reachable msgs c0 reach0 trusted) (env 300) req with
    ⟨t, ht, _⟩ | h
  · exfalso
    have : (match callFeePercentiles (env 300) (run c0 msgs).1.st req with
      | .trap _ => true | _ => false) = false := by decide +kernel
    rw [ht] at this
    cases this
  · exact h

example : ∃ p acc s', callFeePercentiles (env 300) (run c0 msgs).1.st req = .answered p acc s' ∧
    (p.length = 0 ∨ p.length = 101) ∧ p.Pairwise (· ≤ ·) := by
  obtain ⟨p, acc, s', h⟩ := call_answered
  obtain ⟨h1, h2, _⟩ := callFeePercentiles_answer feeReachE (env 300) req p acc s' h
  exact ⟨p, acc, s', h, h1, h2⟩

/-- B2: no two different blocks of the recorded chains and the current chain share a hash … -/
theorem noCollision : ∀ sn ∈ snapsM c0 msgs ++ [],
    NoCollision (sn.G ++ sn.best) ((run c0 msgs).2 ++ bestChain (run c0 msgs).1.st) := by
  rw [cE_shape.1, cE_shape.2.1, List.append_nil, snaps_eq]
  intro sn hsn
  simp only [List.mem_cons, List.not_mem_nil, or_false] at hsn
  rcases hsn with rfl | rfl | rfl <;> (unfold NoCollision; decide)

/-- … hence the snapshot `([], [gen, b2])` under which the cache was filled is the current chain
    `[gen] ++ [b2]`: `gen` moved from the unstable to the stable part -/
example : ([] : List Block) ++ [gen, b2] = (run c0 msgs).2 ++ bestChain (run c0 msgs).1.st ∧
    ∃ moved, (run c0 msgs).2 = [] ++ moved ∧ [gen, b2] = moved ++ bestChain (run c0 msgs).1.st := by
  have hmem : (⟨1000, [], [gen, b2]⟩ : Snap) ∈ snapsM c0 msgs ++ [] := by
    rw [List.append_nil, snaps_eq]; simp
  obtain ⟨h1, h2, _⟩ := snapshot_is_current_chain feeReachE ⟨1000, [], [gen, b2]⟩ hmem
    (noCollision _ hmem) (by rw [cE_shape.2.2.2]; decide)
  exact ⟨h1, h2⟩

/-- B2, headline: the cache is keyed by the current tip; the answer is the vector of percentiles
    of the most recent fee rates of the last `k` blocks of the CURRENT full chain -/
example : ∃ p, (run c0 msgs).1.st.feeCache = some (tipOf (bestChain (run c0 msgs).1.st), p) ∧
    (∀ n, ((run c0 msgs).1.st.feePercentiles n).map (·.2) = some p) ∧
    ∃ n k, p = percentiles (ratesOfLast n k ((run c0 msgs).2 ++ bestChain (run c0 msgs).1.st)) ∧
      (bestChain (run c0 msgs).1.st).length ≤ k := by
  have hc : ∃ p, (run c0 msgs).1.st.feeCache = some (tipOf (bestChain (run c0 msgs).1.st), p) := by
    have h1 := cE_shape.2.2.1
    have h2 := cE_shape.2.2.2
    cases hfc : (run c0 msgs).1.st.feeCache with
    | none => rw [hfc] at h1; cases h1
    | some v =>
      rw [hfc] at h1
      simp only [Option.map_some, Option.some.injEq] at h1
      exact ⟨v.2, by rw [h2, ← h1]⟩
  obtain ⟨p, hp⟩ := hc
  obtain ⟨h1, n, k, h2, h3, _⟩ := cache_hit_current_history feeReachE p hp noCollision
  exact ⟨p, hp, h1, n, k, h2, h3⟩

example : ratesOfLast 1000 2 [gen, b2] = [100] ∧ ratesOfLast 1000 1 [gen, b2] = [100] := by decide

/-! B3: the eager heartbeat `m3` fills the cache with the specified percentiles under the tip `b2` -/

theorem c2_eager : c2.1.st.lazyFees = false := by decide +kernel
theorem c2_processed : (match heartbeatStart m3.1 c2.1.st 100 with | .processed _ => true | _ => false) = true := by
  decide +kernel

example : ∃ s', heartbeatStart m3.1 c2.1.st 100 = .processed s' ∧
    (s'.feeCache = some (tipOf (bestChain s'), feePercentilesSpec 1000 [] (bestChain s')) ∨
      s'.feeCache = c2.1.st.feeCache) := by
  cases hh : heartbeatStart m3.1 c2.1.st 100 with
  | processed s' =>
    refine ⟨s', rfl, ?_⟩
    have hG : c2.2 = [] := by decide +kernel
    obtain ⟨_, h2⟩ := eager_heartbeat_cache Btc.Props.C13Full.Example.reach2 m3.1 100 trusted3 s' hh c2_eager
    rw [hG] at h2
    rcases h2 with h2 | ⟨h2, _⟩
    · exact Or.inl h2
    · exact Or.inr h2
  | trap => have := c2_processed; rw [hh] at this; cases this
  | ingested a b => have := c2_processed; rw [hh] at this; cases this
  | awaiting a b => have := c2_processed; rw [hh] at this; cases this

/-- the same heartbeat after `set_config(lazily_evaluate_fee_percentiles = true)` leaves the cache
    empty -/
def mLazy : Env × Msg := (env 201, .setConfig { lazyFees := some true })
def cL : Cfg := stepMsg mLazy.1 (c2.1, c2.2) mLazy.2

example : (stepMsg m3.1 cL m3.2).1.st.feeCache = none ∧ (stepMsg m3.1 c2 m3.2).1.st.feeCache.isSome = true ∧
    feeSnap m3.1 cL m3.2 = none := by
  decide +kernel

end Btc.Props.C15Full.Example
